(* Handing a shared ctypes object on from process to process (C15, "a write made in a child process
   is visible in the parent and vice versa" -- for every start method that carries the object by
   pickling, and for any number of hand-overs).  Executable, no proofs in here.

   A process = its own heap and memory (Model/SharedMem.smstate: the arenas it created) and its own
   ForkingPickler registry: the set of ctypes types for which `reduce_ctype` is registered in THAT
   interpreter.  A process started in the style of spawn is a fresh interpreter: empty registry.

   A handle = a ctypes object living in some process.  It is either backed by a block of the arena
   of the process that allocated it (HShared owner (block, size)) or it is a private by-value copy
   (HPrivate bytes) -- what ctypes' own pickling gives when no reducer is registered for its type.

   Sending a handle to a process = ForkingPickler.dumps in the holder, pickle.loads in the receiver:
     * reducer registered for type(obj) in the holder: reduce_ctype sends
       (obj._type_, obj._wrapper, obj._length_) for an array and (type(obj), obj._wrapper, None)
       otherwise; the receiver runs rebuild_ctype over the same (block, size);
     * not registered: ctypes' __reduce__ -- a by-value copy; for an array type (`c_int_Array_3`
       is not importable by name) pickling raises.
   rebuild_ctype and _new_value are interpreters over effect sequences regenerated from
   sharedctypes.py (Gen/G_sharedmem.v), so WHERE the registration happens is read from the code. *)
From Coq Require Import ZArith List Bool.
From BV Require Import Lib.PyVal Lib.Cases Model.Heap Model.SharedMem.
Import ListNotations.
Open Scope Z_scope.

(* a ctypes type: a base type (simple type or structure) and, for the array type `base * n`, n *)
Definition cty := (Z * option Z)%type.
Definition cty_eqb (a b : cty) : bool := (fst a =? fst b) && opt_eqb Z.eqb (snd a) (snd b).
Definition cty_mem (t : cty) (l : list cty) : bool := existsb (cty_eqb t) l.

(* rebuild_ctype(type_, wrapper, length) *)
Inductive reffect :=
| RArrayType    (* if length is not None: type_ = type_ * length *)
| RRegister     (* ForkingPickler.register(type_, reduce_ctype) *)
| RAttach.      (* buf = wrapper.create_memoryview(); obj = type_.from_buffer(buf);
                   obj._wrapper = wrapper; return obj *)
Definition rebuild_prog : list reffect := [RArrayType; RRegister; RAttach].

(* _new_value(type_) *)
Inductive neffect :=
| NAlloc        (* size = ctypes.sizeof(type_); wrapper = heap.BufferWrapper(size) *)
| NRegister     (* ForkingPickler.register(type_, reduce_ctype) *)
| NRebuild.     (* return rebuild_ctype(type_, wrapper, None) *)
Definition new_value_prog : list neffect := [NAlloc; NRebuild].

(* running rebuild_ctype: the current value of `type_`, the types registered so far, the type of
   the object attached to the wrapper's memory (None: nothing returned) *)
Record rbstate := mk_rb { rb_type : cty; rb_regs : list cty; rb_obj : option cty }.
Definition rb_effect (length : option Z) (s : rbstate) (e : reffect) : rbstate :=
  match e with
  | RArrayType => match length with
                  | Some n => mk_rb (fst (rb_type s), Some n) (rb_regs s) (rb_obj s)
                  | None => s
                  end
  | RRegister => mk_rb (rb_type s) (rb_regs s ++ [rb_type s]) (rb_obj s)
  | RAttach => mk_rb (rb_type s) (rb_regs s) (Some (rb_type s))
  end.
Definition run_rebuild (p : list reffect) (t : cty) (length : option Z) : rbstate :=
  fold_left (rb_effect length) p (mk_rb t [] None).

(* running _new_value(t): the types registered, and the type of the object returned (None: the
   program does not allocate before it rebuilds, or returns nothing) *)
Record nvstate := mk_nv { nv_alloc : bool; nv_regs : list cty; nv_obj : option cty }.
Definition nv_effect (rbp : list reffect) (t : cty) (s : nvstate) (e : neffect) : nvstate :=
  match e with
  | NAlloc => mk_nv true (nv_regs s) (nv_obj s)
  | NRegister => mk_nv (nv_alloc s) (nv_regs s ++ [t]) (nv_obj s)
  | NRebuild => let r := run_rebuild rbp t None in
                mk_nv (nv_alloc s) (nv_regs s ++ rb_regs r) (if nv_alloc s then rb_obj r else None)
  end.
Definition run_new_value (nvp : list neffect) (rbp : list reffect) (t : cty) : nvstate :=
  fold_left (nv_effect rbp t) nvp (mk_nv false [] None).

(* what reduce_ctype sends for an object of type t: (obj._type_, obj._length_) / (type(obj), None) *)
Definition reduce_args (t : cty) : cty * option Z := ((fst t, None), snd t).

(* ---- processes and handles ------------------------------------------------------------ *)
Record proc := mk_proc { p_sm : smstate; p_reg : list cty }.
Definition fresh_proc (hsize : Z) : proc := mk_proc (mk_sm (heap_init hsize) mem0) [].

Inductive hstore :=
| HShared (owner : nat) (o : obj)     (* the bytes [start, start+size) of an arena of process `owner` *)
| HPrivate (bs : list Z).             (* a private copy *)
Record handle := mk_handle { h_proc : nat; h_type : cty; h_store : hstore }.

Record hsys := mk_hsys { hs_procs : list proc; hs_handles : list handle }.
Definition hsys_init (hsize : Z) : hsys := mk_hsys [fresh_proc hsize] [].

Definition proc_mem (s : hsys) (p : nat) : mem :=
  match nth_error (hs_procs s) p with Some pr => sm_mem (p_sm pr) | None => mem0 end.

(* bytes(handle) *)
Definition hread (s : hsys) (h : handle) : list Z :=
  match h_store h with
  | HShared owner o => o_read (proc_mem s owner) o
  | HPrivate bs => bs
  end.

Inductive hop :=
| HSpawn                                                      (* a new process: fresh interpreter *)
| HNew (p : nat) (kind : Z) (t : cty) (size : Z) (init : list Z)   (* process p allocates; kind as SNew *)
| HSend (k : nat) (q : nat)                                   (* handle k is pickled by its holder and rebuilt in q *)
| HWrite (k : nat) (off : Z) (bs : list Z).                   (* a store through handle k *)

Fixpoint splice (l : list Z) (off : nat) (bs : list Z) : list Z :=
  match off, l with
  | O, _ => bs ++ skipn (length bs) l
  | S n, x :: r => x :: splice r n bs
  | S n, [] => []
  end.

Definition add_regs (pr : proc) (ts : list cty) : proc := mk_proc (p_sm pr) (p_reg pr ++ ts).

(* ctypes' own pickling: by value; an array type cannot be pickled by reference *)
Definition by_value (s : hsys) (h : handle) (q : nat) : res hsys :=
  match snd (h_type h) with
  | Some _ => Err TypeError          (* PicklingError: attribute lookup c_int_Array_3 failed *)
  | None => OK (mk_hsys (hs_procs s) (hs_handles s ++ [mk_handle q (h_type h) (HPrivate (hread s h))]))
  end.

(* the created handle, for the observation: (owner, block, size); none for a step that creates none *)
Definition hstep (pg hsize : Z) (nvp : list neffect) (rbp : list reffect) (s : hsys) (o : hop) : res hsys :=
  match o with
  | HSpawn => OK (mk_hsys (hs_procs s ++ [fresh_proc hsize]) (hs_handles s))
  | HNew p kind t size init =>
      match nth_error (hs_procs s) p with
      | None => Err KeyError
      | Some pr =>
        let nv := run_new_value nvp rbp t in
        match nv_obj nv with
        | None => Err TypeError
        | Some t' =>
          do (sm', ob) <- create (prog_of_kind kind) pg size init (p_sm pr);
          OK (mk_hsys (set_nth (hs_procs s) p (mk_proc sm' (p_reg pr ++ nv_regs nv)))
                      (hs_handles s ++ [mk_handle p t' (HShared p ob)]))
        end
      end
  | HSend k q =>
      match nth_error (hs_handles s) k, nth_error (hs_procs s) q with
      | Some h, Some prq =>
        match nth_error (hs_procs s) (h_proc h) with
        | None => Err KeyError
        | Some prs =>
          match h_store h with
          | HShared owner ob =>
            if cty_mem (h_type h) (p_reg prs) then
              let '(bt, len) := reduce_args (h_type h) in
              let r := run_rebuild rbp bt len in
              match rb_obj r with
              | None => Err TypeError
              | Some t' =>
                OK (mk_hsys (set_nth (hs_procs s) q (add_regs prq (rb_regs r)))
                            (hs_handles s ++ [mk_handle q t' (HShared owner (rebuild_obj (reduce_obj ob)))]))
              end
            else by_value s h q
          | HPrivate _ => by_value s h q
          end
        end
      | _, _ => Err KeyError
      end
  | HWrite k off bs =>
      match nth_error (hs_handles s) k with
      | None => Err KeyError
      | Some h =>
        match h_store h with
        | HShared owner ob =>
          match nth_error (hs_procs s) owner with
          | None => Err KeyError
          | Some pro =>
            match o_write (sm_mem (p_sm pro)) ob off bs with
            | Some m' => OK (mk_hsys (set_nth (hs_procs s) owner (mk_proc (mk_sm (sm_heap (p_sm pro)) m') (p_reg pro)))
                                     (hs_handles s))
            | None => Err ValueError
            end
          end
        | HPrivate old =>
          if (0 <=? off) && (off + Z.of_nat (length bs) <=? Z.of_nat (length old))
          then OK (mk_hsys (hs_procs s) (set_nth (hs_handles s) k (mk_handle (h_proc h) (h_type h) (HPrivate (splice old (Z.to_nat off) bs)))))
          else Err ValueError
        end
      end
  end.

Fixpoint hrun (pg hsize : Z) (nvp : list neffect) (rbp : list reffect) (s : hsys) (ops : list hop) : res hsys :=
  match ops with
  | [] => OK s
  | o :: r => do s' <- hstep pg hsize nvp rbp s o; hrun pg hsize nvp rbp s' r
  end.

(* the root of every handle: the allocation it descends from through any number of hand-overs
   (computed from the history alone) *)
Fixpoint roots_from (acc : list nat) (ops : list hop) : list nat :=
  match ops with
  | [] => acc
  | HNew _ _ _ _ _ :: r => roots_from (acc ++ [length acc]) r
  | HSend k _ :: r => roots_from (acc ++ [nth k acc O]) r
  | _ :: r => roots_from acc r
  end.
Definition roots (ops : list hop) : list nat := roots_from [] ops.

(* ---- correspondence ------------------------------------------------------------------- *)
(* observation after every op: for the handle the op created (owner, block, size) -- (-1, none, n)
   for a private copy of n bytes, (-3, none, 0) when the op creates no handle -- and bytes(h) of
   every handle in creation order *)
Definition hobs := ((Z * block * Z) * list (list Z))%type.

Definition created (s s' : hsys) : Z * block * Z :=
  if Nat.eqb (length (hs_handles s')) (length (hs_handles s)) then (-3, none_block, 0)
  else match last (hs_handles s') (mk_handle O (0, None) (HPrivate [])) with
       | mk_handle _ _ (HShared owner ob) => (Z.of_nat owner, o_block ob, o_size ob)
       | mk_handle _ _ (HPrivate bs) => (-1, none_block, Z.of_nat (length bs))
       end.

Fixpoint hobserve (pg hsize : Z) (s : hsys) (ops : list hop) : list hobs :=
  match ops with
  | [] => []
  | o :: r =>
    match hstep pg hsize new_value_prog rebuild_prog s o with
    | Err _ => [((-2, (-2, -2, -2), -2), [])]
    | OK s' => (created s s', map (hread s') (hs_handles s')) :: hobserve pg hsize s' r
    end
  end.

Definition hobs_eqb (a b : hobs) : bool :=
  let '((w1, b1, s1), r1) := a in let '((w2, b2, s2), r2) := b in
  (w1 =? w2) && block_eqb b1 b2 && (s1 =? s2) && list_eqb (list_eqb Z.eqb) r1 r2.

(* case = page size, Heap(size) of every process, ops, implementation observations *)
Definition hcase := (Z * Z * list hop * list hobs)%type.
Definition check_hcase (c : hcase) : Z :=
  let '(pg, hsize, ops, obs) := c in
  if list_eqb hobs_eqb obs (hobserve pg hsize (hsys_init hsize) ops) then 0 else 1.
