(* QueueCheck: property monitors over observed traces and the correspondence check for C16.
   Executable, no proofs in here.

   case = kind (0 Queue, 1 JoinableQueue, 2 SimpleQueue), maxsize, one script per PAIR (main
   thread 2q + feeder slot 2q+1), the process of each pair (own; [] = every pair its own process:
   one main thread per process), schedule, and what the real classes did under that schedule (harness/c16_driver.py):
   events, call index of each event, results per logical thread, finished flags, final
   semaphore values, final pipe, final feeder buffers, object each unfinished thread is
   blocked on, how the run ended (0 finished, 1 deadlock, 2 stopped). *)
From Coq Require Import ZArith List Bool.
From BV Require Import Lib.Cases Model.SemProg Model.QueueProg Model.QueueCode.
Import ListNotations.
Open Scope Z_scope.

Definition qobserved :=
  (list event * list nat * list (list Z) * list bool * list Z * list Z * list (list Z) * list Z * Z)%type.
Definition qcase := (Z * Z * list (list qcall) * list nat * list (nat * bool) * qobserved)%type.

(* process of logical thread t (main thread 2q and feeder slot 2q+1 belong to the process of pair q) *)
Definition proc_of (own : list nat) (t : nat) : nat := owner own (Nat.div t 2).

(* ------------------------------------------------------------------ monitors (on the observed trace alone) *)
Definition is_put (c : nat) : bool := Nat.eqb c 0 || Nat.eqb c 3 || Nat.eqb c 6.
Definition is_get (c : nat) : bool := Nat.eqb c 1 || Nat.eqb c 7.

Definition qcall_at (scripts : list (list qcall)) (t k : nat) : qcall :=
  nth k (nth (Nat.div t 2) scripts []) (99%nat, 0, 0, 0).

Fixpoint zcount (m : Z) (l : list Z) : nat :=
  match l with [] => O | x :: r => if x =? m then S (zcount m r) else zcount m r end.
Definition zmem (m : Z) (l : list Z) : bool := negb (Nat.eqb (zcount m l) 0).

(* messages offered by process p, in script order *)
Definition offered (sc : list qcall) : list Z :=
  map (fun c => let '(_, _, _, m) := c in m) (filter (fun c => let '(id, _, _, _) := c in is_put id) sc).

(* is [a] a subsequence of [b]? *)
Fixpoint subseq (a b : list Z) : bool :=
  match a, b with
  | [], _ => true
  | _, [] => false
  | x :: a', y :: b' => if x =? y then subseq a' b' else subseq a b'
  end.

Fixpoint nodup_z (l : list Z) : bool :=
  match l with [] => true | x :: r => negb (zmem x r) && nodup_z r end.

Definition sent (es : list event) : list Z :=
  map (fun e => let '(_, _, _, r) := e in r) (filter (fun e => let '(_, o, op, _) := e in Nat.eqb o PIPE && (op =? 3)) es).
Definition received (es : list event) : list Z :=
  map (fun e => let '(_, _, _, r) := e in r) (filter (fun e => let '(_, o, op, _) := e in Nat.eqb o PIPE && (op =? 4)) es).

(* per-call checks: what a call returned against the events it produced *)
Fixpoint evs_of (t k : nat) (es : list event) (ks : list nat) : list event :=
  match es, ks with
  | e :: es', k' :: ks' =>
    let '(t', _, _, _) := e in
    if Nat.eqb t' t && Nat.eqb k' k then e :: evs_of t k es' ks' else evs_of t k es' ks'
  | _, _ => []
  end.

Definition ev_is (o : nat) (op : Z) (e : event) : bool :=
  let '(_, o', op', _) := e in Nat.eqb o' o && (op' =? op).
Definition ev_res (e : event) : Z := let '(_, _, _, r) := e in r.
Definition first_res (o : nat) (op : Z) (l : list event) : option Z :=
  match filter (ev_is o op) l with e :: _ => Some (ev_res e) | [] => None end.

Definition call_ok (c : qcall) (v : Z) (l : list event) : bool :=
  let '(id, a0, a1, m) := c in
  if Nat.eqb id 0 || Nat.eqb id 3 then
    (* put: None iff the capacity semaphore was obtained, Full iff it was not *)
    match first_res 0 0 l with
    | Some 1 => v =? V_NONE
    | Some _ => v =? E_FULL
    | None => false
    end
  else if Nat.eqb id 1 then
    (* get: returns exactly the message it received; Empty only after a failed lock acquire
       or a poll that found nothing or a clock reading past its deadline *)
    match first_res PIPE 4 l with
    | Some x => v =? x
    | None => (v =? E_EMPTY) && (match first_res 1 0 l with Some 0 => true | _ => false end
                                 || match first_res PIPE 5 l with Some 0 => true | _ => false end
                                 || match first_res CLOCK 6 l with Some 1 => true | _ => false end)
    end
  else if Nat.eqb id 7 then
    match first_res PIPE 4 l with Some x => v =? x | None => false end
  else if Nat.eqb id 6 then v =? V_NONE
  else if Nat.eqb id 4 then
    (* task_done: ValueError iff the unfinished count could not be decremented *)
    match first_res 3 0 l with Some 1 => v =? V_NONE | Some _ => v =? E_VALUE | None => false end
  else if Nat.eqb id 5 then
    (* join returns only after seeing the count at zero or being notified *)
    (v =? V_NONE) && (match first_res 3 2 l with Some 1 => true | _ => false end
                      || match first_res 7 0 l with Some 1 => true | _ => false end)
  else true.

Fixpoint calls_ok (scripts : list (list qcall)) (es : list event) (ks : list nat)
         (t k : nat) (sc : list qcall) (rs : list Z) : bool :=
  match sc, rs with
  | c :: sc', v :: rs' => call_ok c v (evs_of t k es ks) && calls_ok scripts es ks t (S k) sc' rs'
  | _, [] => true
  | [], _ :: _ => false
  end.

Fixpoint all_calls_ok (scripts : list (list qcall)) (es : list event) (ks : list nat)
         (p : nat) (scs : list (list qcall)) (res : list (list Z)) : bool :=
  match scs, res with
  | sc :: scs', rm :: _rf :: res' =>
    calls_ok scripts es ks (2 * p) 0 sc rm && all_calls_ok scripts es ks (S p) scs' res'
  | [], _ => true
  | _, _ => false
  end.

(* FIFO per producer, no loss, no duplication, on the pipe's traffic *)
Definition traffic_ok (scripts : list (list qcall)) (es : list event) (pipe : list Z) : bool :=
  let snt := sent es in
  let rcv := received es in
  let alloffered := flat_map offered scripts in
  (* everything received was sent, in the same order; what is still in the pipe is the rest *)
  list_eqb Z.eqb (rcv ++ pipe) snt
  (* nothing is sent twice; everything sent was offered by a put *)
  && nodup_z snt && forallb (fun m => zmem m alloffered) snt
  (* per producer: its messages go through the pipe in the order it offered them *)
  && forallb (fun sc => subseq (filter (fun m => zmem m (offered sc)) snt) (offered sc)) scripts.

(* capacity: the semaphore never goes negative or above maxsize; at a quiet end (every main
   thread finished, no feeder mid-transfer) sem + buffered + in pipe = maxsize for Queue kinds *)
Fixpoint evens {A} (l : list A) : list A :=
  match l with x :: _ :: r => x :: evens r | [x] => [x] | [] => [] end.
Fixpoint odds {A} (l : list A) : list A :=
  match l with _ :: y :: r => y :: odds r | _ => [] end.

(* a feeder whose thread has ended (Queue._feed returned after an exception) took with it the
   message it had popped and that message's capacity token; what is still in the buffer of its
   process stays there for ever.  The accounting at a quiet end counts exactly those.
   ffins = finished flags of the feeder slots (one per pair), bufs = one buffer per process. *)
Definition ndead (own : list nat) (ffins : list bool) (p : nat) : Z :=
  Z.of_nat (length (filter (fun q => Nat.eqb (owner own q) p && nth q ffins false) (seq 0 (length ffins)))).
Fixpoint dead_tokens (own : list nat) (ffins : list bool) (p : nat) (bufs : list (list Z)) : Z :=
  match bufs with
  | b :: bufs' => (if 0 <? ndead own ffins p then ndead own ffins p + Z.of_nat (length b) else 0)
                  + dead_tokens own ffins (S p) bufs'
  | [] => 0
  end.
Fixpoint live_bufs_empty (own : list nat) (ffins : list bool) (p : nat) (bufs : list (list Z)) : bool :=
  match bufs with
  | b :: bufs' => ((0 <? ndead own ffins p) || match b with [] => true | _ => false end)
                  && live_bufs_empty own ffins (S p) bufs'
  | [] => true
  end.

Definition capacity_ok (kind maxsize : Z) (own : list nat) (fins : list bool) (vals : list Z) (pipe : list Z)
           (bufs : list (list Z)) (pend : list Z) : bool :=
  let s := nth 0 vals 0 in
  (0 <=? s) && (s <=? maxsize)
  && (if (kind <? 2) && forallb (fun b => b) (evens fins)
         && forallb (fun p => (p =? -1) || (9 <=? p) && negb (p =? 100)) (odds pend)
         && live_bufs_empty own (odds fins) 0 bufs
      then s + Z.of_nat (length pipe) + dead_tokens own (odds fins) 0 bufs =? maxsize else true).

(* the thread of some feeder has ended although its queue is still in use *)
Definition feeder_ended (fins : list bool) : bool := existsb (fun b => b) (odds fins).

(* locks: a call that has returned or raised, and a feeder whose thread has ended, hold none of
   _rlock, _wlock, the condition's lock of a JoinableQueue, the lock of their _notempty *)
Definition net_held (s : nat) (l : list event) : Z :=
  fold_left (fun a e => let '(_, o, op, r) := e in
                        if Nat.eqb o s && (op =? 0) && (r =? 1) then a + 1
                        else if Nat.eqb o s && (op =? 1) && (r =? 0) then a - 1 else a) l 0.
Definition holds_none (own : list nat) (t : nat) (l : list event) : bool :=
  forallb (fun s => net_held s l =? 0) [1%nat; 2%nat; 4%nat; (8 + 2 * proc_of own t)%nat].
Definition evs_of_thread (t : nat) (es : list event) : list event :=
  filter (fun e => let '(t', _, _, _) := e in Nat.eqb t' t) es.
(* every whole message is written to the pipe by a thread that holds the writer lock at that moment
   (the "reader and writer locks around whole messages" mechanism: writes of two processes never interleave) *)
Fixpoint sends_locked (pre es : list event) : bool :=
  match es with
  | [] => true
  | e :: r =>
    let '(t, o, op, _) := e in
    (if Nat.eqb o PIPE && (op =? 3) then net_held 2%nat (evs_of_thread t (rev pre)) =? 1 else true)
    && sends_locked (e :: pre) r
  end.

Fixpoint locks_ok (own : list nat) (es : list event) (ks : list nat) (t : nat) (res : list (list Z)) (fins : list bool) : bool :=
  match res, fins with
  | rs :: res', f :: fins' =>
    (if Nat.even t then forallb (fun k => holds_none own t (evs_of t k es ks)) (seq 0 (length rs))
     else negb f || holds_none own t (evs_of_thread t es))
    && locks_ok own es ks (S t) res' fins'
  | _, _ => true
  end.

(* nothing that could be serialised is lost on the way to the pipe: at a quiet end (every main
   thread finished, every started feeder asleep on the notification semaphore of its process's
   _notempty or never started) the messages the feeder thread(s) of a process wrote contain, for
   each of its main threads, exactly the picklable messages of that thread's puts that returned
   None, in that thread's order; and nothing else *)
Fixpoint accepted (sc : list qcall) (rs : list Z) : list Z :=
  match sc, rs with
  | (id, _, _, m) :: sc', v :: rs' =>
    if (Nat.eqb id 0 || Nat.eqb id 3) && (v =? V_NONE) then m :: accepted sc' rs' else accepted sc' rs'
  | _, _ => []
  end.
Definition sent_by (t : nat) (es : list event) : list Z :=
  map (fun e => let '(_, _, _, r) := e in r)
      (filter (fun e => let '(t', o, op, _) := e in Nat.eqb t' t && Nat.eqb o PIPE && (op =? 3)) es).
(* written to the pipe by the feeder thread(s) of process p, in the order of the writes *)
Definition sent_by_proc (own : list nat) (p : nat) (es : list event) : list Z :=
  map (fun e => let '(_, _, _, r) := e in r)
      (filter (fun e => let '(t', o, op, _) := e in
                        Nat.odd t' && Nat.eqb (proc_of own t') p && Nat.eqb o PIPE && (op =? 3)) es).
(* accepted by the puts of all main threads of process p *)
Definition accepted_proc (own : list nat) (p : nat) (scripts : list (list qcall)) (res : list (list Z)) : list Z :=
  flat_map (fun q => if Nat.eqb (owner own q) p then accepted (nth q scripts []) (nth (2 * q) res []) else [])
           (seq 0 (length scripts)).
(* some feeder slot of process p is asleep on the notification semaphore of p's _notempty *)
Definition feeder_asleep (own : list nat) (p : nat) (pend : list Z) : bool :=
  existsb (fun q => Nat.eqb (owner own q) p && (nth (2 * q + 1) pend (-1) =? Z.of_nat (9 + 2 * p)))
          (seq 0 (Nat.div (length pend) 2)).
Fixpoint delivered_ok (own : list nat) (scripts : list (list qcall)) (allres : list (list Z)) (allpend : list Z)
         (es : list event) (q : nat) (scs : list (list qcall)) (res : list (list Z)) (pend : list Z) : bool :=
  match scs, res, pend with
  | sc :: scs', rm :: _rf :: res', _pm :: pf :: pend' =>
    let p := owner own q in
    let acc := accepted sc rm in
    ((pf =? Z.of_nat (9 + 2 * p)) || (pf =? -1))
    && (match acc with [] => true | _ => feeder_asleep own p allpend end)
    && list_eqb Z.eqb (filter (fun m => zmem m acc) (sent_by_proc own p es)) (filter picklable acc)
    && forallb (fun m => zmem m (accepted_proc own p scripts allres)) (sent_by_proc own p es)
    && delivered_ok own scripts allres allpend es (S q) scs' res' pend'
  | _, _, _ => true
  end.
Definition quiet_feeders (own : list nat) (p0 : nat) (pend : list Z) : bool :=
  (fix go (q : nat) (l : list Z) : bool :=
     match l with
     | _pm :: pf :: l' => ((pf =? Z.of_nat (9 + 2 * owner own q)) || (pf =? -1)) && go (S q) l'
     | _ => true
     end) p0 pend.

(* Queue._start_thread: at most one feeder thread is ever started for the queue object of one
   process (two feeders draining one buffer break the order of a producer's items), and its
   buffer.clear() never drops an item (an accepted item that vanishes, with its capacity token) *)
Definition is_start (e : event) : bool := let '(_, o, op, _) := e in Nat.eqb o THREAD && (op =? 7).
Definition one_feeder_ok (own : list nat) (n : nat) (es : list event) : bool :=
  forallb (fun p => Nat.leb (length (filter (fun e => is_start e && Nat.eqb (proc_of own (let '(t, _, _, _) := e in t)) p) es)) 1)
          (seq 0 n).
Definition clear_ok (es : list event) : bool :=
  forallb (fun e => negb (is_start e) || (let '(_, _, _, r) := e in r =? 0)) es.

(* an item that is in the pipe is not kept from a get that is waiting for one: at a deadlock
   end (nothing can move any more) with a message in the pipe no main thread is inside get *)
Fixpoint get_stuck_ok (scs : list (list qcall)) (res : list (list Z)) (fins : list bool) : bool :=
  match scs, res, fins with
  | sc :: scs', rm :: _rf :: res', fm :: _ff :: fins' =>
    let '(id, _, _, _) := nth (length rm) sc (99%nat, 0, 0, 0) in
    negb (negb fm && is_get id) && get_stuck_ok scs' res' fins'
  | _, _, _ => true
  end.

(* no lost feeder wake-up: at a deadlock end a process with a non-empty buffer does not have
   a feeder slot asleep on the notification semaphore of its _notempty *)
Fixpoint feeders_ok (own : list nat) (q : nat) (bufs : list (list Z)) (pend : list Z) : bool :=
  match pend with
  | _pm :: pf :: pend' =>
    let p := owner own q in
    (match nth p bufs [] with [] => true | _ => negb (pf =? Z.of_nat (9 + 2 * p)) end) && feeders_ok own (S q) bufs pend'
  | _ => true
  end.

(* join is exact: a join that returned saw the number of unfinished tasks at zero at some
   moment between its first and its last operation (count replayed from the trace) *)
(* specification count of unfinished tasks, from the trace alone: +1 when a JoinableQueue.put
   call releases the lock of its process's _notempty (from then on the item is in the buffer,
   visible to the feeder and hence to consumers; in the pinned code the counter was incremented
   before that release), -1 when a task_done obtains the count.  In the pinned code
   specification count <= real count at every moment, so the monitors below cannot fire. *)
Fixpoint unfinished_after (own : list nat) (scripts : list (list qcall)) (c : Z) (es : list event) (ks : list nat) : list Z :=
  match es, ks with
  | (t, o, op, r) :: es', k :: ks' =>
    let '(id, _, _, _) := qcall_at scripts t k in
    let c' := if Nat.even t && Nat.eqb id 3 && Nat.eqb o (8 + 2 * proc_of own t) && (op =? 1) && (r =? 0) then c + 1
              else if Nat.even t && Nat.eqb id 4 && Nat.eqb o 3 && (op =? 0) && (r =? 1) then c - 1 else c in
    c' :: unfinished_after own scripts c' es' ks'
  | _, _ => []
  end.

(* task_done never raises "called too many times" while the specification count is positive *)
Fixpoint taskdone_ok (scripts : list (list qcall)) (es : list event) (ks : list nat) (counts : list Z) : bool :=
  match es, ks, counts with
  | (t, o, op, r) :: es', k :: ks', c :: counts' =>
    let '(id, _, _, _) := qcall_at scripts t k in
    (if Nat.even t && Nat.eqb id 4 && Nat.eqb o 3 && (op =? 0) && (r =? 0) then c <=? 0 else true)
    && taskdone_ok scripts es' ks' counts'
  | _, _, _ => true
  end.

Fixpoint idxs_of (t k : nat) (es : list event) (ks : list nat) (j : nat) : list nat :=
  match es, ks with
  | e :: es', k' :: ks' =>
    let '(t', _, _, _) := e in
    if Nat.eqb t' t && Nat.eqb k' k then j :: idxs_of t k es' ks' (S j) else idxs_of t k es' ks' (S j)
  | _, _ => []
  end.

(* counts.(j) = number of unfinished tasks before event j (counts.(n) = after the last one) *)
Definition join_window_ok (own : list nat) (scripts : list (list qcall)) (t k : nat) (es : list event) (ks : list nat) : bool :=
  let counts := 0 :: unfinished_after own scripts 0 es ks in
  match idxs_of t k es ks 0 with
  | [] => false
  | a :: rest => let b := last rest a in
                 existsb (fun j => nth j counts 1 =? 0) (seq a (b + 2 - a))
  end.

Fixpoint joins_ok (own : list nat) (scripts : list (list qcall)) (es : list event) (ks : list nat) (t k : nat) (sc : list qcall) (rs : list Z) : bool :=
  match sc, rs with
  | (id, _, _, _) :: sc', v :: rs' =>
    (if Nat.eqb id 5 && (v =? V_NONE)
     then join_window_ok own scripts t k es ks else true)
    && joins_ok own scripts es ks t (S k) sc' rs'
  | _, _ => true
  end.

Fixpoint all_joins_ok (own : list nat) (scripts : list (list qcall)) (es : list event) (ks : list nat) (p : nat) (scs : list (list qcall))
         (res : list (list Z)) : bool :=
  match scs, res with
  | sc :: scs', rm :: _rf :: res' => joins_ok own scripts es ks (2 * p) 0 sc rm && all_joins_ok own scripts es ks (S p) scs' res'
  | _, _ => true
  end.

(* join is exact, the other direction: no join is left blocked once every item put has been
   matched by a task_done.  Judged at a deadlock end (no thread is enabled, so no task_done can
   still run and nothing will ever wake the joiner): a main thread whose current call is join
   while the specification count of unfinished tasks is zero. *)
Fixpoint join_stuck_ok (cnt : Z) (scs : list (list qcall)) (res : list (list Z)) (fins : list bool) : bool :=
  match scs, res, fins with
  | sc :: scs', rm :: _rf :: res', fm :: _ff :: fins' =>
    let '(id, _, _, _) := nth (length rm) sc (99%nat, 0, 0, 0) in
    negb (negb fm && Nat.eqb id 5 && (cnt <=? 0)) && join_stuck_ok cnt scs' res' fins'
  | _, _, _ => true
  end.

Definition qmonitors (kind maxsize : Z) (scripts : list (list qcall)) (own : list nat) (o : qobserved) : bool :=
  let '(es, ks, res, fins, vals, pipe, bufs, pend, endk) := o in
  all_calls_ok scripts es ks 0 scripts res && traffic_ok scripts es pipe
  && capacity_ok kind maxsize own fins vals pipe bufs pend
  && forallb (fun v => 0 <=? v) vals
  && ((endk =? 2) || feeders_ok own 0 bufs pend)
  && all_joins_ok own scripts es ks 0 scripts res
  && taskdone_ok scripts es ks (0 :: unfinished_after own scripts 0 es ks)
  && (negb (endk =? 1) || join_stuck_ok (last (unfinished_after own scripts 0 es ks) 0) scripts res fins)
  && locks_ok own es ks 0 res fins
  && (negb (endk =? 1) || match pipe with [] => true | _ => get_stuck_ok scripts res fins end)
  && (if (kind <? 2) && negb (endk =? 2) && forallb (fun b => b) (evens fins) && quiet_feeders own 0 pend
         && negb (feeder_ended fins)
      then delivered_ok own scripts res pend es 0 scripts res pend else true)
  && one_feeder_ok own (length scripts) es && clear_ok es
  && sends_locked [] es.

(* ------------------------------------------------------------------ correspondence *)
Definition qmodel_obs (maxsize : Z) (scripts : list (list qcall)) (own : list nat) (sched : list (nat * bool)) :=
  let '(g, es, ok) := qrun code (qinit_own maxsize own scripts) sched in
  (es, map (fun t => rev (map snd (qresults t))) (qthr g), map (fun t => qfin t || qexited code t) (qthr g),
   map val (qsems g),
   pipe g, map buf (procs g), ok).

Definition fins_eqb (impl model : list bool) : bool :=
  (* a dormant feeder is "not finished" on both sides; a feeder whose _feed has returned is finished *)
  list_eqb Bool.eqb impl model.

(* 0 = identical; 3 = on the implementation's trace a feeder thread has ENDED although its queue
   is in use (the message it held and its capacity token are lost and nothing its process puts
   afterwards is ever delivered: the defect repaired by 36337df); 2 = another property monitor
   fails on the implementation's trace, or the same history gave different call results;
   1 = other difference *)
Definition check_case (c : qcase) : Z :=
  let '(kind, maxsize, scripts, own, sched, o) := c in
  let '(es, ks, res, fins, vals, pp, bufs, pend, endk) := o in
  let '(mes, mres, mfins, mvals, mpipe, mbufs, ok) := qmodel_obs maxsize scripts own sched in
  let same_ev := list_eqb event_eqb es mes && ok in
  let same_res := list_eqb (list_eqb Z.eqb) res mres in
  if feeder_ended fins then 3
  else if negb (qmonitors kind maxsize scripts own o) then 2
  else if same_ev && negb same_res then 2
  else if same_ev && same_res && fins_eqb fins mfins && list_eqb Z.eqb vals mvals
          && list_eqb Z.eqb pp mpipe && list_eqb (list_eqb Z.eqb) bufs mbufs
       then 0
  else 1.
