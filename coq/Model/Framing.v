(* Model of billiard.connection message framing (C13).

   What is modelled (Unix `Connection` over a file descriptor):
     _ConnectionBase.send_bytes / recv_bytes / recv_bytes_into and their
     argument / state checks, _bad_message_length, close,
     Connection._send_bytes (header + 16384 concatenation threshold),
     Connection._recv_bytes (header, signed size, maxsize test),
     Connection._send (write-all loop) and Connection._recv (read-exactly loop).

   The operating system is an ORACLE: a finite script of answers to the
   successive write()/read() calls (short writes, short reads, EINTR, an I/O
   error).  When the script is used up the OS is cooperative (a write takes
   everything, a read returns everything asked for that is still in the stream).
   Every terminating execution under an arbitrary infinite oracle consumes a
   finite prefix of it, so quantifying over all finite scripts covers all of
   them.  A stream that is empty means "peer has closed": read() returns b''.

   Bytes are Z (0..255 where it matters).  Executable; no proofs in here. *)
From Coq Require Import ZArith List Bool.
Import ListNotations.
Open Scope Z_scope.

Definition len {A} (l : list A) : Z := Z.of_nat (length l).
(* l[:k] and l[k:]; k is capped by the length first so that a huge k (a hostile
   header) never becomes a huge unary number *)
Definition take {A} (k : Z) (l : list A) : list A := firstn (Z.to_nat (Z.min k (len l))) l.
Definition drop {A} (k : Z) (l : list A) : list A := skipn (Z.to_nat (Z.min k (len l))) l.
(* Python m[lo:hi] for 0 <= lo <= hi <= len m (the only way the code uses it) *)
Definition slice {A} (lo hi : Z) (l : list A) : list A := take (hi - lo) (drop lo l).

(* ---- constants of the code (tied to the source by Gen/K_framing.v) ---- *)
Definition THRESH : Z := 16384.          (* `if n > 16384` in _send_bytes *)
Definition MAXLEN : Z := 2147483647.     (* largest n struct.pack("!i", n) accepts *)
Definition HDR : Z := 4.                 (* self._recv(4) *)

(* struct.pack("!i", n): big-endian two's complement, 4 bytes *)
Definition be32 (n : Z) : list Z :=
  [ (n / 16777216) mod 256; (n / 65536) mod 256; (n / 256) mod 256; n mod 256 ].
(* struct.unpack("!i", h)[0] *)
Definition dec32 (h : list Z) : Z :=
  match h with
  | [a; b; c; d] =>
      let u := ((a * 256 + b) * 256 + c) * 256 + d in
      if u >=? 2147483648 then u - 4294967296 else u
  | _ => 0
  end.
Definition encode (m : list Z) : list Z := be32 (len m) ++ m.

(* ---- exceptions: tag = which raise statement, kind = exception class ---- *)
Inductive err :=
| EClosed | ENotReadable | ENotWritable            (* OSError: _check_* *)
| EOffNeg | EBufLtOff | ESizeNeg | EBufLtOffSize   (* ValueError: send_bytes *)
| EMaxNeg                                          (* ValueError: recv_bytes *)
| EIntoOffNeg | EIntoOffBig                        (* ValueError: recv_bytes_into *)
| EStruct                                          (* struct.error: length does not fit "!i" *)
| EBadLen                                          (* OSError: _bad_message_length *)
| EEofMid                                          (* OSError: got end of file during message *)
| EIo                                              (* OSError raised by the OS (oracle), not EINTR *)
| EEof                                             (* EOFError *)
| ETooShort (msg : list Z)                         (* BufferTooShort(whole message) *)
| ENoLen                                           (* TypeError: len() of a 0-dimensional view *)
| ESpin.                                           (* no exception: the _send loop never ends
                                                      (every later write() is of 0 bytes) *)

(* numeric code: hundreds digit = exception class, rest = which raise *)
Definition err_code (e : err) : Z :=
  match e with
  | EClosed => 101 | ENotReadable => 102 | ENotWritable => 103
  | EBadLen => 104 | EEofMid => 105 | EIo => 106
  | EOffNeg => 201 | EBufLtOff => 202 | ESizeNeg => 203 | EBufLtOffSize => 204
  | EMaxNeg => 205 | EIntoOffNeg => 206 | EIntoOffBig => 207
  | EEof => 301
  | EStruct => 401
  | ETooShort _ => 501
  | ENoLen => 601
  | ESpin => 701
  end.
Definition kind_of_code (c : Z) : Z := c / 100.   (* 0 ok 1 OSError 2 ValueError 3 EOFError 4 struct.error 5 BufferTooShort
                                                     6 TypeError 7 never returns *)

(* ---- connection flags ---- *)
Record conn := mkc { closed : bool; readable : bool; writable : bool }.
Definition close (c : conn) : conn := mkc true (readable c) (writable c).
(* _bad_message_length, the state change before `raise OSError` *)
Definition bad_length (c : conn) : conn :=
  if writable c then mkc (closed c) false (writable c) else close c.

(* ---- the OS ---- *)
Inductive wresp := WAccept (k : Z) | WEintr | WErr.
Inductive rresp := RChunk (k : Z) | REintr | RErr.

(* how many bytes one write() call takes: at least 1, at most what is offered *)
Definition sys_write (k : Z) (buf : list Z) : Z := Z.min (Z.max 1 k) (len buf).
(* how many bytes one read(fd, remaining) call may return at most *)
Definition sys_read (k remaining : Z) : Z := Z.min (Z.max 1 k) remaining.

(* Connection._send: result = (unused script, bytes written, len(buf) at each
   write() call, exception) *)
Fixpoint send_loop (o : list wresp) (buf : list Z)
  : list wresp * list Z * list Z * option err :=
  match o with
  | [] => ([], buf, [len buf], None)
  | WEintr :: o' =>
      let '(o2, w, t, e) := send_loop o' buf in (o2, w, len buf :: t, e)
  | WErr :: o' => (o', [], [len buf], Some EIo)
  | WAccept k :: o' =>
      let n := sys_write k buf in
      if len buf - n =? 0 then (o', take n buf, [len buf], None)      (* remaining == 0: break *)
      else let '(o2, w, t, e) := send_loop o' (drop n buf) in         (* buf = buf[n:] *)
           (o2, take n buf ++ w, len buf :: t, e)
  end.

(* Connection._send_bytes *)
Definition send_bytes_raw (o : list wresp) (m : list Z)
  : list wresp * list Z * list Z * option err :=
  let n := len m in
  if n >? MAXLEN then (o, [], [], Some EStruct)        (* struct.pack raises first *)
  else
    let header := be32 n in
    if n >? THRESH then
      let '(o1, w1, t1, e1) := send_loop o header in
      match e1 with
      | Some e => (o1, w1, t1, Some e)
      | None => let '(o2, w2, t2, e2) := send_loop o1 m in
                (o2, w1 ++ w2, t1 ++ t2, e2)
      end
    else send_loop o (header ++ m).

(* the checks of _ConnectionBase.send_bytes, in the order of the code;
   result: the slice bounds m[lo:hi] handed to _send_bytes *)
Definition send_args (c : conn) (n off : Z) (size : option Z) : err + (Z * Z) :=
  if closed c then inl EClosed
  else if negb (writable c) then inl ENotWritable
  else if off <? 0 then inl EOffNeg
  else if n <? off then inl EBufLtOff
  else match size with
       | None => inr (off, off + (n - off))
       | Some sz => if sz <? 0 then inl ESizeNeg
                    else if off + sz >? n then inl EBufLtOffSize
                    else inr (off, off + sz)
       end.

Definition send_bytes (c : conn) (o : list wresp) (buf : list Z) (off : Z) (size : option Z)
  : list wresp * list Z * list Z * option err :=
  match send_args c (len buf) off size with
  | inl e => (o, [], [], Some e)
  | inr (lo, hi) => send_bytes_raw o (slice lo hi buf)
  end.

(* ------------------------------------------------------------------ *)
(* Buffers as the buffer protocol exposes them.  `send_bytes` accepts any
   C-contiguous buffer: its bytes, the width of one item and its shape.  For a
   bytes / bytearray / 1-D memoryview object the shape is [number of items].
   What the code computes with is NOT the byte count: `len(m)` is the FIRST
   dimension, `m[a:b]` selects rows a..b of the first dimension, and only
   buffers with items wider than a byte are first re-viewed as flat bytes
   (`if m.itemsize > 1: m = memoryview(bytes(m))`). *)
Record pybuf := mkbuf { pb_bytes : list Z; pb_item : Z; pb_shape : list Z }.
Definition prod (l : list Z) : Z := fold_right Z.mul 1 l.
(* a 1-D buffer of bytes *)
Definition flat (l : list Z) : pybuf := mkbuf l 1 [len l].

(* the view send_bytes slices: (len(m), bytes per row); None = 0-dimensional,
   len(m) raises TypeError *)
Definition view_of (b : pybuf) : option (Z * Z) :=
  if pb_item b >? 1 then Some (len (pb_bytes b), 1)          (* memoryview(bytes(m)) *)
  else match pb_shape b with
       | [] => None
       | d0 :: rest => Some (d0, prod rest)
       end.

(* Connection._send on a view whose rows are rs bytes wide.  `remaining`
   starts as len(buf) = number of ROWS, write() returns a number of BYTES n,
   `remaining -= n`, and `buf = buf[n:]` drops n ROWS (n * rs bytes).  With
   rs = 1 and remaining = len buf this is send_loop.  When the script is used
   up the OS takes everything that is offered; if `remaining` is then not 0 the
   next buffer has no bytes, every later write() returns 0 and nothing changes
   any more: the call never returns (ESpin).  Trace: bytes offered per write(). *)
Fixpoint send_loop_sh (rs : Z) (o : list wresp) (remaining : Z) (buf : list Z)
  : list wresp * list Z * list Z * option err :=
  match o with
  | [] => if remaining - len buf =? 0 then ([], buf, [len buf], None)
          else ([], buf, (if len buf =? 0 then [] else [len buf]), Some ESpin)
  | WEintr :: o' =>
      let '(o2, w, t, e) := send_loop_sh rs o' remaining buf in (o2, w, len buf :: t, e)
  | WErr :: o' => (o', [], [len buf], Some EIo)
  | WAccept k :: o' =>
      let n := sys_write k buf in
      if remaining - n =? 0 then (o', take n buf, [len buf], None)
      else let '(o2, w, t, e) := send_loop_sh rs o' (remaining - n) (drop (n * rs) buf) in
           (o2, take n buf ++ w, len buf :: t, e)
  end.

(* Connection._send_bytes on a view of `rows` rows of rs bytes holding `payload`:
   n = len(buf) = rows goes into the header and decides the threshold;
   buf.tobytes() (all the bytes) is concatenated below the threshold *)
Definition send_raw_sh (o : list wresp) (rows rs : Z) (payload : list Z)
  : list wresp * list Z * list Z * option err :=
  if rows >? MAXLEN then (o, [], [], Some EStruct)
  else
    let header := be32 rows in
    if rows >? THRESH then
      let '(o1, w1, t1, e1) := send_loop o header in
      match e1 with
      | Some e => (o1, w1, t1, Some e)
      | None => let '(o2, w2, t2, e2) := send_loop_sh rs o1 rows payload in
                (o2, w1 ++ w2, t1 ++ t2, e2)
      end
    else send_loop o (header ++ payload).

(* _ConnectionBase.send_bytes on any buffer *)
Definition send_bytes_sh (c : conn) (o : list wresp) (b : pybuf) (off : Z) (size : option Z)
  : list wresp * list Z * list Z * option err :=
  match view_of b with
  | None => (o, [], [], Some (if closed c then EClosed
                              else if negb (writable c) then ENotWritable else ENoLen))
  | Some (rows, rs) =>
      match send_args c rows off size with
      | inl e => (o, [], [], Some e)
      | inr (lo, hi) => send_raw_sh o (hi - lo) rs (slice (lo * rs) (hi * rs) (pb_bytes b))
      end
  end.

(* what the caller asked for (documented meaning of offset / size: BYTES of the
   object): None when the request itself is out of range *)
Definition wanted (b : pybuf) (off : Z) (size : option Z) : option (list Z) :=
  let n := len (pb_bytes b) in
  if (off <? 0) || (n <? off) then None
  else match size with
       | None => Some (slice off n (pb_bytes b))
       | Some sz => if (sz <? 0) || (off + sz >? n) then None
                    else Some (slice off (off + sz) (pb_bytes b))
       end.

(* Connection._recv: the loop, entered with remaining > 0.
   result = (unused script, unread stream, `remaining` at each read() call,
             exception or the bytes) *)
Definition eof_err (remaining size : Z) : err :=
  if remaining =? size then EEof else EEofMid.

Fixpoint recv_loop (o : list rresp) (size remaining : Z) (stream : list Z)
  : list rresp * list Z * list Z * (err + list Z) :=
  match o with
  | [] =>
      let chunk := take remaining stream in
      let got := len chunk in
      if got =? remaining then ([], drop remaining stream, [remaining], inr chunk)
      else if got =? 0 then ([], stream, [remaining], inl (eof_err remaining size))
      else ([], [], [remaining; remaining - got], inl EEofMid)
  | REintr :: o' =>
      let '(o2, s2, t, r) := recv_loop o' size remaining stream in
      (o2, s2, remaining :: t, r)
  | RErr :: o' => (o', stream, [remaining], inl EIo)
  | RChunk k :: o' =>
      let chunk := take (sys_read k remaining) stream in
      let got := len chunk in
      if got =? 0 then (o', stream, [remaining], inl (eof_err remaining size))
      else if remaining - got >? 0 then
        let '(o2, s2, t, r) := recv_loop o' size (remaining - got) (drop got stream) in
        (o2, s2, remaining :: t,
         match r with inr d => inr (chunk ++ d) | inl e => inl e end)
      else (o', drop got stream, [remaining], inr chunk)
  end.

Definition recv_exact (o : list rresp) (size : Z) (stream : list Z)
  : list rresp * list Z * list Z * (err + list Z) :=
  if size >? 0 then recv_loop o size size stream
  else (o, stream, [], inr []).             (* `while remaining > 0` never entered *)

Definition over_max (size : Z) (maxsize : option Z) : bool :=
  match maxsize with Some mx => size >? mx | None => false end.

(* Connection._recv_bytes: inr None = `return None` (too long) *)
Definition recv_bytes_raw (o : list rresp) (stream : list Z) (maxsize : option Z)
  : list rresp * list Z * list Z * (err + option (list Z)) :=
  let '(o1, s1, t1, r1) := recv_exact o HDR stream in
  match r1 with
  | inl e => (o1, s1, t1, inl e)
  | inr h =>
      let size := dec32 h in
      if over_max size maxsize then (o1, s1, t1, inr None)
      else let '(o2, s2, t2, r2) := recv_exact o1 size s1 in
           (o2, s2, t1 ++ t2,
            match r2 with inl e => inl e | inr d => inr (Some d) end)
  end.

(* checks of recv_bytes before any I/O *)
Definition recv_args (c : conn) (maxlength : option Z) : option err :=
  if closed c then Some EClosed
  else if negb (readable c) then Some ENotReadable
  else match maxlength with
       | Some mx => if mx <? 0 then Some EMaxNeg else None
       | None => None
       end.

Definition recv_bytes (c : conn) (o : list rresp) (stream : list Z) (maxlength : option Z)
  : conn * list rresp * list Z * list Z * (err + list Z) :=
  match recv_args c maxlength with
  | Some e => (c, o, stream, [], inl e)
  | None =>
      let '(o1, s1, t1, r) := recv_bytes_raw o stream maxlength in
      match r with
      | inl e => (c, o1, s1, t1, inl e)
      | inr None => (bad_length c, o1, s1, t1, inl EBadLen)
      | inr (Some d) => (c, o1, s1, t1, inr d)
      end
  end.

(* checks of recv_bytes_into before any I/O; bytesize = itemsize * len(m) *)
Definition into_args (c : conn) (bytesize off : Z) : option err :=
  if closed c then Some EClosed
  else if negb (readable c) then Some ENotReadable
  else if off <? 0 then Some EIntoOffNeg
  else if off >? bytesize then Some EIntoOffBig
  else None.

(* result.readinto(m[offset // itemsize:(offset + size) // itemsize]) on a
   buffer whose items are `it` bytes wide *)
Definition readinto (buf : list Z) (it off : Z) (msg : list Z) : list Z :=
  let size := len msg in
  let lo := off / it in
  let hi := (off + size) / it in
  let cnt := Z.min size ((hi - lo) * it) in
  take (lo * it) buf ++ take cnt msg ++ drop (lo * it + cnt) buf.

(* result = (conn, script, stream, trace, exception or (size returned, buffer after)) *)
Definition recv_bytes_into (c : conn) (o : list rresp) (stream : list Z)
           (buf : list Z) (it off : Z)
  : conn * list rresp * list Z * list Z * (err + (Z * list Z)) :=
  let bytesize := it * (len buf / it) in
  match into_args c bytesize off with
  | Some e => (c, o, stream, [], inl e)
  | None =>
      let '(o1, s1, t1, r) := recv_bytes_raw o stream None in
      match r with
      | inl e => (c, o1, s1, t1, inl e)
      | inr None => (c, o1, s1, t1, inl EBadLen)    (* unreachable: no maxsize *)
      | inr (Some d) =>
          if bytesize <? off + len d then (c, o1, s1, t1, inl (ETooShort d))
          else (c, o1, s1, t1, inr (len d, readinto buf it off d))
      end
  end.

(* recv_bytes_into on a buffer of any shape: `len(m)` is the first dimension d0,
   so bytesize = itemsize * d0 (NOT the size in bytes unless the shape is 1-D),
   and m[lo:hi] selects ROWS lo..hi of it * rs bytes each (rs = product of the
   other dimensions).  A 0-dimensional buffer has no len(): TypeError. *)
Definition readinto_sh (buf : list Z) (it rs off : Z) (msg : list Z) : list Z :=
  let size := len msg in
  let lo := off / it in
  let hi := (off + size) / it in
  let w := it * rs in
  let cnt := Z.min size ((hi - lo) * w) in
  take (lo * w) buf ++ take cnt msg ++ drop (lo * w + cnt) buf.

Definition recv_bytes_into_sh (c : conn) (o : list rresp) (stream : list Z)
           (buf : list Z) (it : Z) (shape : list Z) (off : Z)
  : conn * list rresp * list Z * list Z * (err + (Z * list Z)) :=
  match shape with
  | [] => (c, o, stream, [], inl (if closed c then EClosed
                                  else if negb (readable c) then ENotReadable else ENoLen))
  | d0 :: rest =>
      let bytesize := it * d0 in
      match into_args c bytesize off with
      | Some e => (c, o, stream, [], inl e)
      | None =>
          let '(o1, s1, t1, r) := recv_bytes_raw o stream None in
          match r with
          | inl e => (c, o1, s1, t1, inl e)
          | inr None => (c, o1, s1, t1, inl EBadLen)    (* unreachable: no maxsize *)
          | inr (Some d) =>
              if bytesize <? off + len d then (c, o1, s1, t1, inl (ETooShort d))
              else (c, o1, s1, t1, inr (len d, readinto_sh buf it (prod rest) off d))
          end
      end
  end.

(* ------------------------------------------------------------------ *)
(* whole runs: a sender performs its operations, then the receiver      *)

Inductive sop := SSend (buf : list Z) (off : Z) (size : option Z) | SClose
                | SSendSh (b : pybuf) (off : Z) (size : option Z).
Inductive rop := RRecv (maxlength : option Z) | RInto (buf : list Z) (it off : Z) | RClose
                | RIntoSh (buf : list Z) (it : Z) (shape : list Z) (off : Z).

(* per-operation observation: error code (0 = returned normally) and flags *)
Definition flags (c : conn) : bool * bool * bool := (closed c, readable c, writable c).
Definition code_of (e : option err) : Z := match e with Some x => err_code x | None => 0 end.

Fixpoint run_sender (c : conn) (o : list wresp) (ops : list sop)
  : list Z * list Z * list (Z * (bool * bool * bool)) :=      (* wire, write trace, observations *)
  match ops with
  | [] => ([], [], [])
  | SClose :: r =>
      let c1 := close c in
      let '(w, t, obs) := run_sender c1 o r in (w, t, (0, flags c1) :: obs)
  | SSend buf off size :: r =>
      let '(o1, w1, t1, e) := send_bytes c o buf off size in
      let '(w, t, obs) := run_sender c o1 r in
      (w1 ++ w, t1 ++ t, (code_of e, flags c) :: obs)
  | SSendSh b off size :: r =>
      let '(o1, w1, t1, e) := send_bytes_sh c o b off size in
      let '(w, t, obs) := run_sender c o1 r in
      (w1 ++ w, t1 ++ t, (code_of e, flags c) :: obs)
  end.

(* receiver observation: code, bytes (returned / carried by BufferTooShort),
   size returned by recv_bytes_into (else -1), buffer after (recv_bytes_into), flags *)
Record robs := mk_robs { r_code : Z; r_data : list Z; r_ret : Z; r_buf : list Z;
                         r_flags : bool * bool * bool }.

Fixpoint run_receiver (c : conn) (o : list rresp) (stream : list Z) (ops : list rop)
  : list Z * list Z * list robs :=                     (* unread stream, read trace, observations *)
  match ops with
  | [] => (stream, [], [])
  | RClose :: r =>
      let c1 := close c in
      let '(s, t, obs) := run_receiver c1 o stream r in
      (s, t, mk_robs 0 [] (-1) [] (flags c1) :: obs)
  | RRecv mx :: r =>
      let '(c1, o1, s1, t1, res) := recv_bytes c o stream mx in
      let ob := match res with
                | inr d => mk_robs 0 d (-1) [] (flags c1)
                | inl (ETooShort m) => mk_robs 501 m (-1) [] (flags c1)
                | inl e => mk_robs (err_code e) [] (-1) [] (flags c1)
                end in
      let '(s, t, obs) := run_receiver c1 o1 s1 r in (s, t1 ++ t, ob :: obs)
  | RInto buf it off :: r =>
      let '(c1, o1, s1, t1, res) := recv_bytes_into c o stream buf it off in
      let ob := match res with
                | inr (n, b) => mk_robs 0 [] n b (flags c1)
                | inl (ETooShort m) => mk_robs 501 m (-1) buf (flags c1)
                | inl e => mk_robs (err_code e) [] (-1) buf (flags c1)
                end in
      let '(s, t, obs) := run_receiver c1 o1 s1 r in (s, t1 ++ t, ob :: obs)
  | RIntoSh buf it shape off :: r =>
      let '(c1, o1, s1, t1, res) := recv_bytes_into_sh c o stream buf it shape off in
      let ob := match res with
                | inr (n, b) => mk_robs 0 [] n b (flags c1)
                | inl (ETooShort m) => mk_robs 501 m (-1) buf (flags c1)
                | inl e => mk_robs (err_code e) [] (-1) buf (flags c1)
                end in
      let '(s, t, obs) := run_receiver c1 o1 s1 r in (s, t1 ++ t, ob :: obs)
  end.

(* ------------------------------------------------------------------ *)
(* property monitor on a run (used on implementation-agreeing cases):
   a recv_bytes_into that returns normally must have put the whole message at
   [off, off+n) and left every other byte of the buffer alone *)
Definition list_eqbZ := fix f (a b : list Z) : bool :=
  match a, b with
  | [], [] => true
  | x :: r, y :: t => (x =? y) && f r t
  | _, _ => false
  end.

(* given the message that was on the wire *)
Definition into_delivered (buf : list Z) (off : Z) (msg after : list Z) : bool :=
  list_eqbZ after (take off buf ++ msg ++ drop (off + len msg) buf).

(* ------------------------------------------------------------------ *)
(* compact byte strings for the correspondence                          *)

(* inputs: literal bytes or a generated pattern of n bytes *)
Inductive bsrc := BRaw (l : list Z) | BPat (n a b : Z).
Fixpoint pat_from (n : nat) (i a b : Z) : list Z :=
  match n with
  | O => []
  | S m => Z.land (Z.shiftr ((i + a) * (i + a)) 6 + b * i) 255 :: pat_from m (i + 1) a b
  end.
Definition expand (s : bsrc) : list Z :=
  match s with BRaw l => l | BPat n a b => pat_from (Z.to_nat n) 0 a b end.

(* observations: literal bytes or (length, sum, position-weighted sum) *)
Inductive blob := ORaw (l : list Z) | ODig (n s1 s2 : Z).
Definition digest (l : list Z) : Z * Z * Z :=
  fold_left (fun '(i, s1, s2) x => (i + 1, s1 + x, s2 + (i + 1) * x)) l (0, 0, 0).
Definition blob_ok (b : blob) (l : list Z) : bool :=
  match b with
  | ORaw x => list_eqbZ x l
  | ODig n s1 s2 => let '(n', a, c) := digest l in (n =? n') && (s1 =? a) && (s2 =? c)
  end.

Inductive csop := CSend (buf : bsrc) (off : Z) (size : option Z) | CSClose
                 | CSendSh (buf : bsrc) (it : Z) (shape : list Z) (off : Z) (size : option Z).
Inductive crop := CRecv (maxlength : option Z) | CInto (buf : bsrc) (it off : Z) | CRClose
                 | CIntoSh (buf : bsrc) (it : Z) (shape : list Z) (off : Z).
Definition sop_of (x : csop) : sop :=
  match x with
  | CSend b o s => SSend (expand b) o s
  | CSClose => SClose
  | CSendSh b it sh o s => SSendSh (mkbuf (expand b) it sh) o s
  end.
Definition rop_of (x : crop) : rop :=
  match x with
  | CRecv m => RRecv m | CInto b it o => RInto (expand b) it o | CRClose => RClose
  | CIntoSh b it sh o => RIntoSh (expand b) it sh o
  end.

From BV Require Import Lib.Cases.

Definition flags_eqb (a b : bool * bool * bool) : bool :=
  let '(a1, a2, a3) := a in let '(b1, b2, b3) := b in
  Bool.eqb a1 b1 && Bool.eqb a2 b2 && Bool.eqb a3 b3.

(* 0 same, 1 same exception class but another raise statement, 2 different *)
Definition code_cmp (m i : Z) : Z :=
  if m =? i then 0 else if kind_of_code m =? kind_of_code i then 1 else 2.

Definition sobs_cmp (m i : Z * (bool * bool * bool)) : Z :=
  if negb (flags_eqb (snd m) (snd i)) then 2 else code_cmp (fst m) (fst i).

(* implementation-side receiver observation *)
Definition irobs := (Z * blob * Z * blob * (bool * bool * bool))%type.
Definition robs_cmp (m : robs) (i : irobs) : Z :=
  let '(code, data, ret, buf, fl) := i in
  if negb (flags_eqb (r_flags m) fl) then 2
  else if negb (blob_ok data (r_data m)) then 2
  else if negb (r_ret m =? ret) then 2
  else if negb (blob_ok buf (r_buf m)) then 2
  else code_cmp (r_code m) code.

Fixpoint zip_max {A B} (f : A -> B -> Z) (a : list A) (b : list B) : Z :=
  match a, b with
  | [], [] => 0
  | x :: r, y :: t => Z.max (f x y) (zip_max f r t)
  | _, _ => 2
  end.

(* the messages a receiver should see, for the monitor: decode the model's own
   stream greedily (only used when the sender produced it, i.e. it is well formed) *)
Fixpoint monitor_into (ops : list rop) (obs : list robs) (msgs : list (list Z)) : bool :=
  match ops, obs with
  | [], _ | _, [] => true
  | op :: r, ob :: t =>
      match msgs with
      | [] => true
      | m :: ms =>
          match op with
          | RClose => monitor_into r t msgs
          | RRecv _ => if r_code ob =? 0 then list_eqbZ (r_data ob) m && monitor_into r t ms
                       else true
          | RInto buf it off =>
              if r_code ob =? 0 then into_delivered buf off m (r_buf ob) && monitor_into r t ms
              else if r_code ob =? 501 then monitor_into r t ms
              else true
          | RIntoSh buf it shape off =>
              if r_code ob =? 0 then into_delivered buf off m (r_buf ob) && monitor_into r t ms
              else if r_code ob =? 501 then monitor_into r t ms
              else true
          end
      end
  end.

(* the messages the receiver is entitled to, in order: for every send operation
   that returned normally, the bytes of the object that the caller named (for a
   1-D byte buffer that is what send_args selects; for any other buffer the
   documented byte range, `wanted`; a request outside the object that was
   nevertheless accepted can match nothing: [-1]) *)
Fixpoint sent_msgs (c : conn) (ops : list sop) (obs : list (Z * (bool * bool * bool)))
  : list (list Z) :=
  match ops, obs with
  | SClose :: r, _ :: t => sent_msgs (close c) r t
  | SSend buf off size :: r, (code, _) :: t =>
      match send_args c (len buf) off size with
      | inr (lo, hi) => if code =? 0 then slice lo hi buf :: sent_msgs c r t
                        else sent_msgs c r t
      | inl _ => sent_msgs c r t
      end
  | SSendSh b off size :: r, (code, _) :: t =>
      if code =? 0 then
        match wanted b off size with
        | Some m => m :: sent_msgs c r t
        | None => [-1] :: sent_msgs c r t
        end
      else sent_msgs c r t
  | _, _ => []
  end.
(* no write was cut short by an I/O error (the wire holds whole messages only) *)
Definition no_io_error (obs : list (Z * (bool * bool * bool))) : bool :=
  forallb (fun x => negb (fst x =? 106)) obs.
(* a send_bytes call that never returns *)
Definition some_spin (obs : list (Z * (bool * bool * bool))) : bool :=
  existsb (fun x => fst x =? 701) obs.
(* sender-side monitor: when no write failed, the wire is exactly the framed
   messages the caller named, one after the other (so every message, and the
   one after it, can be received intact: C13_roundtrip) *)
Definition wire_framed (wire : list Z) (msgs : list (list Z)) : bool :=
  list_eqbZ wire (concat (map encode msgs)).

(* one correspondence case:
   sender flags, write script, sender ops, extra raw bytes appended to the wire,
   optional cut (stream = first `cut` bytes, then the peer closes),
   receiver flags, read script, receiver ops;
   implementation: sender observations, wire, write trace,
                   receiver observations, unread byte count, read trace.
   (constructors with monomorphic arguments: nested tuples elaborate slowly) *)
Inductive isob := SO (code : Z) (fc fr fw : bool).
Inductive irob := RO (code : Z) (data : blob) (ret : Z) (buf : blob) (fc fr fw : bool).
Inductive case :=
  Case (sr sw : bool) (wo : list wresp) (sops : list csop) (extra : bsrc) (cut : option Z)
       (rr rw : bool) (ro : list rresp) (rops : list crop)
       (isobs : list isob) (iwire : blob) (iwtrace : list Z)
       (irobs : list irob) (ileft : Z) (irtrace : list Z).

Definition isob_cmp (m : Z * (bool * bool * bool)) (i : isob) : Z :=
  let 'SO code fc fr fw := i in sobs_cmp m (code, (fc, fr, fw)).
Definition irob_cmp (m : robs) (i : irob) : Z :=
  let 'RO code data ret buf fc fr fw := i in robs_cmp m (code, data, ret, buf, (fc, fr, fw)).

(* 0 agree; 1 only internal detail differs (which raise statement of the same
   class, sizes passed to read()/write()); 2 a property-relevant observable
   differs (bytes, exception class, flags, bytes left unread);
   3 model and implementation agree but the run violates the delivery monitor
     of recv_bytes_into;
   4 model and implementation agree but what was put on the wire / delivered is
     not the sequence of messages the sender named (send-side monitor);
   5 model and implementation agree that a send_bytes call never returns *)
Definition check_case (c : case) : Z :=
  let 'Case sr sw wo sops extra cut rr rw ro rops isobs iwire iwtrace irobs_ ileft irtrace := c in
  let sc := mkc false sr sw in
  let rc := mkc false rr rw in
  let sops' := map sop_of sops in
  let rops' := map rop_of rops in
  let '(wire, wtrace, sobs) := run_sender sc wo sops' in
  let full := wire ++ expand extra in
  let stream := match cut with Some k => take k full | None => full end in
  let '(unread, rtrace, robs_) := run_receiver rc ro stream rops' in
  let a := zip_max isob_cmp sobs isobs in
  let b := if blob_ok iwire wire then 0 else 2 in
  let d := zip_max irob_cmp robs_ irobs_ in
  let e := if len unread =? ileft then 0 else 2 in
  let f := if list_eqb Z.eqb wtrace iwtrace && list_eqb Z.eqb rtrace irtrace then 0 else 1 in
  let worst := Z.max a (Z.max b (Z.max d (Z.max e f))) in
  if negb (worst =? 0) then worst
  else
    if some_spin sobs then 5
    else
    let msgs := sent_msgs sc sops' sobs in
    if no_io_error sobs && negb (wire_framed wire msgs) then 4
    else
    let clean := match cut with None => true | Some _ => false end
                 && (len (expand extra) =? 0) && no_io_error sobs in
    if clean && negb (monitor_into rops' robs_ msgs) then 3 else 0.

(* what the model expects for a case, for `./check C13 --replay`: sender
   observations, (length, sums) and first bytes of the wire, write trace, receiver
   observations (code, length and first bytes of the data, returned size, first
   bytes of the buffer, flags), unread bytes, read trace *)
Definition model_view (c : case) :=
  let 'Case sr sw wo sops extra cut rr rw ro rops _ _ _ _ _ _ := c in
  let '(wire, wtrace, sobs) := run_sender (mkc false sr sw) wo (map sop_of sops) in
  let full := wire ++ expand extra in
  let stream := match cut with Some k => take k full | None => full end in
  let '(unread, rtrace, robs_) := run_receiver (mkc false rr rw) ro stream (map rop_of rops) in
  (sobs, (digest wire, take 24 wire), wtrace,
   map (fun r => (r_code r, len (r_data r), take 24 (r_data r), r_ret r, take 24 (r_buf r), r_flags r)) robs_,
   len unread, rtrace).
