(* C15: DROPPING shared ctypes objects in a multi-process setting, on top of Model/SharedHop.v.
   Executable, no proofs in here.

   heap.BufferWrapper registers its finaliser -- util.Finalize(self, BufferWrapper._heap.free, args=(block,)) --
   in __init__ only.  The wrapper a receiving process gets by unpickling is made WITHOUT __init__ (its state
   (block, size) is copied): it has no finaliser, and the owner's heap knows nothing about it.  Hence

     * dropping a handle that was made by allocation (HNew: the original) frees its block in the owner's heap,
       whoever else still holds a handle on that storage -- another process, or the owner itself through a
       handle it received back;
     * dropping a received handle frees nothing.

   The receiver's mapping of the arena stays (arenas are never unmapped), so a live handle whose original was
   dropped keeps reading and writing the owner's cells -- which the owner's allocator hands out again.

   State = SharedHop.hsys + one pair of flags per handle: (made by HNew, still live). *)
From Coq Require Import ZArith List Bool.
From BV Require Import Lib.PyVal Lib.Cases Model.Heap Model.SharedMem Model.SharedHop.
Import ListNotations.
Open Scope Z_scope.

Record dsys := mk_dsys { d_sys : hsys; d_flags : list (bool * bool) }.
Definition dsys_init (hsize : Z) : dsys := mk_dsys (hsys_init hsize) [].

Inductive dop :=
| DOp (o : hop)        (* spawn / allocate / hand over / store, as in SharedHop *)
| DDrop (k : nat).     (* the last reference to handle k goes away in the process holding it *)

Definition is_live (fl : list (bool * bool)) (k : nat) : bool :=
  match nth_error fl k with Some (_, true) => true | _ => false end.

(* the handle an op goes through (it must still exist), and the flags of the handle it creates *)
Definition hop_uses (o : hop) : option nat :=
  match o with HSend k _ => Some k | HWrite k _ _ => Some k | _ => None end.
Definition hop_flags (o : hop) : list (bool * bool) :=
  match o with HNew _ _ _ _ _ => [(true, true)] | HSend _ _ => [(false, true)] | _ => [] end.

Definition dstep (pg hsize : Z) (s : dsys) (o : dop) : res dsys :=
  match o with
  | DOp h =>
      if match hop_uses h with Some k => is_live (d_flags s) k | None => true end
      then do s' <- hstep pg hsize new_value_prog rebuild_prog (d_sys s) h;
           OK (mk_dsys s' (d_flags s ++ hop_flags h))
      else Err KeyError
  | DDrop k =>
      match nth_error (d_flags s) k, nth_error (hs_handles (d_sys s)) k with
      | Some (orig, true), Some h =>
          let fl' := set_nth (d_flags s) k (orig, false) in
          match orig, h_store h with
          | true, HShared owner ob =>
              (* the wrapper made by BufferWrapper.__init__: its finaliser calls heap.free(block) *)
              match nth_error (hs_procs (d_sys s)) owner with
              | Some pr =>
                  do sm' <- drop (p_sm pr) ob;
                  OK (mk_dsys (mk_hsys (set_nth (hs_procs (d_sys s)) owner (mk_proc sm' (p_reg pr)))
                                       (hs_handles (d_sys s))) fl')
              | None => Err KeyError
              end
          | _, _ => OK (mk_dsys (d_sys s) fl')     (* a wrapper rebuilt by unpickling has no finaliser *)
          end
      | _, _ => Err KeyError
      end
  end.

Fixpoint drun (pg hsize : Z) (s : dsys) (ops : list dop) : res dsys :=
  match ops with
  | [] => OK s
  | o :: r => do s' <- dstep pg hsize s o; drun pg hsize s' r
  end.

(* the SharedHop ops of a history (drops create no handle and no process): roots (hops_of ops) gives for
   every handle the allocation it descends from *)
Fixpoint hops_of (ops : list dop) : list hop :=
  match ops with
  | [] => []
  | DOp o :: r => o :: hops_of r
  | DDrop _ :: r => hops_of r
  end.
Definition droots (ops : list dop) : list nat := roots (hops_of ops).

(* ---- the discipline under which isolation holds: an original is dropped only when no OTHER live handle
   descends from it (the owner keeps its object until every receiver is done with it).  A function of the
   history alone. *)
Definition no_live_relative (rt : list nat) (fl : list (bool * bool)) (k : nat) : bool :=
  forallb (fun j => Nat.eqb j k || negb (is_live fl j) || negb (Nat.eqb (nth j rt O) (nth k rt O)))
          (seq 0 (length fl)).

Fixpoint disciplined_from (rt : list nat) (fl : list (bool * bool)) (ops : list dop) : bool :=
  match ops with
  | [] => true
  | DOp o :: r => disciplined_from (roots_from rt [o]) (fl ++ hop_flags o) r
  | DDrop k :: r =>
      match nth_error fl k with
      | Some (orig, _) =>
          (if orig then no_live_relative rt fl k else true) && disciplined_from rt (set_nth fl k (orig, false)) r
      | None => disciplined_from rt fl r
      end
  end.
Definition disciplined (ops : list dop) : bool := disciplined_from [] [] ops.

(* ---- correspondence ------------------------------------------------------------------- *)
(* observation after every op: the handle it created as in SharedHop.hobs, and bytes(h) of every LIVE handle *)
Definition dobs := ((Z * block * Z) * list (nat * list Z))%type.

Fixpoint live_hreads (s : hsys) (hs : list handle) (fl : list (bool * bool)) (i : nat) : list (nat * list Z) :=
  match hs, fl with
  | h :: r, (_, true) :: fr => (i, hread s h) :: live_hreads s r fr (S i)
  | _ :: r, _ :: fr => live_hreads s r fr (S i)
  | _, _ => []
  end.

Fixpoint dobserve (pg hsize : Z) (s : dsys) (ops : list dop) : list dobs :=
  match ops with
  | [] => []
  | o :: r =>
    match dstep pg hsize s o with
    | Err _ => [((-2, (-2, -2, -2), -2), [])]
    | OK s' => (created (d_sys s) (d_sys s'), live_hreads (d_sys s') (hs_handles (d_sys s')) (d_flags s') O)
               :: dobserve pg hsize s' r
    end
  end.

Definition dobs_eqb (a b : dobs) : bool :=
  let '((w1, b1, s1), r1) := a in let '((w2, b2, s2), r2) := b in
  (w1 =? w2) && block_eqb b1 b2 && (s1 =? s2) && reads_eqb r1 r2.

(* case = page size, Heap(size) of every process, ops, implementation observations *)
Definition dcase := (Z * Z * list dop * list dobs)%type.
Definition check_dcase (c : dcase) : Z :=
  let '(pg, hsize, ops, obs) := c in
  if list_eqb dobs_eqb obs (dobserve pg hsize (dsys_init hsize) ops) then 0 else 1.
