(* PoolSys -- the CLOSED composition for apply jobs, crash free:

     client ──apply_async──▶ parent (Model/Pool.v) ──task queue──▶ TaskHandler ──pipe──▶ workers
        ▲                                                                                  │
        └──────── handle resolved ◀── ResultHandler (parent: EAck / EReady) ◀──result pipe──┘

   The parent component is the pool model itself (every parent transition below IS a
   [Pool.step], so every theorem about [Pool.run] applies to the parent of every reachable
   system state, see Proofs/PoolSysProofs.v [sreach_is_run]).  The worker component is the
   protocol proved for the worker loop in the C03 family (take a task, send ACK, run it, send
   READY, in this order); pipes are FIFO (C13/C16).  No worker dies, no limit fires and nobody
   calls close()/terminate(): this model is what "nothing goes wrong" means, and its
   theorems are the liveness half of C01/C07/C10 for that case -- every schedule is finite,
   never stuck before the end, and ends with every job resolved exactly once with its own
   result and every slot back. *)
From Coq Require Import ZArith List Bool Lia.
From BV Require Import Model.LaxSem Model.Restart Model.Pool.
Import ListNotations.
Open Scope Z_scope.

Inductive msg := MAck (j p : Z) | MReady (j p : Z) (ok : bool) (tag : Z).

(* the value the task of job [j] computes (abstract tag, distinct per job) *)
Definition tag_of (j : Z) : Z := j.

(* what the task of job j does: returns its value, or raises (for the jobs listed in [bad]) *)
Definition task_ok (bad : list Z) (j : Z) : bool := negb (memZ j bad).
Definition outcome_of (bad : list Z) (j : Z) : payload :=
  if task_ok bad j then PValue (tag_of j) else PExc (tag_of j).

Record sys := mksys {
  par : pool;
  bad : list Z;               (* the jobs whose task raises an exception (fixed from the start) *)
  todo : nat;                 (* apply_async calls the client has still to make *)
  taskq : list Z;             (* Pool._taskqueue: submitted, not yet written to the pipe *)
  inq : list Z;               (* tasks in the pipe to the workers *)
  wk : list (option Z);       (* per worker of Pool._pool (same order): the job it is running *)
  outq : list msg             (* the result pipe *)
}.

Inductive sstep :=
| SSubmit            (* the client calls apply_async (blocks while no slot is free) *)
| SPut               (* TaskHandler writes the next task to the pipe *)
| STake (i : nat)    (* worker i receives a task and acknowledges it *)
| SFinish (i : nat)  (* worker i finishes its task and sends the result *)
| SRecv              (* ResultHandler handles the next message *)
| SClose.            (* the client calls close() (once); later apply_async calls are refused *)

Definition worker_pid (y : sys) (i : nat) : Z := nth i (wlist (par y)) 0.

Definition sys_step (y : sys) (a : sstep) : option sys :=
  match a with
  | SSubmit =>
    match todo y with
    | O => None
    | S k =>
      match step (par y) (EApply None None None None) with
      | (s', RNone) => Some (mksys s' (bad y) k (taskq y ++ [Z.of_nat (length (jobs (par y)))]) (inq y) (wk y) (outq y))
      | (s', RRefused) => Some (mksys s' (bad y) k (taskq y) (inq y) (wk y) (outq y))   (* after close(): no job *)
      | _ => None                                                               (* no free slot: the client waits *)
      end
    end
  | SPut =>
    match taskq y with
    | [] => None
    | j :: r => Some (mksys (par y) (bad y) (todo y) r (inq y ++ [j]) (wk y) (outq y))
    end
  | STake i =>
    match nth_error (wk y) i, inq y with
    | Some None, j :: r =>
      Some (mksys (par y) (bad y) (todo y) (taskq y) r (upd_nth i (fun _ => Some j) (wk y))
                  (outq y ++ [MAck j (worker_pid y i)]))
    | _, _ => None
    end
  | SFinish i =>
    match nth_error (wk y) i with
    | Some (Some j) =>
      Some (mksys (par y) (bad y) (todo y) (taskq y) (inq y) (upd_nth i (fun _ => None) (wk y))
                  (outq y ++ [MReady j (worker_pid y i) (task_ok (bad y) j) (tag_of j)]))
    | _ => None
    end
  | SRecv =>
    match outq y with
    | [] => None
    | MAck j p :: r =>
      Some (mksys (fst (step (par y) (EAck j None p))) (bad y) (todo y) (taskq y) (inq y) (wk y) r)
    | MReady j p ok t :: r =>
      Some (mksys (fst (step (par y) (EReady j None ok t))) (bad y) (todo y) (taskq y) (inq y) (wk y) r)
    end
  | SClose =>
    if pstate (par y) =? 0
    then Some (mksys (fst (step (par y) EClose)) (bad y) (todo y) (taskq y) (inq y) (wk y) (outq y))
    else None
  end.

Definition sinit_bad (c : config) (n : nat) (bad : list Z) : sys :=
  mksys (init c) bad n [] [] (repeat None (Z.to_nat (c_n c))) [].
Definition sinit (c : config) (n : nat) : sys := sinit_bad c n [].

Fixpoint srun (y : sys) (sched : list sstep) : option sys :=
  match sched with
  | [] => Some y
  | a :: r => match sys_step y a with Some y' => srun y' r | None => None end
  end.

(* the parent events a schedule amounts to (for the correspondence: the same events are
   driven through the real code by the pool driver) *)
Fixpoint events_of (y : sys) (sched : list sstep) : list event :=
  match sched with
  | [] => []
  | a :: r =>
    match sys_step y a with
    | None => []
    | Some y' =>
      (match a, outq y with
       | SSubmit, _ => [EApply None None None None]
       | SClose, _ => [EClose]
       | SRecv, MAck j p :: _ => [EAck j None p]
       | SRecv, MReady j p ok t :: _ => [EReady j None ok t]
       | _, _ => []
       end) ++ events_of y' r
    end
  end.

Definition readys (q : list msg) : list Z :=
  flat_map (fun m => match m with MReady j _ _ _ => [j] | MAck _ _ => [] end) q.

(* where the unresolved jobs are *)
Definition tokens (y : sys) : list Z := taskq y ++ inq y ++ somes (wk y) ++ readys (outq y).

(* the work still to do, apart from calling close() *)
Definition work (y : sys) : nat :=
  (6 * todo y + 5 * length (taskq y) + 4 * length (inq y) + 2 * length (somes (wk y)) + length (outq y))%nat.

Definition measure (y : sys) : nat := (work y + (if Z.eqb (pstate (par y)) 0 then 1 else 0))%nat.

(* a deterministic scheduler, for evaluation and for generating schedules: the first enabled
   step in a fixed order, rotated by a seed *)
Definition candidates (y : sys) : list sstep :=
  [SRecv; SSubmit; SPut; SClose] ++ flat_map (fun i => [SFinish i; STake i]) (seq 0 (length (wk y))).

Fixpoint rotate {A} (n : nat) (l : list A) : list A :=
  match n, l with
  | S k, x :: r => rotate k (r ++ [x])
  | _, _ => l
  end.

Definition pick (y : sys) (seed : nat) : option sstep :=
  find (fun a => match sys_step y a with Some _ => true | None => false end)
       (rotate (seed mod 7) (candidates y)).

Fixpoint auto_run (fuel : nat) (seeds : list nat) (y : sys) : sys * list sstep :=
  match fuel with
  | O => (y, [])
  | S f =>
    let sd := hd O seeds in
    match pick y sd with
    | None => (y, [])
    | Some a =>
      match sys_step y a with
      | Some y' => let (z, l) := auto_run f (tl seeds) y' in (z, a :: l)
      | None => (y, [])
      end
    end
  end.

(* ------------------------------------------------------------------ correspondence
   A closed-system case: the schedule the harness chose (it keeps the queues and the workers'
   protocol state itself and drives the REAL parent-side code as the parent), the parent events
   it issued, the implementation's observation after each of them, and whether the harness
   found no step enabled at the end. *)
From BV Require Import Lib.Cases.
Definition event_eqb (a b : event) : bool :=
  match a, b with
  | EApply None None None None, EApply None None None None => true
  | EAck j None p, EAck j' None p' => (j =? j') && (p =? p')
  | EReady j None ok t, EReady j' None ok' t' => (j =? j') && Bool.eqb ok ok' && (t =? t')
  | EClose, EClose => true
  | _, _ => false
  end.

Definition sys_case := (config * nat * list Z * list sstep * list event * list obs * bool)%type.

Definition check_sys_case (c : sys_case) : Z :=
  let '(cfg, n, bad, sched, evs, os, maximal) := c in
  match srun (sinit_bad cfg n bad) sched with
  | None => 7001         (* the implementation took a step that is not enabled in the model *)
  | Some y =>
    if negb (list_eqb event_eqb (events_of (sinit_bad cfg n bad) sched) evs) then 7002
    else if maximal && negb (Nat.eqb (work y) 0) then 7003   (* nothing but close() can move, yet the model has work left *)
    else if negb maximal && Nat.eqb (work y) 0 then 7004     (* work left where the model has none *)
    else Pool.check_case (cfg, evs, os)
  end.
