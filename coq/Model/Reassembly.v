(* Reassembly: executable model of how billiard.pool cuts an input into chunks
   and puts the results back together.

     Pool._get_tasks, Pool._map_async (chunk-size arithmetic), mapstar/starmapstar,
     MapResult.__init__/_set/_ack/get, IMapIterator.__init__/_set/_set_length/next,
     IMapUnorderedIterator._set, the flattening generator of imap(chunksize > 1),
     ApplyResult._set/_ack/get.

   The model follows the code that exists: where the code raises, the step
   returns the exception kind next to the (possibly partially updated) state.
   No proofs in here. *)
From Coq Require Import ZArith List Bool.
From BV Require Import Lib.PyVal Lib.Cases.
Import ListNotations.
Open Scope Z_scope.

(* ------------------------------------------------------------------ *)
(* 1. chunking: Pool._get_tasks = repeated tuple(islice(it, size))      *)

Fixpoint chunks_fuel {A} (fuel : nat) (l : list A) (k : nat) : list (list A) :=
  match fuel with
  | O => []
  | S f => match firstn k l with
           | [] => []                       (* `if not x: return` *)
           | c => c :: chunks_fuel f (skipn k l) k
           end
  end.

(* one more round than there are elements: the last round sees the empty tuple *)
Definition chunks {A} (l : list A) (k : nat) : list (list A) :=
  chunks_fuel (S (length l)) l k.

(* islice(it, size) raises ValueError for a negative size (on first use) *)
Definition get_tasks {A} (l : list A) (size : Z) : option (list (list A)) :=
  if size <? 0 then None else Some (chunks l (Z.to_nat size)).

(* mapstar((f, chunk)) = list(map(f, chunk)); starmapstar = list(starmap(f, chunk)) *)
Definition mapstar {A B} (f : A -> B) (c : list A) : list B := map f c.
Definition starmapstar {A1 A2 B} (f : A1 -> A2 -> B) (c : list (A1 * A2)) : list B :=
  map (fun p => f (fst p) (snd p)) c.

(* ------------------------------------------------------------------ *)
(* 2. chunk-size arithmetic of Pool._map_async                          *)

(* cs = the caller's chunksize argument (None = default), n = len(iterable),
   p = len(self._pool).  None = ZeroDivisionError (divmod by 0). *)
Definition resolve_chunksize (cs : option Z) (n p : Z) : option Z :=
  match cs with
  | None =>
      if p * 4 =? 0 then None
      else let q := n / (p * 4) in
           let c := if n mod (p * 4) =? 0 then q else q + 1 in
           Some (if n =? 0 then 0 else c)
  | Some c => Some (if n =? 0 then 0 else c)
  end.

Definition default_chunksize (n p : Z) : option Z := resolve_chunksize None n p.

(* MapResult.__init__: length // chunksize + bool(length % chunksize) *)
Definition number_left (n k : Z) : Z :=
  if k <=? 0 then 0 else n / k + (if n mod k =? 0 then 0 else 1).

(* ------------------------------------------------------------------ *)
(* 3. Python list slice assignment  v[a:b] = r  (step 1)                *)

Definition norm_idx (len x : Z) : Z :=
  if x <? 0 then Z.max 0 (x + len) else Z.min x len.

Definition slice_assign {A} (v : list A) (a b : Z) (r : list A) : list A :=
  let len := Z.of_nat (length v) in
  let a' := norm_idx len a in
  let b' := Z.max a' (norm_idx len b) in
  firstn (Z.to_nat a') v ++ r ++ skipn (Z.to_nat b') v.

(* l[j] = x with Python index semantics; None = IndexError *)
Fixpoint set_nth {A} (l : list A) (j : nat) (x : A) : list A :=
  match l, j with
  | [], _ => []
  | _ :: r, O => x :: r
  | y :: r, S j' => y :: set_nth r j' x
  end.
Definition py_setitem {A} (l : list A) (j : Z) (x : A) : option (list A) :=
  let len := Z.of_nat (length l) in
  let j' := if j <? 0 then j + len else j in
  if (0 <=? j') && (j' <? len) then Some (set_nth l (Z.to_nat j') x) else None.

(* ------------------------------------------------------------------ *)
(* 4. MapResult                                                         *)

Inductive mval (A E : Type) := VList (l : list A) | VErr (e : E).
Arguments VList {A E} l.
Arguments VErr {A E} e.

Record mres (A E : Type) := mk_mres {
  m_k : Z;                  (* _chunksize *)
  m_len : Z;                (* _length *)
  m_left : Z;               (* _number_left *)
  m_success : bool;         (* _success *)
  m_value : mval A E;       (* _value: the buffer, or the failure payload *)
  m_ready : bool;           (* _event.is_set() *)
  m_incache : bool;         (* self._job in cache *)
  m_has_cb : bool; m_has_ecb : bool;
  m_cb : list (list A);     (* arguments the success callback was called with *)
  m_ecb : list E;           (* arguments the error callback was called with *)
  m_accepted : list bool    (* _accepted (a list: its truth value is its non-emptiness) *)
}.
Arguments mk_mres {A E}.
Arguments m_k {A E}. Arguments m_len {A E}. Arguments m_left {A E}.
Arguments m_success {A E}. Arguments m_value {A E}. Arguments m_ready {A E}.
Arguments m_incache {A E}. Arguments m_has_cb {A E}. Arguments m_has_ecb {A E}.
Arguments m_cb {A E}. Arguments m_ecb {A E}. Arguments m_accepted {A E}.

(* `none` is Python's None as an element of the value type *)
Definition map_init {A E} (none : A) (n k : Z) (has_cb has_ecb : bool) : mres A E :=
  let buf := repeat none (Z.to_nat n) in
  let acc := repeat false (Z.to_nat n) in
  if k <=? 0
  then mk_mres k n 0 true (VList buf) true false has_cb has_ecb [] [] acc
  else mk_mres k n (number_left n k) true (VList buf) false true has_cb has_ecb [] [] acc.

Inductive mmsg (A E : Type) := MOk (i : Z) (r : list A) | MFail (i : Z) (e : E).
Arguments MOk {A E} i r.
Arguments MFail {A E} i e.

Definition list_truthy {X} (l : list X) : bool :=
  match l with [] => false | _ => true end.

(* MapResult._set(i, (success, result)) *)
Definition map_set {A E} (st : mres A E) (m : mmsg A E) : mres A E * option exn :=
  match m with
  | MOk i r =>
      match m_value st with
      | VErr _ => (st, Some TypeError)     (* item assignment on an ExceptionInfo *)
      | VList v =>
          let v' := slice_assign v (i * m_k st) ((i + 1) * m_k st) r in
          let left := m_left st - 1 in
          if left =? 0 then
            (mk_mres (m_k st) (m_len st) left (m_success st) (VList v') true
                     (if list_truthy (m_accepted st) then false else m_incache st)
                     (m_has_cb st) (m_has_ecb st)
                     (if m_has_cb st then m_cb st ++ [v'] else m_cb st)
                     (m_ecb st) (m_accepted st), None)
          else
            (mk_mres (m_k st) (m_len st) left (m_success st) (VList v') (m_ready st)
                     (m_incache st) (m_has_cb st) (m_has_ecb st) (m_cb st) (m_ecb st)
                     (m_accepted st), None)
      end
  | MFail i e =>
      (mk_mres (m_k st) (m_len st) (m_left st) false (VErr e) true
               (if list_truthy (m_accepted st) then false else m_incache st)
               (m_has_cb st) (m_has_ecb st) (m_cb st)
               (if m_has_ecb st then m_ecb st ++ [e] else m_ecb st)
               (m_accepted st), None)
  end.

(* what ResultHandler.on_ready does: look the job up in the cache first *)
Definition map_deliver {A E} (st : mres A E) (m : mmsg A E) : mres A E * option exn :=
  if m_incache st then map_set st m else (st, None).

(* MapResult._ack(i, ...): marks range(start, stop) *)
Fixpoint mark_range (acc : list bool) (start : Z) (cnt : nat) : list bool * option exn :=
  match cnt with
  | O => (acc, None)
  | S c => match py_setitem acc start true with
           | Some acc' => mark_range acc' (start + 1) c
           | None => (acc, Some IndexError)
           end
  end.

Definition ack_start (i k : Z) : Z := i * k.
Definition ack_stop (i k len : Z) : Z := Z.min ((i + 1) * k) len.

Definition map_ack {A E} (st : mres A E) (i : Z) : mres A E * option exn :=
  let start := ack_start i (m_k st) in
  let stop := ack_stop i (m_k st) (m_len st) in
  let '(acc, e) := mark_range (m_accepted st) start (Z.to_nat (stop - start)) in
  match e with
  | Some x =>
      (mk_mres (m_k st) (m_len st) (m_left st) (m_success st) (m_value st) (m_ready st)
               (m_incache st) (m_has_cb st) (m_has_ecb st) (m_cb st) (m_ecb st) acc, Some x)
  | None =>
      (mk_mres (m_k st) (m_len st) (m_left st) (m_success st) (m_value st) (m_ready st)
               (if m_ready st then false else m_incache st)
               (m_has_cb st) (m_has_ecb st) (m_cb st) (m_ecb st) acc, None)
  end.

(* what an operation shows to its caller *)
Inductive out (A E : Type) :=
| OUnit                      (* returned None *)
| OExn (e : exn)             (* raised a Python-level error of that kind *)
| OList (l : list A)         (* get() of a map returned this list *)
| OYield (a : A)             (* get() of apply / next() returned this value *)
| ORaise (e : E)             (* get() re-raised payload e / next() raised Exception(e) *)
| OStop                      (* StopIteration *)
| OTimeout.                  (* TimeoutError: nothing available yet *)
Arguments OUnit {A E}. Arguments OExn {A E} e. Arguments OList {A E} l.
Arguments OYield {A E} a. Arguments ORaise {A E} e. Arguments OStop {A E}.
Arguments OTimeout {A E}.

Definition exn_out {A E} (e : option exn) : out A E :=
  match e with Some x => OExn x | None => OUnit end.

(* ApplyResult.get(timeout=0) on a MapResult *)
Definition map_get {A E} (st : mres A E) : out A E :=
  if m_ready st then
    if m_success st then
      match m_value st with VList v => OList v | VErr e => ORaise e end
    else
      match m_value st with
      | VErr e => ORaise e
      | VList _ => OExn TypeError   (* unreachable: _success is cleared only with a payload *)
      end
  else OTimeout.

Inductive mop (A E : Type) :=
| MSet (m : mmsg A E)        (* item._set(i, obj) called directly *)
| MDeliver (m : mmsg A E)    (* through the cache look-up of on_ready *)
| MAck (i : Z)
| MGet.
Arguments MSet {A E} m. Arguments MDeliver {A E} m. Arguments MAck {A E} i.
Arguments MGet {A E}.

Definition map_op {A E} (st : mres A E) (o : mop A E) : mres A E * out A E :=
  match o with
  | MSet m => let (s, e) := map_set st m in (s, exn_out e)
  | MDeliver m => let (s, e) := map_deliver st m in (s, exn_out e)
  | MAck i => let (s, e) := map_ack st i in (s, exn_out e)
  | MGet => (st, map_get st)
  end.

Fixpoint map_run {A E} (st : mres A E) (ops : list (mop A E)) : mres A E * list (out A E) :=
  match ops with
  | [] => (st, [])
  | o :: r => let (s1, x) := map_op st o in
              let (s2, xs) := map_run s1 r in (s2, x :: xs)
  end.

(* Pool._map_async as far as reassembly is concerned: the fresh MapResult and the
   batches the task generator put on the queue will produce.  None = the call
   raised ZeroDivisionError (default arithmetic with an empty pool); batches None =
   drawing them raises ValueError (islice with a negative size; this happens later,
   in the task handler thread, after the MapResult exists). *)
Definition map_async {A B E} (none : B) (l : list A) (cs : option Z) (p : Z)
  : option (Z * option (list (list A)) * mres B E) :=
  let n := Z.of_nat (length l) in
  match resolve_chunksize cs n p with
  | None => None
  | Some k => Some (k, get_tasks l k, map_init none n k false false)
  end.

(* ------------------------------------------------------------------ *)
(* 5. IMapIterator / IMapUnorderedIterator                              *)

Inductive item (V E : Type) := Good (v : V) | Bad (e : E).   (* (True, v) | (False, e) *)
Arguments Good {V E} v.
Arguments Bad {V E} e.

(* the _unsorted dict: only get / set / pop by key are used *)
Fixpoint dict_get {B} (d : list (Z * B)) (k : Z) : option B :=
  match d with
  | [] => None
  | (k', v) :: r => if k' =? k then Some v else dict_get r k
  end.
Fixpoint dict_remove {B} (d : list (Z * B)) (k : Z) : list (Z * B) :=
  match d with
  | [] => []
  | (k', v) :: r => if k' =? k then dict_remove r k else (k', v) :: dict_remove r k
  end.
Definition dict_set {B} (d : list (Z * B)) (k : Z) (v : B) : list (Z * B) :=
  (k, v) :: dict_remove d k.

Record istate (B : Type) := mk_ist {
  i_items : list B;            (* _items (deque) *)
  i_index : Z;                 (* _index *)
  i_length : option Z;         (* _length *)
  i_ready : bool;              (* _ready *)
  i_unsorted : list (Z * B);   (* _unsorted *)
  i_incache : bool             (* self._job in cache *)
}.
Arguments mk_ist {B}.
Arguments i_items {B}. Arguments i_index {B}. Arguments i_length {B}.
Arguments i_ready {B}. Arguments i_unsorted {B}. Arguments i_incache {B}.

Definition imap_init {B} : istate B := mk_ist [] 0 None false [] true.

Definition at_length {B} (st : istate B) : bool :=
  match i_length st with Some n => i_index st =? n | None => false end.

(* `if self._index == self._length: self._ready = True; del self._cache[self._job]` *)
Definition imap_finish {B} (st : istate B) : istate B * option exn :=
  if at_length st then
    (mk_ist (i_items st) (i_index st) (i_length st) true (i_unsorted st) false,
     if i_incache st then None else Some KeyError)
  else (st, None).

(* `while self._index in self._unsorted: ...` ; every round pops one entry *)
Fixpoint drain {B} (fuel : nat) (items : list B) (idx : Z) (d : list (Z * B))
  : list B * Z * list (Z * B) :=
  match fuel with
  | O => (items, idx, d)
  | S f => match dict_get d idx with
           | Some o => drain f (items ++ [o]) (idx + 1) (dict_remove d idx)
           | None => (items, idx, d)
           end
  end.

Definition imap_set {B} (st : istate B) (i : Z) (obj : B) : istate B * option exn :=
  if i_index st =? i then
    let '(items, idx, d) := drain (length (i_unsorted st)) (i_items st ++ [obj])
                                  (i_index st + 1) (i_unsorted st) in
    imap_finish (mk_ist items idx (i_length st) (i_ready st) d (i_incache st))
  else
    imap_finish (mk_ist (i_items st) (i_index st) (i_length st) (i_ready st)
                        (dict_set (i_unsorted st) i obj) (i_incache st)).

Definition imapu_set {B} (st : istate B) (i : Z) (obj : B) : istate B * option exn :=
  imap_finish (mk_ist (i_items st ++ [obj]) (i_index st + 1) (i_length st) (i_ready st)
                      (i_unsorted st) (i_incache st)).

Definition imap_set_length {B} (st : istate B) (n : Z) : istate B * option exn :=
  imap_finish (mk_ist (i_items st) (i_index st) (Some n) (i_ready st) (i_unsorted st)
                      (i_incache st)).

Inductive nres (B : Type) := NItem (b : B) | NStop | NTimeout.
Arguments NItem {B} b. Arguments NStop {B}. Arguments NTimeout {B}.

(* next(timeout=0) up to the point where the item is taken from the deque *)
Definition imap_pop {B} (st : istate B) : istate B * nres B :=
  match i_items st with
  | x :: r => (mk_ist r (i_index st) (i_length st) (i_ready st) (i_unsorted st) (i_incache st),
               NItem x)
  | [] => if at_length st
          then (mk_ist [] (i_index st) (i_length st) true (i_unsorted st) (i_incache st), NStop)
          else (st, NTimeout)
  end.

Definition item_out {V E} (r : nres (item V E)) : out V E :=
  match r with
  | NItem (Good v) => OYield v
  | NItem (Bad e) => ORaise e          (* raise Exception(value) *)
  | NStop => OStop
  | NTimeout => OTimeout
  end.

Definition imap_next {V E} (st : istate (item V E)) : istate (item V E) * out V E :=
  let (s, r) := imap_pop st in (s, item_out r).

Inductive iop (B : Type) :=
| ISet (i : Z) (b : B)          (* item._set(i, obj) *)
| IDeliver (i : Z) (b : B)      (* through the cache look-up of on_ready *)
| ISetLen (n : Z)
| INext.
Arguments ISet {B} i b. Arguments IDeliver {B} i b. Arguments ISetLen {B} n.
Arguments INext {B}.

(* the operations other than next(): new state and the exception raised, if any *)
Definition imap_ctl {B} (unordered : bool) (st : istate B) (o : iop B)
  : istate B * option exn :=
  let set := if unordered then imapu_set else imap_set in
  match o with
  | ISet i b => set st i b
  | IDeliver i b => if i_incache st then set st i b else (st, None)
  | ISetLen n => imap_set_length st n
  | INext => (st, None)
  end.

Definition imap_op {V E} (unordered : bool) (st : istate (item V E)) (o : iop (item V E))
  : istate (item V E) * out V E :=
  match o with
  | INext => imap_next st
  | _ => let (s, e) := imap_ctl unordered st o in (s, exn_out e)
  end.

Fixpoint imap_run {V E} (unordered : bool) (st : istate (item V E))
         (ops : list (iop (item V E))) : istate (item V E) * list (out V E) :=
  match ops with
  | [] => (st, [])
  | o :: r => let (s1, x) := imap_op unordered st o in
              let (s2, xs) := imap_run unordered s1 r in (s2, x :: xs)
  end.

(* ------------------------------------------------------------------ *)
(* 6. imap(chunksize > 1): (item for chunk in result for item in chunk)  *)

Record fstate (V E : Type) := mk_fst {
  f_inner : istate (item (list V) E);
  f_cur : list V;        (* rest of the chunk being handed out *)
  f_dead : bool          (* the generator has finished (returned or raised) *)
}.
Arguments mk_fst {V E}. Arguments f_inner {V E}. Arguments f_cur {V E}.
Arguments f_dead {V E}.

Definition flat_init {V E} : fstate V E := mk_fst imap_init [] false.

(* one next() on the generator; an exception inside a generator ends it *)
Fixpoint flat_pull {V E} (fuel : nat) (st : istate (item (list V) E))
  : fstate V E * out V E :=
  match imap_pop st with
  | (s, NItem (Good [])) =>
      match fuel with
      | O => (mk_fst s [] false, OTimeout)   (* not reached: fuel = S (length items) *)
      | S f => flat_pull f s
      end
  | (s, NItem (Good (x :: r))) => (mk_fst s r false, OYield x)
  | (s, NItem (Bad e)) => (mk_fst s [] true, ORaise e)
  | (s, NStop) => (mk_fst s [] true, OStop)
  | (s, NTimeout) => (mk_fst s [] false, OTimeout)   (* would block *)
  end.

Definition flat_next {V E} (st : fstate V E) : fstate V E * out V E :=
  if f_dead st then (st, OStop)
  else match f_cur st with
       | x :: r => (mk_fst (f_inner st) r false, OYield x)
       | [] => flat_pull (S (length (i_items (f_inner st)))) (f_inner st)
       end.

Definition flat_op {V E} (unordered : bool) (st : fstate V E) (o : iop (item (list V) E))
  : fstate V E * out V E :=
  match o with
  | INext => flat_next st
  | _ => let (s, e) := imap_ctl unordered (f_inner st) o in
         (mk_fst s (f_cur st) (f_dead st), exn_out e)
  end.

Fixpoint flat_run {V E} (unordered : bool) (st : fstate V E)
         (ops : list (iop (item (list V) E))) : fstate V E * list (out V E) :=
  match ops with
  | [] => (st, [])
  | o :: r => let (s1, x) := flat_op unordered st o in
              let (s2, xs) := flat_run unordered s1 r in (s2, x :: xs)
  end.

(* ------------------------------------------------------------------ *)
(* 7. ApplyResult (one job, one result)                                 *)

Record ares (A E : Type) := mk_ares {
  a_ready : bool; a_value : option (item A E); a_accepted : bool; a_incache : bool;
  a_has_cb : bool; a_has_ecb : bool; a_cb : list A; a_ecb : list E
}.
Arguments mk_ares {A E}. Arguments a_ready {A E}. Arguments a_value {A E}.
Arguments a_accepted {A E}. Arguments a_incache {A E}. Arguments a_has_cb {A E}.
Arguments a_has_ecb {A E}. Arguments a_cb {A E}. Arguments a_ecb {A E}.

Definition apply_init {A E} (has_cb has_ecb : bool) : ares A E :=
  mk_ares false None false true has_cb has_ecb [] [].

(* ApplyResult._set(i, (success, value)): the first outcome is kept (a result for a
   job that is already resolved is dropped); the payload of a failure is never None here *)
Definition apply_set {A E} (st : ares A E) (obj : item A E) : ares A E :=
  if a_ready st then st else
  mk_ares true (Some obj) (a_accepted st)
          (if a_accepted st then false else a_incache st)
          (a_has_cb st) (a_has_ecb st)
          (match obj with Good v => if a_has_cb st then a_cb st ++ [v] else a_cb st
                     | Bad _ => a_cb st end)
          (match obj with Bad e => if a_has_ecb st then a_ecb st ++ [e] else a_ecb st
                     | Good _ => a_ecb st end).

Definition apply_ack {A E} (st : ares A E) : ares A E :=
  mk_ares (a_ready st) (a_value st) true (if a_ready st then false else a_incache st)
          (a_has_cb st) (a_has_ecb st) (a_cb st) (a_ecb st).

Definition apply_get {A E} (st : ares A E) : out A E :=
  if a_ready st then
    match a_value st with
    | Some (Good v) => OYield v
    | Some (Bad e) => ORaise e
    | None => OExn TypeError        (* unreachable: ready implies a stored result *)
    end
  else OTimeout.

Inductive aop (A E : Type) := ASet (b : item A E) | ADeliver (b : item A E) | AAck | AGet.
Arguments ASet {A E} b. Arguments ADeliver {A E} b. Arguments AAck {A E}. Arguments AGet {A E}.

Definition apply_op {A E} (st : ares A E) (o : aop A E) : ares A E * out A E :=
  match o with
  | ASet b => (apply_set st b, OUnit)
  | ADeliver b => if a_incache st then (apply_set st b, OUnit) else (st, OUnit)
  | AAck => (apply_ack st, OUnit)
  | AGet => (st, apply_get st)
  end.

Fixpoint apply_run {A E} (st : ares A E) (ops : list (aop A E)) : ares A E * list (out A E) :=
  match ops with
  | [] => (st, [])
  | o :: r => let (s1, x) := apply_op st o in
              let (s2, xs) := apply_run s1 r in (s2, x :: xs)
  end.

(* ------------------------------------------------------------------ *)
(* 8. correspondence cases: values are Python ints or None (option Z),  *)
(*    failure payloads are numbered ExceptionInfo objects (Z)           *)

Definition val := option Z.
Definition val_eqb : val -> val -> bool := opt_eqb Z.eqb.

Definition out_eqb {A E} (ea : A -> A -> bool) (ee : E -> E -> bool) (x y : out A E) : bool :=
  match x, y with
  | OUnit, OUnit | OStop, OStop | OTimeout, OTimeout => true
  | OExn a, OExn b => exn_eqb a b
  | OList a, OList b => list_eqb ea a b
  | OYield a, OYield b => ea a b
  | ORaise a, ORaise b => ee a b
  | _, _ => false
  end.

Definition mval_eqb (x y : mval val Z) : bool :=
  match x, y with
  | VList a, VList b => list_eqb val_eqb a b
  | VErr a, VErr b => a =? b
  | _, _ => false
  end.

Definition item_eqb {V} (ev : V -> V -> bool) (x y : item V Z) : bool :=
  match x, y with
  | Good a, Good b => ev a b
  | Bad a, Bad b => a =? b
  | _, _ => false
  end.

(* every (k, v) of the implementation's dict is in the model's, and the sizes agree *)
Definition dict_eqb {B} (eb : B -> B -> bool) (impl model : list (Z * B)) : bool :=
  (Nat.eqb (length impl) (length model)) &&
  forallb (fun kv => match dict_get model (fst kv) with
                     | Some v => eb v (snd kv) | None => false end) impl.

(* observable part of a MapResult: success, value, ready, callbacks *)
Definition mobs := (bool * mval val Z * bool * list (list val) * list Z)%type.
(* internal part: number_left, in cache, accepted *)
Definition mint := (Z * bool * list bool)%type.

Definition iobs (B : Type) := (list B * bool)%type.                 (* items, ready *)
Definition iint (B : Type) := (Z * option Z * list (Z * B) * bool)%type.  (* index, length, unsorted, in cache *)

Inductive case :=
(* Pool._get_tasks(func, l, size): the batches, None = ValueError *)
| CChunks (l : list Z) (size : Z) (impl : option (list (list Z)))
(* what a worker computes for one task: mapstar((f, chunk)) with f x = a*x + b, and
   starmapstar((g, pairs)) with g x y = a*x + b*y *)
| CMapstar (a b : Z) (c : list Z) (impl : list Z)
| CStarmapstar (a b : Z) (c : list (Z * Z)) (impl : list Z)
(* Pool._map_async(stub with p workers, l, chunksize): None = raised;
   otherwise chunksize, batches, number_left, ready, in cache, value buffer *)
| CAsync (l : list Z) (cs : option Z) (p : Z)
         (impl : option (Z * option (list (list Z)) * (Z * bool * bool * list val)))
(* MapResult(cache, k, n, cb, ecb) then the operations; per-op outputs, final state *)
| CMap (n k : Z) (has_cb has_ecb : bool) (ops : list (mop val Z))
       (outs : list (out val Z)) (fo : mobs) (fi : mint)
(* IMapIterator / IMapUnorderedIterator *)
| CImap (unordered : bool) (ops : list (iop (item val Z)))
        (outs : list (out val Z)) (fo : iobs (item val Z)) (fi : iint (item val Z))
(* the generator returned by Pool.imap/imap_unordered(chunksize > 1) *)
| CFlat (unordered : bool) (ops : list (iop (item (list val) Z)))
        (outs : list (out val Z)) (fo : iobs (item (list val) Z))
        (fi : iint (item (list val) Z))
(* ApplyResult *)
| CApply (has_cb has_ecb : bool) (ops : list (aop val Z)) (outs : list (out val Z))
         (fo : bool * option (item val Z) * list val * list Z) (fi : bool * bool).

Definition code (obs_ok int_ok : bool) : Z :=
  if negb obs_ok then 2 else if int_ok then 0 else 1.

Definition outs_eqb := list_eqb (out_eqb val_eqb Z.eqb).

Definition check_case (c : case) : Z :=
  match c with
  | CChunks l size impl =>
      code (opt_eqb (list_eqb (list_eqb Z.eqb)) (get_tasks l size) impl) true
  | CMapstar a b c impl =>
      code (list_eqb Z.eqb (mapstar (fun x => a * x + b) c) impl) true
  | CStarmapstar a b c impl =>
      code (list_eqb Z.eqb (starmapstar (fun x y => a * x + b * y) c) impl) true
  | CAsync l cs p impl =>
      match map_async (E := Z) (None : val) l cs p, impl with
      | None, None => 0
      | Some (k, b, st), Some (k', b', (nleft, ready, incache, buf)) =>
          code ((k =? k') && opt_eqb (list_eqb (list_eqb Z.eqb)) b b'
                && mval_eqb (m_value st) (VList buf) && Bool.eqb (m_ready st) ready)
               ((m_left st =? nleft) && Bool.eqb (m_incache st) incache)
      | _, _ => 2
      end
  | CMap n k has_cb has_ecb ops outs fo fi =>
      let (st, mo) := map_run (map_init (None : val) n k has_cb has_ecb) ops in
      let '(succ, v, ready, cb, ecb) := fo in
      let '(nleft, incache, acc) := fi in
      code (outs_eqb mo outs && Bool.eqb (m_success st) succ && mval_eqb (m_value st) v
            && Bool.eqb (m_ready st) ready && list_eqb (list_eqb val_eqb) (m_cb st) cb
            && list_eqb Z.eqb (m_ecb st) ecb)
           ((m_left st =? nleft) && Bool.eqb (m_incache st) incache
            && list_eqb Bool.eqb (m_accepted st) acc)
  | CImap u ops outs fo fi =>
      let (st, mo) := imap_run u imap_init ops in
      let '(items, ready) := fo in
      let '(idx, len, uns, incache) := fi in
      code (outs_eqb mo outs && list_eqb (item_eqb val_eqb) (i_items st) items
            && Bool.eqb (i_ready st) ready)
           ((i_index st =? idx) && opt_eqb Z.eqb (i_length st) len
            && dict_eqb (item_eqb val_eqb) uns (i_unsorted st)
            && Bool.eqb (i_incache st) incache)
  | CFlat u ops outs fo fi =>
      let (st, mo) := flat_run u flat_init ops in
      let '(items, ready) := fo in
      let '(idx, len, uns, incache) := fi in
      let s := f_inner st in
      code (outs_eqb mo outs && list_eqb (item_eqb (list_eqb val_eqb)) (i_items s) items
            && Bool.eqb (i_ready s) ready)
           ((i_index s =? idx) && opt_eqb Z.eqb (i_length s) len
            && dict_eqb (item_eqb (list_eqb val_eqb)) uns (i_unsorted s)
            && Bool.eqb (i_incache s) incache)
  | CApply has_cb has_ecb ops outs fo fi =>
      let (st, mo) := apply_run (apply_init has_cb has_ecb) ops in
      let '(ready, v, cb, ecb) := fo in
      let '(acc, incache) := fi in
      code (outs_eqb mo outs && Bool.eqb (a_ready st) ready
            && opt_eqb (item_eqb val_eqb) (a_value st) v
            && list_eqb val_eqb (a_cb st) cb && list_eqb Z.eqb (a_ecb st) ecb)
           (Bool.eqb (a_accepted st) acc && Bool.eqb (a_incache st) incache)
  end.
