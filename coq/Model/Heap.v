(* Model of billiard.heap.Heap (the allocator behind BufferWrapper / sharedctypes).
   Executable, no proofs in here.

   The state is kept exactly as heap.py keeps it:
     _lengths            sorted list of the lengths that have a free block
     _len_to_seq         dict  length -> list of free blocks of that length (list order matters:
                         _malloc pops the LAST one, _absorb removes the first equal one)
     _start_to_block     dict (arena, start) -> free block
     _stop_to_block      dict (arena, stop)  -> free block
     _allocated_blocks   set of live blocks
     _arenas             list of arenas (here: their sizes; an arena is named by its index)
     _size               size of the next arena (doubles on every new arena)
     _pending_free_blocks  frees that found the lock taken
   Dicts are association lists (their iteration order is never observed by heap.py),
   the set is a list.  Where the code would raise, the model returns [Err] with the
   exception kind. *)
From Coq Require Import ZArith List Bool.
From BV Require Import Lib.PyVal.
Import ListNotations.
Open Scope Z_scope.

Definition block := (Z * Z * Z)%type.          (* (arena index, start, stop) *)
Definition b_arena (b : block) : Z := fst (fst b).
Definition b_start (b : block) : Z := snd (fst b).
Definition b_stop (b : block) : Z := snd b.
Definition blen (b : block) : Z := b_stop b - b_start b.
Definition key := (Z * Z)%type.
Definition skey (b : block) : key := (b_arena b, b_start b).
Definition ekey (b : block) : key := (b_arena b, b_stop b).
Definition key_eqb (a b : key) : bool := (fst a =? fst b) && (snd a =? snd b).
Definition block_eqb (a b : block) : bool :=
  (b_arena a =? b_arena b) && (b_start a =? b_start b) && (b_stop a =? b_stop b).

Inductive res (A : Type) := OK (a : A) | Err (e : exn).
Arguments OK {A} a.
Arguments Err {A} e.
Definition bind {A B} (r : res A) (k : A -> res B) : res B :=
  match r with OK a => k a | Err e => Err e end.
Notation "'do' x <- r ; k" := (bind r (fun x => k)) (at level 200, x pattern, r at level 100, k at level 200).

(* ---- Python containers ------------------------------------------------- *)
Section Dict.
  Context {K V : Type} (keqb : K -> K -> bool).
  Fixpoint dget (k : K) (d : list (K * V)) : option V :=
    match d with
    | [] => None
    | (k', v) :: r => if keqb k k' then Some v else dget k r
    end.
  (* del d[k]; None = KeyError *)
  Fixpoint ddel (k : K) (d : list (K * V)) : option (list (K * V)) :=
    match d with
    | [] => None
    | (k', v) :: r => if keqb k k' then Some r
                      else match ddel k r with Some r' => Some ((k', v) :: r') | None => None end
    end.
  (* d[k] = v *)
  Definition dset (k : K) (v : V) (d : list (K * V)) : list (K * V) :=
    match ddel k d with Some d' => (k, v) :: d' | None => (k, v) :: d end.
End Dict.

(* list.remove(x) / set.remove(x): first occurrence; None = ValueError / KeyError *)
Fixpoint remove1 {A} (eqb : A -> A -> bool) (x : A) (l : list A) : option (list A) :=
  match l with
  | [] => None
  | y :: r => if eqb x y then Some r
              else match remove1 eqb x r with Some r' => Some (y :: r') | None => None end
  end.
Fixpoint mem {A} (eqb : A -> A -> bool) (x : A) (l : list A) : bool :=
  match l with [] => false | y :: r => eqb x y || mem eqb x r end.
(* list.pop(): last element; None = IndexError *)
Fixpoint pop_last {A} (l : list A) : option (list A * A) :=
  match l with
  | [] => None
  | [x] => Some ([], x)
  | x :: r => match pop_last r with Some (r', y) => Some (x :: r', y) | None => None end
  end.
(* del l[i] *)
Fixpoint del_nth {A} (i : nat) (l : list A) : list A :=
  match l, i with
  | [], _ => []
  | _ :: r, O => r
  | x :: r, S j => x :: del_nth j r
  end.
(* bisect.bisect_left on a sorted list: index of the first element >= x *)
Fixpoint bisect_left (l : list Z) (x : Z) : nat :=
  match l with
  | [] => O
  | y :: r => if y <? x then S (bisect_left r x) else O
  end.
(* bisect.insort on a sorted list *)
Fixpoint insort (l : list Z) (x : Z) : list Z :=
  match l with
  | [] => [x]
  | y :: r => if x <? y then x :: y :: r else y :: insort r x
  end.
Definition is_nil {A} (l : list A) : bool := match l with [] => true | _ => false end.

(* ---- the heap ----------------------------------------------------------- *)
Record heap := mk_heap {
  lengths : list Z;
  l2s : list (Z * list block);
  s2b : list (key * block);
  e2b : list (key * block);
  alloc : list block;
  arenas : list Z;
  nsize : Z;
  pending : list block }.

Definition heap_init (size : Z) : heap := mk_heap [] [] [] [] [] [] size [].

Definition alignment : Z := 8.
Definition maxsize : Z := 9223372036854775807.

(* Heap._roundup for an alignment that is a power of two (see Proofs: equal to the
   generated (n + mask) & ~mask) *)
Definition roundup (n al : Z) : Z := (n + (al - 1)) / al * al.
(* malloc: size = self._roundup(max(size, 1), self._alignment) *)
Definition norm_size (n : Z) : Z := roundup (Z.max n 1) alignment.
(* _malloc: length = self._roundup(max(self._size, size), mmap.PAGESIZE) *)
Definition arena_length (ns size pg : Z) : Z := roundup (Z.max ns size) pg.

Definition set_l2s_lengths (h : heap) (d : list (Z * list block)) (ls : list Z) : heap :=
  mk_heap ls d (s2b h) (e2b h) (alloc h) (arenas h) (nsize h) (pending h).
Definition set_s2b (h : heap) (d : list (key * block)) : heap :=
  mk_heap (lengths h) (l2s h) d (e2b h) (alloc h) (arenas h) (nsize h) (pending h).
Definition set_e2b (h : heap) (d : list (key * block)) : heap :=
  mk_heap (lengths h) (l2s h) (s2b h) d (alloc h) (arenas h) (nsize h) (pending h).
Definition set_alloc (h : heap) (a : list block) : heap :=
  mk_heap (lengths h) (l2s h) (s2b h) (e2b h) a (arenas h) (nsize h) (pending h).
Definition set_pending (h : heap) (p : list block) : heap :=
  mk_heap (lengths h) (l2s h) (s2b h) (e2b h) (alloc h) (arenas h) (nsize h) p.

(*  del self._start_to_block[(arena, start)]; del self._stop_to_block[(arena, stop)] *)
Definition del_keys (h : heap) (b : block) : res heap :=
  match ddel key_eqb (skey b) (s2b h) with
  | None => Err KeyError
  | Some d1 =>
    match ddel key_eqb (ekey b) (e2b h) with
    | None => Err KeyError
    | Some d2 => OK (set_e2b (set_s2b h d1) d2)
    end
  end.

(* the `else` branch of _malloc, i = index into _lengths:
     length = self._lengths[i]; seq = self._len_to_seq[length]; block = seq.pop()
     if not seq: del self._len_to_seq[length], self._lengths[i]
   followed by the two index deletions *)
Definition take (h : heap) (i : nat) : res (block * heap) :=
  match nth_error (lengths h) i with
  | None => Err IndexError
  | Some len =>
    match dget Z.eqb len (l2s h) with
    | None => Err KeyError
    | Some seq =>
      match pop_last seq with
      | None => Err IndexError
      | Some (seq', b) =>
        let h1 := if is_nil seq'
                  then match ddel Z.eqb len (l2s h) with
                       | Some d => set_l2s_lengths h d (del_nth i (lengths h))
                       | None => h   (* unreachable: dget succeeded *)
                       end
                  else set_l2s_lengths h (dset Z.eqb len seq' (l2s h)) (lengths h) in
        do h2 <- del_keys h1 b; OK (b, h2)
      end
    end
  end.

(* Heap._malloc; pg = mmap.PAGESIZE *)
Definition c_malloc (pg : Z) (h : heap) (size : Z) : res (block * heap) :=
  let i := bisect_left (lengths h) size in
  if Nat.eqb i (length (lengths h)) then
    let len := arena_length (nsize h) size pg in
    OK ((Z.of_nat (length (arenas h)), 0, len),
        mk_heap (lengths h) (l2s h) (s2b h) (e2b h) (alloc h) (arenas h ++ [len])
                (nsize h * 2) (pending h))
  else take h i.

(* Heap._absorb *)
Definition absorb (h : heap) (b : block) : res heap :=
  do h1 <- del_keys h b;
  let len := blen b in
  match dget Z.eqb len (l2s h1) with
  | None => Err KeyError
  | Some seq =>
    match remove1 block_eqb b seq with
    | None => Err ValueError
    | Some seq' =>
      if is_nil seq' then
        match ddel Z.eqb len (l2s h1), remove1 Z.eqb len (lengths h1) with
        | Some d, Some ls => OK (set_l2s_lengths h1 d ls)
        | None, _ => Err KeyError
        | _, None => Err ValueError
        end
      else OK (set_l2s_lengths h1 (dset Z.eqb len seq' (l2s h1)) (lengths h1))
    end
  end.

(* Heap._free, in its three phases *)
Definition free_prev (h : heap) (b : block) : res (heap * Z) :=
  match dget key_eqb (skey b) (e2b h) with
  | None => OK (h, b_start b)
  | Some p => do h1 <- absorb h p; OK (h1, b_start p)
  end.
Definition free_next (h : heap) (b : block) : res (heap * Z) :=
  match dget key_eqb (ekey b) (s2b h) with
  | None => OK (h, b_stop b)
  | Some n => do h1 <- absorb h n; OK (h1, b_stop n)
  end.
Definition free_insert (h : heap) (b : block) : heap :=
  let len := blen b in
  let h1 := match dget Z.eqb len (l2s h) with
            | Some seq => set_l2s_lengths h (dset Z.eqb len (seq ++ [b]) (l2s h)) (lengths h)
            | None => set_l2s_lengths h (dset Z.eqb len [b] (l2s h)) (insort (lengths h) len)
            end in
  set_e2b (set_s2b h1 (dset key_eqb (skey b) b (s2b h1))) (dset key_eqb (ekey b) b (e2b h1)).
Definition c_free (h : heap) (b : block) : res heap :=
  do (h1, st) <- free_prev h b;
  do (h2, en) <- free_next h1 b;
  OK (free_insert h2 (b_arena b, st, en)).

(* self._allocated_blocks.remove(block); self._free(block) *)
Definition free_one (h : heap) (b : block) : res heap :=
  match remove1 block_eqb b (alloc h) with
  | None => Err KeyError
  | Some a => c_free (set_alloc h a) b
  end.

(* Heap._free_pending_blocks: pops from the END of the list until it is empty *)
Fixpoint drain_list (l : list block) (h : heap) : res heap :=
  match l with
  | [] => OK h
  | b :: r => do h1 <- free_one h b; drain_list r h1
  end.
Definition drain (h : heap) : res heap :=
  drain_list (rev (pending h)) (set_pending h []).

Definition set_add (b : block) (l : list block) : list block :=
  if mem block_eqb b l then l else b :: l.

(* Heap.malloc (under the lock) *)
Definition malloc (pg : Z) (h : heap) (n : Z) : res (block * heap) :=
  if (n <? 0) || (maxsize <=? n) then Err AssertionError else
  do h1 <- drain h;
  let size := norm_size n in
  do (blk, h2) <- c_malloc pg h1 size;
  let new_stop := b_start blk + size in
  do h3 <- (if new_stop <? b_stop blk then c_free h2 (b_arena blk, new_stop, b_stop blk) else OK h2);
  let b := (b_arena blk, b_start blk, new_stop) in
  OK (b, set_alloc h3 (set_add b (alloc h3))).

(* Heap.free when the try-lock succeeds *)
Definition free (h : heap) (b : block) : res heap :=
  do h1 <- drain h; free_one h1 b.
(* Heap.free when the lock is held by someone (a malloc/free in progress in this or
   another thread, e.g. a GC-triggered finaliser) *)
Definition free_deferred (h : heap) (b : block) : heap :=
  set_pending h (pending h ++ [b]).

(* ---- re-entrant free ------------------------------------------------------
   free(v) called by the thread that is itself inside malloc()/free() and holds the lock:
   a finaliser (BufferWrapper's Finalize) run by the garbage collector at that moment.
   `self._lock = threading.Lock()` is not re-entrant, so `self._lock.acquire(False)` fails
   and the nested call only appends v to the pending list.  [reentrant = true] describes
   what a re-entrant lock (threading.RLock) would do: the acquire succeeds and the whole
   free -- drain, remove, _free -- runs nested, on whatever intermediate state the outer
   call has reached. *)
Definition lock_reentrant : bool := false.

Definition free_nested (reentrant : bool) (h : heap) (v : block) : res heap :=
  if reentrant then free h v else OK (free_deferred h v).

(* where the outer call is when the finaliser runs *)
Inductive rpoint :=
| RLocked      (* lock acquired, _free_pending_blocks not yet run *)
| RDrained     (* _free_pending_blocks returned *)
| RTaken       (* malloc: _malloc returned its block (not yet split, not yet in _allocated_blocks);
                  free: the block has left _allocated_blocks, _free not yet entered *)
| RPrev        (* inside _free: the free left neighbour (if any) has been absorbed *)
| RNext        (* inside _free: the free right neighbour (if any) has been absorbed *)
| RInserted    (* _free returned: the merged block is registered *)
| RDone.       (* just before the lock is released *)

Definition rpoint_eqb (a b : rpoint) : bool :=
  match a, b with
  | RLocked, RLocked | RDrained, RDrained | RTaken, RTaken | RPrev, RPrev
  | RNext, RNext | RInserted, RInserted | RDone, RDone => true
  | _, _ => false
  end.

(* the nested call, if [p] is the point at which the finaliser of [v] runs *)
Definition nested (re : bool) (i : option (rpoint * block)) (p : rpoint) (h : heap) : res heap :=
  match i with
  | Some (q, v) => if rpoint_eqb p q then free_nested re h v else OK h
  | None => OK h
  end.

(* Heap._free with the points inside it *)
Definition c_free_re (re : bool) (i : option (rpoint * block)) (h : heap) (b : block) : res heap :=
  do (h1, st) <- free_prev h b;
  do h1' <- nested re i RPrev h1;
  do (h2, en) <- free_next h1' b;
  do h2' <- nested re i RNext h2;
  nested re i RInserted (free_insert h2' (b_arena b, st, en)).

(* malloc without a remainder does not call _free: its three points collapse into one place *)
Definition nested_skip (re : bool) (i : option (rpoint * block)) (h : heap) : res heap :=
  do h1 <- nested re i RPrev h;
  do h2 <- nested re i RNext h1;
  nested re i RInserted h2.

Definition malloc_re (re : bool) (pg : Z) (i : option (rpoint * block)) (h : heap) (n : Z)
  : res (block * heap) :=
  if (n <? 0) || (maxsize <=? n) then Err AssertionError else
  do h0 <- nested re i RLocked h;
  do h1 <- drain h0;
  do h1' <- nested re i RDrained h1;
  let size := norm_size n in
  do (blk, h2) <- c_malloc pg h1' size;
  do h2' <- nested re i RTaken h2;
  let new_stop := b_start blk + size in
  do h3 <- (if new_stop <? b_stop blk then c_free_re re i h2' (b_arena blk, new_stop, b_stop blk)
            else nested_skip re i h2');
  let b := (b_arena blk, b_start blk, new_stop) in
  do h4 <- nested re i RDone (set_alloc h3 (set_add b (alloc h3)));
  OK (b, h4).

Definition free_re (re : bool) (i : option (rpoint * block)) (h : heap) (b : block) : res heap :=
  do h0 <- nested re i RLocked h;
  do h1 <- drain h0;
  do h1' <- nested re i RDrained h1;
  match remove1 block_eqb b (alloc h1') with
  | None => Err KeyError
  | Some a =>
    do h2 <- nested re i RTaken (set_alloc h1' a);
    do h3 <- c_free_re re i h2 b;
    nested re i RDone h3
  end.

Inductive op :=
| Malloc (n : Z)
| Free (b : block)
| FreeDeferred (b : block)
| MallocRe (n : Z) (p : rpoint) (v : block)    (* malloc(n) during which a finaliser calls free(v) at point p *)
| FreeRe (b : block) (p : rpoint) (v : block). (* free(b)   during which a finaliser calls free(v) at point p *)

Definition step (pg : Z) (h : heap) (o : op) : res (option block * heap) :=
  match o with
  | Malloc n => do (b, h') <- malloc pg h n; OK (Some b, h')
  | Free b => do h' <- free h b; OK (None, h')
  | FreeDeferred b => OK (None, free_deferred h b)
  | MallocRe n p v => do (b, h') <- malloc_re lock_reentrant pg (Some (p, v)) h n; OK (Some b, h')
  | FreeRe b p v => do h' <- free_re lock_reentrant (Some (p, v)) h b; OK (None, h')
  end.

Fixpoint run (pg : Z) (h : heap) (ops : list op) : res heap :=
  match ops with
  | [] => OK h
  | o :: r => do (_, h') <- step pg h o; run pg h' r
  end.

Definition F (h : heap) : list block := concat (map snd (l2s h)).

(* ---- correspondence ------------------------------------------------------ *)
From BV Require Import Lib.Cases.

(* ops of a case refer to earlier results by malloc number *)
Inductive cop :=
| CMalloc (n : Z)
| CFree (k : nat)
| CFreeDeferred (k : nat)
| CMallocGC (n : Z) (k : nat)    (* a finaliser frees block k while malloc(n) holds the lock *)
| CMallocRe (n : Z) (pre : bool) (k : nat)  (* this thread frees block k from inside malloc(n): pre = before the
                                               pending list is drained, otherwise at any later point under the lock *)
| CFreeRe (j : nat) (pre : bool) (k : nat). (* the same from inside free(block j) *)

(* what the implementation did on one op: error flag, returned block (or (-1,-1,-1)),
   number of arenas, number of free blocks *)
Definition iobs := (bool * block * Z * Z)%type.

Record snapshot := mk_snap {
  sn_lengths : list Z;
  sn_l2s : list (Z * list block);
  sn_s2b : list (key * block);
  sn_e2b : list (key * block);
  sn_alloc : list block;
  sn_arenas : list Z;
  sn_nsize : Z;
  sn_pending : list block }.

Definition none_block : block := (-1, -1, -1).

(* the driver places the nested free either on entry to _free_pending_blocks or at some line after
   its return; all the latter points are the same for the model (Proofs: nested_free_is_deferred) *)
Definition cpoint (pre : bool) : rpoint := if pre then RLocked else RDone.

(* model side of one case op *)
Definition cstep (pg : Z) (h : heap) (got : list block) (o : cop) : res (block * heap * list block) :=
  match o with
  | CMalloc n => do (b, h') <- malloc pg h n; OK (b, h', got ++ [b])
  | CFree k => do h' <- free h (nth k got none_block); OK (none_block, h', got)
  | CFreeDeferred k => OK (none_block, free_deferred h (nth k got none_block), got)
  | CMallocGC n k =>
      do (b, h') <- malloc pg h n;
      OK (b, free_deferred h' (nth k got none_block), got ++ [b])
  | CMallocRe n pre k =>
      do (b, h') <- malloc_re lock_reentrant pg (Some (cpoint pre, nth k got none_block)) h n;
      OK (b, h', got ++ [b])
  | CFreeRe j pre k =>
      do h' <- free_re lock_reentrant (Some (cpoint pre, nth k got none_block)) h (nth j got none_block);
      OK (none_block, h', got)
  end.

Definition obs_of (h : heap) (b : block) : iobs :=
  (false, b, Z.of_nat (length (arenas h)), Z.of_nat (length (F h))).

(* run the model; an error ends the run (the driver stops there as well) *)
Fixpoint crun (pg : Z) (h : heap) (got : list block) (ops : list cop) : list iobs * option heap :=
  match ops with
  | [] => ([], Some h)
  | o :: r =>
    match cstep pg h got o with
    | Err _ => ([(true, none_block, -1, -1)], None)
    | OK (b, h', got') => let (os, hf) := crun pg h' got' r in (obs_of h' b :: os, hf)
    end
  end.

Definition iobs_eqb (a b : iobs) : bool :=
  let '(e1, b1, na1, nf1) := a in
  let '(e2, b2, na2, nf2) := b in
  Bool.eqb e1 e2 && block_eqb b1 b2 && (na1 =? na2) && (nf1 =? nf2).

(* dicts compared as finite maps, the allocated set as a set *)
Definition dict_eqb {K V} (keqb : K -> K -> bool) (veqb : V -> V -> bool)
           (a b : list (K * V)) : bool :=
  Nat.eqb (length a) (length b) &&
  forallb (fun kv => match dget keqb (fst kv) b with Some v => veqb (snd kv) v | None => false end) a.
Definition set_eqb (a b : list block) : bool :=
  Nat.eqb (length a) (length b) && forallb (fun x => mem block_eqb x b) a.

Definition snap_eqb (s : snapshot) (h : heap) : bool :=
  list_eqb Z.eqb (sn_lengths s) (lengths h) &&
  dict_eqb Z.eqb (list_eqb block_eqb) (sn_l2s s) (l2s h) &&
  dict_eqb key_eqb block_eqb (sn_s2b s) (s2b h) &&
  dict_eqb key_eqb block_eqb (sn_e2b s) (e2b h) &&
  set_eqb (sn_alloc s) (alloc h) &&
  list_eqb Z.eqb (sn_arenas s) (arenas h) &&
  (sn_nsize s =? nsize h) &&
  list_eqb block_eqb (sn_pending s) (pending h).

(* one case = page size, initial Heap(size), ops, implementation observations, final snapshot *)
Definition case := (Z * Z * list cop * list iobs * snapshot)%type.
(* after an exception the internal state is not compared (the model stops at the op).
   0 = identical; 1 = model and implementation differ (the property itself is judged on
   the implementation trace by the monitor in props/C14.py) *)
Definition check_case (c : case) : Z :=
  let '(pg, size, ops, obs, snap) := c in
  let (mo, hf) := crun pg (heap_init size) [] ops in
  if list_eqb iobs_eqb obs mo
     && match hf with Some h => snap_eqb snap h | None => true end then 0 else 1.
