(* C15, atomicity across FORKS.  Executable, no proofs in here.

   Model/SharedMem.v (part 2) runs `with v.get_lock(): v.value += 1` under an IDEAL recursive lock (owner, depth).
   Here the lock is what it is in billiard: one kernel semaphore shared by all processes + in every process a copy
   of the lock OBJECT with its own ownership count (`count` of _multiprocessing.SemLock; `_is_mine()` = count > 0 in
   the process's thread) -- exactly the primitive of the C17 model: SemProg.sem_acq / SemProg.sem_rel with the
   per-process hold count.  Updaters are processes (one thread each).

   New operation: FFork i k -- process i forks (os.fork under the fork start method; also from inside its
   `with v.get_lock():` block) a process that runs k locked increments from the start of the program.  The child gets a
   copy of the parent's lock object: its count is the parent's count, unless the after-fork hook registered by
   SemLock.__init__ resets it to 0 (SemFork.child_count; whether the hook is registered is read from the code,
   Gen/G_semfork.v).  The kernel semaphore is shared, not copied: it stays as taken as it was. *)
From Coq Require Import ZArith List Bool.
From BV Require Import Lib.PyVal Model.Heap Model.SharedMem.
From BV Require Model.SemProg Model.SemFork.
Import ListNotations.
Open Scope Z_scope.

(* ctx.RLock(): kind RECURSIVE_MUTEX, value 1, maxvalue 1 (= CondProg.ctor_RLock, Gen/P_cond.ctor_RLock) *)
Definition rlock0 : SemProg.sem := SemProg.mkSem 1 1 true.

Record fthread := mk_ft {
  ft_pc : nat; ft_reg : Z;
  ft_left : nat;            (* iterations to go *)
  ft_k : nat;               (* iterations it was started with *)
  ft_cnt : Z }.             (* this process's copy of the lock object: its ownership count *)
Record fworld := mk_fw {
  fw_sem : SemProg.sem;     (* the kernel semaphore behind the lock, shared by all processes *)
  fw_val : Z;
  fw_threads : list fthread }.

Definition fadvance (prog : list instr) (t : fthread) (cnt : Z) : fthread :=
  let pc' := S (ft_pc t) in
  if Nat.eqb pc' (length prog)
  then mk_ft 0 (ft_reg t) (pred (ft_left t)) (ft_k t) cnt
  else mk_ft pc' (ft_reg t) (ft_left t) (ft_k t) cnt.

(* process i takes one step; None = not enabled (finished, blocked on the semaphore, or the release would raise) *)
Definition fstep (prog : list instr) (w : fworld) (i : nat) : option fworld :=
  match nth_error (fw_threads w) i with
  | None => None
  | Some t =>
    if Nat.eqb (ft_left t) 0 then None else
    match nth_error prog (ft_pc t) with
    | None => None
    | Some Acq =>
        match SemProg.sem_acq (fw_sem w) (ft_cnt t) with
        | Some (s', c') => Some (mk_fw s' (fw_val w) (set_nth (fw_threads w) i (fadvance prog t c')))
        | None => None
        end
    | Some Rel =>
        match SemProg.sem_rel (fw_sem w) (ft_cnt t) with
        | (s', c', e) =>
            if e =? 0 then Some (mk_fw s' (fw_val w) (set_nth (fw_threads w) i (fadvance prog t c')))
            else None
        end
    | Some Read =>
        Some (mk_fw (fw_sem w) (fw_val w)
                    (set_nth (fw_threads w) i
                             (fadvance prog (mk_ft (ft_pc t) (fw_val w) (ft_left t) (ft_k t) (ft_cnt t)) (ft_cnt t))))
    | Some Write =>
        Some (mk_fw (fw_sem w) (ft_reg t + 1) (set_nth (fw_threads w) i (fadvance prog t (ft_cnt t))))
    end
  end.

(* process i forks an updater that will make k locked increments *)
Definition ffork (reset : bool) (w : fworld) (i : nat) (k : nat) : option fworld :=
  match nth_error (fw_threads w) i with
  | None => None
  | Some t => Some (mk_fw (fw_sem w) (fw_val w)
                          (fw_threads w ++ [mk_ft 0 0 k k (SemFork.child_count reset (ft_cnt t))]))
  end.

Inductive fact :=
| FStep (i : nat)
| FFork (i : nat) (k : nat).

Definition fdo (reset : bool) (prog : list instr) (w : fworld) (a : fact) : option fworld :=
  match a with
  | FStep i => fstep prog w i
  | FFork i k => ffork reset w i k
  end.

(* run a history; actions that are not enabled are skipped (as in SharedMem.wrun) *)
Fixpoint frun (reset : bool) (prog : list instr) (w : fworld) (acts : list fact) : fworld :=
  match acts with
  | [] => w
  | a :: r => match fdo reset prog w a with Some w' => frun reset prog w' r | None => frun reset prog w r end
  end.

(* n updater processes, k iterations each, nobody holds the lock *)
Definition fworld_init (v0 : Z) (n k : nat) : fworld :=
  mk_fw rlock0 v0 (repeat (mk_ft 0 0 k k 0) n).
Definition fall_done (w : fworld) : bool := forallb (fun t => Nat.eqb (ft_left t) 0) (fw_threads w).
(* the number of locked increments all updaters -- initial and forked -- were started with *)
Fixpoint started (l : list fthread) : Z :=
  match l with [] => 0 | t :: r => Z.of_nat (ft_k t) + started r end.
(* inside the outer `with lock:` block *)
Definition finside (t : fthread) : bool := negb (Nat.eqb (ft_pc t) 0).
