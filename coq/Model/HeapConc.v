(* Small-step interleaving model of billiard.heap.Heap.malloc / Heap.free run by several threads
   (C14: "from any thread ... all interleavings of allocating threads with frees that find the heap
   lock taken").  Executable, no proofs in here.

   What one thread does, statement by statement (heap.py; the same lists are regenerated from the
   source on every run, Gen/G_heap.v, and proved equal to the ones below):

     malloc(size):  assert 0 <= size < sys.maxsize            \  outside the lock
                    if os.getpid() != self._lastpid: ...      /  (fork re-initialisation, see malloc_in_child)
                    with self._lock:                           blocking acquire
                        self._free_pending_blocks()            drain, one pop per step
                        size = ...; _malloc; split; add        the body: ONE step (Heap.malloc_body)
                        return block                           release
     free(block):   assert os.getpid() == self._lastpid
                    if not self._lock.acquire(False):          try-lock
                        self._pending_free_blocks.append(block)   a later step, whatever the lock does meanwhile
                    else: try:
                            self._free_pending_blocks()        drain, one pop per step
                            self._allocated_blocks.remove(block); self._free(block)     ONE step (free_one)
                          finally: self._lock.release()

   Granularity: every step that does not hold the lock is a single access to shared state (the lock word,
   one list.append); the steps under the lock are "one iteration of the drain loop" and "the rest of the
   critical section".  Other threads can do nothing to the heap while the lock is held EXCEPT append to the
   pending list (after a try-lock that failed at some earlier moment) -- this is allowed between any two
   steps, also between two iterations of the drain loop, any number of times.  That the steps under the lock are
   not interleaved with another thread's steps under the lock is the mutual-exclusion theorem (Proofs/HeapConc.v);
   that appends arriving in the middle of the body commute with it is Proofs/HeapRe.v.

   [EAppend v] is an append by someone who is not one of the modelled threads' requests: a finaliser run by
   the garbage collector inside the thread that holds the lock (its try-lock fails: the lock is not
   re-entrant), or inside any other thread.  It is enabled at every moment (an over-approximation: the
   try-lock may have failed long ago). *)
From Coq Require Import ZArith List Bool String.
From BV Require Import Lib.PyVal Model.Heap.
Import ListNotations.
Open Scope Z_scope.

(* ---- the two halves of the critical sections ---- *)
(* one iteration of `while 1: try: block = pending.pop() except IndexError: break; remove; _free`;
   OK None = the list was empty (break) *)
Definition drain_step (h : heap) : res (option heap) :=
  match pop_last (pending h) with
  | None => OK None
  | Some (rest, b) => do h' <- free_one (set_pending h rest) b; OK (Some h')
  end.

(* Heap.malloc after _free_pending_blocks() returned *)
Definition malloc_body (pg : Z) (h : heap) (n : Z) : res (block * heap) :=
  let size := norm_size n in
  do (blk, h2) <- c_malloc pg h size;
  let new_stop := b_start blk + size in
  do h3 <- (if new_stop <? b_stop blk then c_free h2 (b_arena blk, new_stop, b_stop blk) else OK h2);
  let b := (b_arena blk, b_start blk, new_stop) in
  OK (b, set_alloc h3 (set_add b (alloc h3))).

(* ---- the statement structure of the code (compared with the generated lists) ---- *)
Open Scope string_scope.
Definition malloc_outside : list string := ["assert"; "pidcheck"].
Definition malloc_locked : list string :=
  ["drain"; "size"; "search"; "new_stop"; "split"; "block"; "add"; "return"].
Definition free_outside : list string := ["assertpid"; "trylock"].
Definition free_lock_taken : list string := ["append"].
Definition free_locked : list string := ["drain"; "remove"; "free"].
Definition free_finally : list string := ["release"].
Close Scope string_scope.

(* ---- threads ---- *)
Inductive req := RMalloc (n : Z) | RFree (b : block).

Inductive pc :=
| PIdle                 (* between two calls *)
| PMEnter (n : Z)       (* malloc(n): assert passed, at `with self._lock` (blocks while the lock is taken) *)
| PMDrain (n : Z)       (* lock held, inside _free_pending_blocks *)
| PMBody (n : Z)        (* lock held, _free_pending_blocks returned *)
| PMExit (b : block)    (* lock held, block b recorded as live, about to release and return b *)
| PFQueue (b : block)   (* free(b): the try-lock failed, about to append b to the pending list *)
| PFDrain (b : block)   (* free(b): try-lock succeeded, inside _free_pending_blocks *)
| PFBody (b : block)    (* lock held, _free_pending_blocks returned *)
| PFExit.               (* lock held, about to release *)

Record thread := mk_thread { t_pc : pc; t_prog : list req }.

Record config := mk_config {
  c_heap : heap;
  c_lock : option nat;              (* the thread holding self._lock *)
  c_threads : list thread;
  c_log : list (nat * block) }.     (* (thread, block) for every block handed out, in that order *)

Definition cinit (h : heap) (progs : list (list req)) : config :=
  mk_config h None (map (mk_thread PIdle) progs) [].

Definition holds_lock (p : pc) : bool :=
  match p with
  | PMDrain _ | PMBody _ | PMExit _ | PFDrain _ | PFBody _ | PFExit => true
  | _ => false
  end.

Fixpoint upd {A} (l : list A) (i : nat) (x : A) : list A :=
  match l, i with
  | [], _ => []
  | _ :: r, O => x :: r
  | y :: r, S j => y :: upd r j x
  end.

Definition set_thread (c : config) (t : nat) (p : pc) (prog : list req) (h : heap) (lk : option nat)
  : config := mk_config h lk (upd (c_threads c) t (mk_thread p prog)) (c_log c).

Definition is_free_lock (lk : option nat) : bool := match lk with None => true | Some _ => false end.

(* one step of thread t; None = not enabled (no such thread, nothing left to do, or blocked on the lock) *)
Definition tstep (pg : Z) (c : config) (t : nat) : option (res config) :=
  match nth_error (c_threads c) t with
  | None => None
  | Some th =>
    let h := c_heap c in
    let prog := t_prog th in
    match t_pc th with
    | PIdle =>
      match prog with
      | [] => None
      | RMalloc n :: r =>
        if (n <? 0) || (maxsize <=? n) then Some (Err AssertionError)
        else Some (OK (set_thread c t (PMEnter n) r h (c_lock c)))
      | RFree b :: r =>
        if is_free_lock (c_lock c) then Some (OK (set_thread c t (PFDrain b) r h (Some t)))
        else Some (OK (set_thread c t (PFQueue b) r h (c_lock c)))
      end
    | PMEnter n =>
      if is_free_lock (c_lock c) then Some (OK (set_thread c t (PMDrain n) prog h (Some t))) else None
    | PMDrain n =>
      match drain_step h with
      | Err e => Some (Err e)
      | OK None => Some (OK (set_thread c t (PMBody n) prog h (c_lock c)))
      | OK (Some h') => Some (OK (set_thread c t (PMDrain n) prog h' (c_lock c)))
      end
    | PMBody n =>
      match malloc_body pg h n with
      | Err e => Some (Err e)
      | OK (b, h') =>
        Some (OK (mk_config h' (c_lock c) (upd (c_threads c) t (mk_thread (PMExit b) prog))
                            (c_log c ++ [(t, b)])))
      end
    | PMExit b => Some (OK (set_thread c t PIdle prog h None))
    | PFQueue b => Some (OK (set_thread c t PIdle prog (free_deferred h b) (c_lock c)))
    | PFDrain b =>
      match drain_step h with
      | Err e => Some (Err e)
      | OK None => Some (OK (set_thread c t (PFBody b) prog h (c_lock c)))
      | OK (Some h') => Some (OK (set_thread c t (PFDrain b) prog h' (c_lock c)))
      end
    | PFBody b =>
      match free_one h b with
      | Err e => Some (Err e)
      | OK h' => Some (OK (set_thread c t PFExit prog h' (c_lock c)))
      end
    | PFExit => Some (OK (set_thread c t PIdle prog h None))
    end
  end.

Inductive event :=
| EStep (t : nat)          (* thread t performs its next step *)
| EAppend (v : block).     (* a free(v) whose try-lock failed appends v (finaliser run by the collector) *)

Definition cstep (pg : Z) (c : config) (ev : event) : option (res config) :=
  match ev with
  | EStep t => tstep pg c t
  | EAppend v =>
    Some (OK (mk_config (free_deferred (c_heap c) v) (c_lock c) (c_threads c) (c_log c)))
  end.

(* a schedule; None = it names an event that is not enabled *)
Fixpoint crun (pg : Z) (c : config) (sched : list event) : option (res config) :=
  match sched with
  | [] => Some (OK c)
  | ev :: r =>
    match cstep pg c ev with
    | None => None
    | Some (Err e) => Some (Err e)
    | Some (OK c') => crun pg c' r
    end
  end.

(* ---- the sequential history an interleaved run amounts to ----
   Every step under the lock that touches the free lists is one sequential op, at the moment it is executed:
   a block popped from the pending list is `Free b` (the deferred free takes effect when it is drained),
   the body of malloc(n) is `Malloc n`, the body of free(b) is `Free b`.  All other steps (acquire,
   release, try-lock, append) contribute nothing: an append only lengthens the pending list. *)
Definition lin_step (c : config) (ev : event) : list op :=
  match ev with
  | EAppend _ => []
  | EStep t =>
    match nth_error (c_threads c) t with
    | None => []
    | Some th =>
      match t_pc th with
      | PIdle =>
        match t_prog th with
        | RMalloc n :: _ => if (n <? 0) || (maxsize <=? n) then [Malloc n] else []
        | _ => []
        end
      | PMDrain _ | PFDrain _ =>
        match pop_last (pending (c_heap c)) with Some (_, b) => [Free b] | None => [] end
      | PMBody n => [Malloc n]
      | PFBody b => [Free b]
      | _ => []
      end
    end
  end.

Fixpoint lin (pg : Z) (c : config) (sched : list event) : list op :=
  match sched with
  | [] => []
  | ev :: r =>
    lin_step c ev ++ match cstep pg c ev with Some (OK c') => lin pg c' r | _ => [] end
  end.

(* Heap.run that also collects the blocks handed out *)
Fixpoint runr (pg : Z) (h : heap) (ops : list op) : res (list block * heap) :=
  match ops with
  | [] => OK ([], h)
  | o :: r =>
    do (x, h') <- step pg h o;
    do (bs, hf) <- runr pg h' r;
    OK (match x with Some b => b :: bs | None => bs end, hf)
  end.

(* ---- the first malloc in a forked child ----
   `if os.getpid() != self._lastpid: self.__init__()`: the child forgets everything it inherited
   (the arenas are shared with the parent, whose blocks must stay untouched) and starts from
   Heap() with the default size; free() in the child before that raises (assert). *)
Definition malloc_in_child (pg dsize : Z) (inherited : heap) (n : Z) : res (block * heap) :=
  if (n <? 0) || (maxsize <=? n) then Err AssertionError else malloc pg (heap_init dsize) n.
Definition free_in_child_before_malloc (inherited : heap) (b : block) : res heap := Err AssertionError.

(* ---- correspondence: a sequential prefix, then real threads under a forced schedule ---- *)
From BV Require Import Lib.Cases.

Inductive ekind := KWant | KAcq | KPop | KDrained | KBody | KRel | KTryOk | KTryFail | KAppend.
Definition ekind_eqb (a b : ekind) : bool :=
  match a, b with
  | KWant, KWant | KAcq, KAcq | KPop, KPop | KDrained, KDrained | KBody, KBody | KRel, KRel
  | KTryOk, KTryOk | KTryFail, KTryFail | KAppend, KAppend => true
  | _, _ => false
  end.

(* what the next step of thread t is, in the vocabulary of the driver's event log *)
Definition step_kind (c : config) (t : nat) : option ekind :=
  match nth_error (c_threads c) t with
  | None => None
  | Some th =>
    match t_pc th with
    | PIdle =>
      match t_prog th with
      | [] => None
      | RMalloc _ :: _ => Some KWant
      | RFree _ :: _ => Some (if is_free_lock (c_lock c) then KTryOk else KTryFail)
      end
    | PMEnter _ => Some KAcq
    | PMDrain _ | PFDrain _ =>
      Some (match pop_last (pending (c_heap c)) with Some _ => KPop | None => KDrained end)
    | PMBody _ | PFBody _ => Some KBody
    | PMExit _ | PFExit => Some KRel
    | PFQueue _ => Some KAppend
    end
  end.

Fixpoint crun_checked (pg : Z) (c : config) (evs : list (nat * ekind)) : option (res config) :=
  match evs with
  | [] => Some (OK c)
  | (t, k) :: r =>
    match step_kind c t with
    | Some k' =>
      if ekind_eqb k k' then
        match tstep pg c t with
        | None => None
        | Some (Err e) => Some (Err e)
        | Some (OK c') => crun_checked pg c' r
        end
      else None
    | None => None
    end
  end.

(* requests of a thread; frees name blocks of the sequential prefix by malloc number *)
Inductive creq := QMalloc (n : Z) | QFree (k : nat).
Definition req_of (got : list block) (q : creq) : req :=
  match q with QMalloc n => RMalloc n | QFree k => RFree (nth k got none_block) end.

Fixpoint csetup (pg : Z) (h : heap) (got : list block) (ops : list cop) : option (heap * list block) :=
  match ops with
  | [] => Some (h, got)
  | o :: r =>
    match Heap.cstep pg h got o with
    | Err _ => None
    | OK (_, h', got') => csetup pg h' got' r
    end
  end.

Definition log_eqb (a b : list (nat * block)) : bool :=
  list_eqb (fun x y => Nat.eqb (fst x) (fst y) && block_eqb (snd x) (snd y)) a b.

(* page size, Heap(size), sequential prefix, programs, the events the real threads performed (in order),
   the blocks handed out (thread, block) in the order of the critical sections, final snapshot *)
Definition conc_case :=
  (Z * Z * list cop * list (list creq) * list (nat * ekind) * list (nat * block) * snapshot)%type.

Definition check_conc_case (c : conc_case) : Z :=
  let '(pg, size, pre, progs, evs, log, snap) := c in
  match csetup pg (heap_init size) [] pre with
  | None => 1
  | Some (h, got) =>
    match crun_checked pg (cinit h (map (map (req_of got)) progs)) evs with
    | Some (OK c') => if log_eqb log (c_log c') && snap_eqb snap (c_heap c') then 0 else 1
    | _ => 1
    end
  end.

(* a forked child: the sequential prefix runs in the parent; the child performs [child] on the heap object it
   inherited (first malloc re-initialises it with Heap()'s default size); afterwards the parent's
   state must be what it was.  Observations and snapshot of the child, snapshot of the parent. *)
Inductive chop := HMalloc (n : Z) | HFreeOwn (k : nat) | HFreeInherited (k : nat).

(* arenas are objects: an arena of the parent is none of the arenas the child creates after the
   re-initialisation, whatever its position in the parent's list was *)
Definition inherited_block (b : block) : block := (-1 - b_arena b, b_start b, b_stop b).

Fixpoint child_run (pg dsize : Z) (st : option heap) (inherited : heap) (pgot got : list block) (ops : list chop)
  : list iobs * option heap :=
  match ops with
  | [] => ([], st)
  | o :: r =>
    let res1 :=
      match o, st with
      | HMalloc n, None => do (b, h') <- malloc_in_child pg dsize inherited n; OK (b, h', got ++ [b])
      | HMalloc n, Some h => do (b, h') <- malloc pg h n; OK (b, h', got ++ [b])
      | HFreeOwn k, None => Err AssertionError
      | HFreeInherited k, None =>
          do h' <- free_in_child_before_malloc inherited (nth k pgot none_block); OK (none_block, h', got)
      | HFreeOwn k, Some h => do h' <- free h (nth k got none_block); OK (none_block, h', got)
      | HFreeInherited k, Some h => do h' <- free h (inherited_block (nth k pgot none_block)); OK (none_block, h', got)
      end in
    match res1 with
    | Err _ => ([(true, none_block, -1, -1)], None)
    | OK (b, h', got') =>
      let (os, hf) := child_run pg dsize (Some h') inherited pgot got' r in (obs_of h' b :: os, hf)
    end
  end.

Definition fork_case := (Z * Z * Z * list cop * list chop * list iobs * snapshot * snapshot)%type.

Definition check_fork_case (c : fork_case) : Z :=
  let '(pg, size, dsize, pre, child, cobs, csnap, psnap) := c in
  match csetup pg (heap_init size) [] pre with
  | None => 1
  | Some (h, got) =>
    let (mo, hf) := child_run pg dsize None h got [] child in
    if list_eqb iobs_eqb cobs mo
       && match hf with Some hc => snap_eqb csnap hc | None => true end
       && snap_eqb psnap h then 0 else 1
  end.
