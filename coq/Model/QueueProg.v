(* QueueProg: instruction language and interleaving semantics for billiard.queues
   (Queue.put/get/_feed, JoinableQueue, SimpleQueue).  Executable, no proofs in here.

   Same design as Model/SemProg.v (whose semaphore primitive, registers and flags are
   reused): one step = one thread executes the scheduling-point instruction it stands at
   and then runs its local instructions up to the next scheduling point.

   World.  N "pairs"; pair q = a main thread (index 2q) running a script of client calls and a
   feeder SLOT (index 2q+1): the thread running Queue._feed that main thread 2q's call of
   Queue._start_thread creates (dormant until then).  Every pair belongs to a process
   (owner own q; the identity by default: one main thread per process); the main threads of
   one process share that process's Queue object state (below), so several producer threads of
   one process race on `self._thread is None` / `_start_thread` exactly as far as the code lets
   them.  Shared between all processes: the semaphores (0 _sem =
   BoundedSemaphore(maxsize), 1 _rlock, 2 _wlock, 3 _unfinished_tasks, 4..7 the
   JoinableQueue's Condition: lock, sleeping, woken, wait) and the pipe -- a list of WHOLE
   messages (justified by C13 + the reader/writer locks around every send/recv).
   Private to a process: the feeder buffer (collections.deque), the list `spawned` of the feeder
   slots its _start_thread calls have started (self._thread is None iff it is empty), and the
   queue's threading.Condition `_notempty`, modelled
   as harness/c16_fakes.TCond does it: a lock NL (semaphore 8+2p), a notification semaphore
   NS (9+2p) and a waiter count.  TRUSTED: that this is what threading.Condition does.

   Pipe operations: send appends and never blocks (the bounded capacity of the OS pipe is
   not modelled); recv blocks while the pipe is empty; poll() tells whether a message is
   there; poll(timeout) may succeed when a message is there and may give up at any step.
   Messages are integers chosen by the harness (pickling is not modelled).
   Ghost state (never read by the programs): per process plog (messages appended to its
   buffer, in order) and slog (messages its feeder sent, in order); sendlog (all messages sent
   to the pipe, in order, each tagged with the process whose feeder wrote it) and getlog (all
   messages received, in order).
   Failure of serialisation: `obj = ForkingPickler.dumps(obj)` raises for unpicklable messages;
   in Queue._feed the handler `except Exception` is INSIDE `while 1` (since the repair 36337df):
   the error is logged, the popped message is dropped, `queue_sem.release()` gives its capacity
   token back and the thread goes on.  (Before the repair the handler was outside the loop and
   the thread's function returned: QExit, kept in the language so that the translator can still
   follow that code -- the popped message and its token were then gone with the thread.)
   Deadlines: `timeout = deadline - monotonic()` is a scheduling point (QClock) whose outcome
   (time left / deadline passed) is chosen by the scheduler. *)
From Coq Require Import ZArith List Bool.
From BV Require Import Model.SemProg.
Import ListNotations.
Open Scope Z_scope.

Inductive sref := SG (n : nat) | SP (off : nat).
Definition PBASE : nat := 8.
Definition sid (p : nat) (r : sref) : nat :=
  match r with SG n => n | SP o => (PBASE + 2 * p + o)%nat end.

Inductive qinstr :=
(* scheduling points *)
| QAcq (s : sref) (blocking timed : flag) (dst : nat)
| QRel (s : sref)
| QIsZero (s : sref) (dst : nat)
| QSend (r : nat)                     (* send_bytes(reg r) *)
| QRecv (dst : nat)                   (* dst := recv_bytes()      (blocks while empty) *)
| QPoll (timed : flag) (dst : nat)    (* dst := poll([timeout]) *)
| QClock (dst : nat)                  (* timeout = deadline - monotonic(); dst := (timeout < 0), an oracle *)
| QStartThread                        (* the body of Queue._start_thread: self._buffer.clear(); self._thread =
                                         threading.Thread(target=Queue._feed, ...); self._thread.start().  A scheduling
                                         point (the harness parks the caller at buffer.clear()): the feeder slot of the
                                         calling main thread becomes runnable; event result = number of items the
                                         clear dropped *)
| QExit                               (* the thread's function has returned (Queue._feed BEFORE the repair, after its
                                         `except Exception`): the thread never runs again; not used by the
                                         programs of the repaired code *)
(* local instructions *)
| QThreadJ (pc : nat)                 (* if self._thread is not None: goto pc  (the test `self._thread is None` is false) *)
| QBufAppend (r : nat)                (* self._buffer.append(reg r) *)
| QBufPop (dst : nat) (epc : nat)     (* dst := bpopleft(); IndexError -> goto epc *)
| QBufNonEmptyJ (pc : nat)            (* if buffer: goto pc *)
| QDumps (r : nat) (epc : nat)        (* obj = ForkingPickler.dumps(obj); an exception -> goto epc *)
| QWInc | QWDec | QWJz (pc : nat)     (* _notempty's waiter count *)
| QAssertNZ (r : nat) | QAssertZ (r : nat) | QAssertMine (s : sref)
| QCount (s : sref) (dst : nat)
| QMov (dst : nat) (v : Z) | QCpy (dst src : nat) | QInc (dst : nat)
| QJmp (pc : nat) | QJz (r : nat) (pc : nat) | QJnz (r : nat) (pc : nat) | QJge (a b : nat) (pc : nat)
| QRaise (code : Z)
| QRet (v : rv).

(* Messages are integers chosen by the harness.  Serialisation is modelled only as far as it can
   FAIL: ForkingPickler.dumps raises for the messages >= UNPICKLABLE (the harness puts objects
   whose __reduce__ raises for them) and is the identity otherwise. *)
Definition UNPICKLABLE : Z := 1000.
Definition picklable (m : Z) : bool := m <? UNPICKLABLE.

Record pstate := mkP { buf : list Z; nw : Z; spawned : list nat; plog : list Z; slog : list Z }.
Definition dps : pstate := mkP [] 0 [] [] [].
(* self._thread is not None *)
Definition started (ps : pstate) : bool := match spawned ps with [] => false | _ :: _ => true end.

Fixpoint updp (l : list pstate) (i : nat) (v : pstate) : list pstate :=
  match i, l with
  | O, [] => [v]
  | O, _ :: r => v :: r
  | S i', [] => dps :: updp [] i' v
  | S i', x :: r => x :: updp r i' v
  end.

(* outcome of a local run: where it stops, and the process state *)
Inductive qres := QLSem (pc : nat) (r : regs) | QLFin (v : Z).

Definition QFUEL : nat := 40.

Fixpoint qlocal (p : nat) (prog : list qinstr) (h : list Z) (fuel : nat) (pc : nat) (r : regs)
         (ps : pstate) : qres * pstate :=
  match fuel with
  | O => (QLFin E_STUCK, ps)
  | S f =>
    match nth_error prog pc with
    | None => (QLFin E_STUCK, ps)
    | Some i =>
      match i with
      | QAcq _ _ _ _ | QRel _ | QIsZero _ _ | QSend _ | QRecv _ | QPoll _ _ | QClock _ | QStartThread | QExit => (QLSem pc r, ps)
      | QDumps x e => if picklable (getr x r) then qlocal p prog h f (S pc) r ps else qlocal p prog h f e r ps
      | QThreadJ t => match spawned ps with [] => qlocal p prog h f (S pc) r ps
                                          | _ :: _ => qlocal p prog h f t r ps end
      | QBufAppend x => qlocal p prog h f (S pc) r
                               (mkP (buf ps ++ [getr x r]) (nw ps) (spawned ps) (plog ps ++ [getr x r]) (slog ps))
      | QBufPop d e =>
        match buf ps with
        | [] => qlocal p prog h f e r ps
        | m :: rest => qlocal p prog h f (S pc) (setr d m r) (mkP rest (nw ps) (spawned ps) (plog ps) (slog ps))
        end
      | QBufNonEmptyJ t => match buf ps with [] => qlocal p prog h f (S pc) r ps
                                          | _ => qlocal p prog h f t r ps end
      | QWInc => qlocal p prog h f (S pc) r (mkP (buf ps) (nw ps + 1) (spawned ps) (plog ps) (slog ps))
      | QWDec => qlocal p prog h f (S pc) r (mkP (buf ps) (nw ps - 1) (spawned ps) (plog ps) (slog ps))
      | QWJz t => if nw ps =? 0 then qlocal p prog h f t r ps else qlocal p prog h f (S pc) r ps
      | QAssertNZ x => if getr x r =? 0 then (QLFin E_ASSERT, ps) else qlocal p prog h f (S pc) r ps
      | QAssertZ x => if getr x r =? 0 then qlocal p prog h f (S pc) r ps else (QLFin E_ASSERT, ps)
      | QAssertMine s => if 0 <? nth (sid p s) h 0 then qlocal p prog h f (S pc) r ps
                         else (QLFin E_ASSERT, ps)
      | QCount s d => qlocal p prog h f (S pc) (setr d (nth (sid p s) h 0) r) ps
      | QMov d v => qlocal p prog h f (S pc) (setr d v r) ps
      | QCpy d x => qlocal p prog h f (S pc) (setr d (getr x r) r) ps
      | QInc d => qlocal p prog h f (S pc) (setr d (getr d r + 1) r) ps
      | QJmp t => qlocal p prog h f t r ps
      | QJz x t => if getr x r =? 0 then qlocal p prog h f t r ps else qlocal p prog h f (S pc) r ps
      | QJnz x t => if getr x r =? 0 then qlocal p prog h f (S pc) r ps else qlocal p prog h f t r ps
      | QJge a b t => if getr b r <=? getr a r then qlocal p prog h f t r ps
                      else qlocal p prog h f (S pc) r ps
      | QRaise c => (QLFin c, ps)
      | QRet v => (QLFin (rvv v r), ps)
      end
    end
  end.

(* call = (id, a0, a1, a2): a0 = `timeout is not None`, a1 = `block`, a2 = the message *)
Definition qcall := (nat * Z * Z * Z)%type.
Definition qinit_regs (a0 a1 a2 : Z) : regs := mkR a0 a1 a2 0 0 0 0 0.

Record qthread := mkQT {
  qproc : nat;
  qfeeder : bool;
  qcur : qcall;
  qpc : nat;
  qrg : regs;
  qheld : list Z;
  qscript : list qcall;
  qresults : list (qcall * Z);
  qfin : bool
}.
Definition qcid (t : qthread) : nat := fst (fst (fst (qcur t))).

Record qsys := mkQS {
  qsems : list sem;
  qthr : list qthread;
  pipe : list Z;
  procs : list pstate;
  sendlog : list (nat * Z);      (* (producer process, message), in the order of the writes *)
  getlog : list Z
}.

Section WithCode.
Variable code : nat -> list qinstr.

Fixpoint qstart (p : nat) (fd : bool) (h : list Z) (res : list (qcall * Z)) (sc : list qcall)
         (ps : pstate) : qthread * pstate :=
  match sc with
  | [] => (mkQT p fd (0%nat, 0, 0, 0) 0 (qinit_regs 0 0 0) h [] res true, ps)
  | (c, a0, a1, a2) :: rest =>
    match qlocal p (code c) h QFUEL 0 (qinit_regs a0 a1 a2) ps with
    | (QLSem pc r, ps') => (mkQT p fd (c, a0, a1, a2) pc r h rest res false, ps')
    | (QLFin v, ps') => qstart p fd h ((c, a0, a1, a2, v) :: res) rest ps'
    end
  end.

Definition qadvance (t : qthread) (pc : nat) (r : regs) (h : list Z) (ps : pstate)
  : qthread * pstate :=
  match qlocal (qproc t) (code (qcid t)) h QFUEL pc r ps with
  | (QLSem pc' r', ps') =>
    (mkQT (qproc t) (qfeeder t) (qcur t) pc' r' h (qscript t) (qresults t) false, ps')
  | (QLFin v, ps') =>
    qstart (qproc t) (qfeeder t) h ((qcur t, v) :: qresults t) (qscript t) ps'
  end.

Definition qabort (t : qthread) (h : list Z) (e : Z) (ps : pstate) : qthread * pstate :=
  qstart (qproc t) (qfeeder t) h ((qcur t, e) :: qresults t) (qscript t) ps.

(* event = (thread, object, op, result): objects 0.. = semaphore ids, 100 = the pipe;
   op 0 acquire, 1 release, 2 is_zero, 3 send (result = message), 4 recv (message), 5 poll;
   101 = the clock, op 6 = remaining time computed (result 1 = the deadline has passed);
   102 = the process's feeder-thread slot `self._thread`, op 7 = _start_thread ran (result = number of
   items its buffer.clear() dropped) *)
Definition PIPE : nat := 100.
Definition CLOCK : nat := 101.
Definition THREAD : nat := 102.

(* a feeder slot that no _start_thread of its process has started yet *)
Definition qdormant (g : qsys) (i : nat) (t : qthread) : bool :=
  qfeeder t && negb (existsb (Nat.eqb i) (spawned (nth (qproc t) (procs g) dps))).

Definition commit (g : qsys) (i : nat) (ss : list sem) (pp : list Z) (sl : list (nat * Z)) (gl : list Z)
           (x : qthread * pstate) : qsys :=
  let '(t', ps') := x in
  mkQS ss (upd (qthr g) i t') pp (updp (procs g) (qproc t') ps') sl gl.

Definition qstep (g : qsys) (i : nat) (go : bool) : option (qsys * event) :=
  match nth_error (qthr g) i with
  | None => None
  | Some t =>
    let p := qproc t in
    let ps := nth p (procs g) dps in
    if qfin t then None
    else if qdormant g i t then None
    else
    match nth_error (code (qcid t)) (qpc t) with
    | Some (QAcq sr b tm d) =>
      let s := sid p sr in
      let blocking := flagv b (qrg t) in
      let timed := blocking && flagv tm (qrg t) in
      let sm := nth s (qsems g) dsem in
      let h := nth s (qheld t) 0 in
      if go then
        match sem_acq sm h with
        | Some (sm', h') =>
          Some (commit g i (upds (qsems g) s sm') (pipe g) (sendlog g) (getlog g)
                       (qadvance t (S (qpc t)) (setr d 1 (qrg t)) (updz (qheld t) s h') ps),
                (i, s, 0, 1))
        | None =>
          if blocking then None
          else Some (commit g i (qsems g) (pipe g) (sendlog g) (getlog g)
                            (qadvance t (S (qpc t)) (setr d 0 (qrg t)) (qheld t) ps), (i, s, 0, 0))
        end
      else if timed then
        Some (commit g i (qsems g) (pipe g) (sendlog g) (getlog g)
                     (qadvance t (S (qpc t)) (setr d 0 (qrg t)) (qheld t) ps), (i, s, 0, 0))
      else None
    | Some (QRel sr) =>
      let s := sid p sr in
      if go then
        match sem_rel (nth s (qsems g) dsem) (nth s (qheld t) 0) with
        | (sm', h', e) =>
          if e =? 0 then
            Some (commit g i (upds (qsems g) s sm') (pipe g) (sendlog g) (getlog g)
                         (qadvance t (S (qpc t)) (qrg t) (updz (qheld t) s h') ps), (i, s, 1, 0))
          else Some (commit g i (qsems g) (pipe g) (sendlog g) (getlog g) (qabort t (qheld t) e ps), (i, s, 1, e))
        end
      else None
    | Some (QIsZero sr d) =>
      let s := sid p sr in
      if go then
        let z := if val (nth s (qsems g) dsem) =? 0 then 1 else 0 in
        Some (commit g i (qsems g) (pipe g) (sendlog g) (getlog g)
                     (qadvance t (S (qpc t)) (setr d z (qrg t)) (qheld t) ps), (i, s, 2, z))
      else None
    | Some (QSend x) =>
      if go then
        let m := getr x (qrg t) in
        Some (commit g i (qsems g) (pipe g ++ [m]) (sendlog g ++ [(p, m)]) (getlog g)
                     (qadvance t (S (qpc t)) (qrg t) (qheld t)
                               (mkP (buf ps) (nw ps) (spawned ps) (plog ps) (slog ps ++ [m]))),
              (i, PIPE, 3, m))
      else None
    | Some (QRecv d) =>
      if go then
        match pipe g with
        | [] => None
        | m :: rest =>
          Some (commit g i (qsems g) rest (sendlog g) (getlog g ++ [m])
                       (qadvance t (S (qpc t)) (setr d m (qrg t)) (qheld t) ps), (i, PIPE, 4, m))
        end
      else None
    | Some (QPoll tm d) =>
      let timed := flagv tm (qrg t) in
      let avail := match pipe g with [] => false | _ => true end in
      if go then
        if avail then
          Some (commit g i (qsems g) (pipe g) (sendlog g) (getlog g)
                       (qadvance t (S (qpc t)) (setr d 1 (qrg t)) (qheld t) ps), (i, PIPE, 5, 1))
        else if timed then None
        else Some (commit g i (qsems g) (pipe g) (sendlog g) (getlog g)
                          (qadvance t (S (qpc t)) (setr d 0 (qrg t)) (qheld t) ps), (i, PIPE, 5, 0))
      else if timed then
        Some (commit g i (qsems g) (pipe g) (sendlog g) (getlog g)
                     (qadvance t (S (qpc t)) (setr d 0 (qrg t)) (qheld t) ps), (i, PIPE, 5, 0))
      else None
    | Some (QClock d) =>
      (* the deadline is an oracle: go = there is time left, not go = it has passed *)
      let z := if go then 0 else 1 in
      Some (commit g i (qsems g) (pipe g) (sendlog g) (getlog g)
                   (qadvance t (S (qpc t)) (setr d z (qrg t)) (qheld t) ps), (i, CLOCK, 6, z))
    | Some QStartThread =>
      (* Queue._start_thread, called by main thread i: the buffer is cleared, the feeder slot i+1 starts *)
      if go then
        Some (commit g i (qsems g) (pipe g) (sendlog g) (getlog g)
                     (qadvance t (S (qpc t)) (qrg t) (qheld t)
                               (mkP [] (nw ps) (spawned ps ++ [S i]) (plog ps) (slog ps))),
              (i, THREAD, 7, Z.of_nat (length (buf ps))))
      else None
    | _ => None         (* QExit: the thread is gone; local instructions are never the current one *)
    end
  end.

(* the thread has left its function for good (a feeder whose _feed returned) *)
Definition qexited (t : qthread) : bool :=
  negb (qfin t) && match nth_error (code (qcid t)) (qpc t) with Some QExit => true | _ => false end.

Fixpoint qrun (g : qsys) (sched : list (nat * bool)) : qsys * list event * bool :=
  match sched with
  | [] => (g, [], true)
  | (i, go) :: rest =>
    match qstep g i go with
    | None => (g, [], false)
    | Some (g1, e) => let '(g2, es, ok) := qrun g1 rest in (g2, e :: es, ok)
    end
  end.

(* initial system: scripts = one script per pair (main thread 2q + feeder slot 2q+1); own = the
   process of each pair (a pair beyond the end of own is its own process: own = [] is "one main
   thread per process"); FEED = call id of the feeder program.  There are as many process states
   (and per-process semaphores) as pairs; those of processes that own no pair are never used. *)
Variable FEED : nat.

Definition owner (own : list nat) (q : nat) : nat := nth q own q.

Fixpoint qinit_threads (q : nat) (own : list nat) (scripts : list (list qcall)) (pss : list pstate)
  : list qthread * list pstate :=
  match scripts with
  | [] => ([], pss)
  | sc :: rest =>
    let p := owner own q in
    let '(tm, ps1) := qstart p false [] [] sc (nth p pss dps) in
    let '(tf, ps2) := qstart p true [] [] [(FEED, 0, 0, 0)] ps1 in
    let '(ts, pss') := qinit_threads (S q) own rest (updp pss p ps2) in
    (tm :: tf :: ts, pss')
  end.

Definition qinit_sys (ss : list sem) (own : list nat) (scripts : list (list qcall)) : qsys :=
  let '(ts, pss) := qinit_threads 0 own scripts (repeat dps (length scripts)) in
  mkQS ss ts [] pss [] [].

End WithCode.
