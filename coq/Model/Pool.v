(* Executable model of the PARENT side of billiard.pool.Pool as an open system:
   worker messages, worker exits, clock, supervision passes, timeout scans and
   user calls arrive in any order.  One event = one call into the real code as
   issued by harness/pool_driver.py.  No proofs in this file.

   Code modelled (pool.py): Pool.apply_async / map_async / imap / imap_unordered
   (submission part), ResultHandler.on_ack/on_ready/on_death/on_state_change,
   ApplyResult/MapResult/IMapIterator/IMapUnorderedIterator _ack/_set/_set_length/next,
   Pool._join_exited_workers / _repopulate_pool / _avail_index / _maintain_pool,
   mark_as_worker_lost / on_job_process_lost / _set_terminated,
   TimeoutHandler.handle_timeouts / on_hard_timeout / on_soft_timeout / _trywaitkill,
   TaskHandler.body (feeding and the put-failure branches), terminate_job, grow,
   shrink, close, discard.  Values are abstract tags; data reassembly is C02's. *)
From Coq Require Import ZArith List Bool.
From BV Require Import Lib.Cases Model.LaxSem Model.Restart.
Import ListNotations.
Open Scope Z_scope.

Inductive jkind := KApply | KMap | KIMap | KIMapU.

Inductive payload :=
| PValue (tag : Z)                 (* worker-made success *)
| PExc (tag : Z)                   (* worker-made failure *)
| PLost (status : Z) (job : Z)     (* WorkerLostError: exit status and the job id in its text *)
| PTimeLimit (limit : option Z)    (* TimeLimitExceeded(job._timeout) *)
| PTerminated (code : Z)           (* Terminated(-(signum or 0)) *)
| PPutFailed.                      (* the task could not be sent *)

Definition payload_success (p : payload) : bool :=
  match p with PValue _ => true | _ => false end.

Record job := mkjob {
  jid : Z; kind : jkind; incache : bool;
  ready : bool;
  value : option payload;          (* Apply: the stored result.  Map: the failure, if any *)
  accepted : bool;                 (* Apply: _accepted.  Map: truthiness of the per-item list *)
  wp : list Z;                     (* Apply: [owner].  IMap/IMapU: every acknowledging pid, in order *)
  cp : list (option Z);            (* Map: owner of each chunk *)
  time_accepted : option Z;        (* Apply only; Map/IMap have no scalar acceptance time *)
  soft : option Z; hard : option Z; lost_timeout : Z;
  worker_lost : option (Z * Z);    (* (detection time, exit status) *)
  cb_succ : Z; cb_err : Z; cb_acc : Z; cb_tmo : list (bool * option Z);
  mlen : Z; mcs : Z; number_left : Z;               (* Map *)
  index : Z; ilength : option Z;                    (* IMap / IMapU *)
  unsorted : list (option Z * payload); items : list payload
}.

Record proc := mkproc {
  pid : Z; widx : Z; pexit : option Z; controlled : bool; jterm : bool; counter : Z
}.

Record pool := mkpool {
  jobs : list job;                 (* every job ever created, creation order = dict order of the cache *)
  procs : list proc;               (* every process ever started, index = pid *)
  wlist : list Z;                  (* Pool._pool: pids in list order *)
  nprocs : Z;
  sem : LaxSem.sem; putlocks : bool;
  rst : Restart.rs;
  now : Z; pstate : Z;             (* 0 RUN 1 CLOSE 2 TERMINATE *)
  t_soft : option Z; t_hard : option Z; dflt_lost : Z;
  scanner : bool; dirty : list Z;
  feeds : list (Z * Z * bool);     (* queued task sequences: job, number of tasks, has set_length *)
  sigs : list (Z * Z);             (* signals sent by the last event: (pid, signum) *)
  scan_todo : list Z               (* a scan in progress: cache keys of its snapshot not yet visited *)
}.

Inductive event :=
| EApply (soft hard lost : option Z) (slot : option bool)
| EMap (n cs : Z)
| EIMap (n : Z) | EIMapU (n : Z)
| EFeed (fail_at : option Z) (io : bool)
| EAck (j : Z) (i : option Z) (p : Z)
| EReady (j : Z) (i : option Z) (ok : bool) (tag : Z)
| EStaleAck (p : Z) | EStaleReady (ok : bool)
| EDeath (p code : Z) | EJunk
| EExit (p status : Z)
| ETick
| EScan (lingers : bool)
| EScanBegin                  (* the scan takes its snapshot of the cache ... *)
| EScanStep (lingers : bool)  (* ... visits the next job of the snapshot ... *)
| EScanEnd                    (* ... and finishes; other events may come in between *)
| EAdvance (dt : Z)
| EDiscard (j : Z)
| ETerminateJob (p : Z) (sig : option Z)
| EGrow (n : Z) | EShrink (n : Z)
| EClose
| ENext (j : Z)
| ETickClose (k : nat)
| EJoinShutdown              (* ResultHandler.finish_at_shutdown: _join_exited_workers(shutdown=True) *)
| EApplyQ (soft hard lost : option Z) (slot : option bool)
                             (* apply_async on a pool WITH helper threads: the task is queued for the
                                task handler (a later EFeed sends it, or fails to) *)
| EApplyUnsendable (slot : option bool).
                             (* apply_async on a pool without helper threads whose write to the pipe
                                raises: the call re-raises, no job exists afterwards *)      (* a supervision pass during which close() is called from the start-up hook
                                of the (k+1)-th worker it starts *)

(* what the call returned / raised, as the harness canonicalises it *)
Inductive ret :=
| RNone | RBlocked | RRefused | RNoScanner
| RExc (code : Z)      (* 10 RestartFreqExceeded 11 ValueError 12 TypeError 13 KeyError 14 AssertionError 15 IndexError 20 WorkersJoined *)
| RItem (p : payload) | RStop | REmpty | RRaised (p : payload).

(* ------------------------------------------------------------ small helpers *)
Definition SIGTERM := 15. Definition SIGKILL := 9. Definition SIGUSR1 := 10.
Definition EX_RECYCLE := 155.

Definition truthyZ (o : option Z) : bool := match o with Some z => negb (z =? 0) | None => false end.
Definition py_or (a b : option Z) : option Z := if truthyZ a then a else b.

Fixpoint upd_nth {A} (n : nat) (f : A -> A) (l : list A) : list A :=
  match l, n with
  | [], _ => []
  | x :: r, O => f x :: r
  | x :: r, S k => x :: upd_nth k f r
  end.

Definition get_job (s : pool) (j : Z) : option job :=
  if j <? 0 then None else nth_error (jobs s) (Z.to_nat j).
Definition cached (s : pool) (j : Z) : option job :=
  match get_job s j with Some x => if incache x then Some x else None | None => None end.
Definition set_job (s : pool) (j : Z) (f : job -> job) : pool :=
  mkpool (if j <? 0 then jobs s else upd_nth (Z.to_nat j) f (jobs s)) (procs s) (wlist s) (nprocs s) (sem s) (putlocks s)
         (rst s) (now s) (pstate s) (t_soft s) (t_hard s) (dflt_lost s) (scanner s) (dirty s)
         (feeds s) (sigs s) (scan_todo s).
Definition get_proc (s : pool) (p : Z) : option proc :=
  if p <? 0 then None else nth_error (procs s) (Z.to_nat p).
Definition set_proc (s : pool) (p : Z) (f : proc -> proc) : pool :=
  mkpool (jobs s) (if p <? 0 then procs s else upd_nth (Z.to_nat p) f (procs s)) (wlist s) (nprocs s) (sem s) (putlocks s)
         (rst s) (now s) (pstate s) (t_soft s) (t_hard s) (dflt_lost s) (scanner s) (dirty s)
         (feeds s) (sigs s) (scan_todo s).
Definition with_sem (s : pool) (x : LaxSem.sem) : pool :=
  mkpool (jobs s) (procs s) (wlist s) (nprocs s) x (putlocks s)
         (rst s) (now s) (pstate s) (t_soft s) (t_hard s) (dflt_lost s) (scanner s) (dirty s)
         (feeds s) (sigs s) (scan_todo s).
Definition with_rst (s : pool) (x : Restart.rs) : pool :=
  mkpool (jobs s) (procs s) (wlist s) (nprocs s) (sem s) (putlocks s)
         x (now s) (pstate s) (t_soft s) (t_hard s) (dflt_lost s) (scanner s) (dirty s)
         (feeds s) (sigs s) (scan_todo s).
Definition with_wlist (s : pool) (x : list Z) : pool :=
  mkpool (jobs s) (procs s) x (nprocs s) (sem s) (putlocks s)
         (rst s) (now s) (pstate s) (t_soft s) (t_hard s) (dflt_lost s) (scanner s) (dirty s)
         (feeds s) (sigs s) (scan_todo s).
Definition with_nprocs (s : pool) (x : Z) : pool :=
  mkpool (jobs s) (procs s) (wlist s) x (sem s) (putlocks s)
         (rst s) (now s) (pstate s) (t_soft s) (t_hard s) (dflt_lost s) (scanner s) (dirty s)
         (feeds s) (sigs s) (scan_todo s).
Definition with_now (s : pool) (x : Z) : pool :=
  mkpool (jobs s) (procs s) (wlist s) (nprocs s) (sem s) (putlocks s)
         (rst s) x (pstate s) (t_soft s) (t_hard s) (dflt_lost s) (scanner s) (dirty s)
         (feeds s) (sigs s) (scan_todo s).
Definition with_pstate (s : pool) (x : Z) : pool :=
  mkpool (jobs s) (procs s) (wlist s) (nprocs s) (sem s) (putlocks s)
         (rst s) (now s) x (t_soft s) (t_hard s) (dflt_lost s) (scanner s) (dirty s)
         (feeds s) (sigs s) (scan_todo s).
Definition with_dirty (s : pool) (x : list Z) : pool :=
  mkpool (jobs s) (procs s) (wlist s) (nprocs s) (sem s) (putlocks s)
         (rst s) (now s) (pstate s) (t_soft s) (t_hard s) (dflt_lost s) (scanner s) x
         (feeds s) (sigs s) (scan_todo s).
Definition with_feeds (s : pool) (x : list (Z * Z * bool)) : pool :=
  mkpool (jobs s) (procs s) (wlist s) (nprocs s) (sem s) (putlocks s)
         (rst s) (now s) (pstate s) (t_soft s) (t_hard s) (dflt_lost s) (scanner s) (dirty s)
         x (sigs s) (scan_todo s).
Definition with_sigs (s : pool) (x : list (Z * Z)) : pool :=
  mkpool (jobs s) (procs s) (wlist s) (nprocs s) (sem s) (putlocks s)
         (rst s) (now s) (pstate s) (t_soft s) (t_hard s) (dflt_lost s) (scanner s) (dirty s)
         (feeds s) x (scan_todo s).
Definition with_todo (s : pool) (x : list Z) : pool :=
  mkpool (jobs s) (procs s) (wlist s) (nprocs s) (sem s) (putlocks s)
         (rst s) (now s) (pstate s) (t_soft s) (t_hard s) (dflt_lost s) (scanner s) (dirty s)
         (feeds s) (sigs s) x.
Definition add_job (s : pool) (x : job) : pool :=
  mkpool (jobs s ++ [x]) (procs s) (wlist s) (nprocs s) (sem s) (putlocks s)
         (rst s) (now s) (pstate s) (t_soft s) (t_hard s) (dflt_lost s) (scanner s) (dirty s)
         (feeds s) (sigs s) (scan_todo s).

Definition memZ (x : Z) (l : list Z) : bool := existsb (Z.eqb x) l.

(* job field setters *)
Definition j_uncache (x : job) : job :=
  mkjob (jid x) (kind x) false (ready x) (value x) (accepted x) (wp x) (cp x) (time_accepted x)
        (soft x) (hard x) (lost_timeout x) (worker_lost x) (cb_succ x) (cb_err x) (cb_acc x) (cb_tmo x)
        (mlen x) (mcs x) (number_left x) (index x) (ilength x) (unsorted x) (items x).
Definition j_set_lost (x : job) (m : option (Z * Z)) : job :=
  mkjob (jid x) (kind x) (incache x) (ready x) (value x) (accepted x) (wp x) (cp x) (time_accepted x)
        (soft x) (hard x) (lost_timeout x) m (cb_succ x) (cb_err x) (cb_acc x) (cb_tmo x)
        (mlen x) (mcs x) (number_left x) (index x) (ilength x) (unsorted x) (items x).
Definition j_add_tmo (x : job) (t : bool * option Z) : job :=
  mkjob (jid x) (kind x) (incache x) (ready x) (value x) (accepted x) (wp x) (cp x) (time_accepted x)
        (soft x) (hard x) (lost_timeout x) (worker_lost x) (cb_succ x) (cb_err x) (cb_acc x) (cb_tmo x ++ [t])
        (mlen x) (mcs x) (number_left x) (index x) (ilength x) (unsorted x) (items x).

(* worker_pids() of each kind, duplicates removed keeping first occurrences *)
Fixpoint dedup (l : list Z) (seen : list Z) : list Z :=
  match l with
  | [] => []
  | x :: r => if memZ x seen then dedup r seen else x :: dedup r (x :: seen)
  end.
Fixpoint somes (l : list (option Z)) : list Z :=
  match l with [] => [] | Some x :: r => x :: somes r | None :: r => somes r end.
Definition worker_pids (x : job) : list Z :=
  match kind x with
  | KApply => wp x
  | KMap => somes (cp x)
  | _ => wp x
  end.

(* ----------------------------------------------------------- _set of each kind *)
(* ApplyResult._set: first writer wins *)
Definition apply_set (x : job) (p : payload) : job :=
  if ready x then x else
  let ok := payload_success p in
  mkjob (jid x) (kind x) (if accepted x then false else incache x) true (Some p) (accepted x)
        (wp x) (cp x) (time_accepted x) (soft x) (hard x) (lost_timeout x) (worker_lost x)
        (if ok then cb_succ x + 1 else cb_succ x)
        (if ok then cb_err x else cb_err x + 1)
        (cb_acc x) (cb_tmo x)
        (mlen x) (mcs x) (number_left x) (index x) (ilength x) (unsorted x) (items x).

(* MapResult._set *)
Definition map_set (x : job) (p : payload) : job :=
  if payload_success p then
    let nl := number_left x - 1 in
    if nl =? 0 then
      mkjob (jid x) (kind x) (if accepted x then false else incache x) true (value x) (accepted x)
            (wp x) (cp x) (time_accepted x) (soft x) (hard x) (lost_timeout x) (worker_lost x)
            (cb_succ x + 1) (cb_err x) (cb_acc x) (cb_tmo x)
            (mlen x) (mcs x) nl (index x) (ilength x) (unsorted x) (items x)
    else
      mkjob (jid x) (kind x) (incache x) (ready x) (value x) (accepted x)
            (wp x) (cp x) (time_accepted x) (soft x) (hard x) (lost_timeout x) (worker_lost x)
            (cb_succ x) (cb_err x) (cb_acc x) (cb_tmo x)
            (mlen x) (mcs x) nl (index x) (ilength x) (unsorted x) (items x)
  else
    mkjob (jid x) (kind x) (if accepted x then false else incache x) true (Some p) (accepted x)
          (wp x) (cp x) (time_accepted x) (soft x) (hard x) (lost_timeout x) (worker_lost x)
          (cb_succ x) (cb_err x + 1) (cb_acc x) (cb_tmo x)
          (mlen x) (mcs x) (number_left x) (index x) (ilength x) (unsorted x) (items x).

Definition okey_eqb (a b : option Z) : bool := opt_eqb Z.eqb a b.
Fixpoint assoc_pop (k : option Z) (l : list (option Z * payload))
  : option (payload * list (option Z * payload)) :=
  match l with
  | [] => None
  | (k', v) :: r => if okey_eqb k k' then Some (v, r)
                    else match assoc_pop k r with
                         | Some (v', r') => Some (v', (k', v) :: r')
                         | None => None
                         end
  end.
Definition assoc_put (k : option Z) (v : payload) (l : list (option Z * payload)) :=
  match assoc_pop k l with
  | Some (_, _) => map (fun kv => if okey_eqb k (fst kv) then (fst kv, v) else kv) l
  | None => l ++ [(k, v)]
  end.

(* the `while self._index in self._unsorted` loop; fuel = size of the dict *)
Fixpoint drain (fuel : nat) (idx : Z) (uns : list (option Z * payload)) (its : list payload)
  : Z * list (option Z * payload) * list payload :=
  match fuel with
  | O => (idx, uns, its)
  | S f => match assoc_pop (Some idx) uns with
           | Some (v, uns') => drain f (idx + 1) uns' (its ++ [v])
           | None => (idx, uns, its)
           end
  end.

Definition mk_imap (x : job) (inc rdy : bool) (idx : Z) (len : option Z) uns its : job :=
  mkjob (jid x) (kind x) inc rdy (value x) (accepted x)
        (wp x) (cp x) (time_accepted x) (soft x) (hard x) (lost_timeout x) (worker_lost x)
        (cb_succ x) (cb_err x) (cb_acc x) (cb_tmo x)
        (mlen x) (mcs x) (number_left x) idx len uns its.

(* IMapIterator._set; the bool says `del self._cache[self._job]` raised KeyError
   (swallowed by on_ready, but not by other callers) *)
Definition imap_set (x : job) (i : option Z) (p : payload) : job * bool :=
  let '(idx, uns, its) :=
      if okey_eqb (Some (index x)) i
      then drain (length (unsorted x)) (index x + 1) (unsorted x) (items x ++ [p])
      else (index x, assoc_put i p (unsorted x), items x) in
  if okey_eqb (Some idx) (ilength x)
  then (mk_imap x false true idx (ilength x) uns its, negb (incache x))
  else (mk_imap x (incache x) (ready x) idx (ilength x) uns its, false).

Definition imapu_set (x : job) (p : payload) : job * bool :=
  let idx := index x + 1 in
  if okey_eqb (Some idx) (ilength x)
  then (mk_imap x false true idx (ilength x) (unsorted x) (items x ++ [p]), negb (incache x))
  else (mk_imap x (incache x) (ready x) idx (ilength x) (unsorted x) (items x ++ [p]), false).

Definition job_set (x : job) (i : option Z) (p : payload) : job * bool :=
  match kind x with
  | KApply => (apply_set x p, false)
  | KMap => (map_set x p, false)
  | KIMap => imap_set x i p
  | KIMapU => imapu_set x p
  end.

Definition is_imap (x : job) : bool :=
  match kind x with KIMap | KIMapU => true | _ => false end.

(* only imap jobs are ever queued with a set_length callback *)
Definition set_length (x : job) (n : Z) : job * bool :=
  if negb (is_imap x) then (x, false) else
  if okey_eqb (Some (index x)) (Some n)
  then (mk_imap x false true (index x) (Some n) (unsorted x) (items x), negb (incache x))
  else (mk_imap x (incache x) (ready x) (index x) (Some n) (unsorted x) (items x), false).

(* ------------------------------------------------------------------ _ack *)
Definition chunk_count (n cs : Z) : Z := if cs <=? 0 then 0 else n / cs + (if n mod cs =? 0 then 0 else 1).

Definition apply_ack (x : job) (t p : Z) : job :=
  mkjob (jid x) (kind x) (if ready x then false else incache x) (ready x) (value x) true
        [p] (cp x) (Some t) (soft x) (hard x) (lost_timeout x) (worker_lost x)
        (cb_succ x) (cb_err x) (cb_acc x + 1) (cb_tmo x)
        (mlen x) (mcs x) (number_left x) (index x) (ilength x) (unsorted x) (items x).

(* MapResult._ack marks the items of chunk i; an index past the end marks nothing *)
Definition map_ack (x : job) (i p : Z) : job :=
  let marks := (0 <=? i) && (i * mcs x <? mlen x) in
  mkjob (jid x) (kind x) (if ready x then false else incache x) (ready x) (value x) (accepted x)
        (wp x) (if marks then upd_nth (Z.to_nat i) (fun _ => Some p) (cp x) else cp x)
        (time_accepted x) (soft x) (hard x) (lost_timeout x) (worker_lost x)
        (cb_succ x) (cb_err x) (cb_acc x) (cb_tmo x)
        (mlen x) (mcs x) (number_left x) (index x) (ilength x) (unsorted x) (items x).

Definition imap_ack (x : job) (p : Z) : job :=
  mkjob (jid x) (kind x) (incache x) (ready x) (value x) (accepted x)
        (wp x ++ [p]) (cp x) (time_accepted x) (soft x) (hard x) (lost_timeout x) (worker_lost x)
        (cb_succ x) (cb_err x) (cb_acc x) (cb_tmo x)
        (mlen x) (mcs x) (number_left x) (index x) (ilength x) (unsorted x) (items x).

(* ------------------------------------------------------------------ signals *)
(* the fake process: KILL always ends it, TERM ends it unless it lingers *)
Definition deliver (s : pool) (p sig : Z) (lingers : bool) : pool :=
  let s := with_sigs s (sigs s ++ [(p, sig)]) in
  set_proc s p (fun q =>
    match pexit q with
    | Some _ => q
    | None => if sig =? SIGKILL then mkproc (pid q) (widx q) (Some (-9)) (controlled q) (jterm q) (counter q)
              else if (sig =? SIGTERM) && negb lingers
                   then mkproc (pid q) (widx q) (Some (-15)) (controlled q) (jterm q) (counter q)
                   else q
    end).

Definition in_pool (s : pool) (p : Z) : bool := memZ p (wlist s).

(* ------------------------------------------------------------------ submit *)
Definition new_job (s : pool) (k : jkind) : job :=
  mkjob (Z.of_nat (length (jobs s))) k true false None false [] [] None None None (dflt_lost s) None
        0 0 0 [] 0 0 0 0 None [] [].

Definition do_apply (s : pool) (so ha lo : option Z) (slot : option bool) : pool * ret :=
  let wait := match slot with Some b => b | None => putlocks s end in
  (* apply_async tests the pool state first, then waits for a slot *)
  if negb (pstate s =? 0) then (s, RRefused)
  else if wait && (LaxSem.value (sem s) =? 0) then (s, RBlocked)
  else
    let s1 := if wait then with_sem s (sstep' (sem s) Acquire) else s in
    let x := new_job s1 KApply in
    let lt := match py_or lo (Some (dflt_lost s)) with Some v => v | None => dflt_lost s end in
    let x := mkjob (jid x) KApply true false None false [] [] None
                   (py_or so (t_soft s)) (py_or ha (t_hard s)) lt None 0 0 0 [] 0 0 0 0 None [] [] in
    (add_job s1 x, RNone).

(* apply_async with helper threads: as do_apply, and the task is queued for the task handler *)
Definition do_apply_q (s : pool) (so ha lo : option Z) (slot : option bool) : pool * ret :=
  match do_apply s so ha lo slot with
  | (s', RNone) => (with_feeds s' (feeds s' ++ [(Z.of_nat (length (jobs s)), 1, false)]), RNone)
  | r => r
  end.

(* apply_async without helper threads when the write raises: refused / blocked as usual;
   otherwise the slot is taken and given back, the handle created and forgotten, the error
   re-raised (ValueError in the harness): nothing is left behind *)
Definition do_apply_unsendable (s : pool) (slot : option bool) : pool * ret :=
  let wait := match slot with Some b => b | None => putlocks s end in
  if negb (pstate s =? 0) then (s, RRefused)
  else if wait && (LaxSem.value (sem s) =? 0) then (s, RBlocked)
  else (s, RExc 11).

Definition do_map (s : pool) (n cs : Z) : pool * ret :=
  if negb (pstate s =? 0) then (s, RRefused)
  else
    let cs := if n =? 0 then 0 else cs in
    let nc := chunk_count n cs in
    let x := new_job s KMap in
    (* MapResult does not receive the pool's lost_worker_timeout: the class default applies *)
    let x := mkjob (jid x) KMap (0 <? cs) (cs <=? 0) None (0 <? n) [] (repeat None (Z.to_nat nc)) None
                   None None 10 None 0 0 0 [] n cs nc 0 None [] [] in
    let s := add_job s x in
    (with_feeds s (feeds s ++ [(jid x, nc, false)]), RNone).

Definition do_imap (s : pool) (k : jkind) (n : Z) : pool * ret :=
  if negb (pstate s =? 0) then (s, RRefused)
  else
    let x := new_job s k in
    let s := add_job s x in
    (with_feeds s (feeds s ++ [(jid x, n, true)]), RNone).

(* --------------------------------------------------------------- messages *)
Definition do_ack (s : pool) (j : Z) (i : option Z) (p : Z) : pool * ret :=
  let s := with_rst s (Restart.ack (rst s)) in
  match cached s j with
  | None => (s, RNone)
  | Some x =>
    match kind x with
    | KApply => (set_job s j (fun x => apply_ack x (now s) p), RNone)
    | KMap => match i with
              | Some i => (set_job s j (fun x => map_ack x i p), RNone)
              | None => (s, RExc 12)            (* None * chunksize: TypeError escapes on_ack *)
              end
    | _ => (set_job s j (fun x => imap_ack x p), RNone)
    end
  end.

Definition bump_counter (s : pool) (x : job) : pool :=
  match worker_pids x with
  | p :: _ => if in_pool s p
              then set_proc s p (fun q => mkproc (pid q) (widx q) (pexit q) (controlled q) (jterm q) (counter q + 1))
              else s
  | [] => s
  end.

Definition do_ready (s : pool) (j : Z) (i : option Z) (p : payload) : pool * ret :=
  match cached s j with
  | None => (s, RNone)
  | Some x =>
    let s := bump_counter s x in
    let s := if ready x then s else with_sem s (LaxSem.release (sem s)) in
    (set_job s j (fun x => fst (job_set x i p)), RNone)
  end.

(* --------------------------------------------------------------- supervision *)
(* step 1 of _join_exited_workers: jobs whose grace period is over *)
Definition lost_due (s : pool) (x : job) : bool :=
  incache x && negb (ready x) &&
  match worker_lost x with
  | Some (lt, _) => lost_timeout x <? now s - lt
  | None => false
  end.

Definition mark_lost (x : job) : job * bool :=
  match worker_lost x with
  | Some (_, st) => job_set x None (PLost st (jid x))
  | None => (x, false)
  end.

(* Both loops of _join_exited_workers treat every cached job independently of the
   others (a job's update reads only itself, the clock and the process table), so
   they are maps over the job list.  `del cache[job]` inside IMapIterator._set cannot
   raise here: both loops only visit jobs that are in the cache. *)
Definition map_jobs (s : pool) (f : job -> job) : pool :=
  mkpool (map f (jobs s)) (procs s) (wlist s) (nprocs s) (sem s) (putlocks s)
         (rst s) (now s) (pstate s) (t_soft s) (t_hard s) (dflt_lost s) (scanner s) (dirty s)
         (feeds s) (sigs s) (scan_todo s).

Definition mark_all_lost (s : pool) : pool :=
  map_jobs s (fun x => if lost_due s x then fst (mark_lost x) else x).

Definition exited (s : pool) (p : Z) : bool :=
  match get_proc s p with Some q => match pexit q with Some _ => true | None => false end | None => false end.
Definition exit_of (s : pool) (p : Z) : Z :=
  match get_proc s p with Some q => match pexit q with Some c => c | None => 0 end | None => 0 end.

(* first owner that is gone: reaped now, or no longer in the pool list *)
Definition acked_by_gone (cleaned remaining : list Z) (x : job) : option Z :=
  find (fun p => memZ p cleaned || negb (memZ p remaining)) (worker_pids x).

Definition on_job_down (s : pool) (cleaned remaining : list Z) (x : job) : job * bool :=
  match acked_by_gone cleaned remaining x with
  | Some p =>
    if ready x then (x, false)
    else
      let code := if memZ p cleaned then exit_of s p else 0 in
      let jt := memZ p cleaned && match get_proc s p with Some q => jterm q | None => false end in
      if jt then job_set x None (PTerminated (- code))
      else match worker_lost x with
           | None => (j_set_lost x (Some (now s, code)), false)
           | Some _ => (x, false)                 (* the first marker is kept *)
           end
  | None => (x, false)
  end.

Definition down_all (s : pool) (cleaned remaining : list Z) : pool :=
  map_jobs s (fun x => if incache x then fst (on_job_down s cleaned remaining x) else x).

Definition join_exited (s : pool) : pool * list Z :=
  let s := mark_all_lost s in
  let cleaned := filter (exited s) (rev (wlist s)) in       (* reversed pool order *)
  let remaining := filter (fun p => negb (exited s p)) (wlist s) in
  let codes := map (exit_of s) cleaned in
  let s := with_wlist s remaining in
  match cleaned with
  | [] => (s, [])
  | _ => (down_all s cleaned remaining, codes)
  end.

Definition avail_index (s : pool) : option Z :=
  let used := map (fun p => match get_proc s p with Some q => widx q | None => -1 end) (wlist s) in
  find (fun i => negb (memZ i used)) (map Z.of_nat (seq 0 (Z.to_nat (nprocs s)))).

Definition start_worker (s : pool) (ix : Z) : pool :=
  let p := Z.of_nat (length (procs s)) in
  mkpool (jobs s) (procs s ++ [mkproc p ix None false false 0]) (wlist s ++ [p]) (nprocs s) (sem s)
         (putlocks s) (rst s) (now s) (pstate s) (t_soft s) (t_hard s) (dflt_lost s) (scanner s)
         (dirty s) (feeds s) (sigs s) (scan_todo s).

Definition clean_code (c : Z) : bool := (c =? 0) || (c =? EX_RECYCLE).

(* _repopulate_pool: i-th iteration consults exitcodes[i]; past the end = IndexError = step() *)
Fixpoint repopulate (fuel : nat) (i : nat) (codes : list Z) (s : pool) : pool * ret :=
  match fuel with
  | O => (s, RNone)
  | S f =>
    if negb (pstate s =? 0) then (s, RNone) else
    let need_step :=
        match codes with
        | [] => false
        | _ => match nth_error codes i with
               | Some c => negb (clean_code c)
               | None => true
               end
        end in
    let (r, raised) := if need_step then Restart.step (rst s) (now s) else (rst s, false) in
    let s := with_rst s r in
    if raised then (s, RExc 10) else
    match avail_index s with
    | None => (s, RExc 14)
    | Some ix => repopulate f (S i) codes (start_worker s ix)
    end
  end.

Definition release_n (s : pool) (n : nat) : pool :=
  with_sem s (Nat.iter n LaxSem.release (sem s)).

Definition do_tick (s : pool) : pool * ret :=
  let (s, codes) := join_exited s in
  let missing := Z.to_nat (nprocs s - Z.of_nat (length (wlist s))) in
  let (s, r) := repopulate missing 0 codes s in
  match r with
  | RNone => (release_n s (length codes), RNone)
  | _ => (s, r)
  end.

(* close() *)
Definition do_close (s : pool) : pool :=
  if pstate s =? 0 then with_sem (with_pstate s 1) (LaxSem.clear (sem s)) else s.

(* a supervision pass with close() arriving in the middle of _repopulate_pool (it is called from
   on_process_up of the (k+1)-th replacement): the loop tests the pool state before every
   replacement, so no further worker is started; the pass then goes on (slots of the reaped) *)
Definition do_tick_close (s : pool) (k : nat) : pool * ret :=
  let (s0, codes) := join_exited s in
  let missing := Z.to_nat (nprocs s0 - Z.of_nat (length (wlist s0))) in
  if (missing <=? k)%nat then do_tick s          (* the hook never fires *)
  else
    let (s1, r) := repopulate (S k) 0 codes s0 in
    match r with
    | RNone => (release_n (do_close s1) (length codes), RNone)
    | _ => (s1, r)
    end.

(* _join_exited_workers(shutdown=True), as the result handler calls it while it waits for the
   cache to drain after close()/terminate(): expired lost-worker markers are turned into failures
   FIRST; then, if no worker is left, WorkersJoined is raised; else exited workers are reaped
   (nobody is replaced and no slot is released on this path) *)
Definition do_join_shutdown (s : pool) : pool * ret :=
  match wlist s with
  | [] => (mark_all_lost s, RExc 20)
  | _ => (fst (join_exited s), RNone)
  end.

(* --------------------------------------------------------------- timeout scan *)
Definition timed_out (s : pool) (start timeout : option Z) : bool :=
  match start, timeout with
  | Some st, Some t => negb (st =? 0) && negb (t =? 0) && (st + t <=? now s)
  | _, _ => false
  end.

Definition owner (x : job) : option Z := match wp x with p :: _ => Some p | [] => None end.

(* j is the cache key under which the scan found x *)
Definition on_hard (s : pool) (j : Z) (x : job) (lingers : bool) : pool :=
  if ready x then s else
  let s := set_job s j (fun x => j_add_tmo (apply_set x (PTimeLimit (hard x))) (false, hard x)) in
  match owner x with
  | Some p =>
    if in_pool s p then
      let s := deliver s p SIGTERM lingers in
      (* `if worker._popen.wait(timeout=0.1): return` -- a truthy exit status *)
      if negb (exit_of s p =? 0) && exited s p then s else deliver s p SIGKILL lingers
    else s
  | None => s
  end.

Definition on_soft (s : pool) (j : Z) (x : job) (lingers : bool) : pool :=
  if ready x then s else
  match owner x with
  | Some p =>
    if in_pool s p then
      let s := set_job s j (fun x => j_add_tmo x (true, soft x)) in
      deliver s p SIGUSR1 lingers
    else s
  | None => s
  end.

Definition eff_soft (s : pool) (x : job) : option Z :=
  match soft x with Some v => Some v | None => t_soft s end.
Definition eff_hard (s : pool) (x : job) : option Z :=
  match hard x with Some v => Some v | None => t_hard s end.

Definition scan_job (lingers : bool) (s : pool) (j : Z) : pool :=
  match get_job s j with
  | None => s
  | Some x =>
    match kind x, time_accepted x with
    | KApply, Some t =>
      if timed_out s (Some t) (eff_hard s x) then on_hard s j x lingers
      else if negb (memZ j (dirty s)) && timed_out s (Some t) (eff_soft s x)
           then with_dirty (on_soft s j x lingers) (dirty s ++ [j])
           else s
    | _, _ => s       (* not accepted yet, or a multi-part job: no scalar acceptance time *)
    end
  end.

Definition do_scan (s : pool) (lingers : bool) : pool * ret :=
  if negb (scanner s) then (s, RNoScanner) else
  let snap := map jid (filter incache (jobs s)) in
  let s := with_dirty s (filter (fun j => memZ j snap) (dirty s)) in
  (fold_left (scan_job lingers) snap s, RNone).

(* --------------------------------------------------------------- task feeding *)
(* one queued task sequence; k = number of puts done so far in this feed event *)
Fixpoint feed_tasks (fuel : nat) (i : Z) (j : Z) (k : Z) (fail_at : option Z) (io : bool) (s : pool)
  : pool * Z * bool (* stopped by IOError *) :=
  match fuel with
  | O => (s, k, false)
  | S f =>
    if okey_eqb (Some k) fail_at then
      if io then (s, k + 1, true)
      else
        let s := match cached s j with
                 | Some x =>
                   match kind x with
                   | KApply =>
                     (* a single-part task that was never sent: nobody will acknowledge or answer
                        it; its slot is given back and its cache entry removed *)
                     let s := if ready x then s else with_sem s (LaxSem.release (sem s)) in
                     let s := set_job s j (fun x => fst (job_set x (Some i) PPutFailed)) in
                     set_job s j j_uncache
                   | _ => set_job s j (fun x => fst (job_set x (Some i) PPutFailed))
                   end
                 | None => s
                 end in
        feed_tasks f (i + 1) j (k + 1) fail_at io s
    else feed_tasks f (i + 1) j (k + 1) fail_at io s
  end.

Fixpoint do_feeds (fs : list (Z * Z * bool)) (k : Z) (fail_at : option Z) (io : bool) (s : pool)
  : pool * list (Z * Z * bool) * ret :=
  match fs with
  | [] => (s, [], RNone)
  | (j, n, sl) :: r =>
    let '(s, k, stopped) := feed_tasks (Z.to_nat n) 0 j k fail_at io s in
    if stopped then (s, r, RNone)
    else
      let (s, e) := if sl then
                      match get_job s j with
                      | Some x => (set_job s j (fun x => fst (set_length x n)), snd (set_length x n))
                      | None => (s, false)
                      end
                    else (s, false) in
      if e then (s, r, RExc 13) else do_feeds r k fail_at io s
  end.

Definition do_feed (s : pool) (fail_at : option Z) (io : bool) : pool * ret :=
  let '(s, rest, r) := do_feeds (feeds s) 0 fail_at io s in
  (with_feeds s rest, r).

(* --------------------------------------------------------------- user calls *)
Definition worker_active (s : pool) (p : Z) : bool :=
  existsb (fun x => incache x && memZ p (worker_pids x)) (jobs s).
Definition inactive (s : pool) : list Z :=
  filter (fun p => negb (worker_active s p) &&
                   negb (match get_proc s p with Some q => controlled q | None => false end))
         (wlist s).

Fixpoint shrink_loop (ws : list Z) (i n : Z) (s : pool) : pool * ret :=
  match ws with
  | [] => (s, RExc 11)                       (* for/else: ValueError *)
  | p :: r =>
    let s := with_nprocs s (nprocs s - 1) in
    let s := with_sem s (match sstep (shrink_start (sem s)) ShrinkFinish with
                         | Some x => x | None => shrink_start (sem s) end) in
    let s := set_proc s p (fun q => mkproc (pid q) (widx q) (pexit q) true (jterm q) (counter q)) in
    let s := deliver s p SIGTERM false in
    if n - 1 <=? i then (s, RNone) else shrink_loop r (i + 1) n s
  end.

Definition do_shrink (s : pool) (n : Z) : pool * ret :=
  let ws := inactive s in
  match ws with
  | [] => (s, RExc 11)
  | _ => if LaxSem.value (sem s) <? Z.min (Z.max n 1) (Z.of_nat (length ws)) then (s, RBlocked)
         else shrink_loop ws 0 n s
  end.

Definition do_terminate_job (s : pool) (p : Z) (sig : option Z) : pool * ret :=
  if in_pool s p then
    let sg := match py_or sig (Some SIGTERM) with Some v => v | None => SIGTERM end in
    let s := deliver s p sg false in
    (set_proc s p (fun q => mkproc (pid q) (widx q) (pexit q) true true (counter q)), RNone)
  else (s, RNone).

Definition do_next (s : pool) (j : Z) : pool * ret :=
  match get_job s j with
  | None => (s, RExc 15)
  | Some x =>
    if negb (is_imap x) then (s, RExc 16) else      (* only imap handles are iterated *)
    match items x with
    | p :: r =>
      let s := set_job s j (fun x => mk_imap x (incache x) (ready x) (index x) (ilength x) (unsorted x) r) in
      (s, if payload_success p then RItem p else RRaised p)
    | [] =>
      if okey_eqb (Some (index x)) (ilength x)
      then (set_job s j (fun x => mk_imap x (incache x) true (index x) (ilength x) (unsorted x) (items x)), RStop)
      else (s, REmpty)
    end
  end.

Definition step (s : pool) (e : event) : pool * ret :=
  let s := with_sigs s [] in
  match e with
  | EApply so ha lo slot => do_apply s so ha lo slot
  | EMap n cs => do_map s n cs
  | EIMap n => do_imap s KIMap n
  | EIMapU n => do_imap s KIMapU n
  | EFeed fa io => do_feed s fa io
  | EAck j i p => do_ack s j i p
  | EReady j i ok tag => do_ready s j i (if ok then PValue tag else PExc tag)
  | EStaleAck p => (with_rst s (Restart.ack (rst s)), RNone)
  | EStaleReady _ => (s, RNone)
  | EDeath p _ => (deliver s p SIGTERM false, RNone)
  | EJunk => (s, RNone)
  | EExit p st => (set_proc s p (fun q => match pexit q with
                                         | Some _ => q
                                         | None => mkproc (pid q) (widx q) (Some st) (controlled q) (jterm q) (counter q)
                                         end), RNone)
  | ETick => do_tick s
  | EScan l => (with_todo (fst (do_scan s l)) [], snd (do_scan s l))   (* a whole pass: nothing left to visit *)
  | EScanBegin =>
    if negb (scanner s) then (s, RNoScanner) else
    let snap := map jid (filter incache (jobs s)) in
    (with_todo (with_dirty s (filter (fun j => memZ j snap) (dirty s))) snap, RNone)
  | EScanStep l =>
    match scan_todo s with
    | [] => (s, RNone)
    | j :: r => (with_todo (scan_job l s j) r, RNone)
    end
  | EScanEnd => (with_todo s [], RNone)
  | EAdvance dt => (with_now s (now s + dt), RNone)
  | EDiscard j => (set_job s j j_uncache, RNone)
  | ETerminateJob p sig => do_terminate_job s p sig
  | EGrow n => (with_sem (with_nprocs s (nprocs s + n))
                         (Nat.iter (Z.to_nat n) LaxSem.grow (sem s)), RNone)
  | EShrink n => do_shrink s n
  | EClose => (do_close s, RNone)
  | ENext j => do_next s j
  | ETickClose k => do_tick_close s k
  | EJoinShutdown => do_join_shutdown s
  | EApplyQ so ha lo slot => do_apply_q s so ha lo slot
  | EApplyUnsendable slot => do_apply_unsendable s slot
  end.

(* configuration of a pool: Pool.__init__ *)
Record config := mkcfg {
  c_n : Z; c_soft : option Z; c_hard : option Z; c_lost : option Z;
  c_maxr : option Z; c_maxt : Z; c_putlocks : bool; c_enable : bool
}.

Fixpoint start_n (n : nat) (i : Z) (s : pool) : pool :=
  match n with O => s | S k => start_n k (i + 1) (start_worker s i) end.

Definition init (c : config) : pool :=
  let lost := match py_or (c_lost c) (Some 10) with Some v => v | None => 10 end in
  let mt := match py_or (Some (c_maxt c)) (Some 1) with Some v => v | None => 1 end in
  let s := mkpool [] [] [] (c_n c) (sem_init (c_n c)) (c_putlocks c)
                  (rs_init (c_maxr c) mt) 1000 0 (c_soft c) (c_hard c) lost
                  (c_enable c || match c_hard c with Some _ => true | None => false end
                              || match c_soft c with Some _ => true | None => false end)
                  [] [] [] [] in
  start_n (Z.to_nat (c_n c)) 0 s.

Definition run (c : config) (tr : list event) : pool := fold_left (fun s e => fst (step s e)) tr (init c).

(* ================================================================ observation *)
(* the same flattening is produced from the implementation by props/poolcommon.py *)
Definition NONE := -999999.
Definition oz (o : option Z) : Z := match o with Some z => z | None => NONE end.
Definition bz (b : bool) : Z := if b then 1 else 0.

Definition enc_payload (p : option payload) : list Z :=
  match p with
  | None => [0; 0; 0]
  | Some (PValue t) => [1; t; 0]
  | Some (PExc t) => [2; t; 0]
  | Some (PLost st j) => [3; st; j]
  | Some (PTimeLimit l) => [4; oz l; 0]
  | Some (PTerminated c) => [5; c; 0]
  | Some PPutFailed => [6; 0; 0]
  end.

Fixpoint accepted_items (cpl : list (option Z)) (i n cs : Z) : Z :=
  match cpl with
  | [] => 0
  | c :: r => (match c with Some _ => Z.min ((i + 1) * cs) n - i * cs | None => 0 end)
              + accepted_items r (i + 1) n cs
  end.

Definition enc_job (x : job) : list Z :=
  let k := match kind x with KApply => 0 | KMap => 1 | KIMap => 2 | KIMapU => 3 end in
  [k; bz (incache x); bz (ready x)]
    ++ (match kind x with
        | KApply => [bz (accepted x)]
        | KMap => [accepted_items (cp x) 0 (mlen x) (mcs x)]
        | _ => [0]
        end)
    ++ (match worker_lost x with Some (t, c) => [1; t; c] | None => [0; 0; 0] end)
    ++ [cb_succ x; cb_err x; cb_acc x]
    ++ (match kind x with
        | KApply => enc_payload (value x) ++ [oz (time_accepted x)]
        | KMap => enc_payload (value x) ++ [number_left x]
        | _ => [index x; oz (ilength x); Z.of_nat (length (items x)); Z.of_nat (length (unsorted x))]
        end)
    ++ [-1] ++ dedup (worker_pids x) [] ++ [-2]
    ++ flat_map (fun t => [bz (fst t); oz (snd t)]) (cb_tmo x).

Definition enc_ret (r : ret) : list Z :=
  match r with
  | RNone => [0] | RBlocked => [1] | RRefused => [2] | RNoScanner => [3]
  | RExc c => [c]
  | RItem p => 20 :: enc_payload (Some p)
  | RStop => [21] | REmpty => [22]
  | RRaised p => 23 :: enc_payload (Some p)
  end.

Definition enc_worker (s : pool) (p : Z) : list Z :=
  match get_proc s p with
  | Some q => [p; widx q; bz (controlled q); bz (jterm q); counter q]
  | None => [p; -1; 0; 0; 0]
  end.

Record obs := mkobs {
  o_ret : list Z; o_jobs : list (list Z); o_workers : list (list Z);
  o_misc : list Z; o_sigs : list (Z * Z)
}.

Definition observe (s : pool) (r : ret) : obs :=
  mkobs (enc_ret r) (map enc_job (jobs s)) (map (enc_worker s) (wlist s))
        [nprocs s; LaxSem.value (sem s); LaxSem.bound (sem s); Restart.R (rst s); pstate s; now s;
         Z.of_nat (length (filter incache (jobs s)))]      (* len(pool._cache) *)
        (sigs s).

Definition lz_eqb := list_eqb Z.eqb.
Definition obs_eqb (a b : obs) : bool :=
  lz_eqb (o_ret a) (o_ret b) && list_eqb lz_eqb (o_jobs a) (o_jobs b)
  && list_eqb lz_eqb (o_workers a) (o_workers b) && lz_eqb (o_misc a) (o_misc b)
  && list_eqb (pair_eqb Z.eqb Z.eqb) (o_sigs a) (o_sigs b).

Definition case := (config * list event * list obs)%type.

(* 0 = all observations equal; otherwise 1000 + index of the first differing event *)
Fixpoint compare_run (s : pool) (tr : list event) (os : list obs) (i : Z) : Z :=
  match tr, os with
  | [], [] => 0
  | e :: tr', o :: os' =>
    let (s', r) := step s e in
    if obs_eqb (observe s' r) o then compare_run s' tr' os' (i + 1) else 1000 + i
  | _, _ => 999
  end.

Definition check_case (c : case) : Z :=
  let '(cfg, tr, os) := c in compare_run (init cfg) tr os 0.

(* debugging aid: the model's observation after the first k+1 events *)
Fixpoint obs_at (s : pool) (tr : list event) (k : nat) : option obs :=
  match tr with
  | [] => None
  | e :: tr' => let (s', r) := step s e in
                match k with O => Some (observe s' r) | S k' => obs_at s' tr' k' end
  end.
