(* CondCheck: property monitors over observed traces and the correspondence check for
   C17 (kept apart from Model/CondProg.v so that the proofs do not depend on it).
   Executable, no proofs in here. *)
From Coq Require Import ZArith List Bool.
From BV Require Import Lib.Cases Model.SemProg Model.CondProg.
Import ListNotations.
Open Scope Z_scope.

(* ------------------------------------------------------------------ monitors
   Property monitors evaluated on an observed trace alone (they do not use the programs
   above): they decide whether a disagreement between model and implementation is a
   failing input of the PROPERTY (code 2) or only a difference of internal detail (1). *)

Definition is_wait_call (c : nat) : bool := Nat.eqb c 0 || Nat.eqb c 15 || Nat.eqb c 6.
Definition is_nall_call (c : nat) : bool := Nat.eqb c 2 || Nat.eqb c 4.
Definition is_notify_call (c : nat) : bool := Nat.eqb c 1.
Definition is_cond_call (c : nat) : bool := (Nat.leb c 6) || Nat.eqb c 15.

Definition call_at (scripts : list (list call)) (t k : nat) : call :=
  nth k (nth t scripts []) (99%nat, 0, 0).
Definition cid_at scripts t k : nat := let '(c, _, _) := call_at scripts t k in c.
Definition timed_at scripts t k : bool := let '(_, a0, _) := call_at scripts t k in negb (a0 =? 0).

(* m1/m2: results of the condition / event calls *)
Definition result_ok (c : call) (v : Z) : bool :=
  let '(id, a0, _) := c in
  if Nat.eqb id 0 || Nat.eqb id 15 then (if a0 =? 0 then v =? 1 else (v =? 0) || (v =? 1))
  else if Nat.eqb id 1 || Nat.eqb id 2 || Nat.eqb id 4 || Nat.eqb id 5 then v =? V_NONE
  else if Nat.eqb id 3 || Nat.eqb id 6 then (v =? 0) || (v =? 1)
  else true.
Fixpoint results_ok (sc : list call) (rs : list Z) : bool :=
  match sc, rs with
  | c :: sc', v :: rs' => result_ok c v && results_ok sc' rs'
  | _, [] => true
  | [], _ :: _ => false
  end.
Fixpoint all_results_ok (scripts : list (list call)) (res : list (list Z)) : bool :=
  match scripts, res with
  | sc :: s', rs :: r' => results_ok sc rs && all_results_ok s' r'
  | [], [] => true
  | _, _ => false
  end.

(* m3: quiescence *)
Definition quiescent_ok (lockrec : bool) (fins : list bool) (vals : list Z) : bool :=
  if forallb (fun b => b) fins then
    (nth sL vals 0 =? 1) && (nth sS vals 0 =? nth sW vals 0) && (nth sT vals 0 =? 0)
    && ((nth sF vals 0 =? 0) || (nth sF vals 0 =? 1))
  else true.

(* user semaphores: a Lock never exceeds 1, a BoundedSemaphore(k) never exceeds k, an RLock 1 *)
Definition user_vals_ok (k : Z) (vals : list Z) : bool :=
  (nth 6 vals 0 <=? Z.max k 0) && (nth 7 vals 0 <=? 1) && (nth 8 vals 0 <=? 1)
  && forallb (fun v => 0 <=? v) vals.

(* m4: at the end nobody is stuck on the lock, the counters or the flag *)
Definition pending_ok (pend : list Z) : bool :=
  forallb (fun p => negb ((p =? 0) || (p =? 1) || (p =? 2) || (p =? 4))) pend.

(* trace monitor state *)
Record mon := mkMon {
  m_hl : list Z;        (* per thread: hold count of L *)
  m_win : list Z;       (* per thread: 1 between its S.release and its W.release *)
  m_tok : list Z;       (* per thread: 1 once it took a token in the current call *)
  m_last : list Z;      (* per thread: 1 + call index of its previous event, 0 none *)
  m_req : list (list nat);   (* per thread: waiters its notify/notify_all must wake *)
  m_ntok : list Z;      (* per thread: T.release count in the current call *)
  m_fl : Z;             (* abstract event flag *)
  m_rd : list Z;        (* per thread: result of its latest read of the flag *)
  m_rl : list Z;        (* per thread: 1 once it released L completely in the current call *)
  m_ta : list Z;        (* per thread: 1 once it attempted the T acquire in the current call *)
  m_f0 : list Z;        (* per thread: its first read of the flag in the current call, -1 none *)
  m_ok : bool
}.

Fixpoint updl (l : list (list nat)) (i : nat) (v : list nat) : list (list nat) :=
  match i, l with
  | O, [] => [v]
  | O, _ :: r => v :: r
  | S i', [] => [] :: updl [] i' v
  | S i', x :: r => x :: updl r i' v
  end.

Fixpoint seqn (n : nat) : list nat := match n with O => [] | S k => seqn k ++ [k] end.

Definition holders (hl : list Z) : Z :=
  fold_right (fun h a => if 0 <? h then a + 1 else a) 0 hl.

(* thread u sleeps in a wait: it is inside a wait-type call, has released the lock completely
   and has not yet come back from the wait semaphore.  (Defined from the lock release, not
   from the announcement, so that a waiter that announces itself too late is still counted.) *)
Definition sleeping (scripts : list (list call)) (m : mon) (u : nat) : bool :=
  let c := cid_at scripts u (Z.to_nat (nth u (m_last m) 0 - 1)) in
  (0 <? nth u (m_last m) 0) && is_wait_call c && (nth u (m_rl m) 0 =? 1) && (nth u (m_ta m) 0 =? 0)
  && (nth u (m_hl m) 0 =? 0) && (if Nat.eqb c 6 then nth u (m_f0 m) (-1) =? 0 else true).

Definition mon_step (scripts : list (list call)) (nthreads : nat)
           (m : mon) (e : event) (k : nat) : mon :=
  let '(t, s, op, r) := e in
  let c := cid_at scripts t k in
  let first := negb (nth t (m_last m) 0 =? Z.of_nat k + 1) in
  let untimed u := negb (timed_at scripts u (Z.to_nat (nth u (m_last m) 0 - 1))) in
  let sleepers := filter (sleeping scripts m) (seqn nthreads) in
  let busy := filter (fun u => sleeping scripts m u || (nth u (m_win m) 0 =? 1)) (seqn nthreads) in
  let req0 :=
      if first then
        if is_nall_call c then filter untimed sleepers
        else if is_notify_call c then
          (match busy with
           | [u] => if untimed u && sleeping scripts m u then [u] else []
           | _ => []
           end)
        else []
      else nth t (m_req m) [] in
  let ntok0 := if first then 0 else nth t (m_ntok m) 0 in
  let rl0 := if first then 0 else nth t (m_rl m) 0 in
  let ta0 := if first then 0 else nth t (m_ta m) 0 in
  let tok0 := if first then 0 else nth t (m_tok m) 0 in
  let f00 := if first then (-1) else nth t (m_f0 m) (-1) in
  let acq_ok := (op =? 0) && (r =? 1) in
  let rel_ok := (op =? 1) && (r =? 0) in
  (* lock bookkeeping *)
  let h1 := if Nat.eqb s sL then
              if acq_ok then nth t (m_hl m) 0 + 1
              else if rel_ok then nth t (m_hl m) 0 - 1
              else nth t (m_hl m) 0
            else nth t (m_hl m) 0 in
  let hl1 := updz (m_hl m) t h1 in
  let mutex_ok := holders hl1 <=? 1 in
  let rl1 := if Nat.eqb s sL && rel_ok && (h1 =? 0) then 1 else rl0 in
  let ta1 := if Nat.eqb s sT && (op =? 0) && is_wait_call c then 1 else ta0 in
  (* window / token bookkeeping (waiters) *)
  let win1 := if Nat.eqb s sS && rel_ok then updz (m_win m) t 1
              else if Nat.eqb s sW && rel_ok then updz (m_win m) t 0 else m_win m in
  let tok1 := if Nat.eqb s sT && acq_ok && is_wait_call c then 1 else tok0 in
  let ntok1 := if Nat.eqb s sT && rel_ok then ntok0 + 1 else ntok0 in
  let one_ok := if is_notify_call c then ntok1 <=? 1 else true in
  (* a notifier leaves: everybody it had to wake holds a token *)
  let toks := updz (m_tok m) t tok1 in
  let leave_ok :=
      if Nat.eqb s sL && rel_ok && (is_nall_call c || is_notify_call c) then
        forallb (fun u => nth u toks 0 =? 1) req0
      else true in
  (* abstract event flag *)
  let rd_ok := if Nat.eqb s sF && (op =? 0) && (Nat.eqb c 3 || Nat.eqb c 6) then r =? m_fl m else true in
  let fl1 := if Nat.eqb s sF && rel_ok && Nat.eqb c 4 then 1
             else if Nat.eqb s sF && (op =? 0) && Nat.eqb c 5 then 0 else m_fl m in
  let rd1 := if Nat.eqb s sF && (op =? 0) then updz (m_rd m) t r else m_rd m in
  let f01 := if Nat.eqb s sF && (op =? 0) && (f00 =? -1) then r else f00 in
  mkMon hl1 win1 toks (updz (m_last m) t (Z.of_nat k + 1)) (updl (m_req m) t req0)
        (updz (m_ntok m) t ntok1) fl1 rd1 (updz (m_rl m) t rl1) (updz (m_ta m) t ta1)
        (updz (m_f0 m) t f01)
        (m_ok m && mutex_ok && one_ok && leave_ok && rd_ok).

Fixpoint mon_run scripts n (m : mon) (es : list event) (ks : list nat) : mon :=
  match es, ks with
  | e :: es', k :: ks' => mon_run scripts n (mon_step scripts n m e k) es' ks'
  | _, _ => m
  end.

Definition mon0 : mon := mkMon [] [] [] [] [] [] 0 [] [] [] [] true.

(* is_set / Event.wait return what they last read *)
Fixpoint reads_ok (scripts : list (list call)) (res : list (list Z)) (rd : list Z) (t : nat) : bool :=
  match scripts, res with
  | sc :: s', rs :: r' =>
    (match nth_error sc (pred (length rs)), rev rs with
     | Some (c, _, _), v :: _ =>
       if (Nat.eqb c 3 || Nat.eqb c 6) && Nat.eqb (length rs) (length sc) then v =? nth t rd 0 else true
     | _, _ => true
     end) && reads_ok s' r' rd (S t)
  | _, _ => true
  end.

(* last component: how the run ended: 0 all finished, 1 deadlock, 2 schedule exhausted / stopped *)
Definition observed := (list event * list nat * list (list Z) * list bool * list Z * list Z * Z)%type.

Definition monitors (lockrec : bool) (k : Z) (scripts : list (list call)) (o : observed) : bool :=
  let '(es, ks, res, fins, vals, pend, endk) := o in
  let m := mon_run scripts (length scripts) mon0 es ks in
  m_ok m && all_results_ok scripts res && quiescent_ok lockrec fins vals && ((endk =? 2) || pending_ok pend)
  && reads_ok scripts res (m_rd m) 0 && user_vals_ok k vals.

(* ------------------------------------------------------------------ correspondence
   case = lock kind, k, scripts, schedule, what the implementation did under that schedule:
   events, call index of each event, results per thread (in order), finished flags, final
   semaphore values, semaphore each unfinished thread is blocked on (-1: none) *)
Definition case := (bool * Z * list (list call) * list (nat * bool) * observed)%type.

Definition model_obs (lockrec : bool) (k : Z) (scripts : list (list call))
           (sched : list (nat * bool)) : list event * list (list Z) * list bool * list Z * bool :=
  let '(g, es, ok) := run code (init lockrec k scripts) sched in
  (es, map (fun t => rev (map snd (results t))) (thr g), map fin (thr g), map val (sems g), ok).

(* 0 = identical; 2 = a property monitor fails on the implementation's trace, or the
   same semaphore history gave different call results; 1 = other difference *)
Definition check_case (c : case) : Z :=
  let '(lockrec, k, scripts, sched, o) := c in
  let '(es, ks, res, fins, vals, pend, endk) := o in
  let '(mes, mres, mfins, mvals, ok) := model_obs lockrec k scripts sched in
  let same_ev := list_eqb event_eqb es mes && ok in
  let same_res := list_eqb (list_eqb Z.eqb) res mres in
  if negb (monitors lockrec k scripts o) then 2
  else if same_ev && negb same_res then 2
  else if same_ev && same_res && list_eqb Bool.eqb fins mfins && list_eqb Z.eqb vals mvals then 0
  else 1.
