(* PoolLimit -- the CLOSED composition for apply jobs WITH HARD TIME LIMITS:

     client --apply_async(timeout=h)--> parent (Model/Pool.v) --task queue--> TaskHandler --pipe--> workers
        ^                                 |  ^   |                                                   |  x
        |                                 |  |   +-- TimeoutHandler: EScan (fail overdue jobs, TERM/KILL the owner)
        |                                 |  +------ supervisor: ETick (reap, give the slot back, replace)
        +------- handle resolved <--------+-- ResultHandler (EAck / EReady) <-------- result pipe ---+

   As in Model/PoolSys.v and Model/PoolCrash.v the parent component IS the open pool model: every
   parent transition is a [Pool.step] (Proofs/PoolLimitProofs.v [lreach_is_run]).  Each call the
   client makes carries its own hard limit ([None] = none given: the pool default [c_hard] applies).
   Steps on top of PoolSys:

     SCAN lingers   one pass of the timeout handler (parent event [EScan lingers]): every cached,
                    accepted, unresolved job past its effective hard limit is failed with
                    TimeLimitExceeded and its owner is sent SIGTERM and, if it lingers, SIGKILL.  The
                    signalled process is dead at once (as the fake processes of the harness:
                    status -15, or -9 after SIGKILL; the parent model records the exit itself, so no
                    separate EExit event exists): it leaves the live workers, whatever it was doing.
                    A worker may have FINISHED LATE: the READY of a job the scan has just failed may
                    still be in the result pipe -- the result handler ignores it when it comes.
     SCAN_RACY l    the same pass in a situation in which it kills a worker that owns more (or
                    other) unresolved work than the one overdue job it is killed for: a dead worker
                    already signalled, two overdue jobs of one worker, or a worker that has gone on
                    to ANOTHER job while the result of the overdue one is still in the pipe.  The
                    pool gives back one slot per reaped worker, so these interleavings lose a slot
                    or an innocent job; SCAN is enabled exactly when the pass is clean
                    ([scan_clean]), SCAN_RACY exactly when it is not.  Positive theorems are about
                    schedules without SCAN_RACY; see [racy_scan_loses_a_slot].
     TICK           one supervision pass ([ETick]), taken when the result handler has drained the
                    dead workers' messages ([PoolCrash.drained]): reaps, gives one slot back per
                    reaped worker, starts the replacements, which join the live workers, idle
     ADVANCE d      the clock moves by d > 0 ([EAdvance d])

   No spontaneous crashes: workers die through limits only. *)
From Coq Require Import ZArith List Bool Lia.
From BV Require Import Lib.Cases Model.LaxSem Model.Restart Model.Pool Model.PoolSys Model.PoolCrash.
Import ListNotations.
Open Scope Z_scope.

Record lsys := mkls {
  lpar : pool;
  lbad : list Z;                 (* jobs whose task raises *)
  ltodo : list (option Z);       (* the calls still to make: the hard limit each is given *)
  llims : list (option Z);       (* ghost: the limits given to the calls made so far (index = job) *)
  ltaskq : list Z;
  linq : list Z;
  lwk : list (Z * option Z);     (* live workers: pid, the job it is executing *)
  loutq : list msg
}.

Inductive lstep :=
| LSubmit | LPut
| LTake (p : Z) | LFinish (p : Z)
| LRecv
| LScan (lingers : bool) | LScanRacy (lingers : bool)
| LTick
| LAdvance (d : Z).

(* the test the timeout handler applies to one cached job (scan_job of Model/Pool.v) *)
Definition dueb (s : pool) (x : job) : bool :=
  incache x && negb (ready x)
  && match kind x, time_accepted x with
     | KApply, Some t => timed_out s (Some t) (eff_hard s x)
     | _, _ => false
     end.

(* the jobs a scan started now fails, each with the worker it signals *)
Definition due_pairs (s : pool) : list (Z * Z) :=
  flat_map (fun x => if dueb s x then match owner x with Some p => [(jid x, p)] | None => [] end else [])
           (jobs s).

Fixpoint nodupZ (l : list Z) : bool :=
  match l with [] => true | a :: r => negb (memZ a r) && nodupZ r end.

(* the pass is clean: the workers it kills are alive, pairwise distinct, and each is idle (it
   finished late) or executing the very job it is killed for *)
Definition scan_clean (s : pool) (w : list (Z * option Z)) : bool :=
  nodupZ (map snd (due_pairs s))
  && forallb (fun jp => match wk_get w (snd jp) with
                        | Some None => true
                        | Some (Some j2) => j2 =? fst jp
                        | None => false
                        end) (due_pairs s).

Definition scan_to (y : lsys) (l : bool) : lsys :=
  let s' := fst (step (lpar y) (EScan l)) in
  mkls s' (lbad y) (ltodo y) (llims y) (ltaskq y) (linq y)
       (filter (fun e => negb (exited s' (fst e))) (lwk y)) (loutq y).

Definition ltick_to (y : lsys) : option lsys :=
  match step (lpar y) ETick with
  | (s', RNone) =>
    let news := filter (fun p => negb (in_pool (lpar y) p)) (wlist s') in
    Some (mkls s' (lbad y) (ltodo y) (llims y) (ltaskq y) (linq y)
               (lwk y ++ map (fun p => (p, None)) news) (loutq y))
  | _ => None
  end.

Definition limit_step (y : lsys) (a : lstep) : option lsys :=
  match a with
  | LSubmit =>
    match ltodo y with
    | [] => None
    | h :: r =>
      match step (lpar y) (EApply None h None None) with
      | (s', RNone) => Some (mkls s' (lbad y) r (llims y ++ [h])
                                  (ltaskq y ++ [Z.of_nat (length (jobs (lpar y)))]) (linq y) (lwk y) (loutq y))
      | _ => None
      end
    end
  | LPut =>
    match ltaskq y with
    | [] => None
    | j :: r => Some (mkls (lpar y) (lbad y) (ltodo y) (llims y) r (linq y ++ [j]) (lwk y) (loutq y))
    end
  | LTake p =>
    match wk_get (lwk y) p, linq y with
    | Some None, j :: r =>
      Some (mkls (lpar y) (lbad y) (ltodo y) (llims y) (ltaskq y) r (wk_set (lwk y) p (Some j))
                 (loutq y ++ [MAck j p]))
    | _, _ => None
    end
  | LFinish p =>
    match wk_get (lwk y) p with
    | Some (Some j) =>
      Some (mkls (lpar y) (lbad y) (ltodo y) (llims y) (ltaskq y) (linq y) (wk_set (lwk y) p None)
                 (loutq y ++ [MReady j p (task_ok (lbad y) j) (tag_of j)]))
    | _ => None
    end
  | LRecv =>
    match loutq y with
    | [] => None
    | MAck j p :: r =>
      Some (mkls (fst (step (lpar y) (EAck j None p))) (lbad y) (ltodo y) (llims y) (ltaskq y) (linq y) (lwk y) r)
    | MReady j p ok t :: r =>
      Some (mkls (fst (step (lpar y) (EReady j None ok t))) (lbad y) (ltodo y) (llims y) (ltaskq y) (linq y) (lwk y) r)
    end
  | LScan l => if scan_clean (lpar y) (lwk y) then Some (scan_to y l) else None
  | LScanRacy l => if scan_clean (lpar y) (lwk y) then None else Some (scan_to y l)
  | LTick => if drained (lpar y) (loutq y) then ltick_to y else None
  | LAdvance d =>
    if 0 <? d
    then Some (mkls (fst (step (lpar y) (EAdvance d))) (lbad y) (ltodo y) (llims y) (ltaskq y) (linq y) (lwk y) (loutq y))
    else None
  end.

Definition linit (c : config) (lims : list (option Z)) (bad : list Z) : lsys :=
  mkls (init c) bad lims [] [] [] (map (fun p => (p, None)) (wlist (init c))) [].

Fixpoint lrun (y : lsys) (sched : list lstep) : option lsys :=
  match sched with
  | [] => Some y
  | a :: r => match limit_step y a with Some y' => lrun y' r | None => None end
  end.

Definition levent (y : lsys) (a : lstep) : list event :=
  match a with
  | LSubmit => match ltodo y with h :: _ => [EApply None h None None] | [] => [] end
  | LRecv => match loutq y with
             | MAck j p :: _ => [EAck j None p]
             | MReady j p ok t :: _ => [EReady j None ok t]
             | [] => []
             end
  | LScan l => [EScan l]
  | LScanRacy l => [EScan l]
  | LTick => [ETick]
  | LAdvance d => [EAdvance d]
  | _ => []
  end.

Fixpoint levents_of (y : lsys) (sched : list lstep) : list event :=
  match sched with
  | [] => []
  | a :: r =>
    match limit_step y a with
    | None => []
    | Some y' => levent y a ++ levents_of y' r
    end
  end.

(* ------------------------------------------------------------------ where the unresolved jobs are *)
(* the READY messages of jobs that are still unresolved (the others are stale: the job was failed by
   a scan while its result was in the pipe) *)
Definition live_readys (s : pool) (q : list msg) : list (Z * Z) :=
  filter (fun e => cunres s (fst e)) (creadys q).
Definition lstarted (y : lsys) : list (Z * Z) := running (lwk y) ++ live_readys (lpar y) (loutq y).
Definition ltokens (y : lsys) : list Z := ltaskq y ++ linq y ++ map fst (lstarted y).
(* the workers a scan has killed and the supervisor has not reaped yet *)
Definition dead_workers (s : pool) : list Z := filter (exited s) (wlist s).
(* what holds a slot: every unresolved job, and every dead worker not reaped yet (for the job it was
   killed for: the pass gives back one slot per reaped worker) *)
Definition lslot_holders (y : lsys) : nat :=
  (length (ltaskq y) + length (linq y) + length (running (lwk y)) + length (live_readys (lpar y) (loutq y))
   + length (dead_workers (lpar y)))%nat.

(* ------------------------------------------------------------------ work, measure, useful steps *)
Definition limw (o : option Z) : nat :=
  match o with Some l => if l =? 0 then 0%nat else Z.to_nat l | None => 0%nat end.

(* the time an unresolved job may still wait for its hard limit *)
Definition remw (s : pool) (x : job) : nat :=
  if ready x then 0%nat else
  match hard x with
  | Some l => if l =? 0 then 0%nat
              else match time_accepted x with Some t => Z.to_nat (t + l - now s) | None => Z.to_nat l end
  | None => 0%nat
  end.

Definition lwork (y : lsys) : nat :=
  (list_sum (map (fun h => 8 + limw (py_or h (t_hard (lpar y)))) (ltodo y))
   + 5 * length (ltaskq y) + 4 * length (linq y) + 2 * length (running (lwk y)) + length (loutq y)
   + 2 * length (filter (fun x => negb (ready x)) (jobs (lpar y)))
   + length (dead_workers (lpar y))
   + list_sum (map (remw (lpar y)) (jobs (lpar y))))%nat.

(* a scan has a point: there is a scanner and some job is overdue *)
Definition useful_scan (s : pool) : bool := scanner s && existsb (dueb s) (jobs s).
(* waiting has a point: some accepted unresolved job has a limit that has not elapsed yet *)
Definition limit_pending (s : pool) (x : job) : bool :=
  negb (ready x)
  && match hard x, time_accepted x with
     | Some l, Some t => negb (l =? 0) && (now s <? t + l)
     | _, _ => false
     end.
Definition luseful_advance (s : pool) : bool :=
  existsb (limit_pending s) (jobs s) || useful_advance s.

Definition luseful (y : lsys) (a : lstep) : bool :=
  match a with
  | LScan _ | LScanRacy _ => useful_scan (lpar y)
  | LTick => useful_tick (lpar y)
  | LAdvance _ => luseful_advance (lpar y)
  | _ => true
  end.

Definition is_racy (a : lstep) : bool := match a with LScanRacy _ => true | _ => false end.

Fixpoint lall_useful (y : lsys) (sched : list lstep) : Prop :=
  match sched with
  | [] => True
  | a :: r => luseful y a = true /\ match limit_step y a with Some y' => lall_useful y' r | None => True end
  end.

Definition no_racy (sched : list lstep) : Prop := forall a, In a sched -> is_racy a = false.

(* ------------------------------------------------------------------ correspondence *)
Definition levent_eqb (a b : event) : bool :=
  match a, b with
  | EApply None h None None, EApply None h' None None => opt_eqb Z.eqb h h'
  | EAck j None p, EAck j' None p' => (j =? j') && (p =? p')
  | EReady j None ok t, EReady j' None ok' t' => (j =? j') && Bool.eqb ok ok' && (t =? t')
  | EScan l, EScan l' => Bool.eqb l l'
  | ETick, ETick => true
  | EAdvance d, EAdvance d' => d =? d'
  | _, _ => false
  end.

(* configuration, the limits of the calls, raising tasks, the schedule the harness chose, the parent
   events it issued, the implementation's observation after each, and whether the harness found
   nothing left to do (everything resolved and delivered, no dead worker left in the pool) *)
Definition limit_case := (config * list (option Z) * list Z * list lstep * list event * list obs * bool)%type.

Definition lidle (y : lsys) : bool :=
  match ltodo y, ltaskq y, linq y, running (lwk y), loutq y with
  | [], [], [], [], [] =>
    forallb ready (jobs (lpar y)) && negb (existsb (exited (lpar y)) (wlist (lpar y)))
  | _, _, _, _, _ => false
  end.

Definition check_limit_case (c : limit_case) : Z :=
  let '(cfg, lims, bad, sched, evs, os, maximal) := c in
  match lrun (linit cfg lims bad) sched with
  | None => 7001
  | Some y =>
    if negb (list_eqb levent_eqb (levents_of (linit cfg lims bad) sched) evs) then 7002
    else if maximal && negb (lidle y) then 7003
    else if negb maximal && lidle y then 7004
    else Pool.check_case (cfg, evs, os)
  end.
