(* SemFork: a process FORKS in the SemProg world (Model/SemProg.v).  Executable, no proofs in here.

   One logical thread of SemProg = one OS process with one thread; [held t] is that process's copy of the
   ownership fields of every lock object (`count` of _multiprocessing.SemLock; `_is_mine()` is `count > 0`,
   because in a single-threaded process `last_tid` is the only thread).  The semaphores [sems] are kernel
   objects shared by all processes.

   os.fork() copies the memory image of the forking process: the child has every lock OBJECT of the parent,
   with the parent's `count`/`last_tid` -- and the child's only thread IS the forking thread (same thread id).
   The kernel semaphores are not copied: a semaphore the parent had taken stays taken, once.  The only thing
   that clears the inherited ownership is the hook registered by billiard's SemLock.__init__

        def _after_fork(obj): obj._semlock._after_fork()            (C: self->count = 0)
        util.register_after_fork(self, _after_fork)

   which Process._bootstrap runs (util._run_after_forkers()) before the child's target.  WHERE that
   registration stands in SemLock.__init__ is read from the code on every run (translate/kernels/semfork.py ->
   Gen/P_cond.semlock_after_fork_guard, Gen/G_sharedmem.semlock_after_fork_guard). *)
From Coq Require Import ZArith List Bool.
From BV Require Import Model.SemProg.
Import ListNotations.
Open Scope Z_scope.

(* the `if` tests enclosing the registration *)
Inductive fork_guard :=
| GuardAlways        (* unconditional (possibly under `if sem_unlink:`, true on POSIX CPython >= 3.4) *)
| GuardPosix         (* if sys.platform != 'win32': *)
| GuardNamedOnly     (* if _semname(self._semlock) is not None:  -- only primitives that keep a name *)
| GuardNever.        (* no registration *)

(* on POSIX: is the reset hook registered for a lock whose primitive keeps a name ([named] = true: spawn /
   forkserver start method) or does not ([named] = false: the fork start method creates it with unlink_now) *)
Definition resets_after_fork (g : fork_guard) (named : bool) : bool :=
  match g with
  | GuardAlways | GuardPosix => true
  | GuardNamedOnly => named
  | GuardNever => false
  end.

(* the forked child's copy of one ownership count / of all of them ([] = all zeros: nth _ [] 0 = 0) *)
Definition child_count (reset : bool) (h : Z) : Z := if reset then 0 else h.
Definition child_held (reset : bool) (h : list Z) : list Z := if reset then [] else h.

(* a history: steps of existing processes and forks.  [AFork i sc]: process i forks (at the scheduling point it
   stands at -- also in the middle of a call, also while holding locks) a child that runs the script [sc]
   (the target function of the new Process) *)
Inductive act :=
| AStep (i : nat) (go : bool)
| AFork (i : nat) (sc : list call).

Section WithCode.
Variable code : nat -> list instr.
Variable reset : bool.     (* is the after-fork reset registered for the lock objects of this world *)

Definition fork (σ : sys) (i : nat) (sc : list call) : option sys :=
  match nth_error (thr σ) i with
  | None => None
  | Some t => Some (mkS (sems σ) (thr σ ++ [start code (child_held reset (held t)) [] sc]))
  end.

(* run a history; stops at the first action that is not enabled (flag false), like SemProg.run *)
Fixpoint frun (σ : sys) (acts : list act) : sys * list event * bool :=
  match acts with
  | [] => (σ, [], true)
  | AStep i go :: rest =>
    match step code σ i go with
    | None => (σ, [], false)
    | Some (σ1, e) => let '(σ2, es, ok) := frun σ1 rest in (σ2, e :: es, ok)
    end
  | AFork i sc :: rest =>
    match fork σ i sc with
    | None => (σ, [], false)
    | Some σ1 => frun σ1 rest
    end
  end.
End WithCode.

(* the schedule of a history, and the scripts of the children it forks (in fork order) *)
Fixpoint steps_of (acts : list act) : list (nat * bool) :=
  match acts with
  | [] => []
  | AStep i go :: r => (i, go) :: steps_of r
  | AFork _ _ :: r => steps_of r
  end.
Fixpoint forked_of (acts : list act) : list (list call) :=
  match acts with
  | [] => []
  | AStep _ _ :: r => forked_of r
  | AFork _ sc :: r => sc :: forked_of r
  end.
