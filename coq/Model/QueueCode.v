(* QueueCode: the QueueProg programs of billiard.queues (Queue.put/get, JoinableQueue.put/
   task_done/join, SimpleQueue.put/get as called by harness/c16_clients.py, and the feeder
   Queue._feed) and the C16 world.  Executable, no proofs in here.

   Hand-kept; translate/kernels/semprog.py recompiles the same methods from the repository's
   working tree into Gen/P_queue.v on every run (p_feed: a hand translation emitted only while
   Queue._feed matches its expected text) and Proofs/QueueProofs.v proves Gen = Model.

   Semaphores: 0 _sem, 1 _rlock, 2 _wlock, 3 _unfinished_tasks, 4..7 JoinableQueue._cond
   (lock, sleeping, woken, wait); per process p: 8+2p = lock of _notempty, 9+2p = its
   notification semaphore.  `if self._thread is None: self._start_thread()` = QThreadJ / QStartThread
   (Queue._start_thread itself is checked against an expected shape by the translator).  Registers: r0 = `timeout is not None`, r1 = `block`, r2 = the
   message of a put, r7 scratch. *)
From Coq Require Import ZArith List Bool.
From BV Require Import Model.SemProg Model.QueueProg.
Import ListNotations.
Open Scope Z_scope.

(* constructor parameters: _sem = BoundedSemaphore(maxsize), _rlock/_wlock = Lock(),
   _unfinished_tasks = Semaphore(0), _cond = Condition() (RLock + three Semaphore(0)) *)
Definition SEM_VALUE_MAX : Z := 2147483647.
Definition ctor_Lock : sem := mkSem 1 1 false.
Definition ctor_RLock : sem := mkSem 1 1 true.
Definition ctor_Semaphore (v : Z) : sem := mkSem v SEM_VALUE_MAX false.
Definition ctor_BoundedSemaphore (v : Z) : sem := mkSem v v false.
Definition queue_sems (maxsize : Z) : list sem :=
  [ctor_BoundedSemaphore maxsize; ctor_Lock; ctor_Lock;
   ctor_Semaphore 0; ctor_RLock; ctor_Semaphore 0; ctor_Semaphore 0; ctor_Semaphore 0].

Definition p_q_put : list qinstr :=
  [ QAcq (SG 0) (FR 1) (FR 0) 7    (*  0 *);
    QJnz 7 3                       (*  1 *);
    QRaise (-4)                    (*  2 *);
    QAcq (SP 0) FT FF 3            (*  3 *);
    QJmp 5                         (*  4 *);
    QJmp 6                         (*  5 *);
    QThreadJ 8                     (*  6 *);
    QStartThread                   (*  7 *);
    QBufAppend 2                   (*  8 *);
    QWJz 12                        (*  9 *);
    QWDec                          (* 10 *);
    QRel (SP 1)                    (* 11 *);
    QRel (SP 0)                    (* 12 *);
    QRet RNone                     (* 13 *) ].

Definition p_q_get : list qinstr :=
  [ QJz 1 7                        (*  0 *);
    QJnz 0 7                       (*  1 *);
    QAcq (SG 1) FT FF 7            (*  2 *);
    QRecv 4                        (*  3 *);
    QRel (SG 1)                    (*  4 *);
    QRel (SG 0)                    (*  5 *);
    QJmp 26                        (*  6 *);
    QJz 1 8                        (*  7 *);
    QAcq (SG 1) (FR 1) (FR 0) 7    (*  8 *);
    QJnz 7 11                      (*  9 *);
    QRaise (-5)                    (* 10 *);
    QJz 1 19                       (* 11 *);
    QClock 5                       (* 12 *);
    QJnz 5 16                      (* 13 *);
    QPoll FT 7                     (* 14 *);
    QJnz 7 18                      (* 15 *);
    QRel (SG 1)                    (* 16 *);
    QRaise (-5)                    (* 17 *);
    QJmp 23                        (* 18 *);
    QPoll FF 7                     (* 19 *);
    QJnz 7 23                      (* 20 *);
    QRel (SG 1)                    (* 21 *);
    QRaise (-5)                    (* 22 *);
    QRecv 4                        (* 23 *);
    QRel (SG 0)                    (* 24 *);
    QRel (SG 1)                    (* 25 *);
    QCpy 3 4                       (* 26 *);
    QJmp 28                        (* 27 *);
    QRet (RReg 3)                  (* 28 *) ].

Definition p_feed : list qinstr :=
  [ QAcq (SP 0) FT FF 7            (*  0 *);
    QBufNonEmptyJ 7                (*  1 *);
    QWInc                          (*  2 *);
    QRel (SP 0)                    (*  3 *);
    QAcq (SP 1) FT FF 7            (*  4 *);
    QAcq (SP 0) FT FF 3            (*  5 *);
    QJmp 7                         (*  6 *);
    QRel (SP 0)                    (*  7 *);
    QBufPop 2 0                    (*  8 *);
    QDumps 2 14                    (*  9 *);
    QAcq (SG 2) FT FF 7            (* 10 *);
    QSend 2                        (* 11 *);
    QRel (SG 2)                    (* 12 *);
    QJmp 8                         (* 13 *);
    QRel (SG 0)                    (* 14 *);
    QJmp 0                         (* 15 *) ].

Definition p_jq_put : list qinstr :=
  [ QAcq (SG 0) (FR 1) (FR 0) 7    (*  0 *);
    QJnz 7 3                       (*  1 *);
    QRaise (-4)                    (*  2 *);
    QAcq (SP 0) FT FF 3            (*  3 *);
    QJmp 5                         (*  4 *);
    QJmp 6                         (*  5 *);
    QAcq (SG 4) FT FF 7            (*  6 *);
    QThreadJ 9                     (*  7 *);
    QStartThread                   (*  8 *);
    QBufAppend 2                   (*  9 *);
    QRel (SG 3)                    (* 10 *);
    QWJz 14                        (* 11 *);
    QWDec                          (* 12 *);
    QRel (SP 1)                    (* 13 *);
    QRel (SG 4)                    (* 14 *);
    QRel (SP 0)                    (* 15 *);
    QRet RNone                     (* 16 *) ].

Definition p_jq_task_done : list qinstr :=
  [ QAcq (SG 4) FT FF 7            (*  0 *);
    QAcq (SG 3) FF FF 7            (*  1 *);
    QJnz 7 5                       (*  2 *);
    QRel (SG 4)                    (*  3 *);
    QRaise (-3)                    (*  4 *);
    QIsZero (SG 3) 7               (*  5 *);
    QJz 7 30                       (*  6 *);
    QAssertMine (SG 4)             (*  7 *);
    QAcq (SG 7) FF FF 7            (*  8 *);
    QAssertZ 7                     (*  9 *);
    QAcq (SG 6) FF FF 7            (* 10 *);
    QJz 7 15                       (* 11 *);
    QAcq (SG 5) FF FF 3            (* 12 *);
    QAssertNZ 3                    (* 13 *);
    QJmp 10                        (* 14 *);
    QMov 4 0                       (* 15 *);
    QAcq (SG 5) FF FF 7            (* 16 *);
    QJz 7 21                       (* 17 *);
    QRel (SG 7)                    (* 18 *);
    QInc 4                         (* 19 *);
    QJmp 16                        (* 20 *);
    QJz 4 30                       (* 21 *);
    QMov 5 0                       (* 22 *);
    QJge 5 4 27                    (* 23 *);
    QAcq (SG 6) FT FF 7            (* 24 *);
    QInc 5                         (* 25 *);
    QJmp 23                        (* 26 *);
    QAcq (SG 7) FF FF 7            (* 27 *);
    QJz 7 30                       (* 28 *);
    QJmp 27                        (* 29 *);
    QRel (SG 4)                    (* 30 *);
    QRet RNone                     (* 31 *) ].

Definition p_jq_join : list qinstr :=
  [ QAcq (SG 4) FT FF 7            (*  0 *);
    QIsZero (SG 3) 7               (*  1 *);
    QJnz 7 19                      (*  2 *);
    QAssertMine (SG 4)             (*  3 *);
    QRel (SG 5)                    (*  4 *);
    QCount (SG 4) 3                (*  5 *);
    QMov 4 0                       (*  6 *);
    QJge 4 3 11                    (*  7 *);
    QRel (SG 4)                    (*  8 *);
    QInc 4                         (*  9 *);
    QJmp 7                         (* 10 *);
    QAcq (SG 7) FT FF 5            (* 11 *);
    QRel (SG 6)                    (* 12 *);
    QMov 4 0                       (* 13 *);
    QJge 4 3 18                    (* 14 *);
    QAcq (SG 4) FT FF 7            (* 15 *);
    QInc 4                         (* 16 *);
    QJmp 14                        (* 17 *);
    QJmp 19                        (* 18 *);
    QRel (SG 4)                    (* 19 *);
    QRet RNone                     (* 20 *) ].

Definition p_sq_put : list qinstr :=
  [ QAcq (SG 2) FT FF 7            (*  0 *);
    QSend 2                        (*  1 *);
    QRel (SG 2)                    (*  2 *);
    QRet RNone                     (*  3 *) ].

Definition p_sq_get : list qinstr :=
  [ QAcq (SG 1) FT FF 7            (*  0 *);
    QRecv 3                        (*  1 *);
    QRel (SG 1)                    (*  2 *);
    QJmp 4                         (*  3 *);
    QJmp 5                         (*  4 *);
    QRet (RReg 3)                  (*  5 *) ].

Definition code (c : nat) : list qinstr :=
  match c with
  | 0%nat => p_q_put
  | 1%nat => p_q_get
  | 2%nat => p_feed
  | 3%nat => p_jq_put
  | 4%nat => p_jq_task_done
  | 5%nat => p_jq_join
  | 6%nat => p_sq_put
  | 7%nat => p_sq_get
  | _ => []
  end.
Definition FEED : nat := 2.

(* ------------------------------------------------------------------ the C16 world *)
Fixpoint proc_sems (n : nat) : list sem :=
  match n with O => [] | S k => ctor_Lock :: ctor_Semaphore 0 :: proc_sems k end.

Definition qworld (maxsize : Z) (nprocs : nat) : list sem := queue_sems maxsize ++ proc_sems nprocs.

(* own = the process of each pair (main thread 2q, feeder slot 2q+1); [] = one main thread per process *)
Definition qinit_own (maxsize : Z) (own : list nat) (scripts : list (list qcall)) : qsys :=
  qinit_sys code FEED (qworld maxsize (length scripts)) own scripts.

Definition qinit (maxsize : Z) (scripts : list (list qcall)) : qsys := qinit_own maxsize [] scripts.
