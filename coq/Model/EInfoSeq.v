(* C12 -- HISTORIES of records: several failures recorded one after the other in ONE process.

   Model/EInfo.v describes one record.  A worker process builds many, and the property speaks about each of
   them ("any exception a task raises ... reaches the caller as a record holding ... the formatted traceback
   text naming the raising frame, and a traceback object the standard traceback module can format"): the
   record of the 2nd, 3rd, ... failure of a process must describe THAT failure, not an earlier one.

   This file adds
   1. [cnode]: what a traceback node says about the CODE OBJECT it ran -- beyond the (co_filename, co_name,
      tb_lineno) triple of Model.EInfo.frame: co_firstlineno, f_lineno, tb_lasti and the co_positions()
      entry of the failing instruction (what the traceback module formats line and columns from);
   2. [failure], [record], and a process that builds records one after the other ([records_from]): the
      state such a process could carry from one record to the next is the whole list of failures recorded so
      far; the model's constructor ([build]) is handed that list and does not look at it -- the stand-in
      constructors of einfo.py read their parameter and literals only (Gen/K_einfo frame_reads / code_reads /
      tb_reads; class-level state is excluded structurally, Gen/K_einfo class_bindings);
   3. the correspondence check for driver cases of kind seq ([scase], [check_scase]): every step is an
      ordinary CaseRT case, plus the live and the observed cnode chains of that step.

   No proofs here (Proofs/EInfoSeqProofs.v). *)
From Coq Require Import ZArith List Bool.
From BV Require Import Lib.Cases Model.EInfo.
Import ListNotations.
Open Scope Z_scope.

(* ------------------------------------------------------------------ *)
(* 1. nodes with what they say about their code object                  *)

Record cnode := mk_cn {
  cn_fr : frame;        (* co_filename, co_name, tb_lineno *)
  cn_first : Z;         (* f_code.co_firstlineno *)
  cn_fline : Z;         (* tb_frame.f_lineno; -3 = not observed (the frame is still running) *)
  cn_lasti : Z;         (* tb_lasti *)
  cn_pos : list Z       (* the co_positions() entry of the instruction at tb_lasti: [line; end line;
                           column; end column], None = -2; [] = the object keeps no positions;
                           [-9; -9; -9; -9] = it has no entry for that instruction *)
}.

(* the stand-in of a node: every one of these is copied verbatim from the live node *)
Definition copy_cnode (c : cnode) : cnode := c.

(* the nodes of a live chain that get a stand-in (the marker that replaces the rest says nothing about
   any code object): the first m + 2, as in EInfo.copy_tb *)
Definition copy_cnodes (m : Z) (tb : list cnode) : list cnode :=
  map copy_cnode (firstn (Z.to_nat (m + 2)) tb).

(* ------------------------------------------------------------------ *)
(* 2. a process that records failures one after the other              *)

(* what the interpreter hands to ExceptionInfo for one failure; the text is an oracle (EInfo.v) *)
Record failure := mk_fail { fl_type : cls; fl_exc : pexc; fl_tb : list cnode; fl_text : Z }.

(* the record of ONE failure: the ExceptionInfo of Model.EInfo over the (file, name, line) chain, and
   what its stand-in nodes say about their code objects *)
Definition record (m : Z) (f : failure) : option (einfo * list cnode) :=
  match mk_einfo m (fl_type f) (fl_exc f) (map cn_fr (fl_tb f)) (fl_text f) false with
  | Some e => Some (e, copy_cnodes m (fl_tb f))
  | None => None
  end.

(* The constructor as a process sees it: [hist] = every failure this process has recorded before, i.e.
   the most a constructor could have kept (in a class-level cache, a module global, ...).  The model's
   constructor does not use it. *)
Definition build (m : Z) (hist : list failure) (f : failure) : option (einfo * list cnode) :=
  record m f.

Fixpoint records_from (m : Z) (hist : list failure) (fs : list failure)
  : list (option (einfo * list cnode)) :=
  match fs with
  | [] => []
  | f :: r => build m hist f :: records_from m (hist ++ [f]) r
  end.
Definition records (m : Z) (fs : list failure) : list (option (einfo * list cnode)) :=
  records_from m [] fs.

(* ------------------------------------------------------------------ *)
(* 3. correspondence for driver cases of kind seq                       *)

Definition pos_eqb (model impl : list Z) : bool :=
  match impl with
  | [] => true                        (* the copy keeps no positions (Python < 3.11): nothing to compare *)
  | _ => list_eqb Z.eqb model impl
  end.
Definition cnode_eqb (model impl : cnode) : bool :=
  frame_eqb (cn_fr model) (cn_fr impl) && (cn_first model =? cn_first impl)
  && ((cn_fline model =? -3) || (cn_fline impl =? -3) || (cn_fline model =? cn_fline impl))
  && (cn_lasti model =? cn_lasti impl) && pos_eqb (cn_pos model) (cn_pos impl).

(* observed node: indices into the step's string table *)
Definition onode := (Z * Z * Z * Z * Z * Z * list Z)%type.
Definition cnode_of (tab : list str) (o : onode) : cnode :=
  let '(f, n, l, first, fl, lasti, pos) := o in
  mk_cn (mk_fr (tab_get tab f) (tab_get tab n) l) first fl lasti pos.

(* one step of a history: the CaseRT case of that failure (type, exception, live chain, text oracle,
   observed views after 0, 1, ... round trips), the live nodes, the observed stand-in nodes per view *)
Record sstep := mk_step { st_rt : case; st_live : list onode; st_obs : list (list onode) }.

Inductive scase :=
| One (c : case)                                     (* a case of Model.EInfo *)
| Seq (steps : list sstep).                          (* a history *)

Definition step_failure (s : sstep) : option (list str * Z * failure) :=
  match st_rt s with
  | CaseRT tab rl t x _ text _ => Some (tab, rl, mk_fail t x (map (cnode_of tab) (st_live s)) text)
  | _ => None
  end.

(* stand-in nodes of one step against the model's: 0 equal, 2 not (line numbers / positions are what
   the property calls "naming the raising frame") *)
Definition cmp_nodes (tab : list str) (model : option (einfo * list cnode)) (obs : list (list onode)) : Z :=
  match model with
  | None => 2
  | Some (_, ns) =>
      if forallb (fun o => let c := map (cnode_of tab) o in
                           (* the observed chain may end in the marker: compare the copied part *)
                           let k := Nat.min (List.length ns) (List.length c) in
                           (Nat.leb (List.length ns) (List.length c))
                           && list_eqb cnode_eqb (firstn k ns) (firstn k c)) obs
      then 0 else 2
  end.

(* the model's history against the observed one: the k-th record is compared with the k-th entry of
   [records] over ALL failures of the case, in order *)
Fixpoint cmp_hist (steps : list sstep) (model : list (option (einfo * list cnode))) : Z :=
  match steps, model with
  | [], [] => 0
  | s :: r, m :: t =>
      match step_failure s with
      | Some (tab, _, _) => worst (worst (check_case (st_rt s)) (cmp_nodes tab m (st_obs s))) (cmp_hist r t)
      | None => 2
      end
  | _, _ => 2
  end.

Fixpoint steps_all {A} (l : list (option A)) : option (list A) :=
  match l with
  | [] => Some []
  | Some x :: r => match steps_all r with Some t => Some (x :: t) | None => None end
  | None :: _ => None
  end.

Definition check_seq (steps : list sstep) : Z :=
  match steps_all (map step_failure steps) with
  | None => 2
  | Some [] => 0
  | Some ((tab, rl, f) :: r) =>
      cmp_hist steps (records (default_max_frames rl) (f :: map snd r))
  end.

(* the property monitor on the observations alone: per step the monitor of Model.EInfo (round trips keep
   type / args / text / chain, depth bound), and: EVERY view's stand-in nodes say about their code object
   what the live nodes of THIS step say (code 9: the record describes another code object) *)
Definition mon_step (s : sstep) : Z :=
  match st_rt s with
  | CaseRT tab rl _ _ _ _ _ =>
      let m := monitor_case (st_rt s) in
      if negb (m =? 0) then m
      else
        let lv := map (cnode_of tab) (st_live s) in
        if forallb (fun o => let c := map (cnode_of tab) o in
                             let k := if Nat.eqb (List.length c) (List.length lv)
                                      then List.length c else pred (List.length c) in
                             list_eqb cnode_eqb (firstn k lv) (firstn k c)) (st_obs s)
        then 0 else 9
  | _ => 0
  end.

Definition check_scase (c : scase) : Z :=
  match c with
  | One c => check_both c
  | Seq steps => check_seq steps + 10 * first_nonzero (map mon_step steps)
  end.
