(* C15: the SPECIFICATION side of create / drop / write / rebuild histories of shared ctypes objects.
   Executable, no proofs in here, and no heap: a *shadow map* computed from the op list alone.

   For every object ever created (in creation order) the shadow holds either None (dropped) or
   Some (root, bytes): `root` = the creation it descends from (an object made by SRebuild has the root
   of the object it was rebuilt from: same wrapper, same storage), `bytes` = what the object must read:
   its initial value, overwritten by every store made through it or through an object of the same root.
   Proofs/SharedMemHist.v shows that Model/SharedMem.srun -- the allocator of C14 underneath, dirty
   recycled storage and all -- reads exactly this shadow after every op of every valid history. *)
From Coq Require Import ZArith List Bool.
From BV Require Import Lib.PyVal Model.Heap Model.SharedMem.
Import ListNotations.
Open Scope Z_scope.

Definition cell := option (nat * list Z).
Definition shadow := list cell.

(* what a new object must hold: RawValue = initialiser then zeros, RawArray(n) = zeros,
   RawArray(initialiser) = the initialiser (which assigns every element); None = the call is not in
   the domain of the specification (initialiser longer than the object / not covering the array) *)
Definition initial_bytes (kind size : Z) (init : list Z) : option (list Z) :=
  if kind =? 0 then
    if Z.of_nat (length init) <=? size
    then Some (init ++ repeat 0 (Z.to_nat (size - Z.of_nat (length init)))) else None
  else if kind =? 1 then Some (repeat 0 (Z.to_nat size))
  else if Z.of_nat (length init) =? size then Some init else None.

(* bytes [off, off + length bs) of l replaced by bs *)
Definition overwrite (l : list Z) (off : nat) (bs : list Z) : list Z :=
  map (fun i => if (off <=? i)%nat && (i <? off + length bs)%nat then nth (i - off) bs 0 else nth i l 0)
      (seq 0 (length l)).

Definition write_cell (r : nat) (off : nat) (bs : list Z) (c : cell) : cell :=
  match c with
  | Some (r', b') => if Nat.eqb r' r then Some (r', overwrite b' off bs) else c
  | None => None
  end.

(* one op on the shadow; None = the op is outside the histories the property speaks about:
   size outside [0, sys.maxsize) (BufferWrapper asserts), an initialiser that does not fit, an op
   through a dropped or non-existent object, a store outside the object.  Dropping is allowed in any
   order, also while aliases made by rebuild are live (they keep reading their shadow: the wrapper,
   hence the block, lives as long as any of them) *)
Definition sh_step (sh : shadow) (o : sop) : option shadow :=
  match o with
  | SNew kind size init =>
      if (0 <=? size) && (size <? maxsize) then
        match initial_bytes kind size init with
        | Some bs => Some (sh ++ [Some (length sh, bs)])
        | None => None
        end
      else None
  | SDrop k =>
      match nth k sh None with
      | Some _ => Some (set_nth sh k None)
      | None => None
      end
  | SWrite k off bs =>
      match nth k sh None with
      | Some (r, old) =>
          if (0 <=? off) && (off + Z.of_nat (length bs) <=? Z.of_nat (length old))
          then Some (map (write_cell r (Z.to_nat off) bs) sh) else None
      | None => None
      end
  | SRebuild k =>
      match nth k sh None with
      | Some (r, bs) => Some (sh ++ [Some (r, bs)])
      | None => None
      end
  end.

Fixpoint sh_run (sh : shadow) (ops : list sop) : option shadow :=
  match ops with
  | [] => Some sh
  | o :: r => match sh_step sh o with Some sh' => sh_run sh' r | None => None end
  end.

(* the shadow rendered like SharedMem.live_reads: (object number, bytes) of every live object *)
Fixpoint sh_reads (sh : shadow) (i : nat) : list (nat * list Z) :=
  match sh with
  | [] => []
  | Some (_, bs) :: r => (i, bs) :: sh_reads r (S i)
  | None :: r => sh_reads r (S i)
  end.

(* ... after every op of a history *)
Fixpoint sh_trace (sh : shadow) (ops : list sop) : list (list (nat * list Z)) :=
  match ops with
  | [] => []
  | o :: r => match sh_step sh o with
              | Some sh' => sh_reads sh' O :: sh_trace sh' r
              | None => []
              end
  end.

Definition sh_root (sh : shadow) (i : nat) : option nat :=
  match nth i sh None with Some (r, _) => Some r | None => None end.

(* SharedMem.srun without the observations: the state and the object table a history ends in *)
Fixpoint sexec (pg : Z) (s : smstate) (objs : list (option obj)) (ops : list sop)
  : res (smstate * list (option obj)) :=
  match ops with
  | [] => OK (s, objs)
  | o :: r =>
      match sstep pg s objs o with
      | Err e => Err e
      | OK (s', objs', _) => sexec pg s' objs' r
      end
  end.
