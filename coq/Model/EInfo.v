(* Model of billiard.einfo (Traceback / _Truncated / ExceptionWithTraceback /
   rebuild_exc / ExceptionInfo), of billiard.pool.MaybeEncodingError and of the
   result-sending part of billiard.pool.Worker.workloop.
   Executable, no proofs in here.

   Conventions
   * a Python str is the list of its code points ([str]); the traceback *text*
     (output of the stdlib traceback module, an oracle) is an interned id (Z);
   * a live traceback is the non-empty list of its frames, outermost first
     (tb, tb.tb_next, ...); a frame is (co_filename, co_name, tb_lineno);
   * repr() of an object that is not built from int/str/None/bool/tuple/list is
     an oracle: the object is [AOpaque r] with r its repr. *)
From Coq Require Import ZArith List Bool String Ascii Decimal.
From BV Require Import Lib.Cases.
Import ListNotations.
Open Scope Z_scope.

Definition str := list Z.
Definition str_eqb : str -> str -> bool := list_eqb Z.eqb.
Definition s2l (s : string) : str :=
  map (fun a => Z.of_N (N_of_ascii a)) (list_ascii_of_string s).

(* compact literal for case files: n code points packed little-endian in base 2^21 *)
Fixpoint zs_go (n : nat) (z : Z) : str :=
  match n with
  | O => []
  | S k => (z mod 2097152) :: zs_go k (z / 2097152)
  end.
Definition zs (n z : Z) : str := zs_go (Z.to_nat n) z.

(* ------------------------------------------------------------------ *)
(* 1. tracebacks                                                        *)

Record frame := mk_fr { fr_file : str; fr_name : str; fr_line : Z }.
Definition frame_eqb (a b : frame) : bool :=
  str_eqb (fr_file a) (fr_file b) && str_eqb (fr_name a) (fr_name b)
  && (fr_line a =? fr_line b).

(* _Truncated(): co_filename "...", co_name "[rest of traceback truncated]",
   tb_lineno -1, tb_next None *)
Definition marker_file : str := [46; 46; 46].
Definition marker_name : str :=
  [91; 114; 101; 115; 116; 32; 111; 102; 32; 116; 114; 97; 99; 101; 98;
   97; 99; 107; 32; 116; 114; 117; 110; 99; 97; 116; 101; 100; 93].
Definition marker_line : Z := -1.
Definition marker : frame := mk_fr marker_file marker_name marker_line.

(* DEFAULT_MAX_FRAMES = sys.getrecursionlimit() // 8 *)
Definition default_max_frames (reclimit : Z) : Z := reclimit / 8.

(* one node of Traceback.__init__: what becomes of tb_next *)
Inductive tb_action := TStop | TRecurse (max_frames depth : Z) | TTruncate.
Definition tb_step (has_next : bool) (max_frames depth : Z) : tb_action :=
  if has_next then
    if depth <=? max_frames then TRecurse max_frames (depth + 1) else TTruncate
  else TStop.

(* Traceback.__init__(tb, max_frames, depth) on the node f whose tb_next chain is rest *)
Fixpoint copy_from (m d : Z) (f : frame) (rest : list frame) : list frame :=
  f :: match rest with
       | [] => []
       | g :: r => if d <=? m then copy_from m (d + 1) g r else [marker]
       end.

(* Traceback(tb, max_frames); tb = None raises AttributeError (None here) *)
Definition copy_tb (m : Z) (tb : list frame) : option (list frame) :=
  match tb with
  | [] => None
  | f :: r => Some (copy_from m 0 f r)
  end.

(* ------------------------------------------------------------------ *)
(* 1b. what else the copy reads from a live frame: its namespaces        *)

(* A live frame's f_globals / f_locals are ordinary dicts: ANY key may be missing (code run by
   exec(src, {}) / eval has no __name__, no __file__, no __loader__; only __builtins__ is added
   by the interpreter) and a present key may hold anything.  A value is a str, None, some
   other (picklable) object known by its repr, or an object that does not pickle. *)
Inductive gval := GStr (s : str) | GNone | GOther (r : str)
                | GUnp (r : str).   (* an object whose pickling raises; r = repr of what pickle raises *)
Definition gval_eqb (a b : gval) : bool :=
  match a, b with
  | GStr x, GStr y | GOther x, GOther y | GUnp x, GUnp y => str_eqb x y
  | GNone, GNone => true
  | _, _ => false
  end.
Definition ns := list (str * gval).
Fixpoint ns_get (d : ns) (k : str) : option gval :=
  match d with
  | [] => None
  | (k', v) :: r => if str_eqb k k' then Some v else ns_get r k
  end.
Definition ns_default (d : ns) (k : str) (v : gval) : gval :=
  match ns_get d k with Some x => x | None => v end.
Definition ns_eqb : ns -> ns -> bool := list_eqb (pair_eqb str_eqb gval_eqb).

(* a node of the live traceback with the namespaces of its frame; [lf_fr] is what the rest of
   the model calls the frame: (f_code.co_filename, f_code.co_name, tb_lineno) *)
Record lframe := mk_lf { lf_fr : frame; lf_globals : ns; lf_locals : ns }.
(* a node of the stand-in chain: the same triple, and the stand-in frame's f_globals / f_locals *)
Record sframe := mk_sf { sf_fr : frame; sf_globals : ns; sf_locals : ns }.
Definition sframe_eqb (a b : sframe) : bool :=
  frame_eqb (sf_fr a) (sf_fr b) && ns_eqb (sf_globals a) (sf_globals b)
  && ns_eqb (sf_locals a) (sf_locals b).

Definition k_file : str := s2l "__file__".
Definition k_name : str := s2l "__name__".
Definition k_loader : str := s2l "__loader__".
Definition k_hide : str := s2l "__traceback_hide__".
Definition s_main : str := s2l "__main__".
(* attribute / class-attribute names the proofs refer to *)
Definition n_None : str := s2l "None".
Definition n_f_globals : str := s2l "f_globals".
Definition n_f_locals : str := s2l "f_locals".
Definition n_f_code : str := s2l "f_code".
Definition n_f_lineno : str := s2l "f_lineno".
Definition n_tb_frame : str := s2l "tb_frame".
Definition n_tb_lineno : str := s2l "tb_lineno".
Definition n_tb_lasti : str := s2l "tb_lasti".
Definition n_co_filename : str := s2l "co_filename".
Definition n_co_name : str := s2l "co_name".
Definition n_Frame : str := s2l "Frame".
Definition n_Code : str := s2l "Code".

(* _Frame(frame): f_globals = {"__file__": get("__file__", "__main__"), "__name__": get("__name__"),
   "__loader__": None}; f_locals = {"__traceback_hide__": ..} iff the live frame has that local.
   TOTAL: a missing key becomes the default, nothing raises. *)
Definition copy_lframe (l : lframe) : sframe :=
  mk_sf (lf_fr l)
        [(k_file, ns_default (lf_globals l) k_file (GStr s_main));
         (k_name, ns_default (lf_globals l) k_name GNone);
         (k_loader, GNone)]
        (match ns_get (lf_locals l) k_hide with Some v => [(k_hide, v)] | None => [] end).

(* _Truncated().tb_frame: f_globals = {"__file__": "", "__name__": "", "__loader__": None};
   the object has no f_locals (observed as empty) *)
Definition marker_s : sframe :=
  mk_sf marker [(k_file, GStr []); (k_name, GStr []); (k_loader, GNone)] [].

Fixpoint copy_from_l (m d : Z) (f : lframe) (rest : list lframe) : list sframe :=
  copy_lframe f :: match rest with
                   | [] => []
                   | g :: r => if d <=? m then copy_from_l m (d + 1) g r else [marker_s]
                   end.
Definition copy_ltb (m : Z) (tb : list lframe) : option (list sframe) :=
  match tb with
  | [] => None
  | f :: r => Some (copy_from_l m 0 f r)
  end.

(* attributes every live frame / code / traceback object of the interpreter has (CPython 3.11+;
   validated against dir() of real objects on every run: CaseSlots) *)
Definition frame_slots : list str :=
  map s2l ["f_back"; "f_builtins"; "f_code"; "f_globals"; "f_lasti"; "f_lineno"; "f_locals";
           "f_trace"; "f_trace_lines"; "f_trace_opcodes"]%string.
Definition code_slots : list str :=
  map s2l ["co_argcount"; "co_cellvars"; "co_code"; "co_consts"; "co_exceptiontable";
           "co_filename"; "co_firstlineno"; "co_flags"; "co_freevars"; "co_kwonlyargcount";
           "co_lines"; "co_linetable"; "co_lnotab"; "co_name"; "co_names"; "co_nlocals";
           "co_positions"; "co_posonlyargcount"; "co_qualname"; "co_stacksize";
           "co_varnames"]%string.
Definition tb_slots : list str := map s2l ["tb_frame"; "tb_lasti"; "tb_lineno"; "tb_next"]%string.

(* ------------------------------------------------------------------ *)
(* 2. values, repr                                                      *)

Inductive pyarg :=
| AInt (z : Z)
| AStr (s : str)
| ANone
| ABool (b : bool)
| ATuple (l : list pyarg)
| AList (l : list pyarg)
| AUnp (k : Z)          (* harness object #k: repr "<Unp k>", pickling it raises
                           TypeError('cannot pickle Unp k') *)
| AOpaque (r : str).    (* picklable object known only through its repr *)

Fixpoint pyarg_eqb (a b : pyarg) : bool :=
  match a, b with
  | AInt x, AInt y => x =? y
  | AStr x, AStr y => str_eqb x y
  | ANone, ANone => true
  | ABool x, ABool y => Bool.eqb x y
  | ATuple l, ATuple m | AList l, AList m =>
      (fix go (l m : list pyarg) : bool :=
         match l, m with
         | [], [] => true
         | x :: r, y :: t => pyarg_eqb x y && go r t
         | _, _ => false
         end) l m
  | AUnp x, AUnp y => x =? y
  | AOpaque x, AOpaque y => str_eqb x y
  | _, _ => false
  end.

(* decimal digits *)
Fixpoint uint_codes (u : Decimal.uint) : str :=
  match u with
  | Nil => []
  | D0 r => 48 :: uint_codes r | D1 r => 49 :: uint_codes r
  | D2 r => 50 :: uint_codes r | D3 r => 51 :: uint_codes r
  | D4 r => 52 :: uint_codes r | D5 r => 53 :: uint_codes r
  | D6 r => 54 :: uint_codes r | D7 r => 55 :: uint_codes r
  | D8 r => 56 :: uint_codes r | D9 r => 57 :: uint_codes r
  end.
Definition dec (z : Z) : str :=
  match Z.to_int z with
  | Decimal.Pos u => uint_codes u
  | Decimal.Neg u => 45 :: uint_codes u
  end.

(* repr of a str whose code points are ASCII (0..127); printable non-ASCII
   code points are passed through like CPython does, others are outside the model *)
Definition hexd (n : Z) : Z := if n <? 10 then 48 + n else 87 + n.
Definition esc_char (q c : Z) : str :=
  if (c =? q) || (c =? 92) then [92; c]
  else if c =? 9 then [92; 116]
  else if c =? 10 then [92; 110]
  else if c =? 13 then [92; 114]
  else if (c <? 32) || (c =? 127) then [92; 120; hexd (c / 16); hexd (c mod 16)]
  else [c].
Definition has (c : Z) (s : str) : bool := existsb (Z.eqb c) s.
Definition quote_of (s : str) : Z := if has 39 s && negb (has 34 s) then 34 else 39.
Definition repr_str (s : str) : str :=
  let q := quote_of s in q :: flat_map (esc_char q) s ++ [q].

Fixpoint join (sep : str) (l : list str) : str :=
  match l with
  | [] => []
  | [x] => x
  | x :: r => x ++ sep ++ join sep r
  end.

Definition unp_repr (k : Z) : str := s2l "<Unp " ++ dec k ++ s2l ">".
(* repr of the exception raised by pickling harness object #k *)
Definition unp_err (k : Z) : str := s2l "TypeError('cannot pickle Unp " ++ dec k ++ s2l "')".

Fixpoint repr (a : pyarg) : str :=
  match a with
  | AInt z => dec z
  | AStr s => repr_str s
  | ANone => s2l "None"
  | ABool true => s2l "True"
  | ABool false => s2l "False"
  | ATuple l =>
      match l with
      | [x] => 40 :: repr x ++ [44; 41]
      | _ => 40 :: join [44; 32] (map repr l) ++ [41]
      end
  | AList l => 91 :: join [44; 32] (map repr l) ++ [93]
  | AUnp k => unp_repr k
  | AOpaque r => r
  end.

(* ------------------------------------------------------------------ *)
(* 3. exception objects and their classes' constructors                 *)

Inductive cls := CPlain (id : Z) | CMee.
Definition cls_eqb (a b : cls) : bool :=
  match a, b with
  | CPlain x, CPlain y => x =? y
  | CMee, CMee => true
  | _, _ => false
  end.

Definition dict := list (str * pyarg).
Record pexc := mk_exc { x_cls : cls; x_args : list pyarg; x_attrs : dict }.

Fixpoint dict_set (d : dict) (k : str) (v : pyarg) : dict :=
  match d with
  | [] => [(k, v)]
  | (k', v') :: r => if str_eqb k k' then (k, v) :: r else (k', v') :: dict_set r k v
  end.
Definition dict_update (d u : dict) : dict :=
  fold_left (fun d kv => dict_set d (fst kv) (snd kv)) u d.

Definition s_exc : str := [101; 120; 99].
Definition s_value : str := [118; 97; 108; 117; 101].

(* cls( *args ).  CPlain: BaseException.__init__ keeps args.
   MaybeEncodingError.__init__(exc, value): self.exc = repr(exc); self.value = repr(value);
   super().__init__(self.exc, self.value); any other arity is a TypeError (None). *)
Definition construct (c : cls) (args : list pyarg) : option pexc :=
  match c with
  | CPlain _ => Some (mk_exc c args [])
  | CMee =>
      match args with
      | [a; b] =>
          let ra := AStr (repr a) in
          let rb := AStr (repr b) in
          Some (mk_exc CMee [ra; rb] [(s_exc, ra); (s_value, rb)])
      | _ => None
      end
  end.

(* ================================================================== *)
(* D20 switch.  CURRENT VALUE true = /repo as it is: MaybeEncodingError has a __reduce__
   that restores the stored strings without calling __init__ (repair commit 5caeb8f).  The
   value false is the tree BEFORE that repair (no __reduce__: unpickling calls
   MaybeEncodingError( *args ) again); theorems stated about [roundtrip_gen false] /
   [iter_rt false] (C12_roundtrip_stable_refuted, C12_maybe_encoding_error_never_settles) are
   about that counterfactual tree, not about /repo.  EInfoProofs.gen_mee_reduce ties this
   line to the code on every run, and EInfoProofs.gen_mee_rebuild ties the [CMee, true]
   branch of [unpickle_exc] below to the BODY of __reduce__ and of the rebuild function it
   names (exact on objects of the shape the constructor builds: args = (exc, value),
   __dict__ = {exc, value}; an attribute added by hand would be dropped by the real code). *)
Definition mee_repaired : bool := true.
(* ================================================================== *)

(* pickle.loads(pickle.dumps(x)) for an exception object:
   BaseException.__reduce__ = (cls, args, __dict__) -> cls( *args ), then the pickled
   __dict__ is written over the new object's attributes. *)
Definition unpickle_exc (fx : bool) (x : pexc) : option pexc :=
  match x_cls x, fx with
  | CMee, true => Some x
  | _, _ =>
      match construct (x_cls x) (x_args x) with
      | Some y => Some (mk_exc (x_cls y) (x_args y) (dict_update (x_attrs y) (x_attrs x)))
      | None => None
      end
  end.

(* ------------------------------------------------------------------ *)
(* 4. ExceptionInfo and its pickle round trip                           *)

(* ExceptionWithTraceback(exc, text) | the bare exception with __cause__ =
   RemoteTraceback(text between triple quotes) (Some text) or without cause *)
Inductive wrapped := EWT (x : pexc) (text : Z) | Raw (x : pexc) (cause : option Z).
Definition exc_of (w : wrapped) : pexc := match w with EWT x _ => x | Raw x _ => x end.

Record einfo := mk_ei { ei_type : cls; ei_exc : wrapped; ei_tb : list frame;
                        ei_text : Z; ei_internal : bool }.

(* ExceptionInfo((type, exc, tb), internal) with DEFAULT_MAX_FRAMES = m *)
Definition mk_einfo (m : Z) (t : cls) (x : pexc) (tb : list frame) (text : Z)
           (internal : bool) : option einfo :=
  match copy_tb m tb with
  | Some c => Some (mk_ei t (EWT x text) c text internal)
  | None => None
  end.

(* pickle.loads(pickle.dumps(e)): ExceptionInfo, Traceback, _Frame, _Code, _Truncated are
   rebuilt as __new__ + __dict__ (identity); ExceptionWithTraceback.__reduce__ =
   (rebuild_exc, (exc, tb)); a bare exception loses __cause__ (not pickled). *)
Definition roundtrip_gen (fx : bool) (e : einfo) : option einfo :=
  match ei_exc e with
  | EWT x t =>
      match unpickle_exc fx x with
      | Some y => Some (mk_ei (ei_type e) (Raw y (Some t)) (ei_tb e) (ei_text e) (ei_internal e))
      | None => None
      end
  | Raw x _ =>
      match unpickle_exc fx x with
      | Some y => Some (mk_ei (ei_type e) (Raw y None) (ei_tb e) (ei_text e) (ei_internal e))
      | None => None
      end
  end.
Definition roundtrip : einfo -> option einfo := roundtrip_gen mee_repaired.

Fixpoint iter_rt (fx : bool) (n : nat) (e : einfo) : option einfo :=
  match n with
  | O => Some e
  | S k => match iter_rt fx k e with Some e' => roundtrip_gen fx e' | None => None end
  end.

(* ------------------------------------------------------------------ *)
(* 5. the result-sending part of Worker.workloop                        *)

Inductive task_out :=
| Returns (v : pyarg)
| Raises (t : cls) (x : pexc) (live : list frame) (text : Z).

(* one entry of what wait_for_job() returns; ptb/ptext: traceback and text of the
   exception raised by put((READY, ...)), used only when that put fails *)
Inductive req :=
| RNone
| RTask (job i : Z) (o : task_out) (ptb : list frame) (ptext : Z).

Inductive payload := PVal (v : pyarg) | PInfo (e : einfo).
Inductive msg := MAck (job i : Z) | MReady (job i : Z) (ok : bool) (p : payload).

(* what outq.put(msg) does: returns | raises an Exception whose repr is r |
   raises a BaseException that is not an Exception *)
Inductive putres := PutOk | PutExc (r : str) | PutBase.

Fixpoint first_some {A} (l : list (option A)) : option A :=
  match l with
  | [] => None
  | Some a :: _ => Some a
  | None :: r => first_some r
  end.

(* repr of the exception pickle raises on this value (None: picklable) *)
Fixpoint pickle_err (a : pyarg) : option str :=
  match a with
  | AUnp k => Some (unp_err k)
  | ATuple l | AList l => first_some (map pickle_err l)
  | _ => None
  end.
Definition exc_pickle_err (x : pexc) : option str :=
  first_some (map pickle_err (x_args x) ++ map (fun kv => pickle_err (snd kv)) (x_attrs x)).
Definition payload_pickle_err (p : payload) : option str :=
  match p with
  | PVal v => pickle_err v
  | PInfo e => exc_pickle_err (exc_of (ei_exc e))
  end.
Definition msg_pickle_err (m : msg) : option str :=
  match m with
  | MAck _ _ => None
  | MReady _ _ _ p => payload_pickle_err p
  end.

(* the n-th call of put: the environment [env] may fail it (broken pipe, signal);
   otherwise it fails iff the message does not pickle *)
Definition do_put (env : nat -> putres) (n : nat) (m : msg) : putres :=
  match env n with
  | PutOk => match msg_pickle_err m with Some r => PutExc r | None => PutOk end
  | r => r
  end.

(* repr(ExceptionInfo) = "<ExceptionInfo: %r>" % ExceptionWithTraceback(...) *)
Definition einfo_repr : str := s2l "<ExceptionInfo: ExceptionWithTraceback()>".
Definition payload_obj (p : payload) : pyarg :=
  match p with PVal v => v | PInfo _ => AOpaque einfo_repr end.

Inductive crash := CrAckPut | CrReadyBase | CrRecordPut | CrNoTraceback | CrCtor.
Inductive ending := EndScript | Exit (code : Z) | Crashed (c : crash).

(* the task body's result tuple *)
Definition task_result (mf : Z) (o : task_out) : option (bool * payload) :=
  match o with
  | Returns v => Some (true, PVal v)
  | Raises t x live text =>
      match mk_einfo mf t x live text false with
      | Some e => Some (false, PInfo e)
      | None => None
      end
  end.

(* the record built by the `except Exception as exc` handler around put((READY, ...)) *)
Definition encoding_record (mf : Z) (r : str) (p : payload) (ptb : list frame) (ptext : Z)
  : option einfo :=
  match construct CMee [AOpaque r; payload_obj p] with
  | Some w => mk_einfo mf CMee w ptb ptext false
  | None => None
  end.

(* one accepted task: messages put successfully, then either a crash or the next put index *)
Definition handle_task (mf : Z) (env : nat -> putres) (n : nat) (job i : Z) (o : task_out)
           (ptb : list frame) (ptext : Z) : list msg * (crash + nat) :=
  match do_put env n (MAck job i) with
  | PutOk =>
      match task_result mf o with
      | None => ([MAck job i], inl CrNoTraceback)
      | Some (ok, p) =>
          let m1 := MReady job i ok p in
          match do_put env (S n) m1 with
          | PutOk => ([MAck job i; m1], inr (S (S n)))
          | PutBase => ([MAck job i], inl CrReadyBase)
          | PutExc r =>
              match encoding_record mf r p ptb ptext with
              | None => ([MAck job i], inl CrNoTraceback)
              | Some e2 =>
                  let m2 := MReady job i false (PInfo e2) in
                  match do_put env (S (S n)) m2 with
                  | PutOk => ([MAck job i; m2], inr (S (S (S n))))
                  | _ => ([MAck job i], inl CrRecordPut)
                  end
              end
          end
      end
  | _ => ([], inl CrAckPut)
  end.

(* ------------------------------------------------------------------ *)
(* 5b. the stand-in frames' namespace values are pickled with the record *)

(* _Frame copies the RAW values of f_globals["__file__"], f_globals["__name__"] and
   f_locals["__traceback_hide__"]; pickle.dumps(record) walks __dict__ in the order type, tb,
   traceback, internal, exception, and the tb chain node by node (frame: f_globals before f_locals) *)
Definition gval_pickle_err (v : gval) : option str :=
  match v with GUnp r => Some r | _ => None end.
Definition ns_pickle_err (d : ns) : option str :=
  first_some (map (fun kv => gval_pickle_err (snd kv)) d).
Definition sframe_pickle_err (s : sframe) : option str :=
  match ns_pickle_err (sf_globals s) with Some r => Some r | None => ns_pickle_err (sf_locals s) end.
Definition chain_pickle_err (c : list sframe) : option str := first_some (map sframe_pickle_err c).
Definition record_pickle_err (c : list sframe) (x : pexc) : option str :=
  match chain_pickle_err c with Some r => Some r | None => exc_pickle_err x end.

(* the put of the task's READY (call S n) fails by itself when the stand-in chain does not pickle *)
Definition env_ns (env : nat -> putres) (n : nat) (c : list sframe) : nat -> putres :=
  fun k => if Nat.eqb k (S n) then
             match env k, chain_pickle_err c with
             | PutOk, Some r => PutExc r
             | e, _ => e
             end
           else env k.

(* one accepted task that raises, its live traceback given WITH the frames' namespaces *)
Definition handle_task_ns (rl : Z) (env : nat -> putres) (n : nat) (job i : Z) (t : cls) (x : pexc)
           (ltb : list lframe) (text : Z) (ptb : list frame) (ptext : Z) : list msg * (crash + nat) :=
  match copy_ltb (default_max_frames rl) ltb with
  | Some c => handle_task (default_max_frames rl) (env_ns env n c) n job i
                          (Raises t x (map lf_fr ltb) text) ptb ptext
  | None => handle_task (default_max_frames rl) env n job i (Raises t x [] text) ptb ptext
  end.

(* `while maxtasks is None or (maxtasks and completed < maxtasks)` *)
Definition loop_guard (maxtasks : option Z) (completed : Z) : bool :=
  match maxtasks with
  | None => true
  | Some m => negb (m =? 0) && (completed <? m)
  end.
Definition exit_code (maxtasks : option Z) (completed : Z) : Z :=
  match maxtasks with
  | Some m => if negb (m =? 0) then (if completed =? m then 155 else 1) else 0
  | None => 0
  end.

Fixpoint run_loop (mf : Z) (env : nat -> putres) (maxtasks : option Z)
         (script : list req) (completed : Z) (n : nat) : list msg * ending :=
  if loop_guard maxtasks completed then
    match script with
    | [] => ([], EndScript)
    | RNone :: r => run_loop mf env maxtasks r completed n
    | RTask job i o ptb ptext :: r =>
        match handle_task mf env n job i o ptb ptext with
        | (ms, inl c) => (ms, Crashed c)
        | (ms, inr n') =>
            let (ms', e) := run_loop mf env maxtasks r (completed + 1) n' in
            (ms ++ ms', e)
        end
    end
  else ([], Exit (exit_code maxtasks completed)).

(* ------------------------------------------------------------------ *)
(* 6. observations and correspondence                                   *)

(* what the harness reads off an ExceptionInfo object *)
Record view := mk_view {
  v_type : cls; v_wrapped : bool; v_cls : cls; v_args : list pyarg; v_attrs : dict;
  v_cause : option Z; v_text : Z; v_tb : list frame; v_internal : bool }.

Definition view_of (e : einfo) : view :=
  match ei_exc e with
  | EWT x t => mk_view (ei_type e) true (x_cls x) (x_args x) (x_attrs x) (Some t)
                       (ei_text e) (ei_tb e) (ei_internal e)
  | Raw x c => mk_view (ei_type e) false (x_cls x) (x_args x) (x_attrs x) c
                       (ei_text e) (ei_tb e) (ei_internal e)
  end.

Definition dict_eqb : dict -> dict -> bool := list_eqb (pair_eqb str_eqb pyarg_eqb).
Definition args_eqb : list pyarg -> list pyarg -> bool := list_eqb pyarg_eqb.
Definition tb_eqb : list frame -> list frame -> bool := list_eqb frame_eqb.

(* the property-relevant part: type, exception class and args, text, tb chain *)
Definition view_prop_eqb (a b : view) : bool :=
  cls_eqb (v_type a) (v_type b) && cls_eqb (v_cls a) (v_cls b)
  && args_eqb (v_args a) (v_args b) && (v_text a =? v_text b) && tb_eqb (v_tb a) (v_tb b).
Definition view_rest_eqb (a b : view) : bool :=
  Bool.eqb (v_wrapped a) (v_wrapped b) && dict_eqb (v_attrs a) (v_attrs b)
  && opt_eqb Z.eqb (v_cause a) (v_cause b) && Bool.eqb (v_internal a) (v_internal b).

(* 0 / 1 / 2 as in FRAMEWORK.md *)
Definition cmp_view (model impl : view) : Z :=
  if negb (view_prop_eqb model impl) then 2
  else if negb (view_rest_eqb model impl) then 1 else 0.
Definition worst (a b : Z) : Z := Z.max a b.

(* run-length encoded frame chains over a per-case string table *)
Definition rle := list (Z * Z * Z * nat).
Definition tab_get (tab : list str) (i : Z) : str :=
  if i <? 0 then [63; 63] else nth (Z.to_nat i) tab [63; 63].
Fixpoint expand (tab : list str) (r : rle) : list frame :=
  match r with
  | [] => []
  | (f, n, l, k) :: t => repeat (mk_fr (tab_get tab f) (tab_get tab n) l) k ++ expand tab t
  end.

(* observed view: (type, wrapped, cls, args, attrs, cause, text, tb, internal) *)
Definition oview := (cls * bool * cls * list pyarg * dict * option Z * Z * rle * bool)%type.
Definition view_of_obs (tab : list str) (o : oview) : view :=
  let '(t, w, c, a, d, ca, tx, tb, it) := o in
  mk_view t w c a d ca tx (expand tab tb) it.

(* model views after 0, 1, ... round trips, as many as observed *)
Fixpoint cmp_rounds (fx : bool) (e : option einfo) (obs : list view) : Z :=
  match obs with
  | [] => 0
  | o :: r =>
      match e with
      | None => 2                      (* model: unpickling raises; impl produced a record *)
      | Some e' => worst (cmp_view (view_of e') o) (cmp_rounds fx (roundtrip_gen fx e') r)
      end
  end.

(* property monitor on observations alone: 0 ok, 1 type/class changed, 2 args changed,
   3 text changed, 4 tb chain changed, 5 tb longer than the bound *)
Definition mon_pair (bound : Z) (first o : view) : Z :=
  if negb (cls_eqb (v_type first) (v_type o) && cls_eqb (v_cls first) (v_cls o)) then 1
  else if negb (args_eqb (v_args first) (v_args o)) then 2
  else if negb (v_text first =? v_text o) then 3
  else if negb (tb_eqb (v_tb first) (v_tb o)) then 4
  else if Z.of_nat (List.length (v_tb o)) >? bound then 5
  else 0.
Fixpoint first_nonzero (l : list Z) : Z :=
  match l with [] => 0 | x :: r => if x =? 0 then first_nonzero r else x end.
Definition monitor_views (bound : Z) (obs : list view) : Z :=
  match obs with
  | [] => 0
  | f :: _ => first_nonzero (map (mon_pair bound f) obs)
  end.

(* observed message: ACK | READY ok value | READY ok record-view *)
Inductive omsg := OAck (job i : Z) | OVal (job i : Z) (ok : bool) (v : pyarg)
                | OInfo (job i : Z) (ok : bool) (v : oview).
Inductive oending := OEndScript | OExit (code : Z) | OCrashed.

Definition cmp_msg (fx : bool) (tab : list str) (m : msg) (o : omsg) : Z :=
  match m, o with
  | MAck j i, OAck j' i' => if (j =? j') && (i =? i') then 0 else 2
  | MReady j i ok (PVal v), OVal j' i' ok' v' =>
      if (j =? j') && (i =? i') && Bool.eqb ok ok' && pyarg_eqb v v' then 0 else 2
  | MReady j i ok (PInfo e), OInfo j' i' ok' ov =>
      if (j =? j') && (i =? i') && Bool.eqb ok ok' then
        (* the parent sees the record after one transport *)
        match roundtrip_gen fx e with
        | Some e' => cmp_view (view_of e') (view_of_obs tab ov)
        | None => 2
        end
      else 2
  | _, _ => 2
  end.
Fixpoint cmp_msgs (fx : bool) (tab : list str) (ms : list msg) (os : list omsg) : Z :=
  match ms, os with
  | [], [] => 0
  | m :: r, o :: t => worst (cmp_msg fx tab m o) (cmp_msgs fx tab r t)
  | _, _ => 2
  end.
Definition cmp_ending (e : ending) (o : oending) : Z :=
  match e, o with
  | EndScript, OEndScript => 0
  | Exit c, OExit c' => if c =? c' then 0 else 2
  | Crashed _, OCrashed => 0
  | _, _ => 2
  end.

(* monitor for worker traces: every ACKed job has exactly one READY, in order, and a
   task whose first READY could not be sent is answered by a MaybeEncodingError record.
   [unser]: the (job, i) whose result the harness knows to be unserialisable. *)
Fixpoint ready_keys (os : list omsg) : list (Z * Z) :=
  match os with
  | [] => []
  | OAck _ _ :: r => ready_keys r
  | OVal j i _ _ :: r | OInfo j i _ _ :: r => (j, i) :: ready_keys r
  end.
Fixpoint ack_keys (os : list omsg) : list (Z * Z) :=
  match os with
  | [] => []
  | OAck j i :: r => (j, i) :: ack_keys r
  | _ :: r => ack_keys r
  end.
Definition key_eqb : Z * Z -> Z * Z -> bool := pair_eqb Z.eqb Z.eqb.
Fixpoint mee_for (os : list omsg) (k : Z * Z) : bool :=
  match os with
  | [] => false
  | OInfo j i false (t, _, c, _, _, _, _, _, _) :: r =>
      if key_eqb (j, i) k then cls_eqb t CMee && cls_eqb c CMee else mee_for r k
  | OVal j i _ _ :: r | OInfo j i _ _ :: r => if key_eqb (j, i) k then false else mee_for r k
  | _ :: r => mee_for r k
  end.
Definition monitor_worker (crashed : bool) (unser : list (Z * Z)) (os : list omsg) : Z :=
  if crashed then 0      (* the environment broke the pipe: outside the statement *)
  else if negb (list_eqb key_eqb (ack_keys os) (ready_keys os)) then 6
  else if negb (forallb (mee_for os) unser) then 7
  else 0.

Inductive case :=
(* ExceptionInfo from a live traceback, then k round trips *)
| CaseRT (tab : list str) (reclimit : Z) (t : cls) (x : pexc) (live : rle) (text : Z)
         (obs : list oview)
(* Traceback(tb, max_frames=m) directly, then round trips of the Traceback object *)
| CaseTB (tab : list str) (m : Z) (live : rle) (obs : list rle)
(* MaybeEncodingError(a, b) constructed directly: observed args, __dict__ *)
| CaseMee (a b : pyarg) (oargs : list pyarg) (oattrs : dict)
(* Worker.workloop over a script *)
| CaseWL (tab : list str) (reclimit : Z) (maxtasks : option Z) (script : list req)
         (env : list putres) (unser : list (Z * Z)) (os : list omsg) (oe : oending)
(* ExceptionInfo from a live traceback whose frames come with their namespaces: the observed
   stand-in chains (with the stand-in frames' f_globals / f_locals) after 0, 1, ... round trips *)
| CaseNS (reclimit : Z) (live : list lframe) (obs : list (list sframe))
(* public attribute names of a real frame / code / traceback object (dir()) *)
| CaseSlots (fr co tb : list str)
(* pickle.dumps of the record built from a live traceback whose namespace values may be
   unpicklable ([GUnp]; the exception itself pickles): repr of what dumps raised, if it did *)
| CaseNsPut (reclimit : Z) (live : list lframe) (err : option str).

Definition env_of (l : list putres) (n : nat) : putres := nth n l PutOk.

Definition check_case_gen (fx : bool) (c : case) : Z :=
  match c with
  | CaseRT tab rl t x live text obs =>
      cmp_rounds fx (mk_einfo (default_max_frames rl) t x (expand tab live) text false)
                 (map (view_of_obs tab) obs)
  | CaseTB tab m live obs =>
      match copy_tb m (expand tab live) with
      | None => 2
      | Some c => if forallb (fun o => tb_eqb c (expand tab o)) obs then 0 else 2
      end
  | CaseMee a b oargs oattrs =>
      match construct CMee [a; b] with
      | None => 2
      | Some x => if negb (args_eqb (x_args x) oargs) then 2
                  else if negb (dict_eqb (x_attrs x) oattrs) then 1 else 0
      end
  | CaseWL tab rl mt script env unser os oe =>
      let (ms, e) := run_loop (default_max_frames rl) (env_of env) mt script 0 O in
      worst (cmp_msgs fx tab ms os) (cmp_ending e oe)
  | CaseNS rl live obs =>
      match copy_ltb (default_max_frames rl) live with
      | None => 2
      | Some c =>
          if negb (forallb (fun o => tb_eqb (map sf_fr c) (map sf_fr o)) obs) then 2
          else if negb (forallb (list_eqb sframe_eqb c) obs) then 1 else 0
      end
  | CaseSlots fr co tb =>
      let sub := fun (m o : list str) => forallb (fun a => existsb (str_eqb a) o) m in
      if sub frame_slots fr && sub code_slots co && sub tb_slots tb then 0 else 1
  | CaseNsPut rl live err =>
      match copy_ltb (default_max_frames rl) live with
      | Some c => if opt_eqb str_eqb (chain_pickle_err c) err then 0 else 2
      | None => 2
      end
  end.
Definition check_case : case -> Z := check_case_gen mee_repaired.

(* the property monitor, evaluated on the implementation's observations only *)
Definition monitor_case (c : case) : Z :=
  match c with
  | CaseRT tab rl _ _ _ _ obs =>
      monitor_views (default_max_frames rl + 3) (map (view_of_obs tab) obs)
  | CaseTB tab m live obs =>
      let lv := expand tab live in
      let bound := Z.max m (-1) + 3 in
      first_nonzero (map (fun o => let c := expand tab o in
                                   if Z.of_nat (List.length c) >? bound then 5
                                   else if negb (tb_eqb (firstn (pred (List.length c)) c)
                                                        (firstn (pred (List.length c)) lv)) then 4
                                   else 0) obs)
  | CaseMee _ _ _ _ => 0
  | CaseWL _ _ _ _ env unser os oe =>
      let crashed := match oe with OCrashed => true | _ => false end in
      (* nothing in the environment failed and yet the loop died: a task's outcome killed the
         worker (the property: "instead of killing the worker or losing the job") *)
      if crashed && forallb (fun r => match r with PutOk => true | _ => false end) env then 8
      else monitor_worker crashed unser os
  | CaseNS rl live obs =>
      (* the stand-in chain names the live frames (prefix, then possibly the marker), within the bound *)
      let lv := map lf_fr live in
      let bound := default_max_frames rl + 3 in
      first_nonzero (map (fun o => let c := map sf_fr o in
                                   if Z.of_nat (List.length c) >? bound then 5
                                   else if negb (tb_eqb (firstn (pred (List.length c)) c)
                                                        (firstn (pred (List.length c)) lv)) then 4
                                   else 0) obs)
  | CaseSlots _ _ _ => 0
  | CaseNsPut _ _ _ => 0
  end.

(* what props/C12.py evaluates: correspondence code + 10 * monitor code *)
Definition check_both (c : case) : Z := check_case c + 10 * monitor_case c.
