(* Model of billiard.pool.LaxBoundedSemaphore (the pool's slot semaphore).
   [pending] is ghost: number of shrink() calls that have lowered the bound and
   are still waiting in acquire(). *)
From Coq Require Import ZArith List Bool.
Import ListNotations.
Open Scope Z_scope.

Record sem := mk_sem { value : Z; bound : Z; pending : Z }.

Definition sem_init (n : Z) : sem := mk_sem n n 0.

Inductive sop :=
| Acquire        (* threading.Semaphore.acquire: enabled iff value > 0 *)
| Release
| Grow
| ShrinkStart    (* first half of shrink(): bound -= 1 *)
| ShrinkFinish   (* second half: the blocking acquire, enabled iff value > 0 *)
| Clear.

Definition release (s : sem) : sem :=
  if value s <? bound s then mk_sem (value s + 1) (bound s) (pending s) else s.
Definition grow (s : sem) : sem := mk_sem (value s + 1) (bound s + 1) (pending s).
Definition shrink_start (s : sem) : sem := mk_sem (value s) (bound s - 1) (pending s + 1).
Definition clear (s : sem) : sem := mk_sem (Z.max (value s) (bound s)) (bound s) (pending s).

(* None = the operation is not enabled (the caller blocks) *)
Definition sstep (s : sem) (o : sop) : option sem :=
  match o with
  | Acquire => if 0 <? value s then Some (mk_sem (value s - 1) (bound s) (pending s)) else None
  | Release => Some (release s)
  | Grow => Some (grow s)
  | ShrinkStart => Some (shrink_start s)
  | ShrinkFinish => if (0 <? value s) && (0 <? pending s)
                    then Some (mk_sem (value s - 1) (bound s) (pending s - 1)) else None
  | Clear => Some (clear s)
  end.

(* blocked operations leave the state unchanged (the thread waits) *)
Definition sstep' (s : sem) (o : sop) : sem :=
  match sstep s o with Some s' => s' | None => s end.

Definition srun (s : sem) (ops : list sop) : sem := fold_left sstep' ops s.

Definition sem_eqb (a b : sem) : bool :=
  (value a =? value b) && (bound a =? bound b).

(* ---- correspondence: initial size, ops, implementation's (blocked?, value, bound) after each op.
   HShrink is the real atomic shrink() call: both halves when a slot is free,
   otherwise the first half and the caller is left blocked. *)
From BV Require Import Lib.Cases.
Inductive hop := HOp (o : sop) | HShrink.
Definition case := (Z * list hop * list (bool * Z * Z))%type.
Fixpoint trace (s : sem) (ops : list hop) : list (bool * Z * Z) :=
  match ops with
  | [] => []
  | HOp o :: r => match sstep s o with
                  | Some s' => (false, value s', bound s') :: trace s' r
                  | None => (true, value s, bound s) :: trace s r
                  end
  | HShrink :: r => let s1 := shrink_start s in
                    match sstep s1 ShrinkFinish with
                    | Some s' => (false, value s', bound s') :: trace s' r
                    | None => (true, value s1, bound s1) :: trace s1 r
                    end
  end.
Definition obs_eqb (a b : bool * Z * Z) : bool :=
  let '(x, y, z) := a in let '(p, q, r) := b in Bool.eqb x p && (y =? q) && (z =? r).
Definition check_case (c : case) : Z :=
  let '(n, ops, obs) := c in
  if list_eqb obs_eqb (trace (sem_init n) ops) obs then 0 else 2.
