(* Model of the authentication handshake of billiard.connection
   (deliver_challenge, answer_challenge, Listener.__init__/accept, Client).
   Executable, no proofs in here.  The MAC is a Section variable (oracle), the
   source of challenge bytes (os.urandom) is an argument. *)
From Coq Require Import ZArith List Bool.
From BV Require Import Lib.Cases Lib.AuthBase Lib.AuthKey.
Import ListNotations.
Open Scope Z_scope.

Definition MESSAGE_LENGTH : Z := 20.
Definition RECV_LIMIT : Z := 256.
(* b'#CHALLENGE#', b'#WELCOME#', b'#FAILURE#' *)
Definition CHALLENGE : bytes := [35; 67; 72; 65; 76; 76; 69; 78; 71; 69; 35].
Definition WELCOME : bytes := [35; 87; 69; 76; 67; 79; 77; 69; 35].
Definition FAILURE : bytes := [35; 70; 65; 73; 76; 85; 82; 69; 35].

Definition accept_order : list hstep := [Deliver; Answer].
Definition client_order : list hstep := [Answer; Deliver].
Definition listener_guard : guard := GTruthy.
Definition client_guard : guard := GNotNone.

Section WithMac.
  Variable mac : bytes -> bytes -> bytes.

  (* `k` = what the caller does after the function returns normally *)
  Definition deliver_challenge (authkey : bytes) (urandom : Z -> bytes) (k : proc) : proc :=
    let message := urandom MESSAGE_LENGTH in
    Send (CHALLENGE ++ message)
      (Recv RECV_LIMIT (fun response =>
         if bytes_eqb response (mac authkey message)
         then Send WELCOME k
         else Send FAILURE (Raise AuthenticationError))).

  Definition answer_challenge (authkey : bytes) (k : proc) : proc :=
    Recv RECV_LIMIT (fun message =>
      if bytes_eqb (firstn (length CHALLENGE) message) CHALLENGE then
        Send (mac authkey (skipn (length CHALLENGE) message))
          (Recv RECV_LIMIT (fun response =>
             if bytes_eqb response WELCOME
             then k
             else Raise AuthenticationError))
      else Raise AssertionError).

  Definition do_step (authkey : bytes) (urandom : Z -> bytes) (s : hstep) (k : proc) : proc :=
    match s with
    | Deliver => deliver_challenge authkey urandom k
    | Answer => answer_challenge authkey k
    end.

  (* the handshake of one side: the steps in order, then return the connection *)
  Definition role (order : list hstep) (authkey : bytes) (urandom : Z -> bytes) : proc :=
    fold_right (do_step authkey urandom) Ret order.

  (* Listener(authkey=key) followed by accept(), resp. Client(authkey=key):
     type check first; then the guard decides whether to authenticate at all.
     (A KOther key never gets past the type check; should it, the functions'
     own `assert isinstance(authkey, bytes)` fires.) *)
  Definition endpoint (g : guard) (order : list hstep) (key : keyval) (urandom : Z -> bytes) : proc :=
    if key_type_error key then Raise TypeError
    else if guard_holds g key then
           match key with
           | KBytes b => role order b urandom
           | _ => Raise AssertionError
           end
         else Ret.

  Definition listener := endpoint listener_guard accept_order.
  Definition client := endpoint client_guard client_order.

  (* both honest, connected to each other; a = listener, b = client *)
  Definition handshake (fuel : nat) (kl kc : keyval) (ul uc : Z -> bytes) :=
    run2 fuel (listener kl ul) (client kc uc) [] [] [] [].

  (* the same two endpoints over a channel whose sends may fail (fl: the listener's
     send oracle, fc: the client's) *)
  Definition handshake_f (fuel : nat) (kl kc : keyval) (ul uc : Z -> bytes) (fl fc : faults) :=
    run2f fuel (listener kl ul) (client kc uc) [] [] [] [] fl fc 0 0.
End WithMac.

(* ------------------------------------------------------------------ *)
(* correspondence *)

Definition obs := (outcome * list bytes)%type.     (* how it ended, what it sent *)

Definition obs_outcome_eqb (a b : obs) : bool := outcome_eqb (fst a) (fst b).
Definition obs_eqb (a b : obs) : bool :=
  outcome_eqb (fst a) (fst b) && list_eqb bytes_eqb (snd a) (snd b).

Inductive scenario :=
| Honest (kl kc : keyval) (cl cc : bytes)            (* listener and client, their challenge bytes *)
| VsPeerL (kl : keyval) (cl : bytes) (script : list bytes)   (* honest listener, scripted peer *)
| VsPeerC (kc : keyval) (cc : bytes) (script : list bytes)   (* honest client, scripted peer *)
(* the same with channel faults: per side the result of each send_bytes call in order
   (None = delivered, Some e = raised e; calls beyond the list are delivered); a
   scripted peer's list says for each recv_bytes call: a message or an error *)
| HonestF (kl kc : keyval) (cl cc : bytes) (fl fc : list (option exn))
| VsPeerLF (kl : keyval) (cl : bytes) (script : list rev) (fl : list (option exn))
| VsPeerCF (kc : keyval) (cc : bytes) (script : list rev) (fc : list (option exn)).

(* a case: the scenario, the digest table computed by the real hmac, the number n
   the implementation passed to os.urandom (per side, None = not called), and the
   observations of the implementation (listener side, client side): how it ended and
   the messages it sent (under faults: the messages whose send_bytes call succeeded) *)
Definition case :=
  (scenario * mac_table * (option Z * option Z) * (option obs * option obs))%type.

(* the challenge source of the model: returns the scripted bytes, truncated or
   padded to the requested length exactly like a source of n random bytes would
   (so a changed MESSAGE_LENGTH shows on the wire) *)
Definition urandom_of (c : bytes) (n : Z) : bytes :=
  firstn (Z.to_nat n) c ++ repeat 0 (Z.to_nat n - length c).

Definition model_obs (s : scenario) (t : mac_table) : option obs * option obs :=
  let mac := mac_of_table t in
  match s with
  | Honest kl kc cl cc =>
      let '(a, b) := handshake mac 64 kl kc (urandom_of cl) (urandom_of cc) in (Some a, Some b)
  | VsPeerL kl cl script =>
      let (s, o) := run1 (listener mac kl (urandom_of cl)) script in (Some (o, s), None)
  | VsPeerC kc cc script =>
      let (s, o) := run1 (client mac kc (urandom_of cc)) script in (None, Some (o, s))
  | HonestF kl kc cl cc fl fc =>
      let '(a, b) := handshake_f mac 64 kl kc (urandom_of cl) (urandom_of cc)
                                 (faults_of fl) (faults_of fc) in (Some a, Some b)
  | VsPeerLF kl cl script fl =>
      let (s, o) := run1f (listener mac kl (urandom_of cl)) script (faults_of fl) 0 in (Some (o, s), None)
  | VsPeerCF kc cc script fc =>
      let (s, o) := run1f (client mac kc (urandom_of cc)) script (faults_of fc) 0 in (None, Some (o, s))
  end.

(* does the model draw a challenge on this side?  (then the implementation
   must have asked os.urandom for exactly MESSAGE_LENGTH bytes) *)
Definition sent_challenge (o : option obs) : bool :=
  match o with
  | Some (_, s) => existsb (fun m => bytes_eqb (firstn (length CHALLENGE) m) CHALLENGE) s
  | None => false
  end.
Definition urandom_ok (o : option obs) (n : option Z) : bool :=
  match n with
  | Some z => z =? MESSAGE_LENGTH
  | None => negb (sent_challenge o)
  end.

(* 0 = identical; 2 = an outcome (returned / raised what / starved) differs, or
   the challenge was not MESSAGE_LENGTH bytes from os.urandom; 1 = only the
   bytes on the wire differ *)
Definition check_case (c : case) : Z :=
  let '(s, t, (nl, nc), (il, ic)) := c in
  let (ml, mc) := model_obs s t in
  if negb (opt_eqb obs_outcome_eqb ml il && opt_eqb obs_outcome_eqb mc ic) then 2
  else if negb (urandom_ok ml nl && urandom_ok mc nc) then 2
  else if opt_eqb obs_eqb ml il && opt_eqb obs_eqb mc ic then 0 else 1.

(* ------------------------------------------------------------------ *)
(* correspondence of the key normalisation Lib/AuthKey.norm (the notion of "same key"
   of C18_iff_same_normalised_key) with the real hmac.

   A case: the block size of the hash the code names (hashlib's block_size), the hash as
   a finite table key |-> digest computed by the real hashlib (only keys longer than the
   block are looked up), the two keys, what CPython's hmac.py normalisation gives for
   them, and -- when the two keys were run against each other by the real
   Listener.accept / Client -- whether both sides were handed a connection. *)
Definition norm_case :=
  (Z * list (bytes * bytes) * (bytes * bytes) * (bytes * bytes) * option bool)%type.

(* 0 = agree; 2 = the real endpoints accepted each other although the normalised keys
   differ, or refused each other although they are equal (the property observable);
   1 = the normalised key itself differs from what hmac.py computes *)
Definition check_norm_case (c : norm_case) : Z :=
  let '(b, ht, (kl, kc), (pl, pc), acc) := c in
  let h := hash_of_table ht in
  let nl := norm (Z.to_nat b) h kl in
  let nc := norm (Z.to_nat b) h kc in
  match acc with
  | Some a => if Bool.eqb a (bytes_eqb nl nc)
              then (if bytes_eqb nl pl && bytes_eqb nc pc then 0 else 1)
              else 2
  | None => if bytes_eqb nl pl && bytes_eqb nc pc then 0 else 1
  end.
