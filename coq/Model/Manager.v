(* Model of billiard.managers: the server's object table and reference counts
   (Server.create / incref / decref / number_of_objects), the dispatch of
   Server.serve_client, the entry protocol of Server.handle_request, the proxy
   lifecycle on the client side, and list / dict / Value / iterator referents as
   Gallina values with the local-object semantics of a subset of their methods.
   Executable, no proofs in here (Proofs/ManagerProofs.v). *)
From Coq Require Import String ZArith List Bool.
From BV Require Import Lib.ManagerLib Lib.Cases.
Import ListNotations.
Open Scope Z_scope.

(* ================================================================ referents *)
Inductive obj :=
| OList (l : list Z)            (* list, and the harness type Shelf(list) *)
| ODict (d : dict Z)            (* dict with int keys and values, insertion order *)
| OVal (v : Z)                  (* managers.Value *)
| OIter (l : list Z).           (* iterator over the remaining items *)

(* registered typeids: four from SyncManager._registry, two registered by the harness to
   exercise method_to_typeid (the only real user, Pool, is too heavy), one registered by the
   harness WITHOUT a proxy type and without an `exposed` tuple (`register('AList', list)`, the
   way SyncManager registers Queue / JoinableQueue / AsyncResult: proxies are built by
   AutoProxy(), `exposed` is public_methods(obj)), one unknown *)
Inductive typ := TList | TDict | TValue | TIter | TShelf | TShelfRef | TAutoList | TUnknown.

Inductive arg := AZ (z : Z) | AL (l : list Z) | AD (d : dict Z) | ANone.

Inductive meth :=
| M_append | M_extend | M_insert | M_pop | M_remove | M_index | M_count | M_reverse | M_sort
| M_getitem | M_setitem | M_delitem | M_len | M_contains
| M_get | M_setdefault | M_clear | M_keys | M_values | M_items | M_popitem | M_update
| M_copy | M_has_key
| M_set                         (* Value.set; Value.get shares M_get *)
| M_next | M_send               (* __next__, send (IteratorProxy._exposed_) *)
| M_clone | M_me                (* harness type Shelf: proxy-returning methods *)
| M_str | M_repr | M_getvalue   (* names in Server.fallback_mapping *)
| M_iter | M_bogus | M_init.    (* '__iter__', 'bogus', '__init__': exposed nowhere *)

Definition mname (m : meth) : string :=
  (match m with
  | M_append => "append" | M_extend => "extend" | M_insert => "insert" | M_pop => "pop"
  | M_remove => "remove" | M_index => "index" | M_count => "count" | M_reverse => "reverse"
  | M_sort => "sort" | M_getitem => "__getitem__" | M_setitem => "__setitem__"
  | M_delitem => "__delitem__" | M_len => "__len__" | M_contains => "__contains__"
  | M_get => "get" | M_setdefault => "setdefault" | M_clear => "clear" | M_keys => "keys"
  | M_values => "values" | M_items => "items" | M_popitem => "popitem" | M_update => "update"
  | M_copy => "copy" | M_has_key => "has_key" | M_set => "set" | M_next => "__next__" | M_send => "send"
  | M_clone => "clone" | M_me => "me" | M_str => "__str__" | M_repr => "__repr__"
  | M_getvalue => "#GETVALUE" | M_iter => "__iter__" | M_bogus => "bogus" | M_init => "__init__"
  end)%string.

Definition all_meths : list meth :=
  [M_append; M_extend; M_insert; M_pop; M_remove; M_index; M_count; M_reverse; M_sort;
   M_getitem; M_setitem; M_delitem; M_len; M_contains; M_get; M_setdefault; M_clear; M_keys;
   M_values; M_items; M_popitem; M_update; M_copy; M_has_key; M_set; M_next; M_send; M_clone; M_me;
   M_str; M_repr; M_getvalue; M_iter; M_bogus; M_init].

Definition meth_eqb (a b : meth) : bool := String.eqb (mname a) (mname b).

Inductive val :=
| VNone | VInt (z : Z) | VBool (b : bool) | VList (l : list Z) | VDict (d : dict Z)
| VPairs (l : list (Z * Z)) | VPair (k v : Z)
| VStr (o : obj)               (* str()/repr() of the referent *)
| VObj (o : obj)               (* #GETVALUE: a copy of the referent *)
| VSelf                        (* the referent object itself (Shelf.me) *)
| VCreated (id : Z)            (* Server.create's (ident, exposed) *)
| VUnmodelled.

(* result of a method on a local object *)
Inductive lres :=
| LRet (v : val) (o' : obj)
| LExn (e : mexn)              (* the modelled methods leave the object unchanged when raising *)
| LUnmodelled.

(* ---- Python list index arithmetic *)
Definition norm_idx (n i : Z) : option nat :=
  let j := if i <? 0 then i + n else i in
  if (0 <=? j) && (j <? n) then Some (Z.to_nat j) else None.
Definition ins_idx (n i : Z) : nat :=
  let j := if i <? 0 then i + n else i in Z.to_nat (Z.max 0 (Z.min n j)).
Definition del_nth (l : list Z) (j : nat) : list Z := firstn j l ++ skipn (S j) l.
Definition set_nth (l : list Z) (j : nat) (x : Z) : list Z := firstn j l ++ x :: skipn (S j) l.
Fixpoint find_idx (x : Z) (l : list Z) : option nat :=
  match l with
  | [] => None
  | y :: r => if y =? x then Some O else option_map S (find_idx x r)
  end.
Fixpoint count_z (x : Z) (l : list Z) : Z :=
  match l with [] => 0 | y :: r => (if y =? x then 1 else 0) + count_z x r end.
Fixpoint insert_sorted (x : Z) (l : list Z) : list Z :=
  match l with
  | [] => [x]
  | y :: r => if x <=? y then x :: l else y :: insert_sorted x r
  end.
Definition isort (l : list Z) : list Z := fold_right insert_sorted [] l.

Definition is_az (a : arg) : bool := match a with AZ _ => true | _ => false end.

(* numbers of positional arguments the method accepts *)
Definition arity_ok (m : meth) (n : nat) : bool :=
  match m with
  | M_append | M_extend | M_remove | M_count | M_getitem | M_delitem | M_contains | M_set =>
    Nat.eqb n 1
  | M_insert | M_setitem => Nat.eqb n 2
  | M_pop => Nat.leb n 1          (* list.pop; dict.pop handled separately *)
  | M_index => Nat.leb 1 n && Nat.leb n 3
  | M_reverse | M_sort | M_len | M_clear | M_keys | M_values | M_items | M_popitem | M_copy
  | M_next | M_clone | M_me => Nat.eqb n 0
  | M_get | M_setdefault => Nat.leb 1 n && Nat.leb n 2
  | M_update => Nat.leb n 1
  | _ => true
  end.

(* int-only arguments of the wrong number: TypeError; anything else is outside the model *)
Definition arity_default (ok : bool) (a : list arg) : lres :=
  if forallb is_az a && negb ok then LExn E_Type else LUnmodelled.

Definition list_apply (shelf : bool) (l : list Z) (m : meth) (a : list arg) : lres :=
  let n := Z.of_nat (length l) in
  let same v := LRet v (OList l) in
  match m, a with
  | M_append, [AZ x] => LRet VNone (OList (l ++ [x]))
  | M_extend, [AL l2] => LRet VNone (OList (l ++ l2))
  | M_extend, [AZ _] => LExn E_Type
  | M_insert, [AZ i; AZ x] =>
    let j := ins_idx n i in LRet VNone (OList (firstn j l ++ x :: skipn j l))
  | M_pop, [] => match rev l with
                 | [] => LExn E_Index
                 | x :: r => LRet (VInt x) (OList (rev r))
                 end
  | M_pop, [AZ i] => match norm_idx n i with
                     | Some j => LRet (VInt (nth j l 0)) (OList (del_nth l j))
                     | None => LExn E_Index
                     end
  | M_remove, [AZ x] => match find_idx x l with
                        | Some j => LRet VNone (OList (del_nth l j))
                        | None => LExn E_Value
                        end
  | M_index, [AZ x] => match find_idx x l with
                       | Some j => same (VInt (Z.of_nat j))
                       | None => LExn E_Value
                       end
  | M_count, [AZ x] => same (VInt (count_z x l))
  | M_reverse, [] => LRet VNone (OList (rev l))
  | M_sort, [] => LRet VNone (OList (isort l))
  | M_getitem, [AZ i] => match norm_idx n i with
                         | Some j => same (VInt (nth j l 0))
                         | None => LExn E_Index
                         end
  | M_getitem, [ANone] => LExn E_Type
  | M_setitem, [AZ i; AZ x] => match norm_idx n i with
                               | Some j => LRet VNone (OList (set_nth l j x))
                               | None => LExn E_Index
                               end
  | M_delitem, [AZ i] => match norm_idx n i with
                         | Some j => LRet VNone (OList (del_nth l j))
                         | None => LExn E_Index
                         end
  | M_len, [] => same (VInt n)
  | M_contains, [AZ x] => same (VBool (0 <? count_z x l))
  | M_clear, [] => LRet VNone (OList [])      (* list.clear / list.copy: public methods, exposed *)
  | M_copy, [] => same (VList l)              (* only for the AutoProxy typeid *)
  | M_clone, [] => if shelf then same (VList l) else LUnmodelled
  | M_me, [] => if shelf then same VSelf else LUnmodelled
  | _, _ => arity_default (arity_ok m (length a)) a
  end.

Definition dict_apply (d : dict Z) (m : meth) (a : list arg) : lres :=
  let same v := LRet v (ODict d) in
  match m, a with
  | M_getitem, [AZ k] => match dget d k with Some v => same (VInt v) | None => LExn E_Key end
  | M_getitem, [ANone] => LExn E_Key          (* None is hashable and never a key here *)
  | M_setitem, [AZ k; AZ v] => LRet VNone (ODict (dset d k v))
  | M_delitem, [AZ k] => if dmem d k then LRet VNone (ODict (ddel d k)) else LExn E_Key
  | M_len, [] => same (VInt (dlen d))
  | M_contains, [AZ k] => same (VBool (dmem d k))
  | M_get, [AZ k] => same (match dget d k with Some v => VInt v | None => VNone end)
  | M_get, [AZ k; AZ x] => same (VInt (match dget d k with Some v => v | None => x end))
  | M_pop, [AZ k] => match dget d k with
                     | Some v => LRet (VInt v) (ODict (ddel d k))
                     | None => LExn E_Key
                     end
  | M_pop, [AZ k; AZ x] => match dget d k with
                           | Some v => LRet (VInt v) (ODict (ddel d k))
                           | None => same (VInt x)
                           end
  | M_pop, _ => arity_default (Nat.leb 1 (length a) && Nat.leb (length a) 2) a
  | M_setdefault, [AZ k; AZ x] => match dget d k with
                                  | Some v => same (VInt v)
                                  | None => LRet (VInt x) (ODict (dset d k x))
                                  end
  | M_clear, [] => LRet VNone (ODict [])
  | M_keys, [] => same (VList (map fst d))
  | M_values, [] => same (VList (map snd d))
  | M_items, [] => same (VPairs d)
  | M_popitem, [] => match rev d with
                     | [] => LExn E_Key
                     | (k, v) :: r => LRet (VPair k v) (ODict (rev r))
                     end
  | M_update, [] => same VNone
  | M_update, [AD d2] => LRet VNone (ODict (fold_left (fun acc kv => dset acc (fst kv) (snd kv)) d2 d))
  | M_update, [AZ _] => LExn E_Type
  | M_copy, [] => same (VDict d)
  | _, _ => arity_default (arity_ok m (length a)) a
  end.

Definition val_apply (v : Z) (m : meth) (a : list arg) : lres :=
  match m, a with
  | M_get, [] => LRet (VInt v) (OVal v)
  | M_get, _ => arity_default false a
  | M_set, [AZ x] => LRet VNone (OVal x)
  | _, _ => arity_default (arity_ok m (length a)) a
  end.

Definition iter_apply (l : list Z) (m : meth) (a : list arg) : lres :=
  match m, a with
  | M_next, [] => match l with [] => LExn E_StopIteration | x :: r => LRet (VInt x) (OIter r) end
  | _, _ => arity_default (arity_ok m (length a)) a
  end.

Definition is_shelf (t : typ) : bool :=
  match t with TShelf | TShelfRef => true | _ => false end.

(* THE LOCAL-OBJECT SPECIFICATION: what method m with arguments a does on a local object *)
Definition apply_local (o : obj) (t : typ) (m : meth) (a : list arg) : lres :=
  match o with
  | OList l => list_apply (is_shelf t) l m a
  | ODict d => dict_apply d m a
  | OVal v => val_apply v m a
  | OIter l => iter_apply l m a
  end.

(* ================================================================= registry *)
Definition list_exposed (m : meth) : bool :=
  match m with
  | M_append | M_extend | M_insert | M_pop | M_remove | M_index | M_count | M_reverse | M_sort
  | M_getitem | M_setitem | M_delitem | M_len | M_contains => true
  | _ => false
  end.

(* the `exposed` set stored by Server.create for a typeid (restricted to [meth]) *)
Definition exposed_of (t : typ) (m : meth) : bool :=
  match t with
  | TList => list_exposed m
  | TDict => match m with
             | M_contains | M_delitem | M_getitem | M_len | M_setitem | M_clear | M_copy
             | M_get | M_has_key | M_items | M_keys | M_pop | M_popitem | M_setdefault
             | M_update | M_values => true
             | _ => false
             end
  | TValue => match m with M_get | M_set => true | _ => false end
  | TIter => match m with M_next | M_send => true | _ => false end
                       (* IteratorProxy._exposed_ = __next__, send, throw, close *)
  | TShelf => list_exposed m || match m with M_clone | M_me => true | _ => false end
  | TShelfRef => match m with M_append | M_len | M_getitem => true | _ => false end
  | TAutoList => match m with          (* public_methods(list): no name starting with '_' *)
                 | M_append | M_clear | M_copy | M_count | M_extend | M_index | M_insert | M_pop
                 | M_remove | M_reverse | M_sort => true
                 | _ => false
                 end
  | TUnknown => false
  end.

(* what the proxy class offers to its user: IteratorProxy defines __next__ and send (among the
   modelled names), the other proxy classes exactly their exposed methods -- for an AutoProxy
   typeid by construction: MakeProxyType defines one method per exposed name.  (Before the repair
   of IteratorProxy._exposed_ the server exposed nothing of what IteratorProxy offers.) *)
Definition offered (t : typ) (m : meth) : bool :=
  match t, m with
  | TIter, M_next | TIter, M_send => true
  | _, _ => exposed_of t m
  end.

(* method_to_typeid *)
Definition m2t_of (t : typ) (m : meth) : option typ :=
  match t, m with
  | TShelf, M_clone => Some TList
  | TShelf, M_me => Some TShelfRef
  | _, _ => None
  end.

(* does getattr(obj, methodname) succeed (only consulted for exposed names) *)
Definition has_attr (t : typ) (m : meth) : bool :=
  match t, m with
  | TDict, M_has_key => false
  | TIter, M_send => false          (* a list iterator is not a generator *)
  | _, _ => true
  end.

Definition is_fallback (m : meth) : bool :=
  match m with M_str | M_repr | M_getvalue => true | _ => false end.

(* ============================================================ server state *)
Inductive slot := Slot0 | SlotE (o : obj) (t : typ).   (* Slot0: id_to_obj['0'] = (None, ()) *)
Definition st := sst slot.
Definition init_st : st := mk_sst [(0, Slot0)] [].

(* ---- Server.incref / decref / the tail of Server.create, as in the code *)
Definition incref (s : st) (id : Z) : out st unit :=
  match dget (rcs s) id with
  | None => Exc E_Key s
  | Some n => Ok tt (set_rcs s (dset (rcs s) id (n + 1)))
  end.

Definition decref (s : st) (id : Z) : out st unit :=
  match dget (rcs s) id with
  | None => Exc E_Key s
  | Some n =>
    if n >=? 1 then
      if n - 1 =? 0 then
        if dmem (objs s) id then Ok tt (mk_sst (ddel (objs s) id) (ddel (rcs s) id))
        else Exc E_Key (set_rcs s (dset (rcs s) id (n - 1)))
      else Ok tt (set_rcs s (dset (rcs s) id (n - 1)))
    else Exc E_Assertion s
  end.

(* id_to_obj[ident] = entry; refcount 0 if new; incref *)
Definition create_tail (s : st) (id : Z) (e : slot) : out st Z :=
  let s1 := set_objs s (dset (objs s) id e) in
  let n := match dget (rcs s1) id with Some n => n | None => 0 end in
  Ok id (set_rcs s1 (dset (rcs s1) id (n + 1))).

(* the head of Server.create: registry lookup and construction of the referent *)
Definition mk_obj (t : typ) (a : list arg) : option obj + mexn :=
  match t, a with
  | TUnknown, _ => inr E_Key
  | TList, [] | TShelf, [] | TAutoList, [] => inl (Some (OList []))
  | TList, [AL l] | TShelf, [AL l] | TAutoList, [AL l] => inl (Some (OList l))
  | TList, [AZ _] | TShelf, [AZ _] | TAutoList, [AZ _] => inr E_Type
  | TList, _ :: _ :: _ | TShelf, _ :: _ :: _ | TAutoList, _ :: _ :: _ =>
    if forallb is_az a then inr E_Type else inl None
  | TDict, [] => inl (Some (ODict []))
  | TDict, [AD d] => inl (Some (ODict (fold_left (fun acc kv => dset acc (fst kv) (snd kv)) d [])))
  | TDict, [AZ _] => inr E_Type
  | TValue, [AZ _; AZ v] | TValue, [AZ _; AZ v; AZ _] => inl (Some (OVal v))
  | TValue, [] | TValue, [AZ _] => inr E_Type
  | TIter, [AL l] => inl (Some (OIter l))          (* callable None: obj = args[0] *)
  | TShelfRef, [AL l] => inl (Some (OList l))
  | TIter, [] | TShelfRef, [] | TIter, _ :: _ :: _ | TShelfRef, _ :: _ :: _ => inr E_Assertion
  | _, _ => inl None
  end.

Definition create (s : st) (t : typ) (a : list arg) (newid : Z) : out st val :=
  match mk_obj t a with
  | inr e => Exc e s
  | inl None => Ok VUnmodelled s
  | inl (Some o) => match create_tail s newid (SlotE o t) with
                    | Ok id s' => Ok (VCreated id) s'
                    | Exc e s' => Exc e s'
                    end
  end.

Definition number_of_objects (s : st) : Z := dlen (objs s) - 1.

(* ======================================================== requests, replies *)
Inductive reply :=
| R_return (v : val) | R_error (e : mexn) | R_proxy (id : Z) (t : typ)
| R_traceback (e : mexn) | R_unserializable.

(* one request on a serve_client connection; newid = ident the environment gives to an
   object created for a #PROXY reply; sf = how many of the next sends fail (0, 1, 2) *)
Inductive creq :=
| CReq (id : Z) (m : meth) (a : list arg) (newid : Z) (sf : nat)
| CMalformed (sf : nat).

(* the request read by handle_request *)
Inductive sreq :=
| Q_create (t : typ) (a : list arg) (newid : Z)
| Q_incref (id : Z) | Q_decref (id : Z)
| Q_numobj | Q_dummy
| Q_accept (calls : list creq)
| Q_notpublic | Q_malformed | Q_eof.

(* one connection: outcome of the two halves of the handshake (None = succeeds), the request,
   and how many of handle_request's own sends fail *)
Record conn := mk_conn { c_deliver : option mexn; c_answer : option mexn; c_req : sreq; c_hsf : nat }.

(* the exception a failing send raises in the harness *)
Definition send_exn : mexn := E_Type.

(* ---- Server.serve_client: one loop iteration, written directly *)
Definition set_obj (s : st) (id : Z) (o : obj) (t : typ) : st :=
  set_objs s (dset (objs s) id (SlotE o t)).

Definition fb_result (m : meth) (o : obj) : val :=
  match m with M_getvalue => VObj o | _ => VStr o end.

(* methodname not exposed (or not an attribute): Server.fallback_mapping *)
Definition fallback (o : obj) (m : meth) (a : list arg) : reply :=
  if is_fallback m then
    match a with [] => R_return (fb_result m o) | _ :: _ => R_traceback E_Type end
  else R_traceback E_Key.

(* apply_local with the out-of-model case made a value *)
Definition apply_ref (o : obj) (t : typ) (m : meth) (a : list arg) : val * obj + mexn :=
  match apply_local o t m a with
  | LRet v o' => inl (v, o')
  | LUnmodelled => inl (VUnmodelled, o)
  | LExn e => inr e
  end.

Definition proxy_create (s : st) (id newid : Z) (o' : obj) (t2 : typ) (v : val) : out st Z :=
  match v with
  | VSelf => create_tail s id (SlotE o' t2)
  | VList l => create_tail s newid (SlotE (OList l) t2)
  | _ => Exc E_Other s
  end.

(* the message computed for a well-formed request, and the new server state *)
Definition dispatch (s : st) (id : Z) (m : meth) (a : list arg) (newid : Z) : reply * st :=
  match dget (objs s) id with
  | None => (R_traceback E_Key, s)
  | Some Slot0 => (R_traceback E_Value, s)
  | Some (SlotE o t) =>
    if exposed_of t m && has_attr t m then
      match apply_ref o t m a with
      | inr e => (R_error e, s)
      | inl (v, o') =>
        let s1 := set_obj s id o' t in
        match m2t_of t m with
        | None => (R_return v, s1)
        | Some t2 => match proxy_create s1 id newid o' t2 v with
                     | Ok rid s2 => (R_proxy rid t2, s2)
                     | Exc e s2 => (R_traceback e, s2)
                     end
        end
      end
    else (fallback o m a, s)
  end.

(* sending msg with sf failing sends ahead: what goes out, and whether the thread exits(1) *)
Definition deliver_msg (msg : reply) (sf : nat) : list reply * bool :=
  match sf with
  | O => ([msg], false)
  | S O => ([R_unserializable], false)
  | _ => ([], true)
  end.

(* run the scripted requests of one serve_client connection; returns the state, the replies in
   order, the exit code (0 = EOF, 1 = could not send) and whether conn.close() was called *)
Fixpoint serve (s : st) (l : list creq) : st * list reply * Z * bool :=
  match l with
  | [] => (s, [], 0, false)
  | r :: rest =>
    let '(msg, s1, sf) :=
        match r with
        | CMalformed sf => (R_traceback E_Type, s, sf)
        | CReq id m a newid sf => let (msg, s1) := dispatch s id m a newid in (msg, s1, sf)
        end in
    let (outs, dead) := deliver_msg msg sf in
    if dead then (s1, outs, 1, true)
    else let '(s2, o2, code, cl) := serve s1 rest in (s2, outs ++ o2, code, cl)
  end.

(* ---- Server.handle_request, written directly *)
Record hobs := mk_hobs { h_read : bool;          (* was a request read from the connection *)
                         h_out : list reply;     (* everything sent on it, in order *)
                         h_exit : option Z;      (* sys.exit code of the serving thread *)
                         h_closed : bool }.

Definition call_public (s : st) (q : sreq) : out st val :=
  match q with
  | Q_create t a newid => create s t a newid
  | Q_incref id => match incref s id with Ok _ s' => Ok VNone s' | Exc e s' => Exc e s' end
  | Q_decref id => match decref s id with Ok _ s' => Ok VNone s' | Exc e s' => Exc e s' end
  | Q_numobj => Ok (VInt (number_of_objects s)) s
  | Q_dummy => Ok VNone s
  | _ => Ok VUnmodelled s
  end.

Definition hr_finish (read : bool) (msg : reply) (hsf : nat) : hobs :=
  match hsf with
  | O => mk_hobs read [msg] None true
  | S O => mk_hobs read [R_traceback send_exn] None true
  | _ => mk_hobs read [] None true
  end.

Definition handle_request (s : st) (c : conn) : st * hobs :=
  match c_deliver c with
  | Some e => (s, hr_finish false (R_traceback e) (c_hsf c))
  | None =>
    match c_answer c with
    | Some e => (s, hr_finish false (R_traceback e) (c_hsf c))
    | None =>
      match c_req c with
      | Q_eof => (s, hr_finish true (R_traceback E_EOF) (c_hsf c))
      | Q_malformed => (s, hr_finish true (R_traceback E_Type) (c_hsf c))
      | Q_notpublic => (s, hr_finish true (R_traceback E_Assertion) (c_hsf c))
      | Q_accept calls =>
        (* accept_connection: c.send(('#RETURN', None)); self.serve_client(c) *)
        match c_hsf c with
        | O => let '(s', outs, code, cl) := serve s calls in
               (s', mk_hobs true (R_return VNone :: outs) (Some code) cl)
        | S k => (s, hr_finish true (R_traceback send_exn) k)
        end
      | q => match call_public s q with
             | Ok v s' => (s', hr_finish true (R_return v) (c_hsf c))
             | Exc e s' => (s', hr_finish true (R_traceback e) (c_hsf c))
             end
      end
    end
  end.

(* ============================ the control skeletons and their interpretation *)
(* Server.serve_client's loop body and Server.handle_request as statement trees: this is what
   translate/kernels/manager.py regenerates from the source (Gen/G_manager.v); the proofs show
   that executing these trees computes [serve] / [handle_request] above. *)
Definition serve_msg_block : stmt :=
  STry
    [ SPrim P_init_names; SPrim P_recv; SPrim P_unpack; SPrim P_lookup;
      SIf (CNotIn V_methodname V_exposed) [SRaise E_Attribute] [];
      SPrim P_getattr;
      STry [SPrim P_call]
           [(H_Exception, [SPrim P_msg_error])]
           [ SPrim P_typeid;
             SIf (CTruth V_typeid)
                 [SPrim P_create_proxy; SPrim P_token; SPrim P_msg_proxy]
                 [SPrim P_msg_return] ] ]
    [ (H_AttributeError,
       [ SIf (CIsNone V_methodname)
             [SPrim P_msg_traceback]
             [ STry [SPrim P_fallback_lookup; SPrim P_fallback_call; SPrim P_msg_return_result]
                    [(H_Exception, [SPrim P_msg_traceback])]
                    [] ] ]);
      (H_EOFError, [SPrim P_log; SPrim P_exit0]);
      (H_Exception, [SPrim P_msg_traceback]) ]
    [].

Definition serve_send_block : stmt :=
  STry [ STry [SPrim P_send] [(H_Exception, [SPrim P_send_unser])] [] ]
       [ (H_Exception, [SPrim P_log; SPrim P_log; SPrim P_log; SPrim P_conn_close; SPrim P_exit1]) ]
       [].

Definition serve_body : list stmt := [serve_msg_block; serve_send_block].

Definition hr_body : list stmt :=
  [ SPrim P_hr_init;
    STry [ SPrim P_deliver; SPrim P_answer; SPrim P_hr_recv; SPrim P_hr_unpack;
           SAssert (CIn V_funcname V_public); SPrim P_hr_getattr ]
         [(H_Exception, [SPrim P_msg_traceback])]
         [ STry [SPrim P_hr_call]
                [(H_Exception, [SPrim P_msg_traceback])]
                [SPrim P_msg_return_result] ];
    STry [SPrim P_hr_send]
         [(H_Exception,
           [ STry [SPrim P_hr_send_tb] [(H_Exception, [SPrim P_pass])] [];
             SPrim P_log; SPrim P_log; SPrim P_log ])]
         [];
    SPrim P_hr_close ].

(* who may enter the serve path (checked structurally by the generator) *)
Definition serve_client_callers : list string := ["accept_connection"%string].
Definition handle_request_callers : list string := ["accepter"%string].

(* local variables of the two functions + the connection + the server *)
Record env := mk_env {
  v_srv : st;
  v_in : list creq;
  v_out : list reply;
  v_closed : bool;
  v_req : option creq;
  v_sf : nat;
  v_ident : Z;
  v_meth : option meth;
  v_args : list arg;
  v_newid : Z;
  v_slot : option (obj * typ);
  v_res : val;
  v_typeid : option typ;
  v_rident : Z;
  v_msg : option reply;
  v_exc : option mexn;
  v_fb : option meth;
  v_result : val;
  v_conn : conn;
  v_read : bool;
  v_func : option sreq }.
Definition set_srv (e : env) (x : st) : env :=
  mk_env x (v_in e) (v_out e) (v_closed e) (v_req e) (v_sf e) (v_ident e) (v_meth e) (v_args e) (v_newid e) (v_slot e) (v_res e) (v_typeid e) (v_rident e) (v_msg e) (v_exc e) (v_fb e) (v_result e) (v_conn e) (v_read e) (v_func e).
Definition set_in (e : env) (x : list creq) : env :=
  mk_env (v_srv e) x (v_out e) (v_closed e) (v_req e) (v_sf e) (v_ident e) (v_meth e) (v_args e) (v_newid e) (v_slot e) (v_res e) (v_typeid e) (v_rident e) (v_msg e) (v_exc e) (v_fb e) (v_result e) (v_conn e) (v_read e) (v_func e).
Definition set_out (e : env) (x : list reply) : env :=
  mk_env (v_srv e) (v_in e) x (v_closed e) (v_req e) (v_sf e) (v_ident e) (v_meth e) (v_args e) (v_newid e) (v_slot e) (v_res e) (v_typeid e) (v_rident e) (v_msg e) (v_exc e) (v_fb e) (v_result e) (v_conn e) (v_read e) (v_func e).
Definition set_closed (e : env) (x : bool) : env :=
  mk_env (v_srv e) (v_in e) (v_out e) x (v_req e) (v_sf e) (v_ident e) (v_meth e) (v_args e) (v_newid e) (v_slot e) (v_res e) (v_typeid e) (v_rident e) (v_msg e) (v_exc e) (v_fb e) (v_result e) (v_conn e) (v_read e) (v_func e).
Definition set_req (e : env) (x : option creq) : env :=
  mk_env (v_srv e) (v_in e) (v_out e) (v_closed e) x (v_sf e) (v_ident e) (v_meth e) (v_args e) (v_newid e) (v_slot e) (v_res e) (v_typeid e) (v_rident e) (v_msg e) (v_exc e) (v_fb e) (v_result e) (v_conn e) (v_read e) (v_func e).
Definition set_sf (e : env) (x : nat) : env :=
  mk_env (v_srv e) (v_in e) (v_out e) (v_closed e) (v_req e) x (v_ident e) (v_meth e) (v_args e) (v_newid e) (v_slot e) (v_res e) (v_typeid e) (v_rident e) (v_msg e) (v_exc e) (v_fb e) (v_result e) (v_conn e) (v_read e) (v_func e).
Definition set_ident (e : env) (x : Z) : env :=
  mk_env (v_srv e) (v_in e) (v_out e) (v_closed e) (v_req e) (v_sf e) x (v_meth e) (v_args e) (v_newid e) (v_slot e) (v_res e) (v_typeid e) (v_rident e) (v_msg e) (v_exc e) (v_fb e) (v_result e) (v_conn e) (v_read e) (v_func e).
Definition set_meth (e : env) (x : option meth) : env :=
  mk_env (v_srv e) (v_in e) (v_out e) (v_closed e) (v_req e) (v_sf e) (v_ident e) x (v_args e) (v_newid e) (v_slot e) (v_res e) (v_typeid e) (v_rident e) (v_msg e) (v_exc e) (v_fb e) (v_result e) (v_conn e) (v_read e) (v_func e).
Definition set_args (e : env) (x : list arg) : env :=
  mk_env (v_srv e) (v_in e) (v_out e) (v_closed e) (v_req e) (v_sf e) (v_ident e) (v_meth e) x (v_newid e) (v_slot e) (v_res e) (v_typeid e) (v_rident e) (v_msg e) (v_exc e) (v_fb e) (v_result e) (v_conn e) (v_read e) (v_func e).
Definition set_newid (e : env) (x : Z) : env :=
  mk_env (v_srv e) (v_in e) (v_out e) (v_closed e) (v_req e) (v_sf e) (v_ident e) (v_meth e) (v_args e) x (v_slot e) (v_res e) (v_typeid e) (v_rident e) (v_msg e) (v_exc e) (v_fb e) (v_result e) (v_conn e) (v_read e) (v_func e).
Definition set_slot (e : env) (x : option (obj * typ)) : env :=
  mk_env (v_srv e) (v_in e) (v_out e) (v_closed e) (v_req e) (v_sf e) (v_ident e) (v_meth e) (v_args e) (v_newid e) x (v_res e) (v_typeid e) (v_rident e) (v_msg e) (v_exc e) (v_fb e) (v_result e) (v_conn e) (v_read e) (v_func e).
Definition set_res (e : env) (x : val) : env :=
  mk_env (v_srv e) (v_in e) (v_out e) (v_closed e) (v_req e) (v_sf e) (v_ident e) (v_meth e) (v_args e) (v_newid e) (v_slot e) x (v_typeid e) (v_rident e) (v_msg e) (v_exc e) (v_fb e) (v_result e) (v_conn e) (v_read e) (v_func e).
Definition set_typeid (e : env) (x : option typ) : env :=
  mk_env (v_srv e) (v_in e) (v_out e) (v_closed e) (v_req e) (v_sf e) (v_ident e) (v_meth e) (v_args e) (v_newid e) (v_slot e) (v_res e) x (v_rident e) (v_msg e) (v_exc e) (v_fb e) (v_result e) (v_conn e) (v_read e) (v_func e).
Definition set_rident (e : env) (x : Z) : env :=
  mk_env (v_srv e) (v_in e) (v_out e) (v_closed e) (v_req e) (v_sf e) (v_ident e) (v_meth e) (v_args e) (v_newid e) (v_slot e) (v_res e) (v_typeid e) x (v_msg e) (v_exc e) (v_fb e) (v_result e) (v_conn e) (v_read e) (v_func e).
Definition set_msg (e : env) (x : option reply) : env :=
  mk_env (v_srv e) (v_in e) (v_out e) (v_closed e) (v_req e) (v_sf e) (v_ident e) (v_meth e) (v_args e) (v_newid e) (v_slot e) (v_res e) (v_typeid e) (v_rident e) x (v_exc e) (v_fb e) (v_result e) (v_conn e) (v_read e) (v_func e).
Definition set_exc (e : env) (x : option mexn) : env :=
  mk_env (v_srv e) (v_in e) (v_out e) (v_closed e) (v_req e) (v_sf e) (v_ident e) (v_meth e) (v_args e) (v_newid e) (v_slot e) (v_res e) (v_typeid e) (v_rident e) (v_msg e) x (v_fb e) (v_result e) (v_conn e) (v_read e) (v_func e).
Definition set_fb (e : env) (x : option meth) : env :=
  mk_env (v_srv e) (v_in e) (v_out e) (v_closed e) (v_req e) (v_sf e) (v_ident e) (v_meth e) (v_args e) (v_newid e) (v_slot e) (v_res e) (v_typeid e) (v_rident e) (v_msg e) (v_exc e) x (v_result e) (v_conn e) (v_read e) (v_func e).
Definition set_result (e : env) (x : val) : env :=
  mk_env (v_srv e) (v_in e) (v_out e) (v_closed e) (v_req e) (v_sf e) (v_ident e) (v_meth e) (v_args e) (v_newid e) (v_slot e) (v_res e) (v_typeid e) (v_rident e) (v_msg e) (v_exc e) (v_fb e) x (v_conn e) (v_read e) (v_func e).
Definition set_conn (e : env) (x : conn) : env :=
  mk_env (v_srv e) (v_in e) (v_out e) (v_closed e) (v_req e) (v_sf e) (v_ident e) (v_meth e) (v_args e) (v_newid e) (v_slot e) (v_res e) (v_typeid e) (v_rident e) (v_msg e) (v_exc e) (v_fb e) (v_result e) x (v_read e) (v_func e).
Definition set_read (e : env) (x : bool) : env :=
  mk_env (v_srv e) (v_in e) (v_out e) (v_closed e) (v_req e) (v_sf e) (v_ident e) (v_meth e) (v_args e) (v_newid e) (v_slot e) (v_res e) (v_typeid e) (v_rident e) (v_msg e) (v_exc e) (v_fb e) (v_result e) (v_conn e) x (v_func e).
Definition set_func (e : env) (x : option sreq) : env :=
  mk_env (v_srv e) (v_in e) (v_out e) (v_closed e) (v_req e) (v_sf e) (v_ident e) (v_meth e) (v_args e) (v_newid e) (v_slot e) (v_res e) (v_typeid e) (v_rident e) (v_msg e) (v_exc e) (v_fb e) (v_result e) (v_conn e) (v_read e) x.


Definition init_env (s : st) (c : conn) : env :=
  mk_env s [] [] false None (c_hsf c) 0 None [] 0 None VNone None 0 None None None VNone c false None.

Definition push_out (e : env) (r : reply) : env := set_out e (r :: v_out e).

Definition do_send (e : env) (r : reply) : flow env :=
  match v_sf e with
  | O => Normal (push_out e r)
  | S k => Raised send_exn (set_sf e k)
  end.

Definition cur_exc (e : env) : mexn := match v_exc e with Some x => x | None => E_Other end.
Definition cur_msg (e : env) : reply := match v_msg e with Some m => m | None => R_traceback E_Other end.

Definition req_sf (r : creq) : nat := match r with CReq _ _ _ _ sf => sf | CMalformed sf => sf end.

Definition serve_prim (p : prim) (e : env) : flow env :=
  match p with
  | P_init_names => Normal (set_slot (set_meth e None) None)
  | P_recv => match v_in e with
              | [] => Raised E_EOF e
              | r :: rest => Normal (set_sf (set_req (set_in e rest) (Some r)) (req_sf r))
              end
  | P_unpack => match v_req e with
                | Some (CReq id m a newid _) =>
                  Normal (set_newid (set_args (set_meth (set_ident e id) (Some m)) a) newid)
                | Some (CMalformed _) => Raised E_Type e
                | None => Raised E_Other e
                end
  | P_lookup => match dget (objs (v_srv e)) (v_ident e) with
                | None => Raised E_Key e
                | Some Slot0 => Raised E_Value e
                | Some (SlotE o t) => Normal (set_slot e (Some (o, t)))
                end
  | P_getattr => match v_slot e, v_meth e with
                 | Some (o, t), Some m => if has_attr t m then Normal e else Raised E_Attribute e
                 | _, _ => Raised E_Other e
                 end
  | P_call => match v_slot e, v_meth e with
              | Some (o, t), Some m =>
                match apply_ref o t m (v_args e) with
                | inr x => Raised x e
                | inl (v, o') =>
                  Normal (set_res (set_slot (set_srv e (set_obj (v_srv e) (v_ident e) o' t))
                                            (Some (o', t))) v)
                end
              | _, _ => Raised E_Other e
              end
  | P_msg_error => Normal (set_msg e (Some (R_error (cur_exc e))))
  | P_typeid => Normal (set_typeid e (match v_slot e, v_meth e with
                                      | Some (_, t), Some m => m2t_of t m
                                      | _, _ => None
                                      end))
  | P_create_proxy =>
    match v_typeid e, v_slot e with
    | Some t2, Some (o', _) =>
      match proxy_create (v_srv e) (v_ident e) (v_newid e) o' t2 (v_res e) with
      | Ok rid s2 => Normal (set_rident (set_srv e s2) rid)
      | Exc x s2 => Raised x (set_srv e s2)
      end
    | _, _ => Raised E_Other e
    end
  | P_token => Normal e
  | P_msg_proxy => match v_typeid e with
                   | Some t2 => Normal (set_msg e (Some (R_proxy (v_rident e) t2)))
                   | None => Raised E_Other e
                   end
  | P_msg_return => Normal (set_msg e (Some (R_return (v_res e))))
  | P_msg_traceback => Normal (set_msg e (Some (R_traceback (cur_exc e))))
  | P_fallback_lookup => match v_meth e with
                         | Some m => if is_fallback m then Normal (set_fb e (Some m)) else Raised E_Key e
                         | None => Raised E_Key e
                         end
  | P_fallback_call => match v_fb e, v_slot e, v_args e with
                       | Some m, Some (o, _), [] => Normal (set_result e (fb_result m o))
                       | Some _, Some _, _ :: _ => Raised E_Type e
                       | _, _, _ => Raised E_Other e
                       end
  | P_msg_return_result => Normal (set_msg e (Some (R_return (v_result e))))
  | P_log | P_pass => Normal e
  | P_exit0 => Exited 0 e
  | P_exit1 => Exited 1 e
  | P_send => do_send e (cur_msg e)
  | P_send_unser => do_send e R_unserializable
  | P_conn_close => Normal (set_closed e true)
  | _ => Raised E_Other e
  end.

Definition is_public (q : sreq) : bool := match q with Q_notpublic => false | _ => true end.

Fixpoint cond_sem (c : cond) (e : env) : bool :=
  match c with
  | CIn V_methodname V_exposed => match v_slot e, v_meth e with
                                  | Some (_, t), Some m => exposed_of t m
                                  | _, _ => false
                                  end
  | CNotIn V_methodname V_exposed => match v_slot e, v_meth e with
                                     | Some (_, t), Some m => negb (exposed_of t m)
                                     | _, _ => true
                                     end
  | CIsNone V_methodname => match v_meth e with None => true | Some _ => false end
  | CIsNotNone V_methodname => match v_meth e with None => false | Some _ => true end
  | CTruth V_typeid => match v_typeid e with Some _ => true | None => false end
  | CIn V_funcname V_public => match v_func e with Some q => is_public q | None => false end
  | CNotIn V_funcname V_public => match v_func e with Some q => negb (is_public q) | None => true end
  | CNot c' => negb (cond_sem c' e)
  | _ => false
  end.

Definition enter_handler (x : mexn) (e : env) : env := set_exc e (Some x).

Definition exec_body (ps : prim -> env -> flow env) (l : list stmt) (e : env) : flow env :=
  exec_list ps cond_sem enter_handler l e.

(* while not self.stop_event.is_set(): <body>   (shutdown is not modelled: the event stays clear) *)
Fixpoint serve_loop (body : list stmt) (fuel : nat) (e : env) : flow env :=
  match fuel with
  | O => Raised E_Other e
  | S f => match exec_body serve_prim body e with
           | Normal e' => serve_loop body f e'
           | other => other
           end
  end.

Definition hr_prim (sbody : list stmt) (p : prim) (e : env) : flow env :=
  match p with
  | P_hr_init => Normal (set_func e None)
  | P_deliver => match c_deliver (v_conn e) with Some x => Raised x e | None => Normal e end
  | P_answer => match c_answer (v_conn e) with Some x => Raised x e | None => Normal e end
  | P_hr_recv => match c_req (v_conn e) with
                 | Q_eof => Raised E_EOF (set_read e true)
                 | _ => Normal (set_read e true)
                 end
  | P_hr_unpack => match c_req (v_conn e) with
                   | Q_malformed => Raised E_Type e
                   | q => Normal (set_func e (Some q))
                   end
  | P_hr_getattr => Normal e
  | P_hr_call =>
    match v_func e with
    | Some (Q_accept calls) =>
      (* accept_connection: c.send(('#RETURN', None)); self.serve_client(c) *)
      match do_send e (R_return VNone) with
      | Normal e' => serve_loop sbody (S (length calls)) (set_in e' calls)
      | other => other
      end
    | Some q => match call_public (v_srv e) q with
                | Ok v s' => Normal (set_result (set_srv e s') v)
                | Exc x s' => Raised x (set_srv e s')
                end
    | None => Raised E_Other e
    end
  | P_hr_send => do_send e (cur_msg e)
  | P_hr_send_tb => do_send e (R_traceback (cur_exc e))
  | P_hr_close => Normal (set_closed e true)
  | P_msg_traceback | P_msg_return_result | P_log | P_pass => serve_prim p e
  | _ => Raised E_Other e
  end.

Definition obs_of_flow (f : flow env) : st * hobs :=
  match f with
  | Normal e => (v_srv e, mk_hobs (v_read e) (rev (v_out e)) None (v_closed e))
  | Exited c e => (v_srv e, mk_hobs (v_read e) (rev (v_out e)) (Some c) (v_closed e))
  | Raised _ e => (v_srv e, mk_hobs (v_read e) (rev (v_out e)) (Some (-1)) (v_closed e))
  end.

(* handle_request by executing the trees *)
Definition run_trees (sbody hbody : list stmt) (s : st) (c : conn) : st * hobs :=
  obs_of_flow (exec_body (hr_prim sbody) hbody (init_env s c)).

(* ===================================================== client-side lifecycle *)
(* The whole system at request grain: the server plus the holders of references.
   proxies   : live proxy objects (owner process, ident) -- each did one incref;
   pending   : creations in progress -- Server.create's own incref, not yet released by the
               creator (BaseManager.<typeid>() / BaseProxy._callmethod on '#PROXY');
   orphans   : references nobody will release: creations whose '#PROXY' reply could not be sent,
               and the references of holders that vanished without a decref (H_vanish). *)
(* p_mgr: does the proxy object know its manager (true for the creating process; false for
   copies made by unpickling / after fork, where BaseProxy._manager is None) *)
Record proxy := mk_proxy { p_pid : Z; p_id : Z; p_mgr : bool }.
Record sys := mk_sys { y_srv : st; y_proxies : list proxy; y_pending : list Z; y_orphans : list Z }.
Definition init_sys : sys := mk_sys init_st [] [] [].

Inductive cev :=
| K_create (t : typ) (a : list arg) (newid : Z)   (* BaseManager._create: 'create' request *)
| K_proxy (pid id : Z) (mgr : bool)               (* BaseProxy._incref: new proxy from a token
                                                     (creator, unpickled copy, after fork) *)
| K_release (k : nat)                             (* creator's decref ending creation k *)
| K_drop (k : nat)                                (* proxy k finalised: BaseProxy._decref *)
| K_call (k : nat) (m : meth) (a : list arg) (newid : Z) (sf : nat).  (* proxy k: _callmethod *)

Inductive cobs :=
| CO_reply (r : reply)      (* what the client receives *)
| CO_ok | CO_fail (e : mexn) (* server function succeeded / answered #TRACEBACK *)
| CO_lost                   (* the serving thread could not send anything *)
| CO_noop.                  (* event refers to a holder that does not exist: ignored *)

Fixpoint remove_nth {A} (k : nat) (l : list A) : list A :=
  match k, l with
  | _, [] => []
  | O, _ :: r => r
  | S k', x :: r => x :: remove_nth k' r
  end.

Definition out_obs (o : out st unit) : cobs :=
  match o with Ok _ _ => CO_ok | Exc e _ => CO_fail e end.
Definition out_st {A} (o : out st A) : st := match o with Ok _ s => s | Exc _ s => s end.

Definition cstep (y : sys) (ev : cev) : sys * cobs :=
  match ev with
  | K_create t a newid =>
    match create (y_srv y) t a newid with
    | Ok (VCreated id) s' =>
      (mk_sys s' (y_proxies y) (y_pending y ++ [id]) (y_orphans y), CO_reply (R_return (VCreated id)))
    | Ok v s' => (mk_sys s' (y_proxies y) (y_pending y) (y_orphans y), CO_reply (R_return v))
    | Exc e s' => (mk_sys s' (y_proxies y) (y_pending y) (y_orphans y), CO_reply (R_traceback e))
    end
  | K_proxy pid id mgr =>
    match incref (y_srv y) id with
    | Ok _ s' => (mk_sys s' (y_proxies y ++ [mk_proxy pid id mgr]) (y_pending y) (y_orphans y), CO_ok)
    | Exc e s' => (mk_sys s' (y_proxies y) (y_pending y) (y_orphans y), CO_fail e)
    end
  | K_release k =>
    match nth_error (y_pending y) k with
    | None => (y, CO_noop)
    | Some id => let r := decref (y_srv y) id in
                 (mk_sys (out_st r) (y_proxies y) (remove_nth k (y_pending y)) (y_orphans y), out_obs r)
    end
  | K_drop k =>
    match nth_error (y_proxies y) k with
    | None => (y, CO_noop)
    | Some p => let r := decref (y_srv y) (p_id p) in
                (mk_sys (out_st r) (remove_nth k (y_proxies y)) (y_pending y) (y_orphans y), out_obs r)
    end
  | K_call k m a newid sf =>
    match nth_error (y_proxies y) k with
    | None => (y, CO_noop)
    | Some p =>
      let (msg, s') := dispatch (y_srv y) (p_id p) m a newid in
      let (outs, dead) := deliver_msg msg sf in
      let o := match outs with r :: _ => CO_reply r | [] => CO_lost end in
      match msg, sf with
      | R_proxy rid _, O => (mk_sys s' (y_proxies y) (y_pending y ++ [rid]) (y_orphans y), o)
      | R_proxy rid _, _ => (mk_sys s' (y_proxies y) (y_pending y) (y_orphans y ++ [rid]), o)
      | _, _ => (mk_sys s' (y_proxies y) (y_pending y) (y_orphans y), o)
      end
    end
  end.

Fixpoint crun (y : sys) (evs : list cev) : sys * list cobs :=
  match evs with
  | [] => (y, [])
  | e :: r => let (y1, o) := cstep y e in
              let (y2, os) := crun y1 r in (y2, o :: os)
  end.

(* number of references held on id *)
Definition count_id (id : Z) (l : list Z) : Z := count_z id l.
Definition holders (y : sys) (id : Z) : Z :=
  count_id id (map p_id (y_proxies y)) + count_id id (y_pending y) + count_id id (y_orphans y).
Definition refcount (s : st) (id : Z) : Z := match dget (rcs s) id with Some n => n | None => 0 end.

(* ============================================================ equality tests *)
Definition zz_eqb (a b : Z * Z) : bool := (fst a =? fst b) && (snd a =? snd b).
Definition obj_eqb (a b : obj) : bool :=
  match a, b with
  | OList x, OList y | OIter x, OIter y => list_eqb Z.eqb x y
  | ODict x, ODict y => list_eqb zz_eqb x y
  | OVal x, OVal y => x =? y
  | _, _ => false
  end.
Definition typ_eqb (a b : typ) : bool :=
  match a, b with
  | TList, TList | TDict, TDict | TValue, TValue | TIter, TIter | TShelf, TShelf
  | TShelfRef, TShelfRef | TAutoList, TAutoList | TUnknown, TUnknown => true
  | _, _ => false
  end.
Definition val_eqb (a b : val) : bool :=
  match a, b with
  | VNone, VNone | VSelf, VSelf | VUnmodelled, VUnmodelled => true
  | VInt x, VInt y | VCreated x, VCreated y => x =? y
  | VBool x, VBool y => Bool.eqb x y
  | VList x, VList y => list_eqb Z.eqb x y
  | VDict x, VDict y | VPairs x, VPairs y => list_eqb zz_eqb x y
  | VPair k v, VPair k' v' => (k =? k') && (v =? v')
  | VStr x, VStr y | VObj x, VObj y => obj_eqb x y
  | _, _ => false
  end.
Definition reply_eqb (a b : reply) : bool :=
  match a, b with
  | R_return x, R_return y => val_eqb x y
  | R_error x, R_error y | R_traceback x, R_traceback y => mexn_eqb x y
  | R_proxy i t, R_proxy j u => (i =? j) && typ_eqb t u
  | R_unserializable, R_unserializable => true
  | _, _ => false
  end.
Definition cobs_eqb (a b : cobs) : bool :=
  match a, b with
  | CO_reply x, CO_reply y => reply_eqb x y
  | CO_ok, CO_ok | CO_lost, CO_lost | CO_noop, CO_noop => true
  | CO_fail x, CO_fail y => mexn_eqb x y
  | _, _ => false
  end.

(* a snapshot of the real server's tables: (ident, refcount, referent) *)
Definition snapshot := list (Z * Z * obj).
Definition snap_eqb (s : st) (sn : snapshot) : bool :=
  (dlen (objs s) - 1 =? Z.of_nat (length sn)) && (dlen (rcs s) =? Z.of_nat (length sn)) &&
  forallb (fun '(id, rc, o) =>
             match dget (objs s) id, dget (rcs s) id with
             | Some (SlotE o' _), Some n => obj_eqb o o' && (n =? rc)
             | _, _ => false
             end) sn.

Definition has_unmodelled (l : list reply) : bool :=
  existsb (fun r => match r with R_return VUnmodelled => true | _ => false end) l.

(* ================================================= correspondence, server level *)
(* PROPERTY MONITOR on the requests of one serve_client connection: a call through a method
   the proxy class offers, on a live referent, must be answered like the local object.
   0 = satisfied; 3 = violated by __next__ on an Iterator referent; 4 = violated otherwise *)
Definition monitor_call (s : st) (id : Z) (m : meth) (a : list arg) (msg : reply) : Z :=
  match dget (objs s) id with
  | Some (SlotE o t) =>
    if offered t m then
      let ok := match apply_local o t m a, m2t_of t m with
                | LRet v _, None => reply_eqb msg (R_return v)
                | LRet _ _, Some t2 => match msg with R_proxy _ t3 => typ_eqb t2 t3 | _ => false end
                | LExn e, _ => reply_eqb msg (R_error e)
                | LUnmodelled, _ => true
                end in
      if ok then 0 else match t, m with TIter, M_next => 3 | _, _ => 4 end
    else 0
  | _ => 0
  end.

Fixpoint monitor_serve (s : st) (l : list creq) : Z :=
  match l with
  | [] => 0
  | CMalformed sf :: rest => match sf with S (S _) => 0 | _ => monitor_serve s rest end
  | CReq id m a newid sf :: rest =>
    let (msg, s1) := dispatch s id m a newid in
    let c := monitor_call s id m a msg in
    if negb (c =? 0) then c
    else match sf with S (S _) => 0 | _ => monitor_serve s1 rest end
  end.

Definition monitor_conn (s : st) (c : conn) : Z :=
  match c_deliver c, c_answer c, c_req c with
  | None, None, Q_accept calls => monitor_serve s calls
  | _, _, _ => 0
  end.

Definition hobs_i := (bool * list reply * option Z * bool)%type.
Definition case := list (conn * (hobs_i * snapshot)).

(* 0 = model and implementation agree and the monitor is satisfied; 2 = a reply, the
   "request was read" flag, an exit code or the table (referents, refcounts) differs;
   3 / 4 = they agree but the monitor reports a C20 violation (3: the Iterator one);
   1 = only close()/unmodelled input *)
Fixpoint check_from (s : st) (mon : Z) (c : case) : Z :=
  match c with
  | [] => mon
  | (cn, ((rd, outs, ex, cl), sn)) :: rest =>
    let (s', h) := handle_request s cn in
    if has_unmodelled (h_out h) then 1
    else if negb (Bool.eqb rd (h_read h) && list_eqb reply_eqb outs (h_out h)
                  && opt_eqb Z.eqb ex (h_exit h) && snap_eqb s' sn) then 2
    else if negb (Bool.eqb cl (h_closed h)) then 1
    else check_from s' (if mon =? 0 then monitor_conn s cn else Z.max mon (monitor_conn s cn)) rest
  end.
Definition check_case (c : case) : Z := check_from init_st 0 c.

(* ================================================= correspondence, client level *)
(* one user-level operation on real proxies, as sequences of request-grain events *)
Inductive hop :=
| H_create (pid : Z) (t : typ) (a : list arg) (newid : Z)  (* manager.<typeid>(args) *)
| H_copy (k : nat) (pid : Z)                               (* pickle proxy k, unpickle in pid *)
| H_inherit (k : nat) (pid : Z)                            (* proxy k travels inside a Process object to a
                                                              spawned / forkserver child pid: RebuildProxy
                                                              with incref=False (no request), then the hook
                                                              registered by BaseProxy.__init__ runs there:
                                                              _after_fork -> _incref *)
| H_stale (pid id : Z)                                     (* unpickle a token whose referent may be gone *)
| H_drop (k : nat)
| H_vanish (k : nat)                                       (* the holder of proxy k disappears WITHOUT a decref:
                                                              its process is killed (the serving thread reads
                                                              EOF and exits -- Server.serve_client, `except
                                                              EOFError: sys.exit(0)` -- nothing is released), or
                                                              BaseProxy._decref skips / swallows the request
                                                              (`state.value != STARTED`; `except Exception` around
                                                              the connection).  The server is not told. *)
| H_call (k : nat) (m : meth) (a : list arg) (newid : Z).

Definition last_pending (y : sys) : nat := pred (length (y_pending y)).

(* returns the client-visible result of the operation: for create / copy: CO_ok or the
   failure; for a call: the reply.  A '#PROXY' reply is followed by the construction of the
   new proxy and the release of the creation -- but only where BaseProxy._manager is set:
   `self._manager._registry[...]` raises AttributeError in a copy, the client sees that
   exception and the creation is never released *)
Definition hstep (y : sys) (h : hop) : sys * cobs :=
  match h with
  | H_create pid t a newid =>
    let (y1, o1) := cstep y (K_create t a newid) in
    match o1 with
    | CO_reply (R_return (VCreated id)) =>
      let (y2, o2) := cstep y1 (K_proxy pid id true) in
      let (y3, _) := cstep y2 (K_release (last_pending y2)) in (y3, o2)
    | _ => (y1, o1)
    end
  | H_copy k pid =>
    match nth_error (y_proxies y) k with
    | Some p => cstep y (K_proxy pid (p_id p) false)
    | None => (y, CO_noop)
    end
  | H_inherit k pid =>
    match nth_error (y_proxies y) k with
    | Some p => cstep y (K_proxy pid (p_id p) false)
    | None => (y, CO_noop)
    end
  | H_stale pid id => cstep y (K_proxy pid id false)
  | H_drop k => cstep y (K_drop k)
  | H_vanish k =>
    (* no request reaches the server: the reference stays counted and nobody will release it *)
    match nth_error (y_proxies y) k with
    | Some p => (mk_sys (y_srv y) (remove_nth k (y_proxies y)) (y_pending y) (y_orphans y ++ [p_id p]), CO_ok)
    | None => (y, CO_noop)
    end
  | H_call k m a newid =>
    let (y1, o1) := cstep y (K_call k m a newid O) in
    match o1, nth_error (y_proxies y) k with
    | CO_reply (R_proxy rid t2), Some p =>
      if p_mgr p then
        let (y2, o2) := cstep y1 (K_proxy (p_pid p) rid true) in
        let (y3, _) := cstep y2 (K_release (last_pending y2)) in
        (y3, match o2 with CO_ok => o1 | _ => o2 end)
      else (y1, CO_fail E_Attribute)
    | _, _ => (y1, o1)
    end
  end.

Fixpoint hrun (y : sys) (l : list hop) : sys * list cobs :=
  match l with
  | [] => (y, [])
  | h :: r => let (y1, o) := hstep y h in
              let (y2, os) := hrun y1 r in (y2, o :: os)
  end.

(* monitor: a proxy-returning method called through a proxy that lost its manager *)
Definition leaks (y : sys) (h : hop) : bool :=
  match h with
  | H_call k m a newid =>
    match nth_error (y_proxies y) k, fst (cstep y (K_call k m a newid O)), snd (cstep y (K_call k m a newid O)) with
    | Some p, _, CO_reply (R_proxy _ _) => negb (p_mgr p)
    | _, _, _ => false
    end
  | _ => false
  end.

(* one checked step = a batch of user-level operations (usually one; a fork or a process exit
   is a batch), the client-visible result of the last one, and the tables afterwards *)
Definition ccase := list (list hop * (cobs * snapshot)).
Fixpoint leaks_any (y : sys) (l : list hop) : bool :=
  match l with
  | [] => false
  | h :: r => leaks y h || leaks_any (fst (hstep y h)) r
  end.
(* 0 = agree; 2 = client-visible result or table differs; 5 = agree, but a created referent
   was leaked as described above (C20 violation); 1 = unmodelled input *)
Fixpoint ccheck_from (y : sys) (mon : Z) (c : ccase) : Z :=
  match c with
  | [] => mon
  | (hs, (o, sn)) :: rest =>
    let (y', os) := hrun y hs in
    let o' := last os CO_ok in
    if existsb (fun x => match x with CO_reply (R_return VUnmodelled) => true | _ => false end) os then 1
    else if cobs_eqb o o' && snap_eqb (y_srv y') sn
         then ccheck_from y' (if leaks_any y hs then 5 else mon) rest else 2
  end.
Definition check_client_case (c : ccase) : Z := ccheck_from init_sys 0 c.
