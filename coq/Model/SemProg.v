(* SemProg: a small instruction language over semaphores and its interleaving
   semantics.  Executable, no proofs in here.

   TRUSTED PRIMITIVE MODEL.  [sem_acq]/[sem_rel] below are the modelled behaviour
   of CPython's _multiprocessing.SemLock (Modules/_multiprocessing/semaphore.c),
   which billiard.synchronize wraps (billiard._ext falls back to it: the _billiard
   C extension is not built).  It is NOT billiard code.  One logical thread of the
   model = one OS process with one thread: the SemLock fields `count`/`last_tid`
   are per process, so [held] is kept per thread and `_is_mine()` is `held > 0`.

     kind RECURSIVE_MUTEX: acquire by a thread that already holds it only
       increments its count; release by a non-holder raises AssertionError;
       the underlying semaphore is posted when the count drops to 0.
     kind SEMAPHORE: acquire needs value > 0 and decrements it; release raises
       ValueError when value >= maxvalue, else posts.
     acquire(False): never blocks.  acquire(True, None): enabled only when it
       can succeed.  acquire(True, t): may succeed when it can, and may at ANY
       moment give up and return False (the deadline is an oracle: the scheduler
       choice `timeout`); this over-approximates the real deadline.

   One step of the system = one thread executes the semaphore instruction it is
   standing at, followed by all local instructions up to its next semaphore
   instruction (or the end of its call, in which case its next call starts).
   That is exactly one yield point of harness/detsched.py. *)
From Coq Require Import ZArith List Bool.
Import ListNotations.
Open Scope Z_scope.

(* ---- result / exception codes (Z so that case files stay small) ---- *)
Definition V_NONE : Z := -1.          (* a call returned None *)
Definition E_ASSERT : Z := -2.        (* AssertionError *)
Definition E_VALUE : Z := -3.         (* ValueError *)
Definition E_FULL : Z := -4.          (* queue.Full *)
Definition E_EMPTY : Z := -5.         (* queue.Empty *)
Definition E_STUCK : Z := -9.         (* model artefact: pc out of range / fuel *)

(* ---- semaphores ---- *)
Record sem := mkSem { val : Z; maxv : Z; recur : bool }.
Definition dsem : sem := mkSem 0 0 false.
Definition set_val (s : sem) (v : Z) : sem := mkSem v (maxv s) (recur s).

(* [h] = this thread's hold count.  Some (s', h') when the acquire succeeds now *)
Definition sem_acq (s : sem) (h : Z) : option (sem * Z) :=
  if recur s && (0 <? h) then Some (s, h + 1)
  else if 0 <? val s then Some (set_val s (val s - 1), h + 1)
  else None.

(* (s', h', code): code 0 = released, otherwise the exception raised *)
Definition sem_rel (s : sem) (h : Z) : sem * Z * Z :=
  if recur s then
    if h <=? 0 then (s, h, E_ASSERT)
    else if 1 <? h then (s, h - 1, 0)
    else (set_val s (val s + 1), h - 1, 0)
  else if maxv s <=? val s then (s, h, E_VALUE)
  else (set_val s (val s + 1), h - 1, 0).

(* ---- total list updates (pad with defaults: no side conditions in proofs) ---- *)
Fixpoint updz (l : list Z) (i : nat) (v : Z) : list Z :=
  match i, l with
  | O, [] => [v]
  | O, _ :: r => v :: r
  | S i', [] => 0 :: updz [] i' v
  | S i', x :: r => x :: updz r i' v
  end.
Fixpoint upds (l : list sem) (i : nat) (v : sem) : list sem :=
  match i, l with
  | O, [] => [v]
  | O, _ :: r => v :: r
  | S i', [] => dsem :: upds [] i' v
  | S i', x :: r => x :: upds r i' v
  end.
Fixpoint upd {A} (l : list A) (i : nat) (v : A) : list A :=
  match l, i with
  | [], _ => []
  | _ :: r, O => v :: r
  | x :: r, S i' => x :: upd r i' v
  end.

(* ---- registers: 8 integer registers ---- *)
Record regs := mkR { r0 : Z; r1 : Z; r2 : Z; r3 : Z; r4 : Z; r5 : Z; r6 : Z; r7 : Z }.
Definition getr (n : nat) (r : regs) : Z :=
  match n with
  | 0%nat => r0 r | 1%nat => r1 r | 2%nat => r2 r | 3%nat => r3 r
  | 4%nat => r4 r | 5%nat => r5 r | 6%nat => r6 r | 7%nat => r7 r
  | _ => 0
  end.
Definition setr (n : nat) (v : Z) (r : regs) : regs :=
  match n with
  | 0%nat => mkR v (r1 r) (r2 r) (r3 r) (r4 r) (r5 r) (r6 r) (r7 r)
  | 1%nat => mkR (r0 r) v (r2 r) (r3 r) (r4 r) (r5 r) (r6 r) (r7 r)
  | 2%nat => mkR (r0 r) (r1 r) v (r3 r) (r4 r) (r5 r) (r6 r) (r7 r)
  | 3%nat => mkR (r0 r) (r1 r) (r2 r) v (r4 r) (r5 r) (r6 r) (r7 r)
  | 4%nat => mkR (r0 r) (r1 r) (r2 r) (r3 r) v (r5 r) (r6 r) (r7 r)
  | 5%nat => mkR (r0 r) (r1 r) (r2 r) (r3 r) (r4 r) v (r6 r) (r7 r)
  | 6%nat => mkR (r0 r) (r1 r) (r2 r) (r3 r) (r4 r) (r5 r) v (r7 r)
  | 7%nat => mkR (r0 r) (r1 r) (r2 r) (r3 r) (r4 r) (r5 r) (r6 r) v
  | _ => r
  end.
Definition init_regs (a0 a1 : Z) : regs := mkR a0 a1 0 0 0 0 0 0.

(* ---- instructions ---- *)
Inductive flag := FT | FF | FR (r : nat).        (* true / false / register r <> 0 *)
Definition flagv (f : flag) (r : regs) : bool :=
  match f with FT => true | FF => false | FR n => negb (getr n r =? 0) end.

Inductive rv := RNone | RConst (z : Z) | RReg (r : nat).
Definition rvv (v : rv) (r : regs) : Z :=
  match v with RNone => V_NONE | RConst z => z | RReg n => getr n r end.

Inductive instr :=
(* scheduling points *)
| Acq (s : nat) (blocking timed : flag) (dst : nat)   (* dst := 1 / 0 *)
| Rel (s : nat)
| IsZero (s : nat) (dst : nat)                        (* dst := (value = 0) *)
(* local instructions, fused into the preceding scheduling step *)
| Count (s : nat) (dst : nat)                         (* dst := _semlock._count() *)
| AssertMine (s : nat)                                (* assert _semlock._is_mine() *)
| AssertNZ (r : nat)                                  (* assert r *)
| AssertZ (r : nat)                                   (* assert not r *)
| Mov (dst : nat) (v : Z)
| Inc (dst : nat)
| Jmp (pc : nat)
| Jz (r : nat) (pc : nat)                             (* if r = 0 goto pc *)
| Jnz (r : nat) (pc : nat)                            (* if r <> 0 goto pc *)
| Jge (a b : nat) (pc : nat)                          (* if a >= b goto pc *)
| Raise (code : Z)
| Ret (v : rv).

Definition FUEL : nat := 40.

Inductive lres := LSem (pc : nat) (r : regs) | LFin (v : Z).

(* run local instructions from [pc] until a scheduling point or the end of the call *)
Fixpoint run_local (p : list instr) (h : list Z) (fuel : nat) (pc : nat) (r : regs) : lres :=
  match fuel with
  | O => LFin E_STUCK
  | S f =>
    match nth_error p pc with
    | None => LFin E_STUCK
    | Some i =>
      match i with
      | Acq _ _ _ _ | Rel _ | IsZero _ _ => LSem pc r
      | Count s d => run_local p h f (S pc) (setr d (nth s h 0) r)
      | AssertMine s => if 0 <? nth s h 0 then run_local p h f (S pc) r else LFin E_ASSERT
      | AssertNZ x => if getr x r =? 0 then LFin E_ASSERT else run_local p h f (S pc) r
      | AssertZ x => if getr x r =? 0 then run_local p h f (S pc) r else LFin E_ASSERT
      | Mov d v => run_local p h f (S pc) (setr d v r)
      | Inc d => run_local p h f (S pc) (setr d (getr d r + 1) r)
      | Jmp t => run_local p h f t r
      | Jz x t => if getr x r =? 0 then run_local p h f t r else run_local p h f (S pc) r
      | Jnz x t => if getr x r =? 0 then run_local p h f (S pc) r else run_local p h f t r
      | Jge a b t => if getr b r <=? getr a r then run_local p h f t r else run_local p h f (S pc) r
      | Raise c => LFin c
      | Ret v => LFin (rvv v r)
      end
    end
  end.

(* ---- threads ---- *)
Definition call := (nat * Z * Z)%type.               (* call id, arg0, arg1 *)

Record thread := mkT {
  cur : call;           (* the call in progress (when not fin) *)
  pc : nat;             (* always at a scheduling point *)
  rg : regs;
  held : list Z;        (* per-semaphore hold count of this thread *)
  script : list call;   (* calls still to make *)
  results : list (call * Z);   (* finished calls with their results, latest first *)
  fin : bool
}.
Definition cid (t : thread) : nat := fst (fst (cur t)).
Definition dcall : call := (0%nat, 0, 0).

Section WithCode.
Variable code : nat -> list instr.     (* program of each call id *)

(* begin the next call of the script; calls without a scheduling point finish at once *)
Fixpoint start (h : list Z) (res : list (call * Z)) (sc : list call) : thread :=
  match sc with
  | [] => mkT dcall 0 (init_regs 0 0) h [] res true
  | (c, a0, a1) :: rest =>
    match run_local (code c) h FUEL 0 (init_regs a0 a1) with
    | LSem p r => mkT (c, a0, a1) p r h rest res false
    | LFin v => start h ((c, a0, a1, v) :: res) rest
    end
  end.

Definition advance (t : thread) (p : nat) (r : regs) (h : list Z) : thread :=
  match run_local (code (cid t)) h FUEL p r with
  | LSem p' r' => mkT (cur t) p' r' h (script t) (results t) false
  | LFin v => start h ((cur t, v) :: results t) (script t)
  end.

(* the call in progress ends with an exception (no clean-up is modelled: the
   theorems show that no exception is reachable in the Condition/Event code) *)
Definition abort (t : thread) (h : list Z) (e : Z) : thread :=
  start h ((cur t, e) :: results t) (script t).

Record sys := mkS { sems : list sem; thr : list thread }.

(* event = (thread, semaphore, op, result): op 0 acquire (1/0), 1 release (0 or
   exception code), 2 is_zero (1/0) *)
Definition event := (nat * nat * Z * Z)%type.

Definition step (σ : sys) (i : nat) (go : bool) : option (sys * event) :=
  match nth_error (thr σ) i with
  | None => None
  | Some t =>
    if fin t then None else
    match nth_error (code (cid t)) (pc t) with
    | Some (Acq s b tm d) =>
      let blocking := flagv b (rg t) in
      let timed := blocking && flagv tm (rg t) in
      let sm := nth s (sems σ) dsem in
      let h := nth s (held t) 0 in
      if go then
        match sem_acq sm h with
        | Some (sm', h') =>
          Some (mkS (upds (sems σ) s sm')
                    (upd (thr σ) i (advance t (S (pc t)) (setr d 1 (rg t)) (updz (held t) s h'))),
                (i, s, 0, 1))
        | None =>
          if blocking then None
          else Some (mkS (sems σ) (upd (thr σ) i (advance t (S (pc t)) (setr d 0 (rg t)) (held t))),
                     (i, s, 0, 0))
        end
      else if timed then
        Some (mkS (sems σ) (upd (thr σ) i (advance t (S (pc t)) (setr d 0 (rg t)) (held t))),
              (i, s, 0, 0))
      else None
    | Some (Rel s) =>
      if go then
        let sm := nth s (sems σ) dsem in
        let h := nth s (held t) 0 in
        match sem_rel sm h with
        | (sm', h', e) =>
          if e =? 0 then
            Some (mkS (upds (sems σ) s sm')
                      (upd (thr σ) i (advance t (S (pc t)) (rg t) (updz (held t) s h'))),
                  (i, s, 1, 0))
          else Some (mkS (sems σ) (upd (thr σ) i (abort t (held t) e)), (i, s, 1, e))
        end
      else None
    | Some (IsZero s d) =>
      if go then
        let z := if val (nth s (sems σ) dsem) =? 0 then 1 else 0 in
        Some (mkS (sems σ) (upd (thr σ) i (advance t (S (pc t)) (setr d z (rg t)) (held t))),
              (i, s, 2, z))
      else None
    | _ => None
    end
  end.

(* run a schedule; stops at the first choice that is not enabled (flag false) *)
Fixpoint run (σ : sys) (sched : list (nat * bool)) : sys * list event * bool :=
  match sched with
  | [] => (σ, [], true)
  | (i, go) :: rest =>
    match step σ i go with
    | None => (σ, [], false)
    | Some (σ1, e) => let '(σ2, es, ok) := run σ1 rest in (σ2, e :: es, ok)
    end
  end.

Definition init_sys (ss : list sem) (scripts : list (list call)) : sys :=
  mkS ss (map (start [] []) scripts).

(* can thread i take a step with some choice? *)
Definition enabled (σ : sys) (i : nat) : bool :=
  match step σ i true with Some _ => true | None =>
  match step σ i false with Some _ => true | None => false end end.

End WithCode.

Definition event_eqb (a b : event) : bool :=
  let '(t1, s1, o1, r1) := a in let '(t2, s2, o2, r2) := b in
  Nat.eqb t1 t2 && Nat.eqb s1 s2 && (o1 =? o2) && (r1 =? r2).
