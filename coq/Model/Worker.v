(* Model of billiard.pool.Worker.workloop, the protected receive built by
   Worker._make_protected_receive, Worker._ensure_messages_consumed, and (minimal
   parent side) ApplyResult._ack/_set as driven by ResultHandler.on_ack/on_ready.
   Executable, no proofs in here.

   Everything the worker does not control is an input of the model:
     - what each receive call on the job pipe / SYN pipe does ([rcv] scripts),
     - what the task function does ([beh]),
     - the clock reading at acceptance ([q_t]) and the mem_rss() reading ([q_mem]),
     - the readings of the parent's consumed-result counter ([counter]).  *)
From Coq Require Import ZArith List Bool.
Import ListNotations.
Open Scope Z_scope.
From BV Require Import Lib.Cases.

(* message types and exit codes (tied to pool.py by Proofs/WorkerProofs.gen_consts) *)
Definition ACK := 0.
Definition READY := 1.
Definition TASK := 2.
Definition NACK := 3.
Definition EX_OK := 0.
Definition EX_FAILURE := 1.
Definition EX_RECYCLE := 155.
Definition RETRY_LIMIT : nat := 300.

(* ------------------------------------------------------------------ *)
(* one call of the protected receive: what the pipe / sentinel does     *)
Inductive rcv (A : Type) :=
| RShutdown          (* the shutdown event is set *)
| RTimeout           (* poll(1.0) returns False *)
| REintr             (* IOError with errno EINTR *)
| REof               (* EOFError *)
| RIOErr             (* IOError, other errno *)
| RNoneMsg           (* the message None (the sentinel of the task queue) *)
| RFalsy             (* a falsy message other than None *)
| RMsg (a : A).
Arguments RShutdown {A}. Arguments RTimeout {A}. Arguments REintr {A}. Arguments REof {A}.
Arguments RIOErr {A}. Arguments RNoneMsg {A}. Arguments RFalsy {A}. Arguments RMsg {A} a.

Inductive recv_out (A : Type) :=
| RoNone | RoFalsy | RoMsg (a : A) | RoExit (code : Z).   (* RoExit = raise SystemExit(code) *)
Arguments RoNone {A}. Arguments RoFalsy {A}. Arguments RoMsg {A} a. Arguments RoExit {A} code.

Definition protected_receive {A} (e : rcv A) : recv_out A :=
  match e with
  | RShutdown => RoExit EX_OK
  | RTimeout | REintr => RoNone
  | REof | RIOErr | RNoneMsg => RoExit EX_FAILURE
  | RFalsy => RoFalsy
  | RMsg a => RoMsg a
  end.

(* ------------------------------------------------------------------ *)
(* what the task function does *)
Inductive beh :=
| Returns (v : Z)          (* returns a serialisable value *)
| ReturnsUnser             (* returns a value the result pipe cannot serialise *)
| Raises (e : Z)           (* raises an Exception (kind e) *)
| RaisesUnser (e : Z)      (* raises an Exception that cannot be serialised *)
| RaisesBase (e : Z)       (* raises a BaseException: 1 SystemExit 2 KeyboardInterrupt 3 GeneratorExit *)
| Terminated (code : Z).   (* the termination signal handler runs inside the task: it sets
                              common._should_have_exited and calls sys.exit(code) *)

Inductive res := ROk (v : Z) | RFail (e : Z) | RBase (e : Z) | REnc.

(* the result finally delivered for a behaviour *)
Definition final_res (b : beh) : res :=
  match b with
  | Returns v => ROk v
  | Raises e => RFail e
  | RaisesBase e => RBase e
  | Terminated _ => RBase 1        (* never delivered: see task_escapes *)
  | ReturnsUnser | RaisesUnser _ => REnc
  end.
Definition first_put_fails (b : beh) : bool :=
  match b with ReturnsUnser | RaisesUnser _ => true | _ => false end.

(* a message on the job pipe: (type, (job, i, fun, args, kwargs)) plus the oracles
   attached to it *)
Record req := mk_req {
  q_ty : Z; q_job : Z; q_i : option Z;
  q_t : Z;                    (* now() at acceptance *)
  q_beh : beh;
  q_syn : list (rcv Z);       (* successive receive calls on the SYN pipe; message = its type *)
  q_mem : Z;                  (* mem_rss() after the task *)
  q_term : bool }.            (* common._should_have_exited[0] when the task raises (a
                                 termination request was already handled in this process) *)

Inductive payload :=
| PAckP (t pid : Z) (fd : option Z)
| PReadyP (r : res) (fd : Z).
Record msg := mk_msg { m_ty : Z; m_job : Z; m_i : option Z; m_pl : payload }.

Inductive ev :=
| EInq                              (* one call of wait_for_job *)
| ESyn                              (* one call of the SYN receive *)
| ENow                              (* now() *)
| EPut (m : msg)                    (* message written to the result pipe *)
| EPutFail (j : Z) (i : option Z)   (* put of a READY raised (unserialisable) *)
| ERun (j : Z) (i : option Z)       (* the task function is called *)
| EMem.                             (* mem_rss() *)

Inductive exit :=
| XReturn (code : Z)     (* workloop returned code *)
| XSysExit (code : Z)    (* SystemExit(code) left workloop *)
| XAssert                (* AssertionError left workloop *)
| XTaskExc (base : bool) (e : Z)   (* the task's exception re-raised (termination requested) *)
| XTerminated (code : Z) (* SystemExit(code) of the termination handler left workloop *)
| XStarved.              (* script exhausted: the real loop keeps polling *)

Record cfg := mk_cfg {
  maxtasks : option Z;
  synfd : option Z;            (* None: no SYN queue (handshake disabled) *)
  inqfd : Z;
  pid_arg : option Z; ospid : Z;
  maxmem : option Z;           (* self.max_memory_per_child *)
  counter : option (list Z * Z) }.   (* on_ready_counter readings, then a constant *)

Definition has_syn (c : cfg) : bool := match synfd c with Some _ => true | None => false end.

(* Python `x or d` for int-or-None *)
Definition or_default (x : option Z) (d : Z) : Z :=
  match x with Some z => if z =? 0 then d else z | None => d end.
Definition eff_pid (c : cfg) : Z := or_default (pid_arg c) (ospid c).
Definition eff_maxmem (c : cfg) : Z := or_default (maxmem c) 0.

(* ---- decision kernels (each proved equal to its translation in Gen/K_worker.v) *)
Definition guard (mt : option Z) (completed : Z) : bool :=
  match mt with None => true | Some m => negb (m =? 0) && (completed <? m) end.
Definition exit_status (mt : option Z) (completed : Z) : Z :=
  match mt with
  | Some m => if m =? 0 then EX_OK else if completed =? m then EX_RECYCLE else EX_FAILURE
  | None => EX_OK
  end.
Definition mem_exceeded (maxm used : Z) : bool :=
  (maxm >? 0) && (used >? 0) && (used >? maxm).
Definition syn_decide (ty : Z) : option bool :=
  if ty =? NACK then Some false else if ty =? ACK then Some true else None.
Definition task_ok (ty : Z) : bool := ty =? TASK.
Definition ensure_test (value completed : Z) : bool := value >=? completed.

(* ---- the SYN wait: loops until a truthy message arrives *)
Inductive syn_out := SynTrue | SynFalse | SynExit (code : Z) | SynAssert | SynStarved.

Fixpoint wait_for_syn (l : list (rcv Z)) : syn_out * nat :=   (* outcome, receive calls *)
  match l with
  | [] => (SynStarved, 1%nat)
  | e :: r =>
    match protected_receive e with
    | RoExit c => (SynExit c, 1%nat)
    | RoNone | RoFalsy => let (o, n) := wait_for_syn r in (o, S n)
    | RoMsg ty => (match syn_decide ty with
                   | Some true => SynTrue | Some false => SynFalse | None => SynAssert
                   end, 1%nat)
    end
  end.

Definition syn_result (c : cfg) (q : req) : syn_out * nat :=
  if has_syn c then wait_for_syn (q_syn q) else (SynTrue, O).

Definition ack_msg (c : cfg) (q : req) : msg :=
  mk_msg ACK (q_job q) (q_i q) (PAckP (q_t q) (eff_pid c) (synfd c)).
Definition ready_msg (c : cfg) (q : req) (r : res) : msg :=
  mk_msg READY (q_job q) (q_i q) (PReadyP r (inqfd c)).

Definition ready_events (c : cfg) (q : req) : list ev :=
  if first_put_fails (q_beh q)
  then [EPutFail (q_job q) (q_i q); EPut (ready_msg c q REnc)]
  else [EPut (ready_msg c q (final_res (q_beh q)))].

Definition pre (l : list ev) (t : list ev * exit * Z) : list ev * exit * Z :=
  let '(l', x, n) := t in (l ++ l', x, n).

(* `except BaseException: if _should_have_exited[0]: raise` -- does the task's exception
   leave workloop? *)
Definition task_escapes (q : req) : option exit :=
  match q_beh q with
  | Terminated code => Some (XTerminated code)
  | Raises e | RaisesUnser e => if q_term q then Some (XTaskExc false e) else None
  | RaisesBase e => if q_term q then Some (XTaskExc true e) else None
  | Returns _ | ReturnsUnser => None
  end.

(* events of accepting q and waiting for the SYN *)
Definition accept_events (c : cfg) (q : req) : list ev :=
  [EInq; ENow; EPut (ack_msg c q)] ++ repeat ESyn (snd (syn_result c q)).
(* events of running q after confirmation *)
Definition exec_events (c : cfg) (q : req) : list ev :=
  ERun (q_job q) (q_i q) :: ready_events c q ++ (if eff_maxmem c >? 0 then [EMem] else []).

(* the loop; [completed] is the local counter; returns (events, how it ended, completed) *)
Fixpoint loop (c : cfg) (completed : Z) (ins : list (rcv req)) {struct ins}
  : list ev * exit * Z :=
  if guard (maxtasks c) completed then
    match ins with
    | [] => ([EInq], XStarved, completed)
    | e :: rest =>
      match protected_receive e with
      | RoExit code => ([EInq], XSysExit code, completed)
      | RoNone | RoFalsy => pre [EInq] (loop c completed rest)
      | RoMsg q =>
        if negb (task_ok (q_ty q)) then ([EInq], XAssert, completed) else
        match fst (syn_result c q) with
        | SynFalse => pre (accept_events c q) (loop c completed rest)
        | SynExit code => (accept_events c q, XSysExit code, completed)
        | SynAssert => (accept_events c q, XAssert, completed)
        | SynStarved => (accept_events c q, XStarved, completed)
        | SynTrue =>
          match task_escapes q with
          | Some x => (accept_events c q ++ [ERun (q_job q) (q_i q)], x, completed)
          | None =>
            if mem_exceeded (eff_maxmem c) (q_mem q)
            then (accept_events c q ++ exec_events c q, XReturn EX_RECYCLE, completed + 1)
            else pre (accept_events c q ++ exec_events c q) (loop c (completed + 1) rest)
          end
        end
      end
    end
  else ([], XReturn (exit_status (maxtasks c) completed), completed).

(* ---- _ensure_messages_consumed: (result, counter reads, sleeps) *)
Fixpoint ensure_loop (fuel : nat) (rd : list Z) (dflt completed : Z) : bool * nat * nat :=
  match fuel with
  | O => (false, O, O)
  | S f =>
    if ensure_test (hd dflt rd) completed then (true, 1%nat, O)
    else let '(b, r, s) := ensure_loop f (tl rd) dflt completed in (b, S r, S s)
  end.
Definition ensure (cnt : option (list Z * Z)) (completed : Z) : bool * nat * nat :=
  match cnt with
  | None => (false, O, O)
  | Some (rd, dflt) => ensure_loop RETRY_LIMIT rd dflt completed
  end.

(* the whole of workloop, with its finally clause *)
Definition workloop (c : cfg) (ins : list (rcv req))
  : list ev * exit * Z * (bool * nat * nat) :=
  let '(l, x, n) := loop c 0 ins in (l, x, n, ensure (counter c) n).

(* ---- Worker.__call__ / _do_exit: the status the process exits with, also sent in the
   DEATH message and given to on_exit.  `sys.exit` is wrapped to record its argument; a
   SystemExit raised directly (by the protected receive) is NOT recorded. *)
Definition do_exit_code (recorded : option Z) (exc : bool) : Z :=
  match recorded with Some c => c | None => if exc then EX_FAILURE else EX_OK end.
Definition recorded_status (x : exit) : option Z :=
  match x with XReturn c | XTerminated c => Some c | _ => None end.
Definition left_by_exception (x : exit) : bool :=
  match x with XAssert | XTaskExc false _ => true | _ => false end.
Definition call_status (x : exit) : Z := do_exit_code (recorded_status x) (left_by_exception x).

(* ---- views of an event list *)
Definition is_proto (e : ev) : bool :=
  match e with EPut _ | ERun _ _ => true | _ => false end.
Definition proto (l : list ev) : list ev := filter is_proto l.
Fixpoint puts (l : list ev) : list msg :=
  match l with [] => [] | EPut m :: r => m :: puts r | _ :: r => puts r end.
Fixpoint runs (l : list ev) : nat :=
  match l with [] => O | ERun _ _ :: r => S (runs r) | _ :: r => runs r end.

(* ---- protocol monitor over event lists (judges implementation traces too) *)
Inductive mstate :=
| MIdle                                  (* nothing outstanding *)
| MPolled                                (* wait_for_job called *)
| MNowed                                 (* clock read for the ACK *)
| MAcked (j : Z) (i : option Z) (syn : bool)   (* ACK written; syn = a SYN receive was made *)
| MRan (j : Z) (i : option Z)            (* task function called *)
| MFailed (j : Z) (i : option Z)         (* first READY put failed *)
| MDone.                                 (* READY written *)

Definition oz_eqb := opt_eqb Z.eqb.

Definition mstep (s : mstate) (e : ev) : option mstate :=
  match s, e with
  | MIdle, EInq | MDone, EInq | MPolled, EInq => Some MPolled
  | MDone, EMem => Some MIdle
  | MPolled, ENow => Some MNowed
  | MNowed, EPut m =>
      match m_pl m with
      | PAckP _ _ _ => if m_ty m =? ACK then Some (MAcked (m_job m) (m_i m) false) else None
      | _ => None
      end
  | MAcked j i _, ESyn => Some (MAcked j i true)
  | MAcked j i true, EInq => Some MPolled           (* refused (NACK) *)
  | MAcked j i _, ERun j' i' => if (j =? j') && oz_eqb i i' then Some (MRan j i) else None
  | MRan j i, EPut m =>
      match m_pl m with
      | PReadyP _ _ => if (m_ty m =? READY) && (m_job m =? j) && oz_eqb (m_i m) i
                       then Some MDone else None
      | _ => None
      end
  | MRan j i, EPutFail j' i' => if (j =? j') && oz_eqb i i' then Some (MFailed j i) else None
  | MFailed j i, EPut m =>
      match m_pl m with
      | PReadyP REnc _ => if (m_ty m =? READY) && (m_job m =? j) && oz_eqb (m_i m) i
                          then Some MDone else None
      | _ => None
      end
  | _, _ => None
  end.

Fixpoint mrun (s : mstate) (l : list ev) : option mstate :=
  match l with
  | [] => Some s
  | e :: r => match mstep s e with Some s' => mrun s' r | None => None end
  end.
Definition monitor (l : list ev) : bool :=
  match mrun MIdle l with Some _ => true | None => false end.

(* ================================================================== *)
(* Parent side, minimal: one ApplyResult (job id JOB) behind ResultHandler.on_ack /
   on_ready.  Events are already filtered to this job.                   *)
Record pcfg := mk_pcfg {
  job_known : bool;        (* the job is in the cache at the start *)
  has_send_ack : bool;     (* pool created with synack=True *)
  has_accept_cb : bool; has_callback : bool; has_error_cb : bool }.

Record ar := mk_ar {
  accepted : bool; cancelled : bool;
  worker_pid : option Z; time_accepted : option Z;
  is_ready : bool; in_cache : bool }.

Definition ar_init (pc : pcfg) : ar := mk_ar false false None None false (job_known pc).

(* [cb_raises]: the accept callback raises.  [late_cancel]: ApplyResult._cancel() is called
   on this handle WHILE _ack runs, after _ack has read the flag and before it answers -- by
   the accept callback itself, or by another thread while the hooks (timeout hook, accept
   callback) run.  _ack holds the handle's mutex meanwhile, so _cancel (which takes no lock)
   is the only parent-side call that can land there. *)
Inductive pev :=
| PAck (i : option Z) (t pid : Z) (fd : option Z) (cb_raises : bool) (late_cancel : bool)
| PReady (i : option Z) (ok : bool) (v : Z)
| PCancel.

Inductive pout :=
| OCancelled
| OTimeoutSet
| OCbAccept (pid t : Z)
| OSendAck (resp pid : Z) (fd : Z)
| OAcked                 (* on_ack returned *)
| OTimeoutCancel
| OCbResult (v : Z)
| OCbError (v : Z)
| OReadied.              (* on_ready returned *)

Definition fd_truthy (fd : option Z) : option Z :=
  match fd with Some z => if z =? 0 then None else Some z | None => None end.

(* ApplyResult._ack under on_ack's `except (KeyError, AttributeError): pass`.
   The cancellation flag is read ONCE, on entry: that reading decides between refusing
   (NACK, no owner, no callback) and accepting (owner, timeouts, accept callback, ACK).  The
   hooks that run between the decision and the answer are a point at which _cancel() can
   land ([late_cancel]): it sets the flag and changes nothing else -- the job has been
   announced as accepted, so it is answered ACK (Proofs/WorkerHandshake.v:
   p_ack_answer_first_read). *)
Definition p_ack (pc : pcfg) (s : ar) (t pid : Z) (fd : option Z) (cb_raises late_cancel : bool)
  : ar * list pout :=
  if negb (in_cache s) then (s, [])
  else if cancelled s && has_send_ack pc then
    (mk_ar true true (worker_pid s) (time_accepted s) (is_ready s) (in_cache s),
     match fd_truthy fd with Some f => [OSendAck NACK pid f] | None => [] end)
  else
    let s' := mk_ar true (cancelled s || late_cancel) (Some pid) (Some t) (is_ready s)
                    (if is_ready s then false else in_cache s) in
    let cb := if has_accept_cb pc then [OCbAccept pid t] else [] in
    (* a raising accept callback: `except self._propagate_errors` raises AttributeError
       (no such attribute), which on_ack swallows: no response is sent *)
    if has_accept_cb pc && cb_raises then (s', OTimeoutSet :: cb)
    else (s', OTimeoutSet :: cb ++
              (if has_send_ack pc
               then match fd_truthy fd with Some f => [OSendAck ACK pid f] | None => [] end
               else [])).

(* on_ready -> ApplyResult._set (first outcome wins: a job already resolved ignores
   later results -- /repo commit "an ApplyResult keeps its first outcome") *)
Definition p_set (pc : pcfg) (s : ar) (ok : bool) (v : Z) : ar * list pout :=
  if negb (in_cache s) then (s, [])
  else if is_ready s then (s, [])
  else
    (mk_ar (accepted s) (cancelled s) (worker_pid s) (time_accepted s) true
           (if accepted s then false else in_cache s),
     OTimeoutCancel ::
       (if has_callback pc && ok then [OCbResult v] else []) ++
       (if has_error_cb pc && negb ok then [OCbError v] else [])).

Definition p_step (pc : pcfg) (s : ar) (e : pev) : ar * list pout :=
  match e with
  | PCancel => (mk_ar (accepted s) true (worker_pid s) (time_accepted s) (is_ready s) (in_cache s),
                [OCancelled])
  | PAck _ t pid fd r lc => let (s', o) := p_ack pc s t pid fd r lc in (s', o ++ [OAcked])
  | PReady _ ok v => let (s', o) := p_set pc s ok v in (s', o ++ [OReadied])
  end.

Fixpoint p_run (pc : pcfg) (s : ar) (l : list pev) : ar * list pout :=
  match l with
  | [] => (s, [])
  | e :: r => let (s1, o1) := p_step pc s e in
              let (s2, o2) := p_run pc s1 r in (s2, o1 ++ o2)
  end.

(* worker_pids(): [pid] if pid else [] *)
Definition worker_pids (s : ar) : list Z :=
  match worker_pid s with Some p => if p =? 0 then [] else [p] | None => [] end.

(* the parent's view of a worker message stream for job J (message -> parent event);
   [r], [lc]: what happens while the ACKs of J are processed (accept callback raises, late
   cancellation) *)
Definition pev_of_x (r lc : bool) (J : Z) (m : msg) : list pev :=
  if m_job m =? J then
    match m_pl m with
    | PAckP t pid fd => if m_ty m =? ACK then [PAck (m_i m) t pid fd r lc] else []
    | PReadyP r _ =>
        if m_ty m =? READY then
          [match r with
           | ROk v => PReady (m_i m) true v
           | RFail e => PReady (m_i m) false e
           | RBase e => PReady (m_i m) false e
           | REnc => PReady (m_i m) false (-1)
           end]
        else []
    end
  else [].
Definition pev_of : Z -> msg -> list pev := pev_of_x false false.

(* ================================================================== *)
(* The SYN channel as ONE stream shared by the successive jobs of a worker (what a real
   queue is): whatever the SYN wait of a job leaves unread is still there when the next job
   waits.  [q_syn q] is what becomes readable for job q (empty polls, then the parent's
   answer); [pend] is what earlier jobs left behind.  Proofs/WorkerProofs.shared_stream_eq:
   when every job's segment is consumed to its end by its own wait ([syn_closed]) this loop
   IS [loop], i.e. every answer is consumed by the job it was sent for. *)
Fixpoint wait_for_syn_s (l : list (rcv Z)) : syn_out * nat * list (rcv Z) :=
  match l with
  | [] => (SynStarved, 1%nat, [])
  | e :: r =>
    match protected_receive e with
    | RoExit c => (SynExit c, 1%nat, r)
    | RoNone | RoFalsy => let '(o, n, rest) := wait_for_syn_s r in (o, S n, rest)
    | RoMsg ty => (match syn_decide ty with
                   | Some true => SynTrue | Some false => SynFalse | None => SynAssert
                   end, 1%nat, r)
    end
  end.

Definition syn_result_s (c : cfg) (q : req) (pend : list (rcv Z))
  : syn_out * nat * list (rcv Z) :=
  if has_syn c then wait_for_syn_s (pend ++ q_syn q) else (SynTrue, O, pend).

(* the segment of q is read to its end by q's own wait *)
Definition syn_closed (q : req) : bool :=
  match snd (wait_for_syn_s (q_syn q)) with [] => true | _ => false end.

(* the first answer (truthy message) of a SYN script, if the wait gets that far *)
Fixpoint first_answer (l : list (rcv Z)) : option Z :=
  match l with
  | [] => None
  | e :: r => match protected_receive e with
              | RoMsg ty => Some ty
              | RoNone | RoFalsy => first_answer r
              | RoExit _ => None
              end
  end.

Definition accept_events_n (c : cfg) (q : req) (n : nat) : list ev :=
  [EInq; ENow; EPut (ack_msg c q)] ++ repeat ESyn n.

Definition pre_s (l : list ev) (t : list ev * exit * Z * list (rcv Z))
  : list ev * exit * Z * list (rcv Z) :=
  let '(l', x, n, p) := t in (l ++ l', x, n, p).

Fixpoint loop_s (c : cfg) (completed : Z) (ins : list (rcv req)) (pend : list (rcv Z))
         {struct ins} : list ev * exit * Z * list (rcv Z) :=
  if guard (maxtasks c) completed then
    match ins with
    | [] => ([EInq], XStarved, completed, pend)
    | e :: rest =>
      match protected_receive e with
      | RoExit code => ([EInq], XSysExit code, completed, pend)
      | RoNone | RoFalsy => pre_s [EInq] (loop_s c completed rest pend)
      | RoMsg q =>
        if negb (task_ok (q_ty q)) then ([EInq], XAssert, completed, pend) else
        let '(so, k, pend') := syn_result_s c q pend in
        let acc := accept_events_n c q k in
        match so with
        | SynFalse => pre_s acc (loop_s c completed rest pend')
        | SynExit code => (acc, XSysExit code, completed, pend')
        | SynAssert => (acc, XAssert, completed, pend')
        | SynStarved => (acc, XStarved, completed, pend')
        | SynTrue =>
          match task_escapes q with
          | Some x => (acc ++ [ERun (q_job q) (q_i q)], x, completed, pend')
          | None =>
            if mem_exceeded (eff_maxmem c) (q_mem q)
            then (acc ++ exec_events c q, XReturn EX_RECYCLE, completed + 1, pend')
            else pre_s (acc ++ exec_events c q) (loop_s c (completed + 1) rest pend')
          end
        end
      end
    end
  else ([], XReturn (exit_status (maxtasks c) completed), completed, pend).

Definition workloop_s (c : cfg) (ins : list (rcv req))
  : list ev * exit * Z * (bool * nat * nat) :=
  let '(l, x, n, _) := loop_s c 0 ins [] in (l, x, n, ensure (counter c) n).

(* ================================================================== *)
(* Closed handshake: worker and parent together.  What arrives on the SYN channel for a
   job is the parent's reaction to that job's ACK.  Two independent switches exist in the
   code: the pool's `synack` flag ([has_send_ack]: ApplyResult gets Pool.send_ack) and
   whether the workers were given a SYN queue ([has_syn]: Pool.get_process_queues);
   [delivers] says whether the pool's send_ack actually writes the response to the worker's
   SYN pipe.  Plain billiard: send_ack is `pass` and get_process_queues returns synq=None,
   i.e. has_syn = false and delivers = false whatever synack is; a pool that implements
   the handshake (celery's AsynPool) overrides both. *)
Record hjob := mk_hjob {
  hj_req : req;        (* q_syn = the polls made before the answer becomes readable *)
  hj_cancel : bool;    (* cancelled before the parent processes the ACK *)
  hj_raises : bool;    (* the accept callback of this job raises *)
  hj_late : bool }.    (* _cancel() lands while _ack runs, after its decision (e.g. called by
                          the accept callback itself) *)

Definition with_syn (q : req) (l : list (rcv Z)) : req :=
  mk_req (q_ty q) (q_job q) (q_i q) (q_t q) (q_beh q) l (q_mem q) (q_term q).

(* the handle of a job at the moment its ACK is processed *)
Definition ar_at_ack (cancel : bool) : ar := mk_ar false cancel None None false true.

Definition responses (o : list pout) : list (rcv Z) :=
  flat_map (fun e => match e with OSendAck r _ _ => [RMsg r] | _ => [] end) o.

Definition syn_answer (pc : pcfg) (delivers : bool) (c : cfg) (h : hjob) : list (rcv Z) :=
  if delivers
  then responses (snd (p_ack pc (ar_at_ack (hj_cancel h)) (q_t (hj_req h)) (eff_pid c)
                             (synfd c) (hj_raises h) (hj_late h)))
  else [].

Definition hs_req (pc : pcfg) (delivers : bool) (c : cfg) (h : hjob) : req :=
  with_syn (hj_req h) (q_syn (hj_req h) ++ syn_answer pc delivers c h).

Definition hs_in (pc : pcfg) (delivers : bool) (c : cfg) (e : rcv hjob) : rcv req :=
  match e with
  | RShutdown => RShutdown | RTimeout => RTimeout | REintr => REintr | REof => REof
  | RIOErr => RIOErr | RNoneMsg => RNoneMsg | RFalsy => RFalsy
  | RMsg h => RMsg (hs_req pc delivers c h)
  end.
Definition hs_ins (pc : pcfg) (delivers : bool) (c : cfg) (l : list (rcv hjob)) : list (rcv req) :=
  map (hs_in pc delivers c) l.

(* the parent's handling of job J: the cancellation (if any) comes first, then the worker's
   messages for J in pipe order *)
Definition hs_parent_x (pc : pcfg) (J : Z) (cancel r lc : bool) (wl : list ev) : ar * list pout :=
  p_run pc (ar_init pc) ((if cancel then [PCancel] else []) ++ flat_map (pev_of_x r lc J) (puts wl)).
Definition hs_parent (pc : pcfg) (J : Z) (cancel : bool) (wl : list ev) : ar * list pout :=
  hs_parent_x pc J cancel false false wl.

(* ================================================================== *)
(* equality tests for the correspondence check                          *)
Definition res_eqb (a b : res) : bool :=
  match a, b with
  | ROk x, ROk y | RFail x, RFail y | RBase x, RBase y => x =? y
  | REnc, REnc => true
  | _, _ => false
  end.
Definition payload_eqb (a b : payload) : bool :=
  match a, b with
  | PAckP t p f, PAckP t' p' f' => (t =? t') && (p =? p') && oz_eqb f f'
  | PReadyP r f, PReadyP r' f' => res_eqb r r' && (f =? f')
  | _, _ => false
  end.
Definition msg_eqb (a b : msg) : bool :=
  (m_ty a =? m_ty b) && (m_job a =? m_job b) && oz_eqb (m_i a) (m_i b)
  && payload_eqb (m_pl a) (m_pl b).
Definition ev_eqb (a b : ev) : bool :=
  match a, b with
  | EInq, EInq | ESyn, ESyn | ENow, ENow | EMem, EMem => true
  | EPut m, EPut m' => msg_eqb m m'
  | EPutFail j i, EPutFail j' i' | ERun j i, ERun j' i' => (j =? j') && oz_eqb i i'
  | _, _ => false
  end.
Definition exit_eqb (a b : exit) : bool :=
  match a, b with
  | XReturn x, XReturn y | XSysExit x, XSysExit y => x =? y
  | XTerminated x, XTerminated y => x =? y
  | XTaskExc b x, XTaskExc b' y => Bool.eqb b b' && (x =? y)
  | XAssert, XAssert | XStarved, XStarved => true
  | _, _ => false
  end.
Definition pout_eqb (a b : pout) : bool :=
  match a, b with
  | OCancelled, OCancelled | OTimeoutSet, OTimeoutSet | OAcked, OAcked
  | OTimeoutCancel, OTimeoutCancel | OReadied, OReadied => true
  | OCbAccept p t, OCbAccept p' t' => (p =? p') && (t =? t')
  | OSendAck r p f, OSendAck r' p' f' => (r =? r') && (p =? p') && (f =? f')
  | OCbResult v, OCbResult v' | OCbError v, OCbError v' => v =? v'
  | _, _ => false
  end.

(* is the accept callback run before any result callback, in an output list? *)
Fixpoint accept_first (seen : bool) (l : list pout) : bool :=
  match l with
  | [] => true
  | OCbAccept _ _ :: r => accept_first true r
  | OCbResult _ :: r | OCbError _ :: r => seen && accept_first seen r
  | _ :: r => accept_first seen r
  end.

(* ---- correspondence cases *)
(* implementation's observation of a worker run: events, exit, the argument given to
   _ensure_messages_consumed (None: never called), its result, counter reads, sleeps *)
Definition wobs := (list ev * exit * option Z * option bool * Z * Z)%type.
(* when the case was run through the real Worker.__call__: (pid, status) given to on_exit,
   (pid, status) of the DEATH message, status given to os._exit, the 1 s sleep happened *)
Definition cobs := (option (Z * Z) * option (Z * Z) * option Z * bool)%type.
(* implementation's observation of a parent run: outputs, accepted, pid, time, ready,
   in cache, worker_pids(), the cancellation flag *)
Definition pobs := (list pout * bool * option Z * option Z * bool * bool * list Z * bool)%type.

Inductive case :=
| WCase (c : cfg) (ins : list (rcv req)) (o : wobs)
| CCase (c : cfg) (ins : list (rcv req)) (o : wobs) (co : cobs)   (* via Worker.__call__ *)
| PCase (pc : pcfg) (evs : list pev) (o : pobs)
| SCase (c : cfg) (ins : list (rcv req)) (o : wobs)     (* one SYN stream shared by the jobs *)
| HCase (pc : pcfg) (delivers : bool) (c : cfg) (ins : list (rcv hjob)) (o : wobs)
        (po : list (Z * (bool * bool * bool) * pobs)).
        (* closed handshake: per job id ((cancelled?, callback raises?, late cancel?), parent obs) *)

(* 0 = identical.  2 = the property-relevant observable differs: for the worker the
   protocol events (messages written, task executions), how the loop ended, the
   completed count, the verdict of _ensure_messages_consumed, or the implementation's
   trace is rejected by the protocol monitor; for the parent the callbacks / responses
   / ownership record.  1 = only bookkeeping events (polls, clock and memory reads,
   number of counter polls) differ. *)
Definition check_worker_against (r : list ev * exit * Z * (bool * nat * nat)) (o : wobs) : Z :=
  let '(il, ix, icomp, iens, ireads, isleeps) := o in
  let '(l, x, n, (b, reads, sleeps)) := r in
  if negb (monitor il) then 2
  else if negb (list_eqb ev_eqb (proto il) (proto l)) then 2
  else if negb (exit_eqb ix x) then 2
  else if negb (opt_eqb Z.eqb icomp (Some n)) then 2
  else if negb (opt_eqb Bool.eqb iens (Some b)) then 2
  else if list_eqb ev_eqb il l && (ireads =? Z.of_nat reads) && (isleeps =? Z.of_nat sleeps)
  then 0 else 1.

Definition check_worker (c : cfg) (ins : list (rcv req)) (o : wobs) : Z :=
  check_worker_against (workloop c ins) o.

Definition zz_eqb := pair_eqb Z.eqb Z.eqb.

Definition check_parent (r : ar * list pout) (o : pobs) : Z :=
  let '(io, iacc, ipid, itime, iready, icache, ipids, icanc) := o in
  let (s, o) := r in
  if list_eqb pout_eqb io o && Bool.eqb iacc (accepted s) && oz_eqb ipid (worker_pid s)
     && oz_eqb itime (time_accepted s) && Bool.eqb iready (is_ready s)
     && Bool.eqb icache (in_cache s) && list_eqb Z.eqb ipids (worker_pids s)
     && Bool.eqb icanc (cancelled s)
  then 0 else 2.

Definition check_case (k : case) : Z :=
  match k with
  | WCase c ins o => check_worker c ins o
  | CCase c ins o (ionexit, ideath, iosexit, isleep1) =>
    let w := check_worker c ins o in
    if w =? 2 then 2 else
    let st := call_status (snd (fst (fst (workloop c ins)))) in
    let who := (eff_pid c, st) in
    if opt_eqb zz_eqb ionexit (Some who) && opt_eqb zz_eqb ideath (Some who)
       && opt_eqb Z.eqb iosexit (Some st)
    then (if isleep1 then w else 1) else 2
  | PCase pc evs o => check_parent (p_run pc (ar_init pc) evs) o
  | SCase c ins o => check_worker_against (workloop_s c ins) o
  | HCase pc dl c hins o po =>
    let r := workloop_s c (hs_ins pc dl c hins) in
    let w := check_worker_against r o in
    if w =? 2 then 2 else
    let wl := fst (fst (fst r)) in
    if forallb (fun jo => let '(J, (cancel, r, lc), ob) := jo in
                          check_parent (hs_parent_x pc J cancel r lc wl) ob =? 0) po
    then w else 2
  end.
