(* C16 -- queues lose nothing, duplicate nothing and respect their capacity.
   Only statements here; proofs live in Proofs/QueueProofs.v. *)
From Coq Require Import ZArith List Bool.
From BV Require Import Model.SemProg Model.QueueProg Model.QueueCode Proofs.QueueProofs.
From BV Require Gen.P_queue.
Import ListNotations.
Open Scope Z_scope.

(* the programs compiled from billiard/queues.py on this run are the model's programs *)
Theorem C16_code_is_model : forall c, P_queue.code c = QueueCode.code c.
Proof. exact gen_qcode_eq. Qed.
Print Assumptions C16_code_is_model.
