(* C16 -- queues lose nothing, duplicate nothing and respect their capacity.
   Only statements here; proofs live in Proofs/QueueProofs.v.

   Reading guide.  [P_queue.code] is the table of QueueProg programs compiled on THIS run from
   billiard/queues.py (Queue.put/get, JoinableQueue.put/task_done/join, SimpleQueue.put/get) and
   billiard/synchronize.py; p_feed (Queue._feed) is a hand translation emitted only while the
   source text of _feed is the expected one; QStartThread stands for the body of Queue._start_thread
   (buffer.clear(), create + record + start the feeder thread; its shape is checked by the translator) and
   QThreadJ for the test `self._thread is None`, compiled where the working tree has them.
   [QReach M own g]: g is reachable from the initial world of a queue of capacity M by ANY number of
   main threads -- each running any script of put / get / task_done / join calls, each with the feeder
   thread (slot) its own call of _start_thread would start -- grouped into processes in ANY way (own q =
   the process of main thread 2q and feeder slot 2q+1; own = [] is one main thread per process; the main
   threads of one process share its queue object: buffer, _notempty, _thread) under ANY schedule (timed
   acquires and polls may give up at any step), counters below SEM_VALUE_MAX.  "Producer" in the
   ghost logs below = process: plog p is the order in which the puts of ALL threads of p appended.
   spawned ps = the feeder slots started by the _start_thread calls of a process; fd_ftr = the message
   held by THE feeder thread of a process; at_start t = main thread t stands at _start_thread (it has read
   `self._thread is None` as true); qdormant = a feeder slot nobody has started; tput t / Subseq: see
   C16_fifo_per_thread.
   Ghost logs: plog p = messages process p appended to its buffer (= accepted by its puts), in
   order; slog p = messages its feeder wrote to the pipe, in order; sendlog = all (process,
   message) pairs written to the pipe, in order; getlog = all messages read from it, in order;
   from_proc p l = the messages of l tagged p, in order.  Semaphores: 0 _sem, 1 _rlock, 2 _wlock,
   nls p = lock of process p's _notempty.  qt_tr = 1 for a thread holding a capacity token for
   a message that is neither buffered nor in the pipe (put before its append, feeder between
   pop and send or between a failed serialisation and the release of that message's token,
   get between receive and the release of _sem).  ftr t = the message a feeder has popped and
   neither sent nor dropped yet.  Messages >= 1000 are the ones the harness puts as objects that
   cannot be pickled: picklable m = (m < 1000); pk l = the picklable messages of l, in order.
   Since the repair 36337df of Queue._feed an object whose serialisation fails is dropped by the
   feeder, which gives its capacity token back and goes on (p_feed 14-15).  gheld t = the message
   a get has received and not yet returned; rcount m res = number of finished get calls in res
   that returned m. *)
From Coq Require Import ZArith List Bool.
From BV Require Import Lib.Cases Model.SemProg Model.QueueProg Model.QueueCode Model.QueueCheck Proofs.SemProgProofs Proofs.QueueInvProofs Proofs.QueueStartProofs Proofs.QueueProofs.
From BV Require Gen.P_queue.
Import ListNotations.
Open Scope Z_scope.

(* ---- tie *)
Theorem C16_code_is_model : forall c, P_queue.code c = QueueCode.code c.
Proof. exact gen_qcode_eq. Qed.
Print Assumptions C16_code_is_model.

Theorem C16_world_is_model : forall m, P_queue.queue_sems m = QueueCode.queue_sems m.
Proof. exact gen_qworld_eq. Qed.
Print Assumptions C16_world_is_model.

(* ---- the invariant holds in every reachable state and is kept by every step (so no release
   of the capacity semaphore or of a lock ever raises) *)
Theorem C16_invariant : forall M own g, QReach M own g -> QInv M own g.
Proof. exact qreach_inv. Qed.
Print Assumptions C16_invariant.

Theorem C16_step : forall M own g i go g' e, QReach M own g -> qsmall g ->
    qstep P_queue.code g i go = Some (g', e) -> QInv M own g'.
Proof. exact G_queue_step. Qed.
Print Assumptions C16_step.

(* capacity accounting: sem + buffered + in pipe + in transit = maxsize; hence at most maxsize
   items are ever waiting *)
Theorem C16_capacity : forall M own g, QReach M own g ->
    qv 0 g + sumz blen (procs g) + Z.of_nat (length (pipe g)) + sumz qt_tr (qthr g) = M /\
    0 <= qv 0 g /\
    sumz blen (procs g) + Z.of_nat (length (pipe g)) <= M.
Proof. exact G_queue_capacity. Qed.
Print Assumptions C16_capacity.

(* order: per producer and restricted to the messages that can be serialised (pk), appended =
   sent ++ held by the feeder ++ buffered (in order) -- so a feeder writes EXACTLY the picklable
   messages its process's puts appended, in their order, whatever was dropped in between; the pipe
   is FIFO; the send log is an ORDER-PRESERVING merge of the producers' send logs: the entries
   written by p's feeder are, in order, exactly slog p (this replaces the former count identity,
   which is kept as the last conjunct) *)
Theorem C16_fifo : forall M own g, QReach M own g ->
    (forall p, pk (plog (nth p (procs g) dps)) =
               slog (nth p (procs g) dps) ++ pk (fd_ftr (nth p (procs g) dps) (qthr g)) ++ pk (buf (nth p (procs g) dps))) /\
    map snd (sendlog g) = getlog g ++ pipe g /\
    (forall p, from_proc p (sendlog g) = slog (nth p (procs g) dps)) /\
    (forall m, zcnt m (map snd (sendlog g)) = sumz (fun ps => zcnt m (slog ps)) (procs g)).
Proof. exact G_queue_fifo. Qed.
Print Assumptions C16_fifo.

(* order PER (PROCESS, THREAD): tput t = the messages that the put calls of main thread t have appended to
   the buffer of its process, in the order of t's calls (those of its finished puts that returned None, then
   the message of a put in progress that is past its append).  It is a subsequence of the append log of t's
   process -- which C16_fifo carries IN ORDER to the feeder, the pipe and the receive log.  So the objects one
   producer thread put come out in the order it put them, however the threads of its process interleave. *)
Theorem C16_fifo_per_thread : forall M own g i t, QReach M own g -> nth_error (qthr g) i = Some t ->
    Subseq (tput t) (plog (nth (qproc t) (procs g) dps)).
Proof. exact G_thread_order. Qed.
Print Assumptions C16_fifo_per_thread.

(* no loss, no duplication, for every message whose serialisation succeeds: with its multiplicity
   among the accepted puts it is exactly: received + in the pipe + held by a feeder + buffered *)
Theorem C16_no_loss_no_dup : forall M own g m, QReach M own g -> picklable m = true ->
    sumz (fun ps => zcnt m (plog ps)) (procs g) =
    zcnt m (getlog g) + zcnt m (pipe g)
    + psum (fun p => zcnt m (fd_ftr (nth p (procs g) dps) (qthr g))) (length (procs g))
    + sumz (fun ps => zcnt m (buf ps)) (procs g).
Proof. exact G_queue_no_loss_no_dup. Qed.
Print Assumptions C16_no_loss_no_dup.

(* what get RETURNS: every message read from the pipe has been returned by exactly one finished
   get call or is held by a get between its receive and its return (m = -5 is the code of the
   exception Empty in the result lists) *)
Theorem C16_get_returns_received : forall M own g m, QReach M own g -> m <> E_EMPTY ->
    zcnt m (getlog g) =
    sumz (fun t => rcount m (qresults t)) (qthr g) + sumz (fun t => zcnt m (gheld t)) (qthr g).
Proof. exact G_get_returns_received. Qed.
Print Assumptions C16_get_returns_received.

(* put to get: each message, with its multiplicity among the accepted puts, is exactly: returned
   by a get + held by a get about to return it + in the pipe + held by a feeder + buffered *)
Theorem C16_put_get_exact : forall M own g m, QReach M own g -> m <> E_EMPTY -> picklable m = true ->
    sumz (fun ps => zcnt m (plog ps)) (procs g) =
    sumz (fun t => rcount m (qresults t)) (qthr g) + sumz (fun t => zcnt m (gheld t)) (qthr g)
    + zcnt m (pipe g)
    + psum (fun p => zcnt m (fd_ftr (nth p (procs g) dps) (qthr g))) (length (procs g))
    + sumz (fun ps => zcnt m (buf ps)) (procs g).
Proof. exact G_put_get_exact. Qed.
Print Assumptions C16_put_get_exact.

(* ---- the feeder's failure path (repaired in /repo by 36337df; the former refutation is now the
   positive statement).  An object that cannot be serialised is the ONLY loss: it is never
   written to the pipe and never received; by C16_capacity it costs no capacity (the feeder at
   pc 14 holds its token "in transit" and its next step releases it: C16_step); by
   C16_no_loss_no_dup / C16_put_get_exact / C16_fifo every other object is accounted for, in
   order.  A feeder never ends, and what it drops is only what it could not serialise. *)
Theorem C16_unpicklable_is_the_only_loss : forall M own g m, QReach M own g -> picklable m = false ->
    zcnt m (map snd (sendlog g)) = 0 /\ zcnt m (getlog g) = 0 /\ zcnt m (pipe g) = 0.
Proof. exact G_unpicklable_never_sent. Qed.
Print Assumptions C16_unpicklable_is_the_only_loss.

Theorem C16_feeder_never_ends : forall M own g t, QReach M own g -> In t (qthr g) -> qfeeder t = true ->
    qfin t = false /\ qexited P_queue.code t = false.
Proof. exact G_feeder_never_ends. Qed.
Print Assumptions C16_feeder_never_ends.

Theorem C16_feeder_drops_only_unpicklable : forall M own g t, QReach M own g -> In t (qthr g) ->
    qfeeder t = true -> qpc t = 14%nat -> picklable (r2 (qrg t)) = false.
Proof. exact G_feeder_drops_only_unpicklable. Qed.
Print Assumptions C16_feeder_drops_only_unpicklable.

(* regression case = the witness of the former refutation, continued (capacity 2; process 0:
   put(an object that cannot be pickled), put(12); process 1: get()): in the end state nothing
   can move, both puts returned None, the feeder is alive and asleep, it wrote 12 and only 12,
   the get RETURNED 12, buffer and pipe are empty and the capacity semaphore is back at 2 *)
Example C16_later_put_is_delivered :
  QReach 2 [] qlost_state /\
  (forall i go, qstep P_queue.code qlost_state i go = None) /\
  map snd (qresults (nth 0 (qthr qlost_state) dqt)) = [V_NONE; V_NONE] /\
  plog (nth 0 (procs qlost_state) dps) = [1000; 12] /\
  (let f := nth 1 (qthr qlost_state) dqt in qfin f = false /\ qexited P_queue.code f = false /\ qpc f = 4%nat) /\
  sendlog qlost_state = [(0%nat, 12)] /\
  map snd (qresults (nth 2 (qthr qlost_state) dqt)) = [12] /\ getlog qlost_state = [12] /\
  buf (nth 0 (procs qlost_state) dps) = [] /\ pipe qlost_state = [] /\ qv 0 qlost_state = 2.
Proof. exact qlost_now_delivered. Qed.
Print Assumptions C16_later_put_is_delivered.

(* ---- SEVERAL PRODUCER THREADS OF ONE PROCESS: Queue._start_thread.  (All theorems of this file hold
   for any grouping `own` of the main threads into processes; the ones below are about what the threads
   of one process share.)
   The test-and-start is atomic under _notempty: a main thread that has read `self._thread is None` as
   true and has not yet run _start_thread holds the lock of its process's _notempty (value 0), no feeder of
   its process has been started, nothing is buffered, and no other thread holds that lock -- in particular
   no second thread of the process stands at _start_thread. *)
Theorem C16_start_is_atomic_under_notempty : forall M own g i t, QReach M own g ->
    nth_error (qthr g) i = Some t -> at_start t ->
    qv (nls (qproc t)) g = 0 /\
    spawned (nth (qproc t) (procs g) dps) = [] /\ buf (nth (qproc t) (procs g) dps) = [] /\
    (forall j u, nth_error (qthr g) j = Some u -> j <> i -> qt_nl (qproc t) u = 0 /\ ~ (qproc u = qproc t /\ at_start u)).
Proof. exact G_start_under_lock. Qed.
Print Assumptions C16_start_is_atomic_under_notempty.

(* at most ONE feeder thread is ever started per process: the list of started feeder slots of a process
   has at most one element, and two feeder threads of one process that can run are the same thread *)
Theorem C16_one_feeder_per_process : forall M own g p, QReach M own g ->
    (length (spawned (nth p (procs g) dps)) <= 1)%nat.
Proof. exact G_one_feeder_started. Qed.
Print Assumptions C16_one_feeder_per_process.

Theorem C16_running_feeder_is_unique : forall M own g i j ti tj, QReach M own g ->
    nth_error (qthr g) i = Some ti -> nth_error (qthr g) j = Some tj ->
    qfeeder ti = true -> qfeeder tj = true -> qproc ti = qproc tj ->
    qdormant g i ti = false -> qdormant g j tj = false -> i = j.
Proof. exact G_feeder_unique. Qed.
Print Assumptions C16_running_feeder_is_unique.

(* the buffer is never cleared while it holds an item: a step whose event is a _start_thread (op 7) is taken
   by a thread standing at _start_thread, its buffer was empty and its buffer.clear() dropped 0 items *)
Theorem C16_start_thread_clears_nothing : forall M own g i go g' e, QReach M own g ->
    qstep P_queue.code g i go = Some (g', e) -> snd (fst e) = 7 ->
    exists t, nth_error (qthr g) i = Some t /\ at_start t /\ e = (i, THREAD, 7, 0) /\
              buf (nth (qproc t) (procs g) dps) = [].
Proof. exact G_start_step_clears_nothing. Qed.
Print Assumptions C16_start_thread_clears_nothing.

(* the same two facts about the EVENT TRACE of every run, in the form of the monitors that
   Model/QueueCheck.v evaluates on the traces of the real classes: no _start_thread event dropped an item
   (clear_ok) and every process has at most one _start_thread event (one_feeder_ok) *)
Theorem C16_every_trace_passes_the_start_monitors : forall M own scripts sched g es ok,
    0 <= M -> Forall (Forall okq) scripts -> own_ok (length scripts) own ->
    gen_qrun_small (gen_qinit M own scripts) sched ->
    qrun P_queue.code (gen_qinit M own scripts) sched = (g, es, ok) ->
    clear_ok es = true /\ one_feeder_ok own (length scripts) es = true.
Proof. exact G_trace_starts_ok. Qed.
Print Assumptions C16_every_trace_passes_the_start_monitors.

(* non-vacuity (evaluated): capacity 2, main threads 0 and 2 are two threads of process 0, each doing the
   first put on the fresh queue, process 2 gets twice.  In the middle of the race thread 0 stands at
   _start_thread holding the lock and thread 2, which already has its capacity token, cannot take it; at
   the end ONE feeder was started (slot 1; slot 3 never ran), both puts returned None, the feeder wrote
   11, 12 in append order, the consumer returned 11 then 12, nothing is left, the capacity is whole, and
   the only _start_thread event dropped 0 items *)
Example C16_two_threads_of_one_process :
  QReach 2 qtwo_own qtwo_state /\ QReach 2 qtwo_own qtwo_mid /\
  (at_start (nth 0 (qthr qtwo_mid) dqt) /\ qv (nls 0) qtwo_mid = 0 /\
   qstep P_queue.code qtwo_mid 2 true = None /\ qpc (nth 2 (qthr qtwo_mid) dqt) = 3%nat) /\
  snd qtwo_run = true /\
  (forall i go, qstep P_queue.code qtwo_state i go = None) /\
  spawned (nth 0 (procs qtwo_state) dps) = [1%nat] /\
  qdormant qtwo_state 3 (nth 3 (qthr qtwo_state) dqt) = true /\
  map snd (qresults (nth 0 (qthr qtwo_state) dqt)) = [V_NONE] /\
  map snd (qresults (nth 2 (qthr qtwo_state) dqt)) = [V_NONE] /\
  plog (nth 0 (procs qtwo_state) dps) = [11; 12] /\
  tput (nth 0 (qthr qtwo_state) dqt) = [11] /\ tput (nth 2 (qthr qtwo_state) dqt) = [12] /\
  sendlog qtwo_state = [(0%nat, 11); (0%nat, 12)] /\
  map snd (qresults (nth 4 (qthr qtwo_state) dqt)) = [12; 11] /\ getlog qtwo_state = [11; 12] /\
  buf (nth 0 (procs qtwo_state) dps) = [] /\ pipe qtwo_state = [] /\ qv 0 qtwo_state = 2 /\
  filter is_start (snd (fst qtwo_run)) = [(0%nat, THREAD, 7, 0)].
Proof. exact qtwo_witness. Qed.
Print Assumptions C16_two_threads_of_one_process.

(* ---- JoinableQueue.join / task_done (PARTIAL: the counter and the two tests; the sleeping path
   of join -- wait / notify_all of the inner Condition -- is covered by monitors and by the
   search on the generated program only).  qt_unf t = (finished JoinableQueue.put calls of t that
   returned) - (finished task_done calls of t that did not raise ValueError) + 1 if t is a put
   past its _unfinished_tasks.release() - 1 if t is a task_done past its successful
   _unfinished_tasks.acquire(False).  So  sumz qt_unf (qthr g)  is the number of items put and
   not yet matched by a task_done, and it is what the semaphore holds: *)
Theorem C16_unfinished_count : forall M own g, QReach M own g -> qv 3 g = sumz qt_unf (qthr g) /\ 0 <= qv 3 g.
Proof. exact G_unfinished_count. Qed.
Print Assumptions C16_unfinished_count.

(* task_done raises ValueError("called too many times") exactly when every item put has already
   been matched; otherwise it takes one *)
Theorem C16_task_done_raises_iff_matched : forall M own g i t g' e, QReach M own g ->
    nth_error (qthr g) i = Some t -> qfin t = false -> qfeeder t = false ->
    qcid t = 4%nat -> qpc t = 1%nat ->
    qstep P_queue.code g i true = Some (g', e) ->
    (snd e = 0 <-> sumz qt_unf (qthr g) = 0) /\ (snd e = 1 <-> 0 < sumz qt_unf (qthr g)).
Proof. exact G_task_done_raises_iff_matched. Qed.
Print Assumptions C16_task_done_raises_iff_matched.

(* join's test, made under the condition's lock, reads "zero" (join then returns without
   waiting) exactly when every item put has been matched by a task_done *)
Theorem C16_join_exact_partial : forall M own g i t g' e, QReach M own g ->
    nth_error (qthr g) i = Some t -> qfin t = false -> qfeeder t = false ->
    qcid t = 5%nat -> qpc t = 1%nat ->
    qstep P_queue.code g i true = Some (g', e) ->
    (snd e = 1 <-> sumz qt_unf (qthr g) = 0).
Proof. exact G_join_test_iff_matched. Qed.
Print Assumptions C16_join_exact_partial.

(* reader lock, writer lock and each process's _notempty lock have one holder *)
Theorem C16_locks : forall M own g, QReach M own g ->
    qv 1 g + sumz qt_rl (qthr g) = 1 /\ qv 2 g + sumz qt_wl (qthr g) = 1 /\
    forall p, (p < length (procs g))%nat -> qv (nls p) g + sumz (qt_nl p) (qthr g) = 1.
Proof. exact G_queue_locks. Qed.
Print Assumptions C16_locks.

(* Full: on the scheduler choice `go` a put's capacity acquire fails exactly when the
   semaphore is 0 (with `timeout` a timed put may give up at its deadline) *)
Theorem C16_full_only_when_zero : forall M own g i t g' e, QReach M own g ->
    nth_error (qthr g) i = Some t -> qfin t = false -> qfeeder t = false ->
    (qcid t = 0%nat \/ qcid t = 3%nat) -> qpc t = 0%nat ->
    qstep P_queue.code g i true = Some (g', e) ->
    (snd e = 0 -> qv 0 g = 0) /\ (snd e = 1 -> 0 < qv 0 g).
Proof. exact G_full_only_when_zero. Qed.
Print Assumptions C16_full_only_when_zero.

(* Empty: a non-blocking get finds nothing exactly when the pipe is empty *)
Theorem C16_empty_only_when_nothing : forall g i t g' e,
    nth_error (qthr g) i = Some t -> qfin t = false -> qfeeder t = false ->
    qcid t = 1%nat -> qpc t = 19%nat ->
    qstep P_queue.code g i true = Some (g', e) ->
    (snd e = 0 <-> pipe g = []).
Proof. exact G_empty_only_when_nothing. Qed.
Print Assumptions C16_empty_only_when_nothing.

(* a put appends exactly the message it was given *)
Theorem C16_put_appends_its_argument : forall M own g t, QReach M own g -> In t (qthr g) ->
    qfeeder t = false -> qfin t = false -> (qcid t = 0%nat \/ qcid t = 3%nat) ->
    (qpc t = 0%nat \/ qpc t = 3%nat \/ qpc t = 6%nat) -> r2 (qrg t) = a2_of (qcur t).
Proof. exact G_put_appends_its_argument. Qed.
Print Assumptions C16_put_appends_its_argument.

(* non-vacuity: capacity 1, two producers and a consumer; message 11 has gone through the
   pipe and is held by the consumer (in transit), the second producer is blocked on the full
   queue *)
Example C16_witness :
  QReach 1 [] qex_state /\ qv 0 qex_state = 0 /\ getlog qex_state = [11] /\ sendlog qex_state = [(0%nat, 11)] /\
  sumz qt_tr (qthr qex_state) = 1 /\ pipe qex_state = [].
Proof. exact qex_witness. Qed.
Print Assumptions C16_witness.
