(* C16 -- queues lose nothing, duplicate nothing and respect their capacity.
   Only statements here; proofs live in Proofs/QueueProofs.v.

   Reading guide.  [P_queue.code] is the table of QueueProg programs compiled on THIS run from
   billiard/queues.py (Queue.put/get, JoinableQueue.put/task_done/join, SimpleQueue.put/get) and
   billiard/synchronize.py; p_feed (Queue._feed) is a hand translation emitted only while the
   source text of _feed is the expected one.  [QReach M g]: g is reachable from the initial world
   of a queue of capacity M by ANY number of processes -- each a main thread running any script
   of put / get / task_done / join calls plus its feeder thread -- under ANY schedule (timed
   acquires and polls may give up at any step), counters below SEM_VALUE_MAX.
   Ghost logs: plog p = messages process p appended to its buffer (= accepted by its puts), in
   order; slog p = messages its feeder wrote to the pipe, in order; sendlog = all (process,
   message) pairs written to the pipe, in order; getlog = all messages read from it, in order;
   from_proc p l = the messages of l tagged p, in order.  Semaphores: 0 _sem, 1 _rlock, 2 _wlock,
   nls p = lock of process p's _notempty.  qt_tr = 1 for a thread holding a capacity token for
   a message that is neither buffered nor in the pipe (put before its append, feeder between
   pop and send or between a failed serialisation and the release of that message's token,
   get between receive and the release of _sem).  ftr t = the message a feeder has popped and
   neither sent nor dropped yet.  Messages >= 1000 are the ones the harness puts as objects that
   cannot be pickled: picklable m = (m < 1000); pk l = the picklable messages of l, in order.
   Since the repair 36337df of Queue._feed an object whose serialisation fails is dropped by the
   feeder, which gives its capacity token back and goes on (p_feed 14-15).  gheld t = the message
   a get has received and not yet returned; rcount m res = number of finished get calls in res
   that returned m. *)
From Coq Require Import ZArith List Bool.
From BV Require Import Model.SemProg Model.QueueProg Model.QueueCode Proofs.SemProgProofs Proofs.QueueInvProofs Proofs.QueueProofs.
From BV Require Gen.P_queue.
Import ListNotations.
Open Scope Z_scope.

(* ---- tie *)
Theorem C16_code_is_model : forall c, P_queue.code c = QueueCode.code c.
Proof. exact gen_qcode_eq. Qed.
Print Assumptions C16_code_is_model.

Theorem C16_world_is_model : forall m, P_queue.queue_sems m = QueueCode.queue_sems m.
Proof. exact gen_qworld_eq. Qed.
Print Assumptions C16_world_is_model.

(* ---- the invariant holds in every reachable state and is kept by every step (so no release
   of the capacity semaphore or of a lock ever raises) *)
Theorem C16_invariant : forall M g, QReach M g -> QInv M g.
Proof. exact qreach_inv. Qed.
Print Assumptions C16_invariant.

Theorem C16_step : forall M g i go g' e, QReach M g -> qsmall g ->
    qstep P_queue.code g i go = Some (g', e) -> QInv M g'.
Proof. exact G_queue_step. Qed.
Print Assumptions C16_step.

(* capacity accounting: sem + buffered + in pipe + in transit = maxsize; hence at most maxsize
   items are ever waiting *)
Theorem C16_capacity : forall M g, QReach M g ->
    qv 0 g + sumz blen (procs g) + Z.of_nat (length (pipe g)) + sumz qt_tr (qthr g) = M /\
    0 <= qv 0 g /\
    sumz blen (procs g) + Z.of_nat (length (pipe g)) <= M.
Proof. exact G_queue_capacity. Qed.
Print Assumptions C16_capacity.

(* order: per producer and restricted to the messages that can be serialised (pk), appended =
   sent ++ held by the feeder ++ buffered (in order) -- so a feeder writes EXACTLY the picklable
   messages its process's puts appended, in their order, whatever was dropped in between; the pipe
   is FIFO; the send log is an ORDER-PRESERVING merge of the producers' send logs: the entries
   written by p's feeder are, in order, exactly slog p (this replaces the former count identity,
   which is kept as the last conjunct) *)
Theorem C16_fifo : forall M g, QReach M g ->
    (forall p, pk (plog (nth p (procs g) dps)) =
               slog (nth p (procs g) dps) ++ pk (ftr (nth (2 * p + 1) (qthr g) dqt)) ++ pk (buf (nth p (procs g) dps))) /\
    map snd (sendlog g) = getlog g ++ pipe g /\
    (forall p, from_proc p (sendlog g) = slog (nth p (procs g) dps)) /\
    (forall m, zcnt m (map snd (sendlog g)) = sumz (fun ps => zcnt m (slog ps)) (procs g)).
Proof. exact G_queue_fifo. Qed.
Print Assumptions C16_fifo.

(* no loss, no duplication, for every message whose serialisation succeeds: with its multiplicity
   among the accepted puts it is exactly: received + in the pipe + held by a feeder + buffered *)
Theorem C16_no_loss_no_dup : forall M g m, QReach M g -> picklable m = true ->
    sumz (fun ps => zcnt m (plog ps)) (procs g) =
    zcnt m (getlog g) + zcnt m (pipe g)
    + psum (fun p => zcnt m (ftr (nth (2 * p + 1) (qthr g) dqt))) (length (procs g))
    + sumz (fun ps => zcnt m (buf ps)) (procs g).
Proof. exact G_queue_no_loss_no_dup. Qed.
Print Assumptions C16_no_loss_no_dup.

(* what get RETURNS: every message read from the pipe has been returned by exactly one finished
   get call or is held by a get between its receive and its return (m = -5 is the code of the
   exception Empty in the result lists) *)
Theorem C16_get_returns_received : forall M g m, QReach M g -> m <> E_EMPTY ->
    zcnt m (getlog g) =
    sumz (fun t => rcount m (qresults t)) (qthr g) + sumz (fun t => zcnt m (gheld t)) (qthr g).
Proof. exact G_get_returns_received. Qed.
Print Assumptions C16_get_returns_received.

(* put to get: each message, with its multiplicity among the accepted puts, is exactly: returned
   by a get + held by a get about to return it + in the pipe + held by a feeder + buffered *)
Theorem C16_put_get_exact : forall M g m, QReach M g -> m <> E_EMPTY -> picklable m = true ->
    sumz (fun ps => zcnt m (plog ps)) (procs g) =
    sumz (fun t => rcount m (qresults t)) (qthr g) + sumz (fun t => zcnt m (gheld t)) (qthr g)
    + zcnt m (pipe g)
    + psum (fun p => zcnt m (ftr (nth (2 * p + 1) (qthr g) dqt))) (length (procs g))
    + sumz (fun ps => zcnt m (buf ps)) (procs g).
Proof. exact G_put_get_exact. Qed.
Print Assumptions C16_put_get_exact.

(* ---- the feeder's failure path (repaired in /repo by 36337df; the former refutation is now the
   positive statement).  An object that cannot be serialised is the ONLY loss: it is never
   written to the pipe and never received; by C16_capacity it costs no capacity (the feeder at
   pc 14 holds its token "in transit" and its next step releases it: C16_step); by
   C16_no_loss_no_dup / C16_put_get_exact / C16_fifo every other object is accounted for, in
   order.  A feeder never ends, and what it drops is only what it could not serialise. *)
Theorem C16_unpicklable_is_the_only_loss : forall M g m, QReach M g -> picklable m = false ->
    zcnt m (map snd (sendlog g)) = 0 /\ zcnt m (getlog g) = 0 /\ zcnt m (pipe g) = 0.
Proof. exact G_unpicklable_never_sent. Qed.
Print Assumptions C16_unpicklable_is_the_only_loss.

Theorem C16_feeder_never_ends : forall M g t, QReach M g -> In t (qthr g) -> qfeeder t = true ->
    qfin t = false /\ qexited P_queue.code t = false.
Proof. exact G_feeder_never_ends. Qed.
Print Assumptions C16_feeder_never_ends.

Theorem C16_feeder_drops_only_unpicklable : forall M g t, QReach M g -> In t (qthr g) ->
    qfeeder t = true -> qpc t = 14%nat -> picklable (r2 (qrg t)) = false.
Proof. exact G_feeder_drops_only_unpicklable. Qed.
Print Assumptions C16_feeder_drops_only_unpicklable.

(* regression case = the witness of the former refutation, continued (capacity 2; process 0:
   put(an object that cannot be pickled), put(12); process 1: get()): in the end state nothing
   can move, both puts returned None, the feeder is alive and asleep, it wrote 12 and only 12,
   the get RETURNED 12, buffer and pipe are empty and the capacity semaphore is back at 2 *)
Example C16_later_put_is_delivered :
  QReach 2 qlost_state /\
  (forall i go, qstep P_queue.code qlost_state i go = None) /\
  map snd (qresults (nth 0 (qthr qlost_state) dqt)) = [V_NONE; V_NONE] /\
  plog (nth 0 (procs qlost_state) dps) = [1000; 12] /\
  (let f := nth 1 (qthr qlost_state) dqt in qfin f = false /\ qexited P_queue.code f = false /\ qpc f = 4%nat) /\
  sendlog qlost_state = [(0%nat, 12)] /\
  map snd (qresults (nth 2 (qthr qlost_state) dqt)) = [12] /\ getlog qlost_state = [12] /\
  buf (nth 0 (procs qlost_state) dps) = [] /\ pipe qlost_state = [] /\ qv 0 qlost_state = 2.
Proof. exact qlost_now_delivered. Qed.
Print Assumptions C16_later_put_is_delivered.

(* ---- JoinableQueue.join / task_done (PARTIAL: the counter and the two tests; the sleeping path
   of join -- wait / notify_all of the inner Condition -- is covered by monitors and by the
   search on the generated program only).  qt_unf t = (finished JoinableQueue.put calls of t that
   returned) - (finished task_done calls of t that did not raise ValueError) + 1 if t is a put
   past its _unfinished_tasks.release() - 1 if t is a task_done past its successful
   _unfinished_tasks.acquire(False).  So  sumz qt_unf (qthr g)  is the number of items put and
   not yet matched by a task_done, and it is what the semaphore holds: *)
Theorem C16_unfinished_count : forall M g, QReach M g -> qv 3 g = sumz qt_unf (qthr g) /\ 0 <= qv 3 g.
Proof. exact G_unfinished_count. Qed.
Print Assumptions C16_unfinished_count.

(* task_done raises ValueError("called too many times") exactly when every item put has already
   been matched; otherwise it takes one *)
Theorem C16_task_done_raises_iff_matched : forall M g i t g' e, QReach M g ->
    nth_error (qthr g) i = Some t -> qfin t = false -> qfeeder t = false ->
    qcid t = 4%nat -> qpc t = 1%nat ->
    qstep P_queue.code g i true = Some (g', e) ->
    (snd e = 0 <-> sumz qt_unf (qthr g) = 0) /\ (snd e = 1 <-> 0 < sumz qt_unf (qthr g)).
Proof. exact G_task_done_raises_iff_matched. Qed.
Print Assumptions C16_task_done_raises_iff_matched.

(* join's test, made under the condition's lock, reads "zero" (join then returns without
   waiting) exactly when every item put has been matched by a task_done *)
Theorem C16_join_exact_partial : forall M g i t g' e, QReach M g ->
    nth_error (qthr g) i = Some t -> qfin t = false -> qfeeder t = false ->
    qcid t = 5%nat -> qpc t = 1%nat ->
    qstep P_queue.code g i true = Some (g', e) ->
    (snd e = 1 <-> sumz qt_unf (qthr g) = 0).
Proof. exact G_join_test_iff_matched. Qed.
Print Assumptions C16_join_exact_partial.

(* reader lock, writer lock and each process's _notempty lock have one holder *)
Theorem C16_locks : forall M g, QReach M g ->
    qv 1 g + sumz qt_rl (qthr g) = 1 /\ qv 2 g + sumz qt_wl (qthr g) = 1 /\
    forall p, (p < length (procs g))%nat -> qv (nls p) g + sumz (qt_nl p) (qthr g) = 1.
Proof. exact G_queue_locks. Qed.
Print Assumptions C16_locks.

(* Full: on the scheduler choice `go` a put's capacity acquire fails exactly when the
   semaphore is 0 (with `timeout` a timed put may give up at its deadline) *)
Theorem C16_full_only_when_zero : forall M g i t g' e, QReach M g ->
    nth_error (qthr g) i = Some t -> qfin t = false -> qfeeder t = false ->
    (qcid t = 0%nat \/ qcid t = 3%nat) -> qpc t = 0%nat ->
    qstep P_queue.code g i true = Some (g', e) ->
    (snd e = 0 -> qv 0 g = 0) /\ (snd e = 1 -> 0 < qv 0 g).
Proof. exact G_full_only_when_zero. Qed.
Print Assumptions C16_full_only_when_zero.

(* Empty: a non-blocking get finds nothing exactly when the pipe is empty *)
Theorem C16_empty_only_when_nothing : forall g i t g' e,
    nth_error (qthr g) i = Some t -> qfin t = false -> qfeeder t = false ->
    qcid t = 1%nat -> qpc t = 19%nat ->
    qstep P_queue.code g i true = Some (g', e) ->
    (snd e = 0 <-> pipe g = []).
Proof. exact G_empty_only_when_nothing. Qed.
Print Assumptions C16_empty_only_when_nothing.

(* a put appends exactly the message it was given *)
Theorem C16_put_appends_its_argument : forall M g t, QReach M g -> In t (qthr g) ->
    qfeeder t = false -> qfin t = false -> (qcid t = 0%nat \/ qcid t = 3%nat) ->
    (qpc t = 0%nat \/ qpc t = 3%nat \/ qpc t = 6%nat) -> r2 (qrg t) = a2_of (qcur t).
Proof. exact G_put_appends_its_argument. Qed.
Print Assumptions C16_put_appends_its_argument.

(* non-vacuity: capacity 1, two producers and a consumer; message 11 has gone through the
   pipe and is held by the consumer (in transit), the second producer is blocked on the full
   queue *)
Example C16_witness :
  QReach 1 qex_state /\ qv 0 qex_state = 0 /\ getlog qex_state = [11] /\ sendlog qex_state = [(0%nat, 11)] /\
  sumz qt_tr (qthr qex_state) = 1 /\ pipe qex_state = [].
Proof. exact qex_witness. Qed.
