(* C16 -- queues lose nothing, duplicate nothing and respect their capacity.
   Only statements here; proofs live in Proofs/QueueProofs.v.

   Reading guide.  [P_queue.code] is the table of QueueProg programs compiled on THIS run from
   billiard/queues.py (Queue.put/get, JoinableQueue.put/task_done/join, SimpleQueue.put/get) and
   billiard/synchronize.py; p_feed (Queue._feed) is a hand translation emitted only while the
   source text of _feed is the expected one.  [QReach M g]: g is reachable from the initial world
   of a queue of capacity M by ANY number of processes -- each a main thread running any script
   of put / get / task_done / join calls plus its feeder thread -- under ANY schedule (timed
   acquires and polls may give up at any step), counters below SEM_VALUE_MAX.
   Ghost logs: plog p = messages process p appended to its buffer (= accepted by its puts), in
   order; slog p = messages its feeder wrote to the pipe, in order; sendlog / getlog = all
   messages written to / read from the pipe, in order.  Semaphores: 0 _sem, 1 _rlock, 2 _wlock,
   nls p = lock of process p's _notempty.  qt_tr = 1 for a thread holding a capacity token for
   a message that is neither buffered nor in the pipe (put before its append, feeder between
   pop and send, get between receive and the release of _sem). *)
From Coq Require Import ZArith List Bool.
From BV Require Import Model.SemProg Model.QueueProg Model.QueueCode Proofs.SemProgProofs Proofs.QueueInvProofs Proofs.QueueProofs.
From BV Require Gen.P_queue.
Import ListNotations.
Open Scope Z_scope.

(* ---- tie *)
Theorem C16_code_is_model : forall c, P_queue.code c = QueueCode.code c.
Proof. exact gen_qcode_eq. Qed.
Print Assumptions C16_code_is_model.

Theorem C16_world_is_model : forall m, P_queue.queue_sems m = QueueCode.queue_sems m.
Proof. exact gen_qworld_eq. Qed.
Print Assumptions C16_world_is_model.

(* ---- the invariant holds in every reachable state and is kept by every step (so no release
   of the capacity semaphore or of a lock ever raises) *)
Theorem C16_invariant : forall M g, QReach M g -> QInv M g.
Proof. exact qreach_inv. Qed.
Print Assumptions C16_invariant.

Theorem C16_step : forall M g i go g' e, QReach M g -> qsmall g ->
    qstep P_queue.code g i go = Some (g', e) -> QInv M g'.
Proof. exact G_queue_step. Qed.
Print Assumptions C16_step.

(* capacity accounting: sem + buffered + in pipe + in transit = maxsize; hence at most maxsize
   items are ever waiting *)
Theorem C16_capacity : forall M g, QReach M g ->
    qv 0 g + sumz blen (procs g) + Z.of_nat (length (pipe g)) + sumz qt_tr (qthr g) = M /\
    0 <= qv 0 g /\
    sumz blen (procs g) + Z.of_nat (length (pipe g)) <= M.
Proof. exact G_queue_capacity. Qed.
Print Assumptions C16_capacity.

(* order: per producer, appended = sent ++ held by the feeder ++ buffered (in order); the pipe
   is FIFO; the send log is a merge of the producers' send logs *)
Theorem C16_fifo : forall M g, QReach M g ->
    (forall p, plog (nth p (procs g) dps) =
               slog (nth p (procs g) dps) ++ ftr (nth (2 * p + 1) (qthr g) dqt) ++ buf (nth p (procs g) dps)) /\
    sendlog g = getlog g ++ pipe g /\
    (forall m, zcnt m (sendlog g) = sumz (fun ps => zcnt m (slog ps)) (procs g)).
Proof. exact G_queue_fifo. Qed.
Print Assumptions C16_fifo.

(* no loss, no duplication: each message, with its multiplicity among the accepted puts, is
   exactly: received + in the pipe + held by a feeder + buffered *)
Theorem C16_no_loss_no_dup : forall M g m, QReach M g ->
    sumz (fun ps => zcnt m (plog ps)) (procs g) =
    zcnt m (getlog g) + zcnt m (pipe g)
    + psum (fun p => zcnt m (ftr (nth (2 * p + 1) (qthr g) dqt))) (length (procs g))
    + sumz (fun ps => zcnt m (buf ps)) (procs g).
Proof. exact G_queue_no_loss_no_dup. Qed.
Print Assumptions C16_no_loss_no_dup.

(* reader lock, writer lock and each process's _notempty lock have one holder *)
Theorem C16_locks : forall M g, QReach M g ->
    qv 1 g + sumz qt_rl (qthr g) = 1 /\ qv 2 g + sumz qt_wl (qthr g) = 1 /\
    forall p, (p < length (procs g))%nat -> qv (nls p) g + sumz (qt_nl p) (qthr g) = 1.
Proof. exact G_queue_locks. Qed.
Print Assumptions C16_locks.

(* Full: on the scheduler choice `go` a put's capacity acquire fails exactly when the
   semaphore is 0 (with `timeout` a timed put may give up at its deadline) *)
Theorem C16_full_only_when_zero : forall M g i t g' e, QReach M g ->
    nth_error (qthr g) i = Some t -> qfin t = false -> qfeeder t = false ->
    (qcid t = 0%nat \/ qcid t = 3%nat) -> qpc t = 0%nat ->
    qstep P_queue.code g i true = Some (g', e) ->
    (snd e = 0 -> qv 0 g = 0) /\ (snd e = 1 -> 0 < qv 0 g).
Proof. exact G_full_only_when_zero. Qed.
Print Assumptions C16_full_only_when_zero.

(* Empty: a non-blocking get finds nothing exactly when the pipe is empty *)
Theorem C16_empty_only_when_nothing : forall g i t g' e,
    nth_error (qthr g) i = Some t -> qfin t = false -> qfeeder t = false ->
    qcid t = 1%nat -> qpc t = 17%nat ->
    qstep P_queue.code g i true = Some (g', e) ->
    (snd e = 0 <-> pipe g = []).
Proof. exact G_empty_only_when_nothing. Qed.
Print Assumptions C16_empty_only_when_nothing.

(* a put appends exactly the message it was given *)
Theorem C16_put_appends_its_argument : forall M g t, QReach M g -> In t (qthr g) ->
    qfeeder t = false -> qfin t = false -> (qcid t = 0%nat \/ qcid t = 3%nat) ->
    (qpc t = 0%nat \/ qpc t = 3%nat \/ qpc t = 6%nat) -> r2 (qrg t) = a2_of (qcur t).
Proof. exact G_put_appends_its_argument. Qed.
Print Assumptions C16_put_appends_its_argument.

(* non-vacuity: capacity 1, two producers and a consumer; message 11 has gone through the
   pipe and is held by the consumer (in transit), the second producer is blocked on the full
   queue *)
Example C16_witness :
  QReach 1 qex_state /\ qv 0 qex_state = 0 /\ getlog qex_state = [11] /\ sendlog qex_state = [11] /\
  sumz qt_tr (qthr qex_state) = 1 /\ pipe qex_state = [].
Proof. exact qex_witness. Qed.
