(* C20 -- manager proxies behave like the local object; referents live as long as proxies.
   Only statements here; proofs live in Proofs/ManagerProofs.v and Proofs/ManagerTreeProofs.v.
   Gen.G_manager is regenerated from /repo/billiard/managers.py on every run. *)
From Coq Require Import String ZArith List Bool.
From BV Require Import Lib.ManagerLib Gen.G_manager Model.Manager Proofs.ManagerTreeProofs Proofs.ManagerProofs.
Import ListNotations.
Open Scope Z_scope.

(* ---------------------------------------------------------------- tie to the code *)
(* the reference-count code of Server.incref/decref/create as translated on this run *)
Theorem C20_code_incref : forall (s : st) id, G_manager.incref s id = Manager.incref s id.
Proof. exact gen_incref_eq. Qed.
Print Assumptions C20_code_incref.

Theorem C20_code_decref : forall (s : st) id, G_manager.decref s id = Manager.decref s id.
Proof. exact gen_decref_eq. Qed.
Print Assumptions C20_code_decref.

Theorem C20_code_create : forall (s : st) id e,
    G_manager.create_tail s id e = Manager.create_tail s id e.
Proof. exact gen_create_tail_eq. Qed.
Print Assumptions C20_code_create.

(* executing the control skeletons of Server.handle_request / Server.serve_client as
   regenerated on this run computes Manager.handle_request (hence Manager.serve, dispatch) *)
Theorem C20_code_skeletons : forall s c,
    run_trees G_manager.serve_body G_manager.hr_body s c = handle_request s c.
Proof. exact generated_skeletons_compute_model. Qed.
Print Assumptions C20_code_skeletons.

(* serve_client is referenced only by accept_connection, handle_request only by accepter;
   accept_connection is public, serve_client is not *)
Theorem C20_code_entry_points :
  G_manager.serve_client_callers = Manager.serve_client_callers /\
  G_manager.handle_request_callers = Manager.handle_request_callers /\
  In "accept_connection"%string G_manager.server_public /\
  ~ In "serve_client"%string G_manager.server_public.
Proof. exact gen_entry_points. Qed.
Print Assumptions C20_code_entry_points.

(* BaseProxy.__init__ registers the after-fork hook unconditionally: a proxy rebuilt with
   incref=False inside a spawned / forkserver child still takes its reference there *)
Theorem C20_code_after_fork_hook :
  G_manager.after_fork_hook_unconditional = true /\ G_manager.incref_guarded_then_hook = true.
Proof. exact gen_after_fork_hook. Qed.
Print Assumptions C20_code_after_fork_hook.

(* the `exposed` sets computed by the real Server.create on this run, and the fallback names *)
Theorem C20_code_exposed : forall m,
    exposed_of TList m = smem (mname m) G_manager.exposed_list /\
    exposed_of TDict m = smem (mname m) G_manager.exposed_dict /\
    exposed_of TValue m = smem (mname m) G_manager.exposed_value /\
    exposed_of TIter m = smem (mname m) G_manager.exposed_iter /\
    exposed_of TAutoList m = smem (mname m) G_manager.exposed_autolist /\
    is_fallback m = smem (mname m) G_manager.fallback_names.
Proof. exact exposed_tie. Qed.
Print Assumptions C20_code_exposed.

(* a typeid registered without a proxy type (the way SyncManager registers Queue): the class
   AutoProxy() builds offers exactly what Server.create exposed (public_methods) on this run *)
Theorem C20_code_autoproxy_offered :
  G_manager.proxy_methods_autolist = G_manager.exposed_autolist /\
  forall m, offered TAutoList m = smem (mname m) G_manager.proxy_methods_autolist.
Proof. exact autoproxy_offered_tie. Qed.
Print Assumptions C20_code_autoproxy_offered.

(* ------------------------------------------------ referents live as long as proxies *)
(* every history of create / new-proxy / release / drop / call events from any number of
   client processes: refcount id = live proxies to id + creations in progress (+ lost replies) *)
Theorem C20_refcount : forall evs id,
    Forall ev_ok evs ->
    let y := fst (crun init_sys evs) in refcount (y_srv y) id = holders y id.
Proof. exact refcount_is_holders. Qed.
Print Assumptions C20_refcount.

Theorem C20_in_table_iff_held : forall evs id,
    Forall ev_ok evs -> id <> 0 ->
    let y := fst (crun init_sys evs) in
    dmem (objs (y_srv y)) id = true <-> 1 <= holders y id.
Proof. exact in_table_iff_held. Qed.
Print Assumptions C20_in_table_iff_held.

Theorem C20_drop_disposes_exactly_last : forall y k p,
    sysinv y -> nth_error (y_proxies y) k = Some p ->
    let y' := fst (cstep y (K_drop k)) in
    holders y' (p_id p) = holders y (p_id p) - 1 /\
    (holders y (p_id p) = 1 -> dmem (objs (y_srv y')) (p_id p) = false) /\
    (1 < holders y (p_id p) -> dget (objs (y_srv y')) (p_id p) = dget (objs (y_srv y)) (p_id p)) /\
    (forall id', id' <> p_id p -> dget (objs (y_srv y')) id' = dget (objs (y_srv y)) id').
Proof. exact drop_disposes_exactly_last. Qed.
Print Assumptions C20_drop_disposes_exactly_last.

Theorem C20_release_disposes_exactly_last : forall y k id,
    sysinv y -> nth_error (y_pending y) k = Some id ->
    let y' := fst (cstep y (K_release k)) in
    holders y' id = holders y id - 1 /\
    (holders y id = 1 -> dmem (objs (y_srv y')) id = false) /\
    (1 < holders y id -> dget (objs (y_srv y')) id = dget (objs (y_srv y)) id) /\
    (forall id', id' <> id -> dget (objs (y_srv y')) id' = dget (objs (y_srv y)) id').
Proof. exact release_disposes_exactly_last. Qed.
Print Assumptions C20_release_disposes_exactly_last.

Theorem C20_reachable_states_invariant : forall evs y,
    Forall ev_ok evs -> sysinv y -> sysinv (fst (crun y evs)).
Proof. exact crun_inv. Qed.
Print Assumptions C20_reachable_states_invariant.

Theorem C20_untouched_referent_stable : forall y ev id,
    sysinv y -> ev_ok ev -> ~ touches y ev id ->
    dget (objs (y_srv (fst (cstep y ev)))) id = dget (objs (y_srv y)) id.
Proof. exact untouched_referent_stable. Qed.
Print Assumptions C20_untouched_referent_stable.

(* --------------------------------------------- proxies behave like the local object *)
Theorem C20_dispatch_executes : forall s id m a newid o t,
    dget (objs s) id = Some (SlotE o t) ->
    exposed_of t m = true -> has_attr t m = true -> m2t_of t m = None ->
    let r := apply_local o t m a in
    fst (dispatch s id m a newid) = reply_of_local r /\
    dget (objs (snd (dispatch s id m a newid))) id = Some (SlotE (obj_of_local o r) t) /\
    (forall id', id' <> id -> dget (objs (snd (dispatch s id m a newid))) id' = dget (objs s) id') /\
    rcs (snd (dispatch s id m a newid)) = rcs s.
Proof. exact dispatch_executes. Qed.
Print Assumptions C20_dispatch_executes.

Theorem C20_dispatch_executes_proxy : forall s id m a newid o t t2,
    inv s -> newid <> 0 ->
    dget (objs s) id = Some (SlotE o t) ->
    exposed_of t m = true -> has_attr t m = true -> m2t_of t m = Some t2 ->
    match apply_local o t m a with
    | LExn e => dispatch s id m a newid = (R_error e, s)
    | LRet (VList l) o' =>
      exists s', dispatch s id m a newid = (R_proxy newid t2, s') /\
                 dget (objs s') newid = Some (SlotE (OList l) t2) /\ refcount_upd s s' newid 1
    | LRet VSelf o' =>
      exists s', dispatch s id m a newid = (R_proxy id t2, s') /\
                 dget (objs s') id = Some (SlotE o' t2) /\ refcount_upd s s' id 1
    | _ => True
    end.
Proof. exact dispatch_executes_proxy. Qed.
Print Assumptions C20_dispatch_executes_proxy.

Theorem C20_dispatch_refuses : forall s id m a newid,
    (dget (objs s) id = None -> dispatch s id m a newid = (R_traceback E_Key, s)) /\
    (dget (objs s) id = Some Slot0 -> dispatch s id m a newid = (R_traceback E_Value, s)) /\
    (forall o t, dget (objs s) id = Some (SlotE o t) ->
                 exposed_of t m && has_attr t m = false ->
                 dispatch s id m a newid = (fallback o m a, s) /\
                 (is_fallback m = false -> fallback o m a = R_traceback E_Key)).
Proof. exact dispatch_refuses. Qed.
Print Assumptions C20_dispatch_refuses.

(* "a proxy behaves like the local object": through a live proxy, every method the server
   exposes ... *)
Theorem C20_proxy_call_refines_local_partial : forall y k p m a newid,
    sysinv y -> nth_error (y_proxies y) k = Some p ->
    exists o t,
      dget (objs (y_srv y)) (p_id p) = Some (SlotE o t) /\
      (exposed_of t m = true -> has_attr t m = true -> m2t_of t m = None ->
       let r := apply_local o t m a in
       let d := dispatch (y_srv y) (p_id p) m a newid in
       fst d = reply_of_local r /\
       dget (objs (snd d)) (p_id p) = Some (SlotE (obj_of_local o r) t) /\
       (forall id', id' <> p_id p -> dget (objs (snd d)) id' = dget (objs (y_srv y)) id') /\
       rcs (snd d) = rcs (y_srv y)).
Proof. exact proxy_call_refines_local. Qed.
Print Assumptions C20_proxy_call_refines_local_partial.

(* ... for every method the proxy class offers (the Iterator typeid included, since the repair
   of IteratorProxy._exposed_ in /repo) *)
Theorem C20_proxy_call_refines_local : forall y k p m a newid,
    sysinv y -> nth_error (y_proxies y) k = Some p ->
    exists o t,
      dget (objs (y_srv y)) (p_id p) = Some (SlotE o t) /\
      (offered t m = true -> has_attr t m = true -> m2t_of t m = None ->
       let r := apply_local o t m a in
       let d := dispatch (y_srv y) (p_id p) m a newid in
       fst d = reply_of_local r /\
       dget (objs (snd d)) (p_id p) = Some (SlotE (obj_of_local o r) t) /\
       (forall id', id' <> p_id p -> dget (objs (snd d)) id' = dget (objs (y_srv y)) id') /\
       rcs (snd d) = rcs (y_srv y)).
Proof. exact proxy_call_refines_local_offered. Qed.
Print Assumptions C20_proxy_call_refines_local.

(* what IteratorProxy offers is what the real Server.create exposes on this run (fails to
   compile if the `_exposed` typo returns: exposed_iter would be empty) *)
Theorem C20_iterator_offered_is_exposed :
  smem "__next__" G_manager.proxy_methods_iter = true /\
  smem "__next__" G_manager.exposed_iter = true /\
  forall m, offered TIter m = smem (mname m) G_manager.exposed_iter.
Proof. exact iterator_offered_tie. Qed.
Print Assumptions C20_iterator_offered_is_exposed.

(* next(proxy) = next(local iterator): next element and the iterator advanced, or StopIteration *)
Theorem C20_iterator_next_like_local : forall s id l newid,
    dget (objs s) id = Some (SlotE (OIter l) TIter) ->
    dispatch s id M_next [] newid =
    match l with
    | [] => (R_error E_StopIteration, s)
    | x :: r => (R_return (VInt x), set_obj s id (OIter r) TIter)
    end.
Proof. exact iterator_next_like_local. Qed.
Print Assumptions C20_iterator_next_like_local.

(* the witness that refuted C20 before the repair, with its behaviour now *)
Theorem C20_iterator_witness_now_holds :
  Forall ev_ok iter_witness /\
  let y := fst (crun init_sys iter_witness) in
  y_proxies y = [mk_proxy 7 1 true] /\
  dget (objs (y_srv y)) 1 = Some (SlotE (OIter [4; 5]) TIter) /\
  fst (dispatch (y_srv y) 1 M_next [] 9) = R_return (VInt 4) /\
  dget (objs (snd (dispatch (y_srv y) 1 M_next [] 9))) 1 = Some (SlotE (OIter [5]) TIter).
Proof. exact iterator_witness_now_holds. Qed.
Print Assumptions C20_iterator_witness_now_holds.

(* a proxy handed to a child inside the Process object counts as a live proxy of its own *)
Theorem C20_inherited_proxy_takes_reference : forall y k p pid,
    sysinv y -> nth_error (y_proxies y) k = Some p ->
    let y' := fst (hstep y (H_inherit k pid)) in
    snd (hstep y (H_inherit k pid)) = CO_ok /\
    y_proxies y' = y_proxies y ++ [mk_proxy pid (p_id p) false] /\
    refcount (y_srv y') (p_id p) = refcount (y_srv y) (p_id p) + 1 /\
    holders y' (p_id p) = holders y (p_id p) + 1 /\
    dget (objs (y_srv y')) (p_id p) = dget (objs (y_srv y)) (p_id p).
Proof. exact inherit_takes_reference. Qed.
Print Assumptions C20_inherited_proxy_takes_reference.

(* user-level operations on real proxies (create / copy / drop / call incl. the construction
   of result proxies) keep the invariant *)
Theorem C20_user_operations_invariant : forall l y,
    Forall hop_ok l -> sysinv y -> sysinv (fst (hrun y l)).
Proof. exact hrun_inv. Qed.
Print Assumptions C20_user_operations_invariant.

(* "disposed of once the last proxy is released" is refuted for results of proxy-returning
   methods called through a proxy that was passed to another process *)
Theorem C20_child_proxy_result_leaks_refuted :
  Forall hop_ok leak_witness /\
  let (y, obs) := hrun init_sys leak_witness in
  obs = [CO_ok; CO_ok; CO_fail E_Attribute; CO_ok; CO_ok] /\
  y_proxies y = [] /\ y_pending y = [2] /\
  dget (objs (y_srv y)) 2 = Some (SlotE (OList [7]) TList) /\ refcount (y_srv y) 2 = 1 /\
  dmem (objs (y_srv y)) 1 = false.
Proof. exact child_proxy_result_leaks_refuted. Qed.
Print Assumptions C20_child_proxy_result_leaks_refuted.

(* ------------------------------------------------ arbitrary (also misbehaving) clients *)
Theorem C20_server_tables_consistent : forall l, Forall conn_ok l -> inv (run_conns init_st l).
Proof. exact server_tables_consistent. Qed.
Print Assumptions C20_server_tables_consistent.

Theorem C20_unknown_ident_refused : forall (s : st) id,
    dget (rcs s) id = None ->
    decref s id = Exc E_Key s /\ incref s id = Exc E_Key s.
Proof. exact unknown_ident_refused. Qed.
Print Assumptions C20_unknown_ident_refused.

(* ------------------------------------------------------------------ the key first *)
(* stated on the skeleton generated from the source: a failed handshake (either half, any
   exception) => no request is read, the tables are unchanged, only tracebacks are sent *)
Theorem C20_auth_first : forall s c,
    c_deliver c <> None \/ c_answer c <> None ->
    let r := run_trees G_manager.serve_body G_manager.hr_body s c in
    fst r = s /\ h_read (snd r) = false /\ h_exit (snd r) = None /\ only_tracebacks (h_out (snd r)).
Proof. exact generated_auth_first. Qed.
Print Assumptions C20_auth_first.

Theorem C20_serve_needs_handshake : forall s c,
    h_read (snd (handle_request s c)) = true -> c_deliver c = None /\ c_answer c = None.
Proof. exact serve_needs_handshake. Qed.
Print Assumptions C20_serve_needs_handshake.

(* non-vacuity: two processes hold proxies to one list; a call through either sees the other's
   effect; the referent disappears with the second drop and not with the first *)
Example C20_witness :
  let evs := [K_create TList [AL [1; 2]] 1; K_proxy 10 1 true; K_release 0; K_proxy 11 1 false;
              K_call 0 M_append [AZ 3] 9 0; K_call 1 M_pop [] 9 0; K_drop 0] in
  Forall ev_ok evs /\
  let (y, obs) := crun init_sys evs in
  obs = [CO_reply (R_return (VCreated 1)); CO_ok; CO_ok; CO_ok;
         CO_reply (R_return VNone); CO_reply (R_return (VInt 3)); CO_ok] /\
  dget (objs (y_srv y)) 1 = Some (SlotE (OList [1; 2]) TList) /\ refcount (y_srv y) 1 = 1 /\
  holders y 1 = 1 /\
  dmem (objs (y_srv (fst (cstep y (K_drop 0))))) 1 = false.
Proof. split; [repeat constructor; discriminate|vm_compute; repeat split; reflexivity]. Qed.
