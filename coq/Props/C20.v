(* C20 -- manager proxies behave like the local object; referents live as long as proxies.
   Only statements here; proofs live in Proofs/ManagerProofs.v, Proofs/ManagerLifeProofs.v and
   Proofs/ManagerTreeProofs.v.
   Gen.G_manager is regenerated from /repo/billiard/managers.py on every run. *)
From Coq Require Import String ZArith List Bool.
From BV Require Import Lib.ManagerLib Gen.G_manager Model.Manager Proofs.ManagerTreeProofs Proofs.ManagerProofs
     Proofs.ManagerLifeProofs.
Import ListNotations.
Open Scope Z_scope.

(* ---------------------------------------------------------------- tie to the code *)
(* the reference-count code of Server.incref/decref/create as translated on this run *)
Theorem C20_code_incref : forall (s : st) id, G_manager.incref s id = Manager.incref s id.
Proof. exact gen_incref_eq. Qed.
Print Assumptions C20_code_incref.

Theorem C20_code_decref : forall (s : st) id, G_manager.decref s id = Manager.decref s id.
Proof. exact gen_decref_eq. Qed.
Print Assumptions C20_code_decref.

Theorem C20_code_create : forall (s : st) id e,
    G_manager.create_tail s id e = Manager.create_tail s id e.
Proof. exact gen_create_tail_eq. Qed.
Print Assumptions C20_code_create.

(* executing the control skeletons of Server.handle_request / Server.serve_client as
   regenerated on this run computes Manager.handle_request (hence Manager.serve, dispatch) *)
Theorem C20_code_skeletons : forall s c,
    run_trees G_manager.serve_body G_manager.hr_body s c = handle_request s c.
Proof. exact generated_skeletons_compute_model. Qed.
Print Assumptions C20_code_skeletons.

(* serve_client is referenced only by accept_connection, handle_request only by accepter;
   accept_connection is public, serve_client is not *)
Theorem C20_code_entry_points :
  G_manager.serve_client_callers = Manager.serve_client_callers /\
  G_manager.handle_request_callers = Manager.handle_request_callers /\
  In "accept_connection"%string G_manager.server_public /\
  ~ In "serve_client"%string G_manager.server_public.
Proof. exact gen_entry_points. Qed.
Print Assumptions C20_code_entry_points.

(* BaseProxy.__init__ registers the after-fork hook unconditionally: a proxy rebuilt with
   incref=False inside a spawned / forkserver child still takes its reference there *)
Theorem C20_code_after_fork_hook :
  G_manager.after_fork_hook_unconditional = true /\ G_manager.incref_guarded_then_hook = true.
Proof. exact gen_after_fork_hook. Qed.
Print Assumptions C20_code_after_fork_hook.

(* The lock.  The translation of incref / decref / create above is sequential (it flattens
   `with self.mutex:`), so the lock -- the only code-level mechanism that makes one of them atomic
   among the server's threads -- is checked structurally on the source found on this run: every
   access to id_to_obj / id_to_refcount in the three functions (stores, deletes, the reads of the
   check-then-act tests) and create's call of incref lie inside a `with self.mutex:` block; the
   mutex is a threading.RLock made once in __init__ (create re-enters it through incref); no other
   method of Server stores into the tables.  Removing or narrowing a lock makes this fail.  (The
   driver checks the same dynamically: no table update of the real Server happens while the
   calling thread does not hold Server.mutex.) *)
Theorem C20_code_mutex :
  G_manager.incref_under_mutex = true /\ G_manager.decref_under_mutex = true /\
  G_manager.create_under_mutex = true /\ G_manager.mutex_is_rlock = true /\
  G_manager.table_writers = ["__init__"; "create"; "decref"; "incref"]%string.
Proof. exact gen_mutex_discipline. Qed.
Print Assumptions C20_code_mutex.

(* the `exposed` sets computed by the real Server.create on this run, and the fallback names *)
Theorem C20_code_exposed : forall m,
    exposed_of TList m = smem (mname m) G_manager.exposed_list /\
    exposed_of TDict m = smem (mname m) G_manager.exposed_dict /\
    exposed_of TValue m = smem (mname m) G_manager.exposed_value /\
    exposed_of TIter m = smem (mname m) G_manager.exposed_iter /\
    exposed_of TAutoList m = smem (mname m) G_manager.exposed_autolist /\
    is_fallback m = smem (mname m) G_manager.fallback_names.
Proof. exact exposed_tie. Qed.
Print Assumptions C20_code_exposed.

(* a typeid registered without a proxy type (the way SyncManager registers Queue): the class
   AutoProxy() builds offers exactly what Server.create exposed (public_methods) on this run *)
Theorem C20_code_autoproxy_offered :
  G_manager.proxy_methods_autolist = G_manager.exposed_autolist /\
  forall m, offered TAutoList m = smem (mname m) G_manager.proxy_methods_autolist.
Proof. exact autoproxy_offered_tie. Qed.
Print Assumptions C20_code_autoproxy_offered.

(* ------------------------------------------------ referents live as long as proxies *)
(* every history of create / new-proxy / release / drop / call events from any number of
   client processes: refcount id = live proxies to id + creations in progress (+ lost replies) *)
Theorem C20_refcount : forall evs id,
    Forall ev_ok evs ->
    let y := fst (crun init_sys evs) in refcount (y_srv y) id = holders y id.
Proof. exact refcount_is_holders. Qed.
Print Assumptions C20_refcount.

Theorem C20_in_table_iff_held : forall evs id,
    Forall ev_ok evs -> id <> 0 ->
    let y := fst (crun init_sys evs) in
    dmem (objs (y_srv y)) id = true <-> 1 <= holders y id.
Proof. exact in_table_iff_held. Qed.
Print Assumptions C20_in_table_iff_held.

Theorem C20_drop_disposes_exactly_last : forall y k p,
    sysinv y -> nth_error (y_proxies y) k = Some p ->
    let y' := fst (cstep y (K_drop k)) in
    holders y' (p_id p) = holders y (p_id p) - 1 /\
    (holders y (p_id p) = 1 -> dmem (objs (y_srv y')) (p_id p) = false) /\
    (1 < holders y (p_id p) -> dget (objs (y_srv y')) (p_id p) = dget (objs (y_srv y)) (p_id p)) /\
    (forall id', id' <> p_id p -> dget (objs (y_srv y')) id' = dget (objs (y_srv y)) id').
Proof. exact drop_disposes_exactly_last. Qed.
Print Assumptions C20_drop_disposes_exactly_last.

Theorem C20_release_disposes_exactly_last : forall y k id,
    sysinv y -> nth_error (y_pending y) k = Some id ->
    let y' := fst (cstep y (K_release k)) in
    holders y' id = holders y id - 1 /\
    (holders y id = 1 -> dmem (objs (y_srv y')) id = false) /\
    (1 < holders y id -> dget (objs (y_srv y')) id = dget (objs (y_srv y)) id) /\
    (forall id', id' <> id -> dget (objs (y_srv y')) id' = dget (objs (y_srv y)) id').
Proof. exact release_disposes_exactly_last. Qed.
Print Assumptions C20_release_disposes_exactly_last.

Theorem C20_reachable_states_invariant : forall evs y,
    Forall ev_ok evs -> sysinv y -> sysinv (fst (crun y evs)).
Proof. exact crun_inv. Qed.
Print Assumptions C20_reachable_states_invariant.

Theorem C20_untouched_referent_stable : forall y ev id,
    sysinv y -> ev_ok ev -> ~ touches y ev id ->
    dget (objs (y_srv (fst (cstep y ev)))) id = dget (objs (y_srv y)) id.
Proof. exact untouched_referent_stable. Qed.
Print Assumptions C20_untouched_referent_stable.

(* "DISPOSED OF ONCE THE LAST PROXY IS RELEASED", positively.  For every history of user-level
   operations (create, copy, inherit, unpickle a stale token, drop, call -- by any number of
   processes) in which no step loses a reference -- [leaks]: a proxy-returning method called
   through a proxy without a manager (the known defect, refuted below); [H_vanish]: a holder that
   disappears without a decref (killed client, swallowed decref) -- nothing is left in progress or
   orphaned, so: the count of every ident is the number of LIVE PROXIES to it, a referent is in the
   server's table iff some live proxy holds it, and once every proxy is released the tables are
   the initial ones (number_of_objects() = 0).  This replaces "iff proxies + pending + orphans >= 1"
   (C20_in_table_iff_held, kept for arbitrary request-grain histories) at user level. *)
Theorem C20_disposed_iff_no_live_proxy : forall l,
    Forall hop_ok l -> leaks_any init_sys l = false -> no_vanish l ->
    let y := fst (hrun init_sys l) in
    y_pending y = [] /\ y_orphans y = [] /\
    (forall id, refcount (y_srv y) id = count_z id (map p_id (y_proxies y))) /\
    (forall id, id <> 0 ->
                (dmem (objs (y_srv y)) id = true <-> exists p, In p (y_proxies y) /\ p_id p = id)) /\
    (y_proxies y = [] ->
     objs (y_srv y) = [(0, Slot0)] /\ rcs (y_srv y) = [] /\ number_of_objects (y_srv y) = 0).
Proof. exact disposed_iff_no_live_proxy. Qed.
Print Assumptions C20_disposed_iff_no_live_proxy.

(* the same from any reachable state in which nothing is in progress or orphaned *)
Theorem C20_disposed_iff_no_live_proxy_from : forall l y0,
    sysinv y0 -> drained y0 -> Forall hop_ok l -> leaks_any y0 l = false -> no_vanish l ->
    let y := fst (hrun y0 l) in
    drained y /\
    (forall id, refcount (y_srv y) id = count_z id (map p_id (y_proxies y))) /\
    (forall id, id <> 0 ->
                (dmem (objs (y_srv y)) id = true <-> exists p, In p (y_proxies y) /\ p_id p = id)).
Proof. exact disposed_iff_no_live_proxy_from. Qed.
Print Assumptions C20_disposed_iff_no_live_proxy_from.

(* the drop of the only live proxy disposes of the referent, the drop of one of several does not *)
Theorem C20_last_drop_disposes : forall y k p,
    sysinv y -> drained y -> nth_error (y_proxies y) k = Some p ->
    let y' := fst (hstep y (H_drop k)) in
    (count_z (p_id p) (map p_id (y_proxies y)) = 1 -> dmem (objs (y_srv y')) (p_id p) = false) /\
    (1 < count_z (p_id p) (map p_id (y_proxies y)) ->
     dget (objs (y_srv y')) (p_id p) = dget (objs (y_srv y)) (p_id p)).
Proof. exact last_drop_disposes. Qed.
Print Assumptions C20_last_drop_disposes.

(* the two excluded steps are the exact boundary.  (a) the leaking call: the caller gets
   AttributeError and one creation stays in progress ... *)
Theorem C20_leaking_step_leaves_creation : forall y h,
    leaks y h = true ->
    exists rid, y_pending (fst (hstep y h)) = y_pending y ++ [rid] /\
                snd (hstep y h) = CO_fail E_Attribute.
Proof. exact leaking_step_leaves_creation. Qed.
Print Assumptions C20_leaking_step_leaves_creation.

(* ... (b) a holder that vanishes without a decref (the code: a killed client's serving thread
   reads EOF and exits, BaseProxy._decref skips / swallows the request): the server is not told,
   and the referent stays in the table with a positive count WHATEVER happens afterwards.  This is
   what the code does (driver: a SIGKILLed child holding proxies); the property's "disposed of once
   the last one is released" does not cover a proxy that is never released. *)
Theorem C20_vanished_holder_never_released : forall y k p l,
    sysinv y -> nth_error (y_proxies y) k = Some p -> Forall hop_ok l ->
    let y1 := fst (hstep y (H_vanish k)) in
    y_srv y1 = y_srv y /\ y_proxies y1 = remove_nth k (y_proxies y) /\
    dmem (objs (y_srv (fst (hrun y1 l)))) (p_id p) = true /\
    1 <= refcount (y_srv (fst (hrun y1 l))) (p_id p).
Proof. exact vanished_holder_never_released. Qed.
Print Assumptions C20_vanished_holder_never_released.

Theorem C20_orphan_never_disposed : forall l y id,
    sysinv y -> Forall hop_ok l -> 1 <= count_z id (y_orphans y) ->
    dmem (objs (y_srv (fst (hrun y l)))) id = true /\ 1 <= refcount (y_srv (fst (hrun y l))) id.
Proof. exact orphan_never_disposed. Qed.
Print Assumptions C20_orphan_never_disposed.

(* --------------------------------------------- proxies behave like the local object *)
(* READ THIS FIRST.  [apply_local] is both the specification of a method on a local object and
   what the model's server executes for the statement `res = function(...)`; that it is CPython's
   list / dict / Value / iterator is established by the correspondence (server, client, real
   processes), not by a theorem.  What IS proved about "behaves like the local object":
   (1) C20_proxy_history_is_local_history -- over ALL request-grain histories of any number of
       clients, the observations made through the proxies of one referent are those of ONE local
       object subjected to the same calls in the same order, whatever the other clients do to
       other referents, however proxies are created, copied and dropped meanwhile: nothing but
       the calls addressed to a referent ever changes it, no call is lost, duplicated or
       applied to another referent, the value is never reset;
   (2) the per-request routing and frame facts below (which referent a request touches, that
       nothing else changes, when nothing is executed at all), tied to the source through the
       generated skeleton (C20_code_skeletons). *)
Theorem C20_proxy_history_is_local_history : forall evs y id o t,
    sysinv y -> dget (objs (y_srv y)) id = Some (SlotE o t) ->
    (forall m, m2t_of t m = None) ->
    Forall ev_ok evs -> Forall (fresh_for id) evs ->
    let tr := calls_on id y evs in
    let y' := fst (crun y evs) in
    map snd tr = fst (local_run o t (map fst tr)) /\
    (dmem (objs (y_srv y')) id = true ->
     dget (objs (y_srv y')) id = Some (SlotE (snd (local_run o t (map fst tr))) t)).
Proof. exact proxy_history_is_local_history. Qed.
Print Assumptions C20_proxy_history_is_local_history.

(* from the creation on: the local object starts as the value Server.create built *)
Theorem C20_created_referent_history_is_local : forall evs y ty a newid o,
    sysinv y -> newid <> 0 -> mk_obj ty a = inl (Some o) -> (forall m, m2t_of ty m = None) ->
    Forall ev_ok evs -> Forall (fresh_for newid) evs ->
    let y0 := fst (cstep y (K_create ty a newid)) in
    let tr := calls_on newid y0 evs in
    map snd tr = fst (local_run o ty (map fst tr)) /\
    (dmem (objs (y_srv (fst (crun y0 evs)))) newid = true ->
     dget (objs (y_srv (fst (crun y0 evs)))) newid
     = Some (SlotE (snd (local_run o ty (map fst tr))) ty)).
Proof. exact created_referent_history_is_local. Qed.
Print Assumptions C20_created_referent_history_is_local.

(* characteristic laws of the local-object specification, for ALL values (independent of how
   apply_local is written): append/pop round trip, dict store/lookup/delete, Value set/get,
   an iterator yields its items in order and then StopIteration for ever *)
Theorem C20_local_spec_laws :
  (forall l x,
      local_run (OList l) TList [(M_append, [AZ x], O); (M_len, [], O); (M_pop, [], O); (M_len, [], O)]
      = ([ok VNone; ok (VInt (Z.of_nat (length l) + 1)); ok (VInt x); ok (VInt (Z.of_nat (length l)))],
         OList l)) /\
  (forall d k v,
      fst (local_run (ODict d) TDict
                     [(M_setitem, [AZ k; AZ v], O); (M_getitem, [AZ k], O); (M_contains, [AZ k], O);
                      (M_delitem, [AZ k], O); (M_contains, [AZ k], O); (M_getitem, [AZ k], O)])
      = [ok VNone; ok (VInt v); ok (VBool true); ok VNone; ok (VBool false); CO_reply (R_error E_Key)]) /\
  (forall v0 x,
      local_run (OVal v0) TValue [(M_set, [AZ x], O); (M_get, [], O)] = ([ok VNone; ok (VInt x)], OVal x)) /\
  (forall l,
      fst (local_run (OIter l) TIter (repeat (M_next, [], O) (length l) ++ [(M_next, [], O); (M_next, [], O)]))
      = map (fun x => ok (VInt x)) l ++ [CO_reply (R_error E_StopIteration); CO_reply (R_error E_StopIteration)]).
Proof.
  exact (conj law_list_append_pop (conj law_dict_set_get_del (conj law_value_set_get law_iter_yields_items))).
Qed.
Print Assumptions C20_local_spec_laws.

(* one step of it: a request addressed to a live referent computes the local step on THAT
   referent's current value and stores the result in THAT slot *)
Theorem C20_dispatch_is_local_step : forall s id m a newid o t,
    dget (objs s) id = Some (SlotE o t) -> m2t_of t m = None ->
    fst (dispatch s id m a newid) = fst (local_step o t m a) /\
    dget (objs (snd (dispatch s id m a newid))) id = Some (SlotE (snd (local_step o t m a)) t).
Proof. exact dispatch_is_local_step. Qed.
Print Assumptions C20_dispatch_is_local_step.

(* ROUTING AND FRAME of one request (formerly C20_dispatch_executes; the equation
   "reply = reply_of_local (apply_local ...)" in it is definitional, see above): live ident +
   exposed attribute => the method is applied to the value stored under THAT ident, the result
   is stored back under THAT ident, no other entry and no count changes *)
Theorem C20_dispatch_routes_to_referent : forall s id m a newid o t,
    dget (objs s) id = Some (SlotE o t) ->
    exposed_of t m = true -> has_attr t m = true -> m2t_of t m = None ->
    let r := apply_local o t m a in
    fst (dispatch s id m a newid) = reply_of_local r /\
    dget (objs (snd (dispatch s id m a newid))) id = Some (SlotE (obj_of_local o r) t) /\
    (forall id', id' <> id -> dget (objs (snd (dispatch s id m a newid))) id' = dget (objs s) id') /\
    rcs (snd (dispatch s id m a newid)) = rcs s.
Proof. exact dispatch_executes. Qed.
Print Assumptions C20_dispatch_routes_to_referent.

Theorem C20_dispatch_executes_proxy : forall s id m a newid o t t2,
    inv s -> newid <> 0 ->
    dget (objs s) id = Some (SlotE o t) ->
    exposed_of t m = true -> has_attr t m = true -> m2t_of t m = Some t2 ->
    match apply_local o t m a with
    | LExn e => dispatch s id m a newid = (R_error e, s)
    | LRet (VList l) o' =>
      exists s', dispatch s id m a newid = (R_proxy newid t2, s') /\
                 dget (objs s') newid = Some (SlotE (OList l) t2) /\ refcount_upd s s' newid 1
    | LRet VSelf o' =>
      exists s', dispatch s id m a newid = (R_proxy id t2, s') /\
                 dget (objs s') id = Some (SlotE o' t2) /\ refcount_upd s s' id 1
    | _ => True
    end.
Proof. exact dispatch_executes_proxy. Qed.
Print Assumptions C20_dispatch_executes_proxy.

Theorem C20_dispatch_refuses : forall s id m a newid,
    (dget (objs s) id = None -> dispatch s id m a newid = (R_traceback E_Key, s)) /\
    (dget (objs s) id = Some Slot0 -> dispatch s id m a newid = (R_traceback E_Value, s)) /\
    (forall o t, dget (objs s) id = Some (SlotE o t) ->
                 exposed_of t m && has_attr t m = false ->
                 dispatch s id m a newid = (fallback o m a, s) /\
                 (is_fallback m = false -> fallback o m a = R_traceback E_Key)).
Proof. exact dispatch_refuses. Qed.
Print Assumptions C20_dispatch_refuses.

(* "a proxy behaves like the local object": through a live proxy, every method the server
   exposes ... *)
Theorem C20_proxy_call_refines_local_partial : forall y k p m a newid,
    sysinv y -> nth_error (y_proxies y) k = Some p ->
    exists o t,
      dget (objs (y_srv y)) (p_id p) = Some (SlotE o t) /\
      (exposed_of t m = true -> has_attr t m = true -> m2t_of t m = None ->
       let r := apply_local o t m a in
       let d := dispatch (y_srv y) (p_id p) m a newid in
       fst d = reply_of_local r /\
       dget (objs (snd d)) (p_id p) = Some (SlotE (obj_of_local o r) t) /\
       (forall id', id' <> p_id p -> dget (objs (snd d)) id' = dget (objs (y_srv y)) id') /\
       rcs (snd d) = rcs (y_srv y)).
Proof. exact proxy_call_refines_local. Qed.
Print Assumptions C20_proxy_call_refines_local_partial.

(* ... for every method the proxy class offers (the Iterator typeid included, since the repair
   of IteratorProxy._exposed_ in /repo) *)
Theorem C20_proxy_call_refines_local : forall y k p m a newid,
    sysinv y -> nth_error (y_proxies y) k = Some p ->
    exists o t,
      dget (objs (y_srv y)) (p_id p) = Some (SlotE o t) /\
      (offered t m = true -> has_attr t m = true -> m2t_of t m = None ->
       let r := apply_local o t m a in
       let d := dispatch (y_srv y) (p_id p) m a newid in
       fst d = reply_of_local r /\
       dget (objs (snd d)) (p_id p) = Some (SlotE (obj_of_local o r) t) /\
       (forall id', id' <> p_id p -> dget (objs (snd d)) id' = dget (objs (y_srv y)) id') /\
       rcs (snd d) = rcs (y_srv y)).
Proof. exact proxy_call_refines_local_offered. Qed.
Print Assumptions C20_proxy_call_refines_local.

(* what IteratorProxy offers is what the real Server.create exposes on this run (fails to
   compile if the `_exposed` typo returns: exposed_iter would be empty) *)
Theorem C20_iterator_offered_is_exposed :
  smem "__next__" G_manager.proxy_methods_iter = true /\
  smem "__next__" G_manager.exposed_iter = true /\
  forall m, offered TIter m = smem (mname m) G_manager.exposed_iter.
Proof. exact iterator_offered_tie. Qed.
Print Assumptions C20_iterator_offered_is_exposed.

(* next(proxy) = next(local iterator): next element and the iterator advanced, or StopIteration *)
Theorem C20_iterator_next_like_local : forall s id l newid,
    dget (objs s) id = Some (SlotE (OIter l) TIter) ->
    dispatch s id M_next [] newid =
    match l with
    | [] => (R_error E_StopIteration, s)
    | x :: r => (R_return (VInt x), set_obj s id (OIter r) TIter)
    end.
Proof. exact iterator_next_like_local. Qed.
Print Assumptions C20_iterator_next_like_local.

(* the witness that refuted C20 before the repair, with its behaviour now *)
Theorem C20_iterator_witness_now_holds :
  Forall ev_ok iter_witness /\
  let y := fst (crun init_sys iter_witness) in
  y_proxies y = [mk_proxy 7 1 true] /\
  dget (objs (y_srv y)) 1 = Some (SlotE (OIter [4; 5]) TIter) /\
  fst (dispatch (y_srv y) 1 M_next [] 9) = R_return (VInt 4) /\
  dget (objs (snd (dispatch (y_srv y) 1 M_next [] 9))) 1 = Some (SlotE (OIter [5]) TIter).
Proof. exact iterator_witness_now_holds. Qed.
Print Assumptions C20_iterator_witness_now_holds.

(* a proxy handed to a child inside the Process object counts as a live proxy of its own *)
Theorem C20_inherited_proxy_takes_reference : forall y k p pid,
    sysinv y -> nth_error (y_proxies y) k = Some p ->
    let y' := fst (hstep y (H_inherit k pid)) in
    snd (hstep y (H_inherit k pid)) = CO_ok /\
    y_proxies y' = y_proxies y ++ [mk_proxy pid (p_id p) false] /\
    refcount (y_srv y') (p_id p) = refcount (y_srv y) (p_id p) + 1 /\
    holders y' (p_id p) = holders y (p_id p) + 1 /\
    dget (objs (y_srv y')) (p_id p) = dget (objs (y_srv y)) (p_id p).
Proof. exact inherit_takes_reference. Qed.
Print Assumptions C20_inherited_proxy_takes_reference.

(* user-level operations on real proxies (create / copy / drop / call incl. the construction
   of result proxies) keep the invariant *)
Theorem C20_user_operations_invariant : forall l y,
    Forall hop_ok l -> sysinv y -> sysinv (fst (hrun y l)).
Proof. exact hrun_inv. Qed.
Print Assumptions C20_user_operations_invariant.

(* "disposed of once the last proxy is released" is refuted for results of proxy-returning
   methods called through a proxy that was passed to another process *)
Theorem C20_child_proxy_result_leaks_refuted :
  Forall hop_ok leak_witness /\
  let (y, obs) := hrun init_sys leak_witness in
  obs = [CO_ok; CO_ok; CO_fail E_Attribute; CO_ok; CO_ok] /\
  y_proxies y = [] /\ y_pending y = [2] /\
  dget (objs (y_srv y)) 2 = Some (SlotE (OList [7]) TList) /\ refcount (y_srv y) 2 = 1 /\
  dmem (objs (y_srv y)) 1 = false.
Proof. exact child_proxy_result_leaks_refuted. Qed.
Print Assumptions C20_child_proxy_result_leaks_refuted.

(* ------------------------------------------------ arbitrary (also misbehaving) clients *)
Theorem C20_server_tables_consistent : forall l, Forall conn_ok l -> inv (run_conns init_st l).
Proof. exact server_tables_consistent. Qed.
Print Assumptions C20_server_tables_consistent.

Theorem C20_unknown_ident_refused : forall (s : st) id,
    dget (rcs s) id = None ->
    decref s id = Exc E_Key s /\ incref s id = Exc E_Key s.
Proof. exact unknown_ident_refused. Qed.
Print Assumptions C20_unknown_ident_refused.

(* ------------------------------------------------------------------ the key first *)
(* stated on the skeleton generated from the source: a failed handshake (either half, any
   exception) => no request is read, the tables are unchanged, only tracebacks are sent *)
Theorem C20_auth_first : forall s c,
    c_deliver c <> None \/ c_answer c <> None ->
    let r := run_trees G_manager.serve_body G_manager.hr_body s c in
    fst r = s /\ h_read (snd r) = false /\ h_exit (snd r) = None /\ only_tracebacks (h_out (snd r)).
Proof. exact generated_auth_first. Qed.
Print Assumptions C20_auth_first.

Theorem C20_serve_needs_handshake : forall s c,
    h_read (snd (handle_request s c)) = true -> c_deliver c = None /\ c_answer c = None.
Proof. exact serve_needs_handshake. Qed.
Print Assumptions C20_serve_needs_handshake.

(* non-vacuity: two processes hold proxies to one list; a call through either sees the other's
   effect; the referent disappears with the second drop and not with the first *)
Example C20_witness :
  let evs := [K_create TList [AL [1; 2]] 1; K_proxy 10 1 true; K_release 0; K_proxy 11 1 false;
              K_call 0 M_append [AZ 3] 9 0; K_call 1 M_pop [] 9 0; K_drop 0] in
  Forall ev_ok evs /\
  let (y, obs) := crun init_sys evs in
  obs = [CO_reply (R_return (VCreated 1)); CO_ok; CO_ok; CO_ok;
         CO_reply (R_return VNone); CO_reply (R_return (VInt 3)); CO_ok] /\
  dget (objs (y_srv y)) 1 = Some (SlotE (OList [1; 2]) TList) /\ refcount (y_srv y) 1 = 1 /\
  holders y 1 = 1 /\
  dmem (objs (y_srv (fst (cstep y (K_drop 0))))) 1 = false.
Proof. split; [repeat constructor; discriminate|vm_compute; repeat split; reflexivity]. Qed.

(* non-vacuity of the positive disposal theorem: three processes, copies, an inherited proxy, a
   proxy-returning method through the creator's proxy, calls, drops in mixed order; no step loses
   a reference; at the end the server is as new *)
Example C20_disposal_witness :
  let l := [H_create 10 TShelf [AL [7]] 1; H_copy 0 11; H_call 0 M_clone [] 2; H_inherit 1 12;
            H_call 2 M_append [AZ 3] 9; H_create 11 TDict [] 3; H_drop 0; H_call 1 M_pop [] 9;
            H_drop 1; H_drop 0; H_call 0 M_len [] 9; H_drop 1; H_drop 0] in
  Forall hop_ok l /\ leaks_any init_sys l = false /\ no_vanish l /\
  let (y, obs) := hrun init_sys l in
  nth 7 obs CO_noop = CO_reply (R_return (VInt 3)) /\
  nth 10 obs CO_noop = CO_reply (R_return (VInt 1)) /\
  y_proxies y = [] /\ y_srv y = init_st.
Proof.
  cbv zeta. split; [repeat constructor; discriminate|]. split; [vm_compute; reflexivity|].
  split; [repeat constructor|]. vm_compute. repeat split; reflexivity.
Qed.

(* non-vacuity of the history theorem (hypotheses satisfiable, several clients interleaved, a
   failing send, a drop in between) *)
Example C20_history_witness :
  let y0 := fst (cstep init_sys (K_create TList [AL [1]] 1)) in
  Forall ev_ok hist_witness /\ Forall (fresh_for 1) hist_witness /\
  map fst (calls_on 1 y0 hist_witness)
  = [(M_append, [AZ 5], O); (M_pop, [], O); (M_pop, [], O); (M_len, [], 1%nat); (M_append, [AZ 6], O)] /\
  map snd (calls_on 1 y0 hist_witness)
  = [CO_reply (R_return VNone); CO_reply (R_return (VInt 5)); CO_reply (R_return (VInt 1));
     CO_reply R_unserializable; CO_reply (R_return VNone)] /\
  dget (objs (y_srv (fst (crun y0 hist_witness)))) 1 = Some (SlotE (OList [6]) TList).
Proof. exact hist_witness_ok. Qed.

(* a vanished holder: the child that got the proxy is killed, the parent drops its own proxy, the
   referent stays for ever *)
Example C20_vanish_witness :
  let l := [H_create 10 TList [AL [1]] 1; H_inherit 0 11; H_vanish 1; H_drop 0] in
  Forall hop_ok l /\
  let (y, obs) := hrun init_sys l in
  obs = [CO_ok; CO_ok; CO_ok; CO_ok] /\ y_proxies y = [] /\ y_orphans y = [1] /\
  dget (objs (y_srv y)) 1 = Some (SlotE (OList [1]) TList) /\ refcount (y_srv y) 1 = 1.
Proof. cbv zeta. split; [repeat constructor; discriminate|vm_compute; repeat split; reflexivity]. Qed.
