(* C02 -- results equal the sequential computation: value, order, exception.
   Only statements here; proofs live in Proofs/ReassemblyProofs.v (model) and
   Proofs/ReassemblyGenProofs.v (code translated on this run = model). *)
From Coq Require Import ZArith List Bool Lia Permutation.
From BV Require Import Lib.PyVal Lib.Cases Model.Reassembly Gen.K_reassembly
     Proofs.ReassemblyProofs Proofs.ReassemblyGenProofs Proofs.ReassemblyImapProofs
     Proofs.ReassemblyChunkedProofs Proofs.ReassemblyFailureProofs.
From BV Require Model.Pool Proofs.PoolInv Model.PoolParts Proofs.PoolPartsProofs.
Import ListNotations.
Open Scope Z_scope.

(* ---------------- the code translated on this run is the model ---------------- *)

(* Pool._map_async: the chunk size given to _get_tasks and MapResult *)
Theorem C02_code_chunksize : forall s vf vi vm cb ecb (cs : option Z) (n p : Z),
    f_self__state s = c_RUN ->
    chunksize_of s vf vi vm (optv cs) cb ecb (PInt n) (PInt p) =
    match resolve_chunksize cs n p with
    | Some k => Ok (PInt k) s
    | None => Exc ZeroDivisionError s
    end.
Proof. exact gen_chunksize_eq. Qed.
Print Assumptions C02_code_chunksize.

(* MapResult.__init__: _number_left and the chunksize <= 0 branch *)
Theorem C02_code_init : forall (A E : Type) (none : A) (g : ghosts) (hc he : bool) (n k : Z) vc vcb vecb,
    0 <= n ->
    mr_init (emb (pre_init (A := A) (E := E) hc he) g) vc (PInt k) (PInt n) vcb vecb =
    Ok PNone (emb (map_init (E := E) none n k hc he) (with_lists g n)).
Proof. intros A E. exact (@gen_init_eq A E). Qed.
Print Assumptions C02_code_init.

(* MapResult._set, success: slice bounds i*k : (i+1)*k, countdown, callback, cache, event *)
Theorem C02_code_set_ok : forall (A E : Type) (s : mres A E) (g : ghosts) (i : Z) (r : list A),
    mr_set (emb s g) (PInt i) (PBool true) (PInt (Z.of_nat (length r))) =
    match m_value s with
    | VErr _ => Exc TypeError (emb s g)
    | VList _ =>
        Ok PNone (emb (fst (map_set s (MOk i r)))
                      (with_slice g (i * m_k s) ((i + 1) * m_k s) (Z.of_nat (length r))))
    end.
Proof. intros A E. exact (@gen_set_ok_eq A E). Qed.
Print Assumptions C02_code_set_ok.

(* MapResult._set, failure branch *)
Theorem C02_code_set_fail : forall (A E : Type) (s : mres A E) (g : ghosts) (i : Z) (e : E),
    mr_set (emb s g) (PInt i) (PBool false) (PBool true) =
    Ok PNone (emb (fst (map_set s (MFail i e))) g).
Proof. intros A E. exact (@gen_set_fail_eq A E). Qed.
Print Assumptions C02_code_set_fail.

(* MapResult._ack: start/stop *)
Theorem C02_code_ack : forall (A E : Type) (s : mres A E) (g : ghosts) (i : Z) vt vpid,
    snd (map_ack s i) = None ->
    mr_ack (emb s g) (PInt i) vt vpid =
    Ok PNone (emb (fst (map_ack s i))
                  (with_ack g (ack_start i (m_k s)) (ack_stop i (m_k s) (m_len s)))).
Proof. intros A E. exact (@gen_ack_eq A E). Qed.
Print Assumptions C02_code_ack.

(* IMapIterator._set / _set_length and IMapUnorderedIterator._set, incl. the
   `while self._index in self._unsorted` loop (deque/dict operations are modelled
   calls; objects are opaque tokens, so the model is used at B := pv);
   iout = Ok on normal return, Exc KeyError when `del self._cache[self._job]` fails *)
Theorem C02_code_imap_set : forall (s : istate pv) (job i : Z) (obj : pv),
    is_err obj = None ->
    IM.iset (embi s job) (PInt i) obj = iout (imap_set s i obj) job.
Proof. exact gen_iset_eq. Qed.
Print Assumptions C02_code_imap_set.

Theorem C02_code_imap_set_length : forall (s : istate pv) (job n : Z),
    IM.iset_length (embi s job) (PInt n) = iout (imap_set_length s n) job.
Proof. exact gen_iset_length_eq. Qed.
Print Assumptions C02_code_imap_set_length.

Theorem C02_code_imapu_set : forall (s : istate pv) (job i : Z) (obj : pv),
    is_err obj = None ->
    IM.uset (embi s job) (PInt i) obj = iout (imapu_set s i obj) job.
Proof. exact gen_uset_eq. Qed.
Print Assumptions C02_code_imapu_set.

(* independence of handles, structurally: IMapIterator.__init__ creates its
   containers and scalars per instance (nothing mutable lives on the class), so a
   fresh iterator is the model's imap_init -- which is why the theorems below may
   treat every handle on its own *)
Theorem C02_code_imap_init :
    IM.fresh_containers_per_instance = true /\
    IM.class_level_mutable_attrs = 0%nat /\
    IM.unordered_inherits_init = true /\
    forall job : Z, IM.init (PInt job) = embi imap_init job.
Proof. exact gen_imap_init_eq. Qed.
Print Assumptions C02_code_imap_init.

(* ---------------- chunking ---------------- *)

Theorem C02_chunks_concat : forall (A : Type) (l : list A) (k : nat),
    (1 <= k)%nat -> concat (chunks l k) = l.
Proof. intros A. exact (@chunks_concat A). Qed.
Print Assumptions C02_chunks_concat.

Theorem C02_chunks_lengths : forall (A : Type) (l : list A) (k i : nat) (c : list A),
    (1 <= k)%nat -> nth_error (chunks l k) i = Some c ->
    (1 <= length c <= k)%nat /\ (S i < length (chunks l k) -> length c = k)%nat.
Proof. intros A. exact (@chunks_lengths A). Qed.
Print Assumptions C02_chunks_lengths.

Theorem C02_chunks_empty : forall (A : Type) (k : nat), chunks (@nil A) k = [].
Proof. intros A. exact (@chunks_nil A). Qed.
Print Assumptions C02_chunks_empty.

Theorem C02_number_left_is_chunk_count : forall (A : Type) (l : list A) (k : nat),
    (1 <= k)%nat ->
    number_left (Z.of_nat (length l)) (Z.of_nat k) = Z.of_nat (length (chunks l k)).
Proof. intros A. exact (@number_left_chunks A). Qed.
Print Assumptions C02_number_left_is_chunk_count.

Theorem C02_default_chunksize_pos : forall n p : Z, 1 <= n -> 1 <= p ->
    exists k, default_chunksize n p = Some k /\ 1 <= k.
Proof. exact default_chunksize_pos. Qed.
Print Assumptions C02_default_chunksize_pos.

Theorem C02_default_chunksize_at_most_4p_chunks : forall n p k : Z, 0 <= n -> 1 <= p ->
    default_chunksize n p = Some k -> number_left n k <= 4 * p.
Proof. exact default_chunksize_batches. Qed.
Print Assumptions C02_default_chunksize_at_most_4p_chunks.

(* ---------------- map: any arrival order ---------------- *)

(* H: any duplicate-free list of chunk indices = any prefix of any arrival order;
   d: results handed over directly (false) or through the cache look-up of the
   result handler (true). *)
Theorem C02_map_any_order :
  forall (A B E : Type) (none : B) (f : A -> B) (l : list A) (k : nat),
    (1 <= k)%nat ->
    forall (hc he d : bool) (H : list nat),
    NoDup H -> (forall x, In x H -> (x < length (chunks l k))%nat) ->
    let m := length (chunks l k) in
    let r := map_run (map_init (E := E) none (Z.of_nat (length l)) (Z.of_nat k) hc he)
                     (map_msgs f l k d H) in
    let st := fst r in
    snd r = repeat OUnit (length H) /\
    m_left st = Z.of_nat m - Z.of_nat (length H) /\
    m_success st = true /\
    m_ready st = ((0 <? length H)%nat && (length H =? m)%nat) /\
    m_incache st = negb (m_ready st) /\
    m_cb st = (if hc && m_ready st then [map f l] else []) /\
    m_ecb st = [] /\
    (length H = m -> m_value st = VList (map f l)) /\
    map_get st = (if m_ready st then OList (map f l) else OTimeout).
Proof. intros A B E none f l k Hk hc he d H. exact (map_any_order none f l k Hk hc he d H). Qed.
Print Assumptions C02_map_any_order.

(* the headline: Pool.map on a non-empty input, any chunk size >= 1 or the default,
   any pool size >= 1, any completion order of the chunks *)
Theorem C02_map_end_to_end :
  forall (A B E : Type) (none : B) (f : A -> B) (l : list A) (cs : option Z) (p : Z)
         (d : bool) (H : list nat),
    l <> [] -> (cs = None -> 1 <= p) -> (forall c, cs = Some c -> 1 <= c) ->
    exists (k : nat) (batches : list (list A)) (st0 : mres B E),
      map_async none l cs p = Some (Z.of_nat k, Some batches, st0) /\
      concat batches = l /\
      (Permutation H (seq 0 (length batches)) ->
       let msgs := map (fun i => (if d then MDeliver else MSet)
                                   (MOk (Z.of_nat i) (mapstar f (nth i batches [])))) H in
       map_get (fst (map_run st0 msgs)) = OList (map f l) /\
       m_cb (fst (map_run st0 msgs)) = [] /\ m_success (fst (map_run st0 msgs)) = true).
Proof. intros A B E. exact (@map_end_to_end A B E). Qed.
Print Assumptions C02_map_end_to_end.

Theorem C02_map_async_resolves : forall (A B E : Type) (none : B) (l : list A) (cs : option Z) (p : Z),
    l <> [] -> (cs = None -> 1 <= p) -> (forall c, cs = Some c -> 1 <= c) ->
    exists k : nat,
      (1 <= k)%nat /\
      resolve_chunksize cs (Z.of_nat (length l)) p = Some (Z.of_nat k) /\
      map_async (E := E) none l cs p =
      Some (Z.of_nat k, Some (chunks l k),
            map_init none (Z.of_nat (length l)) (Z.of_nat k) false false).
Proof. intros A B E. exact (@map_async_resolves A B E). Qed.
Print Assumptions C02_map_async_resolves.

Theorem C02_map_empty : forall (A B E : Type) (none : B) (cs : option Z) (p : Z),
    (cs = None -> p <> 0) ->
    exists st : mres B E,
      map_async none (@nil A) cs p = Some (0, Some [], st) /\
      m_ready st = true /\ m_success st = true /\ map_get st = OList [] /\
      m_incache st = false.
Proof. intros A B E. exact (@map_empty A B E). Qed.
Print Assumptions C02_map_empty.

(* ---------------- map: failure ---------------- *)

Theorem C02_map_failure_own_input :
  forall (A E : Type) (st : mres A E) (pre post : list (mmsg A E)) (i : Z) (e : E),
    list_truthy (m_accepted st) = true ->
    m_incache (fst (map_run st (map MDeliver pre))) = true ->
    let s1 := fst (map_run st (map MDeliver pre)) in
    let st' := fst (map_run st (map MDeliver (pre ++ MFail i e :: post))) in
    m_success st' = false /\ m_value st' = VErr e /\ m_ready st' = true /\
    map_get st' = ORaise e /\
    m_ecb st' = (if m_has_ecb s1 then m_ecb s1 ++ [e] else m_ecb s1) /\
    m_cb st' = m_cb s1.
Proof. intros A E. exact (@map_first_failure_wins A E). Qed.
Print Assumptions C02_map_failure_own_input.

(* THE FAILURE IS ONE OF THIS JOB'S OWN CHUNKS (audit follow-up, 2026-09-23; strictly
   stronger than the conclusion of C02_map_failure_own_input for a fresh job, and than
   C02_map_any_order for cache-guarded delivery: acknowledgements are interleaved).
   l, k: THIS call's input and chunk size; chunk i fails iff F i, with record e_of i;
   h: any history of the job as the result handler sees it -- Dlv i = the READY message
   of chunk i handled through the cache look-up (MFail i (e_of i) if F i, else
   MOk i (map f chunk_i)), Ack i = the ACK message of chunk i (MapResult._ack), each
   chunk's result at most once, all indices < number of chunks.  No operation raises;
   if some handled chunk failed, get() re-raises e_of j for j = the FIRST failing chunk
   in handling order (find F (dlvs h)), j < number of chunks of this job and chunk j is
   the inputs l[j*k : (j+1)*k] of this call; error callback once with that record,
   success callback never; otherwise the conclusion of C02_map_any_order. *)
Theorem C02_map_failure_is_own_chunk :
  forall (A B E : Type) (none : B) (f : A -> B) (l : list A) (k : nat),
    (1 <= k)%nat ->
    forall (hc he : bool) (e_of : nat -> E) (F : nat -> bool) (h : list mev),
    NoDup (dlvs h) -> (forall x, In x (dlvs h) -> (x < length (chunks l k))%nat) ->
    (forall x, In x (acks h) -> (x < length (chunks l k))%nat) ->
    let m := length (chunks l k) in
    let r := map_run (map_init none (Z.of_nat (length l)) (Z.of_nat k) hc he)
                     (map (mev_op f l k e_of F) h) in
    let st := fst r in
    snd r = repeat OUnit (length h) /\
    match find F (dlvs h) with
    | Some j =>
        (j < m)%nat /\ F j = true /\
        nth j (chunks l k) [] = firstn k (skipn (j * k) l) /\
        (exists pre post, dlvs h = (pre ++ j :: post)%list /\ forall i, In i pre -> F i = false) /\
        map_get st = ORaise (e_of j) /\ m_value st = VErr (e_of j) /\
        m_success st = false /\ m_ready st = true /\ m_incache st = false /\
        m_ecb st = (if he then [e_of j] else []) /\ m_cb st = []
    | None =>
        m_left st = Z.of_nat m - Z.of_nat (length (dlvs h)) /\
        m_success st = true /\
        m_ready st = ((0 <? length (dlvs h))%nat && (length (dlvs h) =? m)%nat) /\
        m_incache st = negb (m_ready st) /\
        m_cb st = (if hc && m_ready st then [map f l] else []) /\
        m_ecb st = [] /\
        map_get st = (if m_ready st then OList (map f l) else OTimeout)
    end.
Proof.
  intros A B E none f l k Hk hc he e_of F h.
  exact (map_failure_is_own_chunk none f l k Hk hc he e_of F h).
Qed.
Print Assumptions C02_map_failure_is_own_chunk.

(* object level, without the cache look-up: a success after a failure raises *)
Theorem C02_map_set_after_failure : forall (A E : Type) (st : mres A E) i r e0,
    m_value st = VErr e0 -> map_set st (MOk i r) = (st, Some TypeError).
Proof. intros A E. exact (@set_ok_after_failure A E). Qed.
Print Assumptions C02_map_set_after_failure.

(* observation: an explicit chunksize <= 0 is "resolved" with n Nones *)
Theorem C02_nonpositive_chunksize_observation :
  forall (B E : Type) (none : B) (n k : Z) (hc he : bool), k <= 0 ->
    map_get (map_init (E := E) none n k hc he) = OList (repeat none (Z.to_nat n)).
Proof. intros B E. exact (@map_nonpositive_chunksize B E). Qed.
Print Assumptions C02_nonpositive_chunksize_observation.

(* ---------------- starmap / apply ---------------- *)

Theorem C02_starmap : forall (A1 A2 B E : Type) (none : B) (g : A1 -> A2 -> B)
        (l : list (A1 * A2)) (k : nat) (hc he d : bool) (H : list nat),
    (1 <= k)%nat -> NoDup H -> (forall x, In x H -> (x < length (chunks l k))%nat) ->
    length H = length (chunks l k) ->
    let msgs := map (fun i => (if d then MDeliver else MSet)
                                (MOk (E := E) (Z.of_nat i)
                                     (starmapstar g (nth i (chunks l k) [])))) H in
    let st := fst (map_run (map_init none (Z.of_nat (length l)) (Z.of_nat k) hc he) msgs) in
    m_value st = VList (map (fun p => g (fst p) (snd p)) l) /\
    (H <> [] -> map_get st = OList (map (fun p => g (fst p) (snd p)) l)).
Proof. intros A1 A2 B E. exact (@starmap_any_order A1 A2 B E). Qed.
Print Assumptions C02_starmap.

Theorem C02_apply : forall (A E : Type) (hc he : bool) (n1 n2 : nat) (d : bool) (b : item A E),
    let ops := repeat AAck n1 ++ [if d then ADeliver b else ASet b] ++ repeat AAck n2 in
    let st := fst (apply_run (apply_init hc he) ops) in
    apply_get st = (match b with Good v => OYield v | Bad e => ORaise e end) /\
    a_cb st = (match b with Good v => if hc then [v] else [] | Bad _ => [] end) /\
    a_ecb st = (match b with Bad e => if he then [e] else [] | Good _ => [] end).
Proof. intros A E. exact (@apply_result A E). Qed.
Print Assumptions C02_apply.

Theorem C02_apply_first_outcome_kept : forall (A E : Type) (st : ares A E) (ops : list (aop A E)),
    a_ready st = true ->
    let st' := fst (apply_run st ops) in
    a_ready st' = true /\ a_value st' = a_value st /\ a_cb st' = a_cb st /\ a_ecb st' = a_ecb st /\
    apply_get st' = apply_get st.
Proof. intros A E. exact (@apply_first_outcome_kept A E). Qed.
Print Assumptions C02_apply_first_outcome_kept.

(* ---------------- imap (chunksize 1) ---------------- *)

(* h: any interleaving of arrivals (Arr i, each index at most once, i < n), next()
   calls (Nxt) and the length announcement (Len, at most once, anywhere);
   view = what the consumer saw (would-block steps left out); show (Good v) = the
   value v returned, show (Bad e) = Exception(e) raised. *)
Theorem C02_imap_in_order :
  forall (V E : Type) (objs : list (item V E)) (dflt : item V E) (d : bool) (h : list ev),
    wf objs h ->
    exists rho s,
      view (snd (imap_run false imap_init (map (ev_op objs dflt d) h))) =
        (map show (firstn rho objs) ++ repeat OStop s)%list /\
      (rho <= length objs)%nat /\
      ((0 < s)%nat -> rho = length objs /\ count_len h = 1%nat /\
                      forall i, (i < length objs)%nat -> In i (arrivals h)).
Proof. intros V E objs dflt d h. exact (imap_in_order objs dflt d h). Qed.
Print Assumptions C02_imap_in_order.

Theorem C02_imap_complete :
  forall (V E : Type) (objs : list (item V E)) (dflt : item V E) (d : bool) (h : list ev),
    wf objs h -> (forall i, (i < length objs)%nat -> In i (arrivals h)) -> count_len h = 1%nat ->
    exists s,
      view (snd (imap_run false imap_init
                          (map (ev_op objs dflt d) h ++ repeat INext (S (length objs)))%list)) =
        (map show objs ++ repeat OStop (S s))%list.
Proof. intros V E objs dflt d h. exact (imap_complete objs dflt d h). Qed.
Print Assumptions C02_imap_complete.

(* ---------------- imap_unordered (chunksize 1) ---------------- *)

Theorem C02_imapu_arrival_order :
  forall (V E : Type) (N : nat) (d : bool) (h : list (@uev V E)),
    (length (uarrived h) <= N)%nat -> (ucount_len h <= 1)%nat ->
    exists rho s,
      view (snd (imap_run true imap_init (map (uev_op N d) h))) =
        (map show (firstn rho (uarrived h)) ++ repeat OStop s)%list /\
      (rho <= length (uarrived h))%nat /\
      ((0 < s)%nat -> rho = N /\ length (uarrived h) = N /\ ucount_len h = 1%nat).
Proof. intros V E N d h. exact (imapu_arrival_order N d h). Qed.
Print Assumptions C02_imapu_arrival_order.

Theorem C02_imapu_complete :
  forall (V E : Type) (N : nat) (d : bool) (h : list (@uev V E)),
    length (uarrived h) = N -> ucount_len h = 1%nat ->
    exists s,
      view (snd (imap_run true imap_init (map (uev_op N d) h ++ repeat INext (S N))%list)) =
        (map show (uarrived h) ++ repeat OStop (S s))%list.
Proof. intros V E N d h. exact (imapu_complete N d h). Qed.
Print Assumptions C02_imapu_complete.

(* ---------------- imap / imap_unordered with chunksize > 1 ---------------- *)

(* KNOWN FINDING C02:imap-chunked-error-ends-iteration.  The statement "an error is
   raised at its position and iteration goes on" is FALSE of the generator
   (item for chunk in result for item in chunk): *)
Theorem C02_imap_chunked_goes_on_refuted : ~ chunked_imap_goes_on_after_error.
Proof. exact flat_goes_on_refuted. Qed.
Print Assumptions C02_imap_chunked_goes_on_refuted.

(* what IS true (partial): the error of the first failed chunk is raised, ... *)
Theorem C02_imap_chunked_error_ends_partial :
  forall (V E : Type) (st : fstate V E) (e : E) (rest : list (item (list V) E)),
    f_dead st = false -> f_cur st = [] -> i_items (f_inner st) = Bad e :: rest ->
    snd (flat_next st) = ORaise e /\ f_dead (fst (flat_next st)) = true /\
    i_items (f_inner (fst (flat_next st))) = rest.
Proof. intros V E. exact (@flat_error_ends V E). Qed.
Print Assumptions C02_imap_chunked_error_ends_partial.

(* ... and from then on the consumer only ever gets StopIteration *)
Theorem C02_imap_chunked_dead_forever_partial :
  forall (V E : Type) (u : bool) (ops : list (iop (item (list V) E))) (st : fstate V E),
    f_dead st = true ->
    f_dead (fst (flat_run u st ops)) = true /\
    forall o, In o (view (snd (flat_run u st ops))) -> o = OStop \/ exists e, o = OExn e.
Proof. intros V E. exact (@flat_dead_forever V E). Qed.
Print Assumptions C02_imap_chunked_dead_forever_partial.

(* THE POSITIVE THEOREM (audit follow-up, 2026-09-23).  chunks: the outcome of every
   chunk (Good (map f chunk_i) or Bad e); h: ANY interleaving of chunk arrivals (each
   index at most once), the length announcement (at most once, anywhere) and the
   consumer's next() calls, on the generator
   (item for chunk in result for item in chunk) over the IMapIterator of chunk results.
     chunked_expected chunks =
       map OYield (concat (good_prefix chunks))          -- leading good chunks, flattened
       ++ match first_bad chunks with Some e => [ORaise e] | None => [] end
   The consumer sees a prefix of that -- the sequential results in input order; if a
   chunk failed: the values of the chunks before the first failing one, then
   Exception(e) -- and StopIteration only after ALL of it; without a failing chunk only
   after every chunk arrived and the length was announced.  No _set raises (view keeps
   OExn).  After a failing chunk the iteration is OVER: that is the code's behaviour
   (known finding C02:imap-chunked-error-ends-iteration), modelled as it is. *)
Theorem C02_chunked_expected_def :
  forall (V E : Type) (cs : list (item (list V) E)),
    chunked_expected cs =
    (map OYield (concat (good_prefix cs)) ++
     match first_bad cs with Some e => [ORaise e] | None => [] end)%list /\
    good_prefix cs = (match cs with Good vs :: r => vs :: good_prefix r | _ => [] end) /\
    first_bad cs = (match cs with [] => None | Good _ :: r => first_bad r | Bad e :: _ => Some e end).
Proof. exact chunked_expected_def. Qed.
Print Assumptions C02_chunked_expected_def.

Theorem C02_imap_chunked_in_order :
  forall (V E : Type) (chunks : list (item (list V) E)) (dflt : item (list V) E)
         (d : bool) (h : list ev),
    wf chunks h ->
    exists t s,
      view (snd (flat_run false flat_init (map (ev_op chunks dflt d) h))) =
        (firstn t (chunked_expected chunks) ++ repeat OStop s)%list /\
      (t <= length (chunked_expected chunks))%nat /\
      ((0 < s)%nat ->
       t = length (chunked_expected chunks) /\
       (first_bad chunks = None ->
        count_len h = 1%nat /\ forall i, (i < length chunks)%nat -> In i (arrivals h))).
Proof. intros V E chunks dflt d h. exact (chunked_in_order chunks dflt d h). Qed.
Print Assumptions C02_imap_chunked_in_order.

(* completeness: every chunk arrives, the length is announced, the consumer keeps pulling *)
Theorem C02_imap_chunked_complete :
  forall (V E : Type) (chunks : list (item (list V) E)) (dflt : item (list V) E)
         (d : bool) (h : list ev),
    wf chunks h -> (forall i, (i < length chunks)%nat -> In i (arrivals h)) ->
    count_len h = 1%nat ->
    exists s,
      view (snd (flat_run false flat_init
                   (map (ev_op chunks dflt d) h ++
                    repeat INext (S (length (chunked_expected chunks))))%list)) =
        (chunked_expected chunks ++ repeat OStop (S s))%list.
Proof. intros V E chunks dflt d h. exact (chunked_complete chunks dflt d h). Qed.
Print Assumptions C02_imap_chunked_complete.

(* no failing chunk: exactly the sequential results, in input order, then only stops *)
Theorem C02_imap_chunked_all_good :
  forall (V E : Type) (vs : list (list V)) (dflt : item (list V) E) (d : bool) (h : list ev),
    let chunks := map (@Good (list V) E) vs in
    wf chunks h -> (forall i, (i < length vs)%nat -> In i (arrivals h)) ->
    count_len h = 1%nat ->
    exists s,
      view (snd (flat_run false flat_init
                   (map (ev_op chunks dflt d) h ++
                    repeat INext (S (length (concat vs))))%list)) =
        (map OYield (concat vs) ++ repeat OStop (S s))%list.
Proof. exact chunked_all_good. Qed.
Print Assumptions C02_imap_chunked_all_good.

(* imap_unordered(chunksize > 1): the same generator over the IMapUnorderedIterator --
   the chunks in ARRIVAL order (uarrived h), the items of a chunk in their own order;
   N = the number of chunks that is (or will be) announced *)
Theorem C02_imapu_chunked_arrival_order :
  forall (V E : Type) (N : nat) (d : bool) (h : list (@uev (list V) E)),
    (length (uarrived h) <= N)%nat -> (ucount_len h <= 1)%nat ->
    exists t s,
      view (snd (flat_run true flat_init (map (uev_op N d) h))) =
        (firstn t (chunked_expected (uarrived h)) ++ repeat OStop s)%list /\
      (t <= length (chunked_expected (uarrived h)))%nat /\
      ((0 < s)%nat ->
       t = length (chunked_expected (uarrived h)) /\
       (first_bad (uarrived h) = None ->
        length (uarrived h) = N /\ ucount_len h = 1%nat)).
Proof. intros V E N d h. exact (chunkedu_arrival_order N d h). Qed.
Print Assumptions C02_imapu_chunked_arrival_order.

Theorem C02_imapu_chunked_complete :
  forall (V E : Type) (N : nat) (d : bool) (h : list (@uev (list V) E)),
    length (uarrived h) = N -> ucount_len h = 1%nat ->
    exists s,
      view (snd (flat_run true flat_init
                   (map (uev_op N d) h ++
                    repeat INext (S (length (chunked_expected (uarrived h)))))%list)) =
        (chunked_expected (uarrived h) ++ repeat OStop (S s))%list.
Proof. intros V E N d h. exact (chunkedu_complete N d h). Qed.
Print Assumptions C02_imapu_chunked_complete.

(* ---------------- non-vacuity ---------------- *)

(* 5 inputs, chunk size 2, chunks arriving in the order 2, 0, 1: hypotheses of
   C02_map_any_order hold and the conclusion computes *)
Example C02_map_witness :
  let l := [1; 2; 3; 4; 5] in
  let f := fun x => x * 10 in
  NoDup [2; 0; 1]%nat /\ (forall x, In x [2; 0; 1]%nat -> (x < length (chunks l 2))%nat) /\
  chunks l 2 = [[1; 2]; [3; 4]; [5]] /\
  map_get (fst (map_run (map_init (E := Z) 0 5 2 true true) (map_msgs f l 2 true [2; 0; 1]%nat)))
  = OList [10; 20; 30; 40; 50] /\
  map_get (fst (map_run (map_init (E := Z) 0 5 2 true true) (map_msgs f l 2 true [2; 0]%nat)))
  = OTimeout.
Proof.
  cbn. repeat split; try reflexivity.
  - repeat constructor; cbn; intuition discriminate.
  - intros x [<-|[<-|[<-|[]]]]; repeat constructor.
Qed.

(* 3 items arriving as 2, 0, 1 with the length announced in between and next()
   calls everywhere: hypotheses of C02_imap_in_order / C02_imap_complete hold *)
Example C02_imap_witness :
  let objs := [Good 10; Bad 7; Good 30] : list (item Z Z) in
  let h := [Nxt; Arr 2%nat; Nxt; Len; Arr 0%nat; Nxt; Arr 1%nat] in
  wf objs h /\ (forall i, (i < 3)%nat -> In i (arrivals h)) /\ count_len h = 1%nat /\
  view (snd (imap_run false imap_init (map (ev_op objs (Bad 0) true) h ++ repeat INext 4)%list))
  = [OYield 10; ORaise 7; OYield 30; OStop; OStop].
Proof.
  cbv zeta. split; [|split; [|split; [reflexivity|vm_compute; reflexivity]]].
  - split; [|split].
    + cbn. repeat constructor; cbn; intuition discriminate.
    + cbn. intros i [<-|[<-|[<-|[]]]]; lia.
    + cbn. lia.
  - cbn. intros i Hi. destruct i as [|[|[|i]]]; auto. lia.
Qed.

(* the refutation witness, computed: chunk 0 fails, chunk 1 never reaches the consumer *)
Example C02_imap_chunked_witness :
  view (snd (flat_run false flat_init (flat_history [Bad 7; Good [41; 42]] 4)))
  = [ORaise 7; OStop; OStop; OStop] /\
  flat_expected [Bad 7; Good [41; 42]] = [ORaise 7; OYield 41; OYield 42; OStop].
Proof. vm_compute. split; reflexivity. Qed.

(* chunked imap, 3 chunks arriving as 2, 0, 1 with the failing chunk in the middle, the
   length announced in between, next() calls everywhere: the hypotheses of
   C02_imap_chunked_in_order hold; the consumer gets chunk 0's values, the error of
   chunk 1, then only stops -- chunk 2's values stay in the iterator *)
Example C02_imap_chunked_positive_witness :
  let chunks := [Good [10; 11]; Bad 7; Good [30; 31]] : list (item (list Z) Z) in
  let h := [Nxt; Arr 2%nat; Nxt; Len; Arr 0%nat; Nxt; Arr 1%nat; Nxt; Nxt; Nxt; Nxt] in
  wf chunks h /\ (forall i, (i < 3)%nat -> In i (arrivals h)) /\ count_len h = 1%nat /\
  chunked_expected chunks = [OYield 10; OYield 11; ORaise 7] /\
  view (snd (flat_run false flat_init (map (ev_op chunks (Bad 0) true) h)))
  = [OYield 10; OYield 11; ORaise 7; OStop; OStop] /\
  i_items (f_inner (fst (flat_run false flat_init (map (ev_op chunks (Bad 0) true) h))))
  = [Good [30; 31]].
Proof.
  cbv zeta. split; [|split; [|split; [reflexivity|split; [reflexivity|vm_compute; split; reflexivity]]]].
  - split; [|split].
    + cbn. repeat constructor; cbn; intuition discriminate.
    + cbn. intros i [<-|[<-|[<-|[]]]]; lia.
    + cbn. lia.
  - cbn. intros i Hi. destruct i as [|[|[|i]]]; auto. lia.
Qed.

(* the same chunks, all good, out of order: the sequential results in input order *)
Example C02_imap_chunked_all_good_witness :
  let chunks := map (@Good (list Z) Z) [[10; 11]; [20; 21]; [30]] in
  let h := [Arr 2%nat; Nxt; Arr 1%nat; Len; Nxt; Arr 0%nat] in
  wf chunks h /\
  view (snd (flat_run false flat_init (map (ev_op chunks (Bad 0) false) h ++ repeat INext 6)%list))
  = [OYield 10; OYield 11; OYield 20; OYield 21; OYield 30; OStop].
Proof.
  cbv zeta. split; [|vm_compute; reflexivity].
  split; [|split].
  - cbn. repeat constructor; cbn; intuition discriminate.
  - cbn. intros i [<-|[<-|[<-|[]]]]; lia.
  - cbn. lia.
Qed.

(* imap_unordered with chunks: arrival order 2, 0 (fails), 1 *)
Example C02_imapu_chunked_witness :
  let h := [UArr 2 (Good [30; 31]); UNxt; ULen; UArr 0 (Bad 7); UNxt; UNxt; UArr 1 (Good [20]);
            UNxt; UNxt] : list (@uev (list Z) Z) in
  (length (uarrived h) <= 3)%nat /\ (ucount_len h <= 1)%nat /\
  chunked_expected (uarrived h) = [OYield 30; OYield 31; ORaise 7] /\
  view (snd (flat_run true flat_init (map (uev_op 3 true) h)))
  = [OYield 30; OYield 31; ORaise 7; OStop; OStop].
Proof. cbv zeta. cbn [uarrived ucount_len length]. repeat split; try lia; vm_compute; reflexivity. Qed.

(* a failing map: 5 inputs, chunk size 2, chunks 1 and 2 fail; handled in the order
   0, 2, 1 with acknowledgements in between: the record of chunk 2 (handled first) is
   the outcome *)
Example C02_map_failure_witness :
  let l := [1; 2; 3; 4; 5] in
  let F := fun i => (1 <=? i)%nat in
  let e_of := fun i => 700 + Z.of_nat i in
  let h := [Ack 0%nat; Dlv 0%nat; Ack 2%nat; Dlv 2%nat; Ack 1%nat; Dlv 1%nat] in
  NoDup (dlvs h) /\ (forall x, In x (dlvs h) -> (x < length (chunks l 2))%nat) /\
  (forall x, In x (acks h) -> (x < length (chunks l 2))%nat) /\
  find F (dlvs h) = Some 2%nat /\
  map_get (fst (map_run (map_init (E := Z) 0 5 2 true true)
                        (map (mev_op (fun x => x * 10) l 2 e_of F) h))) = ORaise 702.
Proof.
  cbv zeta. split; [|split; [|split; [|split]]].
  - cbn. repeat constructor; cbn; intuition discriminate.
  - cbn. intros x [<-|[<-|[<-|[]]]]; lia.
  - cbn. intros x [<-|[<-|[<-|[]]]]; lia.
  - reflexivity.
  - vm_compute. reflexivity.
Qed.

(* ------------------------------------------------------------------------------------------
   The crash-free CLOSED system for multi-part jobs (Model/PoolParts.v, Proofs/PoolPartsProofs.v):
   client calls (apply, map n cs, imap n, imap_unordered n), the task handler's pass (one atomic feed),
   workers taking parts in pipe order (ACK then READY per part), the parent handling messages, the
   consumer calling next().  PARTIAL: proved for every schedule are (a) the parent of every reachable
   state is a run of the open pool model, so the reassembly and job theorems above apply to it,
   (b) termination (every step decreases (work, items still to consume) lexicographically: no infinite
   schedule), (c) where nothing but next() can move, nothing is in flight.  NOT proved in this model:
   that the stuck state has every job resolved with the sequential value and every iterator drained
   (the content theorems are the Reassembly theorems of this file, about the handles themselves); on
   the closed system they are checked by the monitors of `parts_closed_check` on the real code and by
   the evaluated witnesses below. *)
Theorem C02_parts_parent_is_the_pool_model : forall c y,
    PoolPartsProofs.preach c y -> exists tr, PoolParts.ppar y = Pool.run c tr.
Proof. exact PoolPartsProofs.preach_is_run. Qed.
Print Assumptions C02_parts_parent_is_the_pool_model.

Theorem C02_parts_every_schedule_terminates_partial : forall c y,
    PoolPartsProofs.preach c y ->
    Acc (fun y' y0 => PoolInv.AllJ (PoolParts.ppar y0) /\ exists a, PoolParts.parts_step y0 a = Some y') y.
Proof. exact PoolPartsProofs.reachable_schedules_terminate. Qed.
Print Assumptions C02_parts_every_schedule_terminates_partial.

Theorem C02_parts_stuck_means_nothing_in_flight_partial : forall c y,
    1 <= Pool.c_n c -> Pool.c_putlocks c = false -> PoolPartsProofs.preach c y ->
    (forall a, PoolPartsProofs.is_next a = false -> PoolParts.parts_step y a = None) ->
    PoolParts.ptodo y = [] /\ Pool.feeds (PoolParts.ppar y) = [] /\ PoolParts.pinq y = []
    /\ PoolParts.somep (PoolParts.pwk y) = [] /\ PoolParts.poutq y = [].
Proof. exact PoolPartsProofs.preach_stuck_nothing_in_flight. Qed.
Print Assumptions C02_parts_stuck_means_nothing_in_flight_partial.
