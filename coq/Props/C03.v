(* C03 -- worker job protocol: accept before run, one result per job, NACK honoured.
   Only statements here; proofs live in Proofs/WorkerProofs.v.

   Part 1 ties the statements to the code: the decisions of Worker.workloop /
   _ensure_messages_consumed translated from /repo/billiard/pool.py on this run (and whose
   surrounding skeleton was checked by the translator) compute exactly the model's functions.
   Part 2 are the theorems over ALL input scripts, quotas and oracles.
   Part 3 is the parent side (ApplyResult._ack/_set behind ResultHandler.on_ack/on_ready). *)
From Coq Require Import ZArith List Bool.
From BV Require Import Lib.PyVal Gen.K_worker Model.Worker Proofs.WorkerProofs Proofs.WorkerHandshake
     Proofs.WorkerParentGen.
Import ListNotations.
Open Scope Z_scope.

(* ------------------------------------------------------------ 1. code = model *)
Theorem C03_code_constants :
  c_ACK = PInt ACK /\ c_READY = PInt READY /\ c_TASK = PInt TASK /\ c_NACK = PInt NACK /\
  c_EX_OK = PInt EX_OK /\ c_EX_FAILURE = PInt EX_FAILURE /\ c_EX_RECYCLE = PInt EX_RECYCLE /\
  c_GUARANTEE_MESSAGE_CONSUMPTION_RETRY_LIMIT = PInt (Z.of_nat RETRY_LIMIT).
Proof. exact gen_consts. Qed.
Print Assumptions C03_code_constants.

(* `while maxtasks is None or (maxtasks and completed < maxtasks)` *)
Theorem C03_code_loop_guard : forall mt n,
    exists v, K_worker.loop_guard tt (optv mt) (PInt n) = Ok v tt /\ truth v = guard mt n.
Proof. exact gen_loop_guard. Qed.
Print Assumptions C03_code_loop_guard.

(* `if maxtasks: return EX_RECYCLE if completed == maxtasks else EX_FAILURE` / `return EX_OK` *)
Theorem C03_code_exit_status : forall mt n,
    K_worker.exit_status tt (optv mt) (PInt n) = Ok (PInt (Worker.exit_status mt n)) tt.
Proof. exact gen_exit_status. Qed.
Print Assumptions C03_code_exit_status.

Theorem C03_code_mem_check : forall maxm used,
    K_worker.mem_check tt (PInt maxm) (PInt used) =
    Ok (if mem_exceeded maxm used then PInt EX_RECYCLE else PNone) tt.
Proof. exact gen_mem_check. Qed.
Print Assumptions C03_code_mem_check.

Theorem C03_code_syn_decide : forall ty,
    K_worker.syn_decide tt (PInt ty) =
    match Worker.syn_decide ty with
    | Some b => Ok (PBool b) tt
    | None => Exc AssertionError tt
    end.
Proof. exact gen_syn_decide. Qed.
Print Assumptions C03_code_syn_decide.

Theorem C03_code_task_check : forall ty,
    K_worker.task_check tt (PInt ty) =
    if task_ok ty then Ok PNone tt else Exc AssertionError tt.
Proof. exact gen_task_check. Qed.
Print Assumptions C03_code_task_check.

Theorem C03_code_defaults : forall p os m,
    K_worker.pid_default tt (optv p) (PInt os) = Ok (PInt (or_default p os)) tt /\
    K_worker.maxmem_default tt (optv m) = Ok (PInt (or_default m 0)) tt.
Proof. exact gen_defaults. Qed.
Print Assumptions C03_code_defaults.

Theorem C03_code_ensure_test : forall completed value,
    K_worker.ensure_test tt (PInt completed) (PInt value) =
    Ok (PBool (Worker.ensure_test value completed)) tt.
Proof. exact gen_ensure_test. Qed.
Print Assumptions C03_code_ensure_test.

(* `if exitcode is None: exitcode = EX_FAILURE if exc else EX_OK` in Worker._do_exit *)
Theorem C03_code_do_exit_code : forall (recorded : option Z) (exc : bool),
    K_worker.do_exit_code tt (optv recorded) (if exc then PBool true else PNone) =
    Ok (PInt (Worker.do_exit_code recorded exc)) tt.
Proof. exact gen_do_exit_code. Qed.
Print Assumptions C03_code_do_exit_code.

(* The parent side.  ApplyResult._ack / ApplyResult._set translated from pool.py on this run
   (Gen/K_workerparent.v; the hooks are modelled calls that append to an ordered effect
   log) compute exactly the model's p_ack / p_set: same final handle (accepted, cancelled,
   owner pid, acceptance time, ready, cache entry), same hooks in the same order with the
   same arguments ([view]); an exception leaves _ack exactly when a raising accept callback
   makes Python evaluate the non-existent `self._propagate_errors` (observation O1).  The
   routing around them (ResultHandler.on_ack / on_ready: `cache[job]`, the swallowed
   KeyError/AttributeError), ready(), safe_apply_callback, _cancel, worker_pids are
   text-compared by the translator on every run.
   [lc] (late cancellation): the generated hooks that run between _ack's decision and its
   answer -- the timeout hook and the accept callback -- are a point at which a _cancel()
   can land (the callback itself, or another thread: _cancel takes no lock); under the oracle
   [lc] they set the generated handle's _cancelled flag, so every reading of the flag that
   the code makes after a hook is part of this equation. *)
Theorem C03_code_parent_ack : forall pc s i t pid fd r lc job su va,
    in_cache s = true ->
    let o := K.ack (emb pc s r lc job su va) i (PInt t) (PInt pid) (optv fd) in
    view o = p_ack pc s t pid fd r lc /\
    raised o = negb (cancelled s && has_send_ack pc) && has_accept_cb pc && r /\
    (raised o = true -> K.g_attr_error (final o) = true).
Proof. exact gen_p_ack. Qed.
Print Assumptions C03_code_parent_ack.

(* ... and _ack reads the cancellation flag exactly ONCE (readings of `self._cancelled`
   counted in pool.py on this run; it never assigns it): decision and answer cannot be about
   two different values of the flag (seeded change C03-4 re-read it before answering) *)
Theorem C03_code_ack_reads_flag_once : K.ack_cancelled_reads = 1%nat.
Proof. exact gen_ack_reads_flag_once. Qed.
Print Assumptions C03_code_ack_reads_flag_once.

Theorem C03_code_parent_set : forall pc s i ok v job su va,
    in_cache s = true ->
    let o := K.set (emb pc s false false job su va) i (PBool ok) (PInt v) in
    view o = p_set pc s ok v /\ raised o = false.
Proof. exact gen_p_set. Qed.
Print Assumptions C03_code_parent_set.

(* what PLAIN billiard gives (text-compared on this run): handles get send_ack exactly under
   the pool's synack switch, Pool.send_ack is a no-op, Pool.get_process_queues gives the
   workers no SYN queue -- the configuration of C03_synack_honours_cancel_refuted *)
Theorem C03_code_plain_pool :
  K.plain_send_ack_is_noop = true /\ K.plain_workers_have_no_syn_queue = true /\
  K.handles_get_send_ack_iff_synack = true.
Proof. exact gen_plain_pool. Qed.
Print Assumptions C03_code_plain_pool.

(* ------------------------------------------------------------ 2. the worker loop *)

(* Message grammar.  For every configuration and every input script: the protocol events
   (messages written and task executions, in order) are the concatenation, over a prefix of
   the task messages of the script, of  ACK(job,i,time,pid)  followed by nothing (the job
   was refused, or the loop was left while waiting for the SYN)  or by  RUN(job,i) and
   exactly one READY(job,i,result) -- the READY is missing only when a termination request
   made the task's exception leave the loop (then this is the last block);  and `completed`
   counts exactly the jobs executed to the end. *)
Theorem C03_message_grammar : forall c ins, exists k,
    proto (w_events c ins) = flat_map (block c) (firstn k (tasks ins)) /\
    w_completed c ins = Z.of_nat (length (filter (counted c) (firstn k (tasks ins)))).
Proof. exact workloop_grammar. Qed.
Print Assumptions C03_message_grammar.

(* Ordering of everything else: the full event trace (polls of the job pipe, clock read,
   ACK, SYN polls, execution, failed put, READY, memory read) is accepted by the protocol
   monitor: no job is taken before the previous READY is written, nothing runs before its
   ACK is written, a job is skipped only after at least one receive call on the SYN pipe.
   (The monitor sees receive CALLS, not answers: that a job runs only after the answer ACK
   and is skipped only after the answer NACK is C03_message_grammar with [confirmed], and
   C03_acked_answered_or_refused below.)  The same monitor judges the implementation's
   traces in the harness. *)
Theorem C03_monitor_accepts : forall c ins, monitor (w_events c ins) = true.
Proof. exact workloop_monitor. Qed.
Print Assumptions C03_monitor_accepts.

Theorem C03_completed_counts_executions : forall c ins,
    w_completed c ins + cut_short (w_exit c ins) = Z.of_nat (runs (w_events c ins)).
Proof. exact workloop_completed_is_runs. Qed.
Print Assumptions C03_completed_counts_executions.

(* every message on the result pipe is an ACK or the READY of a task message of the script,
   carrying this worker's pid / the acceptance time read for that job *)
Theorem C03_messages_well_formed : forall c ins n m,
    In m (puts (evs (loop c n ins))) ->
    exists q, In (RMsg q) ins /\ (m = ack_msg c q \/ m = ready_msg c q (final_res (q_beh q))).
Proof. exact worker_stream_messages. Qed.
Print Assumptions C03_messages_well_formed.

(* NACK honoured: one iteration on a refused job writes the ACK, polls the SYN pipe, and goes
   on with the same `completed`; no execution *)
Theorem C03_nack_step : forall c n q rest,
    guard (maxtasks c) n = true -> task_ok (q_ty q) = true ->
    fst (syn_result c q) = SynFalse ->
    loop c n (RMsg q :: rest) = pre (accept_events c q) (loop c n rest)
    /\ runs (accept_events c q) = O.
Proof. exact nack_step_no_run. Qed.
Print Assumptions C03_nack_step.

(* ... and the behaviour / memory oracles of a job that is not confirmed are never
   consulted: replacing them changes nothing in the whole run *)
Theorem C03_nack_not_run : forall c front q q' rest,
    same_request q q' -> confirmed c q = false ->
    workloop c (front ++ RMsg q :: rest) = workloop c (front ++ RMsg q' :: rest).
Proof. exact workloop_unconfirmed_irrelevant. Qed.
Print Assumptions C03_nack_not_run.

(* Quota N >= 1: at most N executions; completed = N forces `return EX_RECYCLE`; the only
   status ever returned is EX_RECYCLE; with the memory limit off EX_RECYCLE is returned
   exactly when completed = N *)
Theorem C03_quota : forall c N ins,
    maxtasks c = Some N -> 1 <= N ->
    0 <= w_completed c ins <= N /\
    (w_completed c ins = N -> w_exit c ins = XReturn EX_RECYCLE) /\
    (forall code, w_exit c ins = XReturn code -> code = EX_RECYCLE) /\
    (eff_maxmem c <= 0 -> w_exit c ins = XReturn EX_RECYCLE -> w_completed c ins = N).
Proof. exact workloop_quota. Qed.
Print Assumptions C03_quota.

(* no quota, no memory limit: workloop never returns; it is left only by SystemExit from a
   receive (sentinel / EOF), by an AssertionError, or it keeps polling *)
Theorem C03_no_quota_never_returns : forall c ins code,
    maxtasks c = None -> eff_maxmem c <= 0 -> w_exit c ins <> XReturn code.
Proof. exact workloop_no_quota. Qed.
Print Assumptions C03_no_quota_never_returns.

(* every return is either the quota test failing (status by the exit-status kernel) or the
   memory limit (EX_RECYCLE right after a mem_rss() reading, limit > 0) *)
Theorem C03_return_cases : forall c ins n code,
    xit (loop c n ins) = XReturn code ->
    (guard (maxtasks c) (cnt (loop c n ins)) = false /\
     code = Worker.exit_status (maxtasks c) (cnt (loop c n ins)))
    \/ (code = EX_RECYCLE /\ eff_maxmem c > 0 /\ exists l, evs (loop c n ins) = l ++ [EMem]).
Proof. exact return_code_cases. Qed.
Print Assumptions C03_return_cases.

(* `return EX_OK` and `EX_FAILURE` are unreachable for the quotas the constructor accepts *)
Theorem C03_return_ok_is_dead : forall c ins,
    xit (loop c 0 ins) = XReturn EX_OK -> maxtasks c = Some 0.
Proof. exact return_ok_only_quota_zero. Qed.
Print Assumptions C03_return_ok_is_dead.

Theorem C03_return_failure_is_dead : forall c ins,
    xit (loop c 0 ins) = XReturn EX_FAILURE -> exists m, maxtasks c = Some m /\ m < 0.
Proof. exact return_failure_only_negative_quota. Qed.
Print Assumptions C03_return_failure_is_dead.

(* unserialisable result (or exception): one failed put, then exactly one READY with the
   encoding error for the same job; the job counts and the loop continues *)
Theorem C03_unserialisable : forall c n q rest,
    guard (maxtasks c) n = true -> task_ok (q_ty q) = true -> confirmed c q = true ->
    task_escapes q = None ->
    mem_exceeded (eff_maxmem c) (q_mem q) = false ->
    first_put_fails (q_beh q) = true ->
    loop c n (RMsg q :: rest) =
    pre (accept_events c q ++
         [ERun (q_job q) (q_i q); EPutFail (q_job q) (q_i q);
          EPut (mk_msg READY (q_job q) (q_i q) (PReadyP REnc (inqfd c)))] ++
         (if eff_maxmem c >? 0 then [EMem] else []))
        (loop c (n + 1) rest).
Proof. exact unserialisable_step. Qed.
Print Assumptions C03_unserialisable.

(* termination request while the task runs (repair of D2): the exception leaves workloop
   right after the execution started: no READY, not counted, no further job taken *)
Theorem C03_terminated_step : forall c n q rest x,
    guard (maxtasks c) n = true -> task_ok (q_ty q) = true -> confirmed c q = true ->
    task_escapes q = Some x ->
    loop c n (RMsg q :: rest) = (accept_events c q ++ [ERun (q_job q) (q_i q)], x, n).
Proof. exact terminated_step. Qed.
Print Assumptions C03_terminated_step.

(* whole-run form (quoted by C08): for EVERY configuration, quota and input script, if
   workloop is left by an exception of the task (the termination handler's SystemExit, or
   any exception while common._should_have_exited is set), then the trace ENDS with that
   job's ACK, its SYN polls and the start of its execution -- no READY for it, no further
   poll of the job pipe -- and the job is a confirmed task message of the script whose
   oracle says the exception escapes *)
Theorem C03_termination_ends_trace : forall c ins n,
    cut_short (xit (loop c n ins)) = 1 ->
    exists l q, In (RMsg q) ins /\ confirmed c q = true /\
                task_escapes q = Some (xit (loop c n ins)) /\
                evs (loop c n ins) = l ++ accept_events c q ++ [ERun (q_job q) (q_i q)].
Proof. exact termination_ends_trace. Qed.
Print Assumptions C03_termination_ends_trace.

Theorem C03_termination_not_counted : forall c ins n,
    cut_short (xit (loop c n ins)) = 1 ->
    cnt (loop c n ins) = n + Z.of_nat (runs (evs (loop c n ins))) - 1.
Proof. exact termination_not_counted. Qed.
Print Assumptions C03_termination_not_counted.

(* ... and without a termination request nothing the task raises leaves the loop *)
Theorem C03_no_termination_no_escape : forall q,
    q_term q = false -> (forall code, q_beh q <> Terminated code) -> task_escapes q = None.
Proof. exact no_termination_no_escape. Qed.
Print Assumptions C03_no_termination_no_escape.

(* exactly one READY per job executed to the end, whatever the task does (incl. a
   BaseException raised by the task itself) *)
Theorem C03_one_ready_per_execution : forall c q,
    puts (exec_events c q) = [ready_msg c q (final_res (q_beh q))] /\
    runs (exec_events c q) = 1%nat.
Proof. exact one_ready_per_execution. Qed.
Print Assumptions C03_one_ready_per_execution.

(* _ensure_messages_consumed *)
Theorem C03_ensure_iff : forall rd d n,
    fst (fst (ensure (Some (rd, d)) n)) = true <->
    exists k, (k < RETRY_LIMIT)%nat /\ reading rd d k >= n.
Proof. exact ensure_true_iff. Qed.
Print Assumptions C03_ensure_iff.

Theorem C03_ensure_polls : forall rd d n b r s,
    ensure (Some (rd, d)) n = (b, r, s) ->
    (b = true -> r = S s /\ reading rd d s >= n /\ forall k, (k < s)%nat -> reading rd d k < n) /\
    (b = false -> r = RETRY_LIMIT /\ s = RETRY_LIMIT).
Proof. exact ensure_polls. Qed.
Print Assumptions C03_ensure_polls.

Theorem C03_ensure_without_counter : forall n, ensure None n = (false, O, O).
Proof. exact ensure_without_counter. Qed.
Print Assumptions C03_ensure_without_counter.

Theorem C03_ensure_gets_completed : forall c ins,
    w_ensure c ins = ensure (counter c) (w_completed c ins).
Proof. exact w_ensure_eq. Qed.
Print Assumptions C03_ensure_gets_completed.

(* process exit status (Worker.__call__ / _do_exit; also the DEATH message): with a quota,
   EX_RECYCLE exactly when workloop returned EX_RECYCLE (or a termination handler called
   sys.exit(EX_RECYCLE) itself) *)
Theorem C03_exit_status_recycle : forall c N ins,
    maxtasks c = Some N -> 1 <= N ->
    (call_status (w_exit c ins) = EX_RECYCLE <->
     (w_exit c ins = XReturn EX_RECYCLE \/ w_exit c ins = XTerminated EX_RECYCLE)).
Proof. exact call_status_recycle. Qed.
Print Assumptions C03_exit_status_recycle.

(* observation: the EX_FAILURE carried by the SystemExit of an EOF is lost *)
Theorem C03_exit_status_sysexit : forall code, call_status (XSysExit code) = EX_OK.
Proof. exact call_status_sysexit. Qed.
Print Assumptions C03_exit_status_sysexit.

(* ------------------------------------------------------------ 3. parent side *)

(* the ACK of a live job that is not refused: owner pid and acceptance time are those of the
   ACK, and the accept callback (given the same values) is the first callback *)
Theorem C03_parent_owner_recorded : forall pc s t pid fd r lc,
    in_cache s = true -> cancelled s && has_send_ack pc = false ->
    let (s', o) := p_ack pc s t pid fd r lc in
    accepted s' = true /\ worker_pid s' = Some pid /\ time_accepted s' = Some t /\
    (has_accept_cb pc = true -> exists rest, o = OTimeoutSet :: OCbAccept pid t :: rest) /\
    (has_accept_cb pc = true -> r = false -> has_send_ack pc = true ->
     forall f, fd_truthy fd = Some f -> o = [OTimeoutSet; OCbAccept pid t; OSendAck ACK pid f]).
Proof. exact parent_ack_records_owner. Qed.
Print Assumptions C03_parent_owner_recorded.

(* accept before result, for every event list in pipe order *)
Theorem C03_parent_accept_before_result : forall pc, has_accept_cb pc = true ->
    forall l s,
      (cancelled s = false \/ has_send_ack pc = false) ->
      ack_first (negb (has_send_ack pc)) l = true ->
      accept_first false (snd (p_run pc s l)) = true.
Proof. exact parent_accept_before_result. Qed.
Print Assumptions C03_parent_accept_before_result.

(* every worker stream is in pipe order for every job *)
Theorem C03_stream_ack_first : forall c ins n J,
    ack_first true (flat_map (pev_of J) (puts (evs (loop c n ins)))) = true.
Proof. exact worker_stream_ack_first. Qed.
Print Assumptions C03_stream_ack_first.

(* composition: any worker run, any job J, cancellations woven into the stream anywhere.
   With synack on, a cancellation BEFORE the ACK is processed is excluded by hypothesis
   here: that case needs the two switches to be linked (synack on AND workers have a SYN
   queue AND the response is delivered) -- then C03_handshake_whole_run applies (the job is
   refused and never run, so no result callback exists); with synack on and no SYN queue
   (plain billiard) the conclusion is false: C03_synack_honours_cancel_refuted. *)
Theorem C03_parent_order : forall c ins n J pc l,
    has_accept_cb pc = true ->
    uncancel l = flat_map (pev_of J) (puts (evs (loop c n ins))) ->
    (has_send_ack pc = true -> ack_first false l = true) ->
    accept_first false (snd (p_run pc (ar_init pc) l)) = true.
Proof. exact worker_stream_accept_before_result. Qed.
Print Assumptions C03_parent_order.

Theorem C03_parent_owner_is_ack_pid : forall c ins n J pc l,
    uncancel l = flat_map (pev_of J) (puts (evs (loop c n ins))) ->
    let s := fst (p_run pc (ar_init pc) l) in
    worker_pid s = None \/ worker_pid s = Some (eff_pid c).
Proof. exact worker_stream_owner. Qed.
Print Assumptions C03_parent_owner_is_ack_pid.

(* cancelled before acceptance, handshake enabled: NACK to the ACK's pid/fd, no callback,
   no owner ... *)
Theorem C03_parent_cancel_refuses : forall pc s t pid fd r lc f,
    in_cache s = true -> cancelled s = true -> has_send_ack pc = true -> fd_truthy fd = Some f ->
    p_ack pc s t pid fd r lc =
    (mk_ar true true (worker_pid s) (time_accepted s) (is_ready s) true, [OSendAck NACK pid f]).
Proof. exact parent_cancelled_refuses. Qed.
Print Assumptions C03_parent_cancel_refuses.

(* ... and the worker that receives that answer (after any number of empty polls) neither
   runs the job nor counts it.  NOTE the hypotheses has_send_ack pc = true AND has_syn c =
   true: two independent switches of the code, and the delivery of the response to the
   worker is the hypothesis on q_syn.  The closed form (the SYN script DEFINED from p_ack,
   whole run) is C03_handshake_whole_run; the unlinked configurations are
   C03_handshake_no_answer_starves and C03_synack_honours_cancel_refuted. *)
Theorem C03_cancelled_job_not_run : forall pc s c n q rest k f,
    in_cache s = true -> cancelled s = true -> has_send_ack pc = true ->
    has_syn c = true -> fd_truthy (synfd c) = Some f ->
    guard (maxtasks c) n = true -> task_ok (q_ty q) = true ->
    forall resp, snd (p_ack pc s (q_t q) (eff_pid c) (synfd c) false false) = [OSendAck resp (eff_pid c) f] ->
    q_syn q = repeat RTimeout k ++ [RMsg resp] ->
    loop c n (RMsg q :: rest) = pre (accept_events c q) (loop c n rest)
    /\ runs (accept_events c q) = O /\ puts (accept_events c q) = [ack_msg c q].
Proof. exact cancelled_job_not_run. Qed.
Print Assumptions C03_cancelled_job_not_run.

(* ------------------------------------------------ 4. audit follow-up (2026-09-23) *)

(* Every job the worker announced and then left behind (it is not the last job taken) got
   exactly ACK, RUN, READY -- or was refused: ACK only, and the FIRST answer that became
   readable on the SYN channel for that job was the parent's NACK.  (The last job taken may
   be cut short by whatever ended the loop: C03_message_grammar.) *)
Theorem C03_acked_answered_or_refused : forall c ins, exists k,
    proto (w_events c ins) = flat_map (block c) (firstn k (tasks ins)) /\
    forall q, In q (removelast (firstn k (tasks ins))) ->
              (block c q = [EPut (ack_msg c q); ERun (q_job q) (q_i q);
                            EPut (ready_msg c q (final_res (q_beh q)))])
              \/ (block c q = [EPut (ack_msg c q)] /\ has_syn c = true /\
                  first_answer (q_syn q) = Some NACK).
Proof. exact workloop_acked_answered_or_refused. Qed.
Print Assumptions C03_acked_answered_or_refused.

(* The SYN channel is ONE stream shared by the successive jobs of a worker ([loop_s]: what
   a wait leaves unread is read by the next job's wait).  If what becomes readable for each
   job is read to its end by that job's own wait (empty polls, then its answer), the worker
   over the shared stream IS the per-job model of all the theorems above and nothing is ever
   left behind: every answer is consumed by the job it was sent for.  (A wait that gives up
   early -- seeded change C03-3 -- breaks exactly this; the harness runs the real workloop
   over one shared stream with up to 130 empty polls before an answer.) *)
Theorem C03_syn_answers_consumed_by_their_job : forall c ins n,
    (forall q, In (RMsg q) ins -> syn_closed q = true) ->
    loop_s c n ins [] = (loop c n ins, []).
Proof. exact shared_stream_eq. Qed.
Print Assumptions C03_syn_answers_consumed_by_their_job.

Theorem C03_syn_segment_closed : forall q d r,
    q_syn q = d ++ [RMsg r] -> forallb nonanswer d = true -> syn_closed q = true.
Proof. exact closed_delay_answer. Qed.
Print Assumptions C03_syn_segment_closed.

(* Closed handshake: the SYN answer of a job IS the parent's reaction to its ACK
   ([hs_req]: p_ack on the job's handle, cancelled or not, at the moment the ACK is
   processed).  The code has TWO independent switches: the pool's `synack` flag
   (has_send_ack: handles are given Pool.send_ack) and whether the workers were given a SYN
   queue (has_syn: Pool.get_process_queues).  [linked pc c] = both on and the response is
   delivered to a truthy descriptor.  Then the worker's decision is the parent's -- the
   parent's as taken on ENTRY of _ack ([hj_cancel]: cancelled before the ACK is processed);
   [hj_late] (a cancellation landing while _ack's hooks run) is arbitrary.  [cb_returns]: the
   job was refused on entry or its accept callback does not raise (a raising one leaves the
   worker without any answer: C03_raising_accept_callback_starves). *)
Theorem C03_handshake_decision : forall pc c h,
    linked pc c -> delay_ok h = true -> cb_returns pc h = true ->
    confirmed c (hs_req pc true c h) = negb (hj_cancel h) /\
    fst (syn_result c (hs_req pc true c h)) = (if hj_cancel h then SynFalse else SynTrue) /\
    syn_closed (hs_req pc true c h) = true.
Proof. exact hs_confirmed. Qed.
Print Assumptions C03_handshake_decision.

(* ... whole run, every script / quota / behaviour / number of empty polls: a job cancelled
   before acceptance is announced and dropped (ACK only), every other taken job is run;
   executions = taken jobs not cancelled; cancelled jobs do not count toward the quota;
   and over one shared SYN stream the run is the same (no answer left for another job). *)
Theorem C03_handshake_whole_run : forall pc c hins,
    linked pc c -> (forall h, In (RMsg h) hins -> delay_ok h = true /\ cb_returns pc h = true) ->
    let ins := hs_ins pc true c hins in
    exists k,
      proto (w_events c ins) = flat_map (hblock pc c) (firstn k (htasks hins)) /\
      w_completed c ins = Z.of_nat (length (filter hcounted (firstn k (htasks hins)))) /\
      runs (w_events c ins) =
        length (filter (fun h => negb (hj_cancel h)) (firstn k (htasks hins))) /\
      workloop_s c ins = workloop c ins.
Proof. exact hs_whole_run. Qed.
Print Assumptions C03_handshake_whole_run.

(* one switch without the other, 1: workers have a SYN queue but no answer is ever
   delivered (synack off, or send_ack does not write): the worker waits for ever *)
Theorem C03_handshake_no_answer_starves : forall pc c h dl,
    has_syn c = true -> delay_ok h = true -> (has_send_ack pc = false \/ dl = false) ->
    fst (syn_result c (hs_req pc dl c h)) = SynStarved.
Proof. exact hs_no_answer_starves. Qed.
Print Assumptions C03_handshake_no_answer_starves.

(* one switch without the other, 2: synack on, no SYN queue -- this is plain
   billiard.Pool(synack=True): Pool.get_process_queues returns synq=None and Pool.send_ack
   is `pass`.  The claim "synack on => a job cancelled before acceptance is never executed
   and no result callback runs without the accept callback" is FALSE of the code: the job
   is marked accepted with no owner and no accept callback, no NACK is sent, the worker
   (which never waits) runs it and the result callback fires.  Reproduced on the real code
   by the harness (handshake cases, mode "plain") and with a real Pool (docs/C03.md);
   signature C03:synack-without-syn-queue-runs-cancelled-job.
   C03_parent_order / C03_cancelled_job_not_run exclude this configuration by hypothesis
   (ack_first false l / has_syn c = true): their link is [linked]. *)
Theorem C03_synack_honours_cancel_refuted : ~ synack_honours_cancel.
Proof. exact synack_honours_cancel_refuted. Qed.
Print Assumptions C03_synack_honours_cancel_refuted.

Theorem C03_synack_without_syn_queue_witness :
  has_send_ack plain_pc = true /\ has_syn plain_cfg = false /\ hj_cancel plain_job = true /\
  let wl := w_events plain_cfg [RMsg (hs_req plain_pc false plain_cfg plain_job)] in
  wl = [EInq; ENow; EPut (mk_msg ACK 41 None (PAckP 100 4242 None));
        ERun 41 None; EPut (mk_msg READY 41 None (PReadyP (ROk 5) 7)); EInq] /\
  hs_parent plain_pc 41 true wl =
  (mk_ar true true None None true false,
   [OCancelled; OAcked; OTimeoutCancel; OCbResult 5; OReadied]) /\
  accept_first false (snd (hs_parent plain_pc 41 true wl)) = false.
Proof. exact synack_without_syn_queue_witness. Qed.
Print Assumptions C03_synack_without_syn_queue_witness.

(* ------------------------------------------------ 5. the hook point inside _ack *)

(* Between _ack's decision (its ONE reading of the cancellation flag, on entry) and its
   answer the timeout hook and the accept callback run: user code, during which _cancel()
   can be called on the same handle (by the callback, or by another thread -- _ack holds the
   handle's mutex, _cancel takes no lock).  Such a cancellation sets the flag of the
   accepted job and changes nothing else: same hooks, same order, same arguments, same
   answer, same ownership record. *)
Theorem C03_ack_late_cancel_changes_only_the_flag : forall pc s t pid fd r lc,
    snd (p_ack pc s t pid fd r lc) = snd (p_ack pc s t pid fd r false) /\
    fst (p_ack pc s t pid fd r lc) =
    (if in_cache s && negb (cancelled s && has_send_ack pc)
     then with_cancelled (fst (p_ack pc s t pid fd r false)) (cancelled s || lc)
     else fst (p_ack pc s t pid fd r false)).
Proof. exact p_ack_late_cancel. Qed.
Print Assumptions C03_ack_late_cancel_changes_only_the_flag.

(* The answer is determined by the FIRST reading: refused on entry -> NACK; accepted on
   entry -> ACK whatever lands while the hooks run; no answer exactly when the accept
   callback raises (observation O1). *)
Theorem C03_ack_answer_first_read : forall pc s t pid fd r lc f,
    in_cache s = true -> has_send_ack pc = true -> fd_truthy fd = Some f ->
    responses (snd (p_ack pc s t pid fd r lc)) =
    if cancelled s then [RMsg NACK]
    else if has_accept_cb pc && r then [] else [RMsg ACK].
Proof. exact p_ack_answer_first_read. Qed.
Print Assumptions C03_ack_answer_first_read.

(* trace form (the monitor the harness evaluates on the real code): in one run of _ack the
   accept callback and a NACK never occur together *)
Theorem C03_accepted_never_refused : forall pc s t pid fd r lc p t' resp p' f,
    In (OCbAccept p t') (snd (p_ack pc s t pid fd r lc)) ->
    In (OSendAck resp p' f) (snd (p_ack pc s t pid fd r lc)) ->
    resp = ACK.
Proof. exact p_ack_accepted_never_refused. Qed.
Print Assumptions C03_accepted_never_refused.

(* closed handshake: the accept callback of a job ran and returned => the worker's wait ends
   with the confirmation and the job is run -- also when the callback cancelled the job *)
Theorem C03_accept_callback_implies_run : forall pc c h p t,
    linked pc c -> delay_ok h = true -> hj_raises h = false ->
    In (OCbAccept p t) (snd (p_ack pc (ar_at_ack (hj_cancel h)) (q_t (hj_req h)) (eff_pid c)
                                   (synfd c) (hj_raises h) (hj_late h))) ->
    confirmed c (hs_req pc true c h) = true /\
    fst (syn_result c (hs_req pc true c h)) = SynTrue.
Proof. exact hs_accept_callback_implies_run. Qed.
Print Assumptions C03_accept_callback_implies_run.

(* nothing the worker ever reads depends on late cancellations: its inputs -- hence its
   whole run, by the theorems of part 2 and 4 -- are those of the history without them *)
Theorem C03_late_cancel_invisible_to_worker : forall pc dl c hins,
    hs_ins pc dl c hins = hs_ins pc dl c (map no_late_in hins).
Proof. exact hs_late_cancel_invisible. Qed.
Print Assumptions C03_late_cancel_invisible_to_worker.

(* observation O1 inside the handshake: the accept callback of an accepted job raises ->
   `except self._propagate_errors` (no such attribute) -> AttributeError leaves _ack, on_ack
   swallows it: owner and timeouts recorded, NO answer -- the worker waits for ever.
   Reproduced on the real code by the handshake cases with a raising accept callback. *)
Theorem C03_raising_accept_callback_starves : forall pc c h,
    linked pc c -> delay_ok h = true -> hj_cancel h = false ->
    has_accept_cb pc = true -> hj_raises h = true ->
    fst (syn_result c (hs_req pc true c h)) = SynStarved.
Proof. exact hs_raising_callback_starves. Qed.
Print Assumptions C03_raising_accept_callback_starves.

(* ... hence the claim "linked handshake: every job _ack accepted gets an answer" is FALSE of
   the code -- known finding F-C03-2, signature
   C03:raising-accept-callback-leaves-worker-unanswered, raised on every run from an enumerated
   handshake case on the real code.  The strongest true statement is C03_handshake_decision
   (under [cb_returns]). *)
Theorem C03_accepted_job_answered_refuted : ~ accepted_job_answered.
Proof. exact accepted_job_answered_refuted. Qed.
Print Assumptions C03_accepted_job_answered_refuted.

Theorem C03_raising_accept_callback_witness :
  let wl := w_events o1_cfg (hs_ins o1_pc true o1_cfg [RMsg o1_job; RShutdown]) in
  wl = [EInq; ENow; EPut (mk_msg ACK 20 None (PAckP 200 77 (Some 9))); ESyn] /\
  w_exit o1_cfg (hs_ins o1_pc true o1_cfg [RMsg o1_job; RShutdown]) = XStarved /\
  hs_parent_x o1_pc 20 false true false wl =
  (mk_ar true false (Some 77) (Some 200) false true, [OTimeoutSet; OCbAccept 77 200; OAcked]).
Proof. exact raising_accept_callback_witness. Qed.
Print Assumptions C03_raising_accept_callback_witness.

(* witness: linked handshake, the accept callback cancels its own job: ACK, RUN, READY *)
Example C03_late_cancel_witness :
  let pc := mk_pcfg true true true true true in
  let c := mk_cfg None (Some 9) 7 None 4242 None None in
  let h := mk_hjob (mk_req TASK 41 None 100 (Returns 5) [RTimeout] 0 false) false false true in
  p_ack pc (ar_at_ack false) 100 4242 (Some 9) false true =
  (mk_ar true true (Some 4242) (Some 100) false true,
   [OTimeoutSet; OCbAccept 4242 100; OSendAck ACK 4242 9]) /\
  proto (w_events c (hs_ins pc true c [RMsg h; RShutdown])) =
  [EPut (mk_msg ACK 41 None (PAckP 100 4242 (Some 9))); ERun 41 None;
   EPut (mk_msg READY 41 None (PReadyP (ROk 5) 7))].
Proof. exact late_cancel_witness. Qed.

(* ------------------------------------------------------------ non-vacuity *)
(* linked handshake: job 1 cancelled before acceptance (3 empty polls), job 2 not; the late
   answer case: 61 empty polls before the ACK answer of job 3; jobs 2 and 3 are cancelled
   by their own accept callbacks (too late: they are run) *)
Example C03_handshake_witness :
  let pc := mk_pcfg true true true true true in
  let c := mk_cfg None (Some 9) 7 None 4242 None None in
  let j (n : Z) (k : nat) (cancel : bool) :=
      RMsg (mk_hjob (mk_req TASK n None (100 + n) (Returns n) (repeat RTimeout k) 0 false) cancel false
                    (negb cancel)) in
  let hins := [j 1 3%nat true; j 2 0%nat false; j 3 61%nat false; RShutdown] in
  linked pc c /\ (forall h, In (RMsg h) hins -> delay_ok h = true /\ cb_returns pc h = true) /\
  proto (w_events c (hs_ins pc true c hins)) =
  [EPut (mk_msg ACK 1 None (PAckP 101 4242 (Some 9)));
   EPut (mk_msg ACK 2 None (PAckP 102 4242 (Some 9))); ERun 2 None;
   EPut (mk_msg READY 2 None (PReadyP (ROk 2) 7));
   EPut (mk_msg ACK 3 None (PAckP 103 4242 (Some 9))); ERun 3 None;
   EPut (mk_msg READY 3 None (PReadyP (ROk 3) 7))].
Proof.
  cbv zeta. split; [|split].
  - unfold linked. cbn. repeat split. exists 9. reflexivity.
  - intros h [H|[H|[H|[H|[]]]]]; inversion H; split; reflexivity.
  - vm_compute. reflexivity.
Qed.

Definition ex_cfg : cfg := mk_cfg (Some 2) (Some 9) 7 None 4242 (Some 100) (Some ([0; 1], 2)).
Definition ex_job (j : Z) (b : beh) (answer : Z) (mem : Z) : rcv req :=
  RMsg (mk_req TASK j None (100 + j) b [RTimeout; RMsg answer] mem false).

(* quota 2, handshake on: job 1 refused, job 2 unserialisable, job 3 raises SystemExit itself
   (no termination request: reported as a failure, loop goes on), job 4 never taken; counter
   reaches 2 at the third poll *)
Example C03_witness :
  workloop ex_cfg [RTimeout; ex_job 1 (Returns 5) NACK 0; ex_job 2 ReturnsUnser ACK 50;
                   ex_job 3 (RaisesBase 1) ACK 60; ex_job 4 (Returns 1) ACK 0; RShutdown] =
  ([EInq; EInq; ENow; EPut (mk_msg ACK 1 None (PAckP 101 4242 (Some 9))); ESyn; ESyn;
    EInq; ENow; EPut (mk_msg ACK 2 None (PAckP 102 4242 (Some 9))); ESyn; ESyn;
    ERun 2 None; EPutFail 2 None; EPut (mk_msg READY 2 None (PReadyP REnc 7)); EMem;
    EInq; ENow; EPut (mk_msg ACK 3 None (PAckP 103 4242 (Some 9))); ESyn; ESyn;
    ERun 3 None; EPut (mk_msg READY 3 None (PReadyP (RBase 1) 7)); EMem],
   XReturn EX_RECYCLE, 2, (true, 3%nat, 2%nat)).
Proof. vm_compute. reflexivity. Qed.

(* hypotheses of C03_cancelled_job_not_run are satisfiable *)
Example C03_cancel_witness :
  let pc := mk_pcfg true true true true true in
  let s := mk_ar false true None None false true in
  snd (p_ack pc s 101 4242 (Some 9) false false) = [OSendAck NACK 4242 9] /\
  loop ex_cfg 0 [ex_job 1 (Returns 5) NACK 0; RShutdown] =
  ([EInq; ENow; EPut (mk_msg ACK 1 None (PAckP 101 4242 (Some 9))); ESyn; ESyn; EInq],
   XSysExit EX_OK, 0).
Proof. vm_compute. split; reflexivity. Qed.

(* hypotheses of C03_parent_order are satisfiable: stream of job 2 above, cancelled after
   its ACK was consumed *)
Example C03_parent_witness :
  let pc := mk_pcfg true true true true true in
  let l := [PAck None 102 4242 (Some 9) false false; PCancel; PReady None false (-1)] in
  uncancel l = flat_map (pev_of 2)
                 (puts (evs (loop ex_cfg 0 [ex_job 2 ReturnsUnser ACK 50; RShutdown]))) /\
  ack_first false l = true /\
  snd (p_run pc (ar_init pc) l) =
  [OTimeoutSet; OCbAccept 4242 102; OSendAck ACK 4242 9; OAcked; OCancelled;
   OTimeoutCancel; OCbError (-1); OReadied].
Proof. vm_compute. repeat split; reflexivity. Qed.

(* termination request inside job 2 (signal 15: sys.exit(-241)): ACK, execution, then the
   SystemExit leaves the loop; job 3 is never taken; the process exits with that status *)
Example C03_termination_witness :
  workloop ex_cfg [ex_job 1 (Returns 5) ACK 0; ex_job 2 (Terminated (-241)) ACK 0;
                   ex_job 3 (Returns 1) ACK 0] =
  ([EInq; ENow; EPut (mk_msg ACK 1 None (PAckP 101 4242 (Some 9))); ESyn; ESyn;
    ERun 1 None; EPut (mk_msg READY 1 None (PReadyP (ROk 5) 7)); EMem;
    EInq; ENow; EPut (mk_msg ACK 2 None (PAckP 102 4242 (Some 9))); ESyn; ESyn; ERun 2 None],
   XTerminated (-241), 1, (true, 2%nat, 1%nat))
  /\ call_status (XTerminated (-241)) = -241.
Proof. vm_compute. split; reflexivity. Qed.
