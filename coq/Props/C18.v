(* C18 -- connection authentication is mutual and exact.
   Only statements here; proofs live in Proofs/AuthProofs.v, AuthFaultProofs.v,
   AuthKeyProofs.v (keys compared through HMAC key normalisation) and
   AuthSessionProofs.v (several sessions, replay).

   The statements are about `code_listener` / `code_client`: Listener(authkey)+accept()
   and Client(authkey) assembled from the definitions that translate/kernels/auth.py
   regenerates from /repo/billiard/connection.py on every run (Gen/K_auth.v):
   deliver_challenge, answer_challenge, the constants, the guards and the order of the
   two handshake steps.  `mac` (HMAC) and the challenge sources `ul`/`uc` (os.urandom)
   are universally quantified oracles.  A peer is an arbitrary list of messages, or an
   arbitrary adaptive strategy. *)
From Coq Require Import ZArith List Bool.
From BV Require Import Lib.AuthBase Lib.AuthKey Gen.K_auth Model.Auth Proofs.AuthProofs
  Proofs.AuthFaultProofs Proofs.AuthKeyProofs Proofs.AuthSessionProofs.
Import ListNotations.
Open Scope Z_scope.

(* code_listener / code_client / code_handshake are defined in Proofs/AuthProofs.v:
     code_handshake mac fuel kl kc ul uc :=
       run2 fuel (code_listener mac kl ul) (code_client mac kc uc) [] [] [] []
   with code_listener := gen_listener, the endpoint built from Gen/K_auth.v. *)

(* ---- tie: what was generated from the source on this run is the model *)
Theorem C18_code_is_model :
  (forall mac key u k, K_auth.deliver_challenge mac key u k = Auth.deliver_challenge mac key u k) /\
  (forall mac key k, K_auth.answer_challenge mac key k = Auth.answer_challenge mac key k) /\
  (forall mac key u, code_listener mac key u = Auth.listener mac key u) /\
  (forall mac key u, code_client mac key u = Auth.client mac key u) /\
  K_auth.MESSAGE_LENGTH = 20 /\
  K_auth.CHALLENGE = [35; 67; 72; 65; 76; 76; 69; 78; 71; 69; 35] /\
  K_auth.WELCOME = [35; 87; 69; 76; 67; 79; 77; 69; 35] /\
  K_auth.FAILURE = [35; 70; 65; 73; 76; 85; 82; 69; 35] /\
  K_auth.accept_order = [Deliver; Answer] /\ K_auth.client_order = [Answer; Deliver] /\
  K_auth.listener_guard = GTruthy /\ K_auth.client_guard = GNotNone /\
  K_auth.digestmod_deliver = K_auth.digestmod_answer.
Proof.
  repeat split; first [exact gen_deliver | exact gen_answer | exact gen_listener_eq
                       | exact gen_client_eq | reflexivity].
Qed.
Print Assumptions C18_code_is_model.

(* ---- same key => both sides get a connection, for every pair of challenges *)
Theorem C18_same_key : forall mac n k0 k ul uc,
    let key := k0 :: k in                                  (* any non-empty key *)
    blen (ul 20) = 20 -> blen (uc 20) = 20 ->              (* os.urandom(n) returns n bytes *)
    blen (mac key (ul 20)) <= 256 -> blen (mac key (uc 20)) <= 256 ->
    exists tl tc,
      code_handshake mac (13 + n) (KBytes key) (KBytes key) ul uc = ((Returned, tl), (Returned, tc)).
Proof. exact code_same_key. Qed.
Print Assumptions C18_same_key.

(* ---- exactness: both sides succeed IFF the two digest equations hold; in every
   other case BOTH raise AuthenticationError -- nobody is handed a connection *)
Theorem C18_mutual_exact : forall mac n k0 k kc ul uc,
    let kl := k0 :: k in
    let cl := ul 20 in
    let cc := uc 20 in
    blen cl = 20 -> blen cc = 20 -> blen (mac kc cl) <= 256 -> blen (mac kl cc) <= 256 ->
    let r := code_handshake mac (13 + n) (KBytes kl) (KBytes kc) ul uc in
    ((fst (fst r) = Returned /\ fst (snd r) = Returned)
     <-> mac kc cl = mac kl cl /\ mac kl cc = mac kc cc) /\
    ((fst (fst r) = Returned /\ fst (snd r) = Returned) \/
     (fst (fst r) = Raised AuthenticationError /\ fst (snd r) = Raised AuthenticationError)).
Proof. exact code_mutual_exact. Qed.
Print Assumptions C18_mutual_exact.

(* ---- which side detects the mismatch, in which order, with the bytes on the wire *)
Theorem C18_listener_detects_first : forall mac n k0 k kc ul uc,
    let kl := k0 :: k in
    let cl := ul 20 in
    let cc := uc 20 in
    blen cl = 20 -> blen cc = 20 -> blen (mac kc cl) <= 256 -> blen (mac kl cc) <= 256 ->
    mac kc cl <> mac kl cl ->
    code_handshake mac (13 + n) (KBytes kl) (KBytes kc) ul uc =
    ((Raised AuthenticationError, [K_auth.CHALLENGE ++ cl; K_auth.FAILURE]),
     (Raised AuthenticationError, [mac kc cl])).       (* the client never sends its challenge *)
Proof. exact code_mismatch_first. Qed.
Print Assumptions C18_listener_detects_first.

Theorem C18_client_detects_second : forall mac n k0 k kc ul uc,
    let kl := k0 :: k in
    let cl := ul 20 in
    let cc := uc 20 in
    blen cl = 20 -> blen cc = 20 -> blen (mac kc cl) <= 256 -> blen (mac kl cc) <= 256 ->
    mac kc cl = mac kl cl -> mac kl cc <> mac kc cc ->
    code_handshake mac (13 + n) (KBytes kl) (KBytes kc) ul uc =
    ((Raised AuthenticationError, [K_auth.CHALLENGE ++ cl; K_auth.WELCOME; mac kl cc]),
     (Raised AuthenticationError, [mac kc cl; K_auth.CHALLENGE ++ cc; K_auth.FAILURE])).
Proof. exact code_mismatch_second. Qed.
Print Assumptions C18_client_detects_second.

(* ==== "exact" = exact up to HMAC key normalisation (audit follow-up, 2026-09-23).
   `norm B h key` (Lib/AuthKey.v) is RFC 2104 / CPython hmac.py key preparation with
   block size B and hash h:   zpad B (if B < |key| then h key else key),
   zpad B x = x ++ B - |x| NUL bytes.  B = 64 and h = MD5 for the HMAC-MD5 the code
   names; both are universally quantified here (MD5 itself is not modelled).
   The two hypotheses about the abstract MAC are spelled out in each statement:
     (H1) forall key m, mac key m = mac (norm B h key) m
          -- the MAC sees its key only through the normalised key.  True of the real
             HMAC; checked against CPython's hmac on sampled keys on every run.
     (H2) forall a b, mac (norm B h a) c = mac (norm B h b) c -> norm B h a = norm B h b
          for c = the listener's challenge OR c = the client's challenge (one suffices)
          -- distinct normalised keys do not collide on the challenge used: THE
             cryptographic assumption (idealised key-collision freeness of HMAC).
   This replaces the former C18_iff_same_key, whose hypothesis
   `kl <> kc -> mac kc cl <> mac kl cl \/ mac kl cc <> mac kc cc` was the contrapositive
   of its own conclusion. ==== *)

(* ---- H1 + H2: connection on both sides IFF the NORMALISED keys are equal; in every
   other case both sides raise AuthenticationError *)
Theorem C18_iff_same_normalised_key :
  forall (B : nat) (h : bytes -> bytes) (mac : bytes -> bytes -> bytes),
    (forall key m, mac key m = mac (norm B h key) m) ->                          (* H1 *)
    forall n k0 k kc ul uc,
    let kl := k0 :: k in
    let cl := ul 20 in
    let cc := uc 20 in
    blen cl = 20 -> blen cc = 20 -> blen (mac kc cl) <= 256 -> blen (mac kl cc) <= 256 ->
    (forall a b, mac (norm B h a) cl = mac (norm B h b) cl -> norm B h a = norm B h b) \/
    (forall a b, mac (norm B h a) cc = mac (norm B h b) cc -> norm B h a = norm B h b) ->  (* H2 *)
    let r := code_handshake mac (13 + n) (KBytes kl) (KBytes kc) ul uc in
    ((fst (fst r) = Returned /\ fst (snd r) = Returned) <-> norm B h kl = norm B h kc) /\
    (norm B h kl <> norm B h kc ->
     fst (fst r) = Raised AuthenticationError /\ fst (snd r) = Raised AuthenticationError).
Proof. exact code_iff_same_normalised_key. Qed.
Print Assumptions C18_iff_same_normalised_key.

(* ---- the LITERAL property, for keys that fit in a block and do not end with a NUL
   byte (both of them): connection on both sides IFF same key; different keys => both
   AuthenticationError.  (Strictly stronger than the former C18_iff_same_key: same
   conclusion, structural hypotheses.) *)
Theorem C18_iff_same_key :
  forall (B : nat) (h : bytes -> bytes) (mac : bytes -> bytes -> bytes),
    (forall key m, mac key m = mac (norm B h key) m) ->                          (* H1 *)
    forall n k0 k kc ul uc,
    let kl := k0 :: k in
    let cl := ul 20 in
    let cc := uc 20 in
    blen cl = 20 -> blen cc = 20 -> blen (mac kc cl) <= 256 -> blen (mac kl cc) <= 256 ->
    (length kl <= B)%nat -> (length kc <= B)%nat ->        (* not longer than the block *)
    last kl 1 <> 0 -> last kc 1 <> 0 ->                    (* last byte is not NUL *)
    (forall a b, mac (norm B h a) cl = mac (norm B h b) cl -> norm B h a = norm B h b) \/
    (forall a b, mac (norm B h a) cc = mac (norm B h b) cc -> norm B h a = norm B h b) ->  (* H2 *)
    let r := code_handshake mac (13 + n) (KBytes kl) (KBytes kc) ul uc in
    ((fst (fst r) = Returned /\ fst (snd r) = Returned) <-> kl = kc) /\
    (kl <> kc ->
     fst (fst r) = Raised AuthenticationError /\ fst (snd r) = Raised AuthenticationError).
Proof. exact code_iff_same_key_literal. Qed.
Print Assumptions C18_iff_same_key.

(* ---- H1 ALONE: two keys with the same normalisation authenticate each other, with
   exactly the transcript of a same-key handshake.  This is finding
   C18:hmac-equivalent-keys-accepted as a theorem about EVERY MAC that normalises its
   key the way HMAC does. *)
Theorem C18_equivalent_keys_accepted :
  forall (B : nat) (h : bytes -> bytes) (mac : bytes -> bytes -> bytes),
    (forall key m, mac key m = mac (norm B h key) m) ->                          (* H1 *)
    forall n k0 k kc ul uc,
    let kl := k0 :: k in
    let cl := ul 20 in
    let cc := uc 20 in
    blen cl = 20 -> blen cc = 20 -> blen (mac kc cl) <= 256 -> blen (mac kl cc) <= 256 ->
    norm B h kl = norm B h kc ->
    code_handshake mac (13 + n) (KBytes kl) (KBytes kc) ul uc =
    ((Returned, [K_auth.CHALLENGE ++ cl; K_auth.WELCOME; mac kl cc]),
     (Returned, [mac kc cl; K_auth.CHALLENGE ++ cc; K_auth.WELCOME])).
Proof. exact code_equivalent_keys_accepted. Qed.
Print Assumptions C18_equivalent_keys_accepted.

(* the two families of DISTINCT keys with equal normalisation: key / key followed by
   NUL bytes within the block (both role assignments) ... *)
Theorem C18_nul_padded_key_accepted :
  forall (B : nat) (h : bytes -> bytes) (mac : bytes -> bytes -> bytes),
    (forall key m, mac key m = mac (norm B h key) m) ->                          (* H1 *)
    forall n k0 k j ul uc,
    let key := k0 :: k in
    let padded := key ++ repeat 0 j in
    (0 < j)%nat -> (length key + j <= B)%nat ->
    blen (ul 20) = 20 -> blen (uc 20) = 20 -> (forall a m, blen (mac a m) <= 256) ->
    key <> padded /\
    (let r := code_handshake mac (13 + n) (KBytes key) (KBytes padded) ul uc in
     fst (fst r) = Returned /\ fst (snd r) = Returned) /\
    (let r := code_handshake mac (13 + n) (KBytes padded) (KBytes key) ul uc in
     fst (fst r) = Returned /\ fst (snd r) = Returned).
Proof. exact code_nul_padded_key_accepted. Qed.
Print Assumptions C18_nul_padded_key_accepted.

(* ... and a key longer than the block / its hash *)
Theorem C18_hashed_key_accepted :
  forall (B : nat) (h : bytes -> bytes) (mac : bytes -> bytes -> bytes),
    (forall key m, mac key m = mac (norm B h key) m) ->                          (* H1 *)
    forall n k0 k ul uc,
    let key := k0 :: k in
    (B < length key)%nat -> (length (h key) <= B)%nat ->
    blen (ul 20) = 20 -> blen (uc 20) = 20 -> (forall a m, blen (mac a m) <= 256) ->
    key <> h key /\
    (let r := code_handshake mac (13 + n) (KBytes key) (KBytes (h key)) ul uc in
     fst (fst r) = Returned /\ fst (snd r) = Returned).
Proof. exact code_hashed_key_accepted. Qed.
Print Assumptions C18_hashed_key_accepted.

(* ---- hence the unconditional "connection IFF same key" is FALSE -- not for one toy
   MAC (the former statement was `exists mac`), but for EVERY MAC satisfying H1 with a
   block of at least two bytes: two different non-empty keys authenticate each other.
   The witness on the real HMAC-MD5 (b'k' vs b'k\0', long key vs md5(key)) is produced
   by the harness as the alarm C18:hmac-equivalent-keys-accepted. *)
Theorem C18_iff_same_key_refuted :
  forall (B : nat) (h : bytes -> bytes) (mac : bytes -> bytes -> bytes),
    (forall key m, mac key m = mac (norm B h key) m) ->                          (* H1 *)
    forall n ul uc,
    (2 <= B)%nat ->
    blen (ul 20) = 20 -> blen (uc 20) = 20 -> (forall a m, blen (mac a m) <= 256) ->
    exists kl kc,
      kl <> kc /\ kl <> [] /\ kc <> [] /\
      fst (fst (code_handshake mac (13 + n) (KBytes kl) (KBytes kc) ul uc)) = Returned /\
      fst (snd (code_handshake mac (13 + n) (KBytes kl) (KBytes kc) ul uc)) = Returned.
Proof. exact code_iff_same_key_refuted_any_mac. Qed.
Print Assumptions C18_iff_same_key_refuted.

(* ---- non-vacuity: H1 and H2 (for every message) are jointly satisfiable -- toy_hmac =
   norm 64 toy_h key ++ message, toy_h a 3-byte toy hash -- and the conclusions computed:
   keys one bit apart refused; same key accepted; key vs NUL-padded key accepted; a
   65-byte key vs its hash accepted; a 64-byte key vs the same key plus one NUL (65
   bytes, hence hashed) refused *)
Example C18_key_hypotheses_witness :
  (forall k m, toy_hmac k m = toy_hmac (norm 64 toy_h k) m) /\
  (forall m a b, toy_hmac (norm 64 toy_h a) m = toy_hmac (norm 64 toy_h b) m ->
                 norm 64 toy_h a = norm 64 toy_h b) /\
  (let r := code_handshake toy_hmac 13 (KBytes [1; 2; 3]) (KBytes [1; 2; 4]) (const20 7) (const20 9) in
   fst (fst r) = Raised AuthenticationError /\ fst (snd r) = Raised AuthenticationError) /\
  (let r := code_handshake toy_hmac 13 (KBytes [1; 2; 3]) (KBytes [1; 2; 3]) (const20 7) (const20 9) in
   fst (fst r) = Returned /\ fst (snd r) = Returned) /\
  (let r := code_handshake toy_hmac 13 (KBytes [1; 2; 3]) (KBytes [1; 2; 3; 0]) (const20 7) (const20 9) in
   fst (fst r) = Returned /\ fst (snd r) = Returned) /\
  (let r := code_handshake toy_hmac 13 (KBytes long_key) (KBytes (toy_h long_key)) (const20 7) (const20 9) in
   fst (fst r) = Returned /\ fst (snd r) = Returned) /\
  (let r := code_handshake toy_hmac 13 (KBytes (repeat 5 64)) (KBytes (repeat 5 64 ++ [0])) (const20 7) (const20 9) in
   fst (fst r) = Raised AuthenticationError /\ fst (snd r) = Raised AuthenticationError).
Proof. exact toy_hmac_witness. Qed.

(* ---- against ANY peer: a connection is returned only if the peer's answer is
   exactly mac key challenge (exact characterisations of the accepted peers) *)
Theorem C18_listener_accepts_exactly : forall mac k0 k u inc sent,
    let key := k0 :: k in
    run1 (code_listener mac (KBytes key) u) inc = (sent, Returned) <->
    exists x rest,
      inc = mac key (u 20) :: (K_auth.CHALLENGE ++ x) :: K_auth.WELCOME :: rest /\
      blen (mac key (u 20)) <= 256 /\ blen (K_auth.CHALLENGE ++ x) <= 256 /\
      sent = [K_auth.CHALLENGE ++ u 20; K_auth.WELCOME; mac key x].
Proof. intros mac k0 k u inc sent. exact (listener_role_returns_iff mac (k0 :: k) u inc sent). Qed.
Print Assumptions C18_listener_accepts_exactly.

Theorem C18_client_accepts_exactly : forall mac key u inc sent,
    run1 (code_client mac (KBytes key) u) inc = (sent, Returned) <->
    exists x rest,
      inc = (K_auth.CHALLENGE ++ x) :: K_auth.WELCOME :: mac key (u 20) :: rest /\
      blen (K_auth.CHALLENGE ++ x) <= 256 /\ blen (mac key (u 20)) <= 256 /\
      sent = [mac key x; K_auth.CHALLENGE ++ u 20; K_auth.WELCOME].
Proof. intros mac key u inc sent. exact (client_role_returns_iff mac key u inc sent). Qed.
Print Assumptions C18_client_accepts_exactly.

Theorem C18_wrong_digest_refused : forall mac k0 k u inc sent,
    run1 (code_listener mac (KBytes (k0 :: k)) u) inc = (sent, Returned) ->
    exists rest, inc = mac (k0 :: k) (u 20) :: rest.
Proof. exact listener_refuses_wrong_digest. Qed.
Print Assumptions C18_wrong_digest_refused.

Theorem C18_wrong_digest_refused_client : forall mac key u inc sent,
    run1 (code_client mac (KBytes key) u) inc = (sent, Returned) ->
    exists m v rest, inc = m :: v :: mac key (u 20) :: rest.
Proof. exact client_refuses_wrong_digest. Qed.
Print Assumptions C18_wrong_digest_refused_client.

(* the same against adaptive peers (a strategy sees everything sent so far) *)
Theorem C18_adaptive_peer_refused : forall mac (st : strategy) k0 k u s r,
    run_strat (code_listener mac (KBytes (k0 :: k)) u) st [] 0 = (s, r, Returned) ->
    exists rest, r = mac (k0 :: k) (u 20) :: rest.
Proof. exact adaptive_peer_needs_digest. Qed.
Print Assumptions C18_adaptive_peer_refused.

Theorem C18_adaptive_server_refused : forall mac (st : strategy) key u s r,
    run_strat (code_client mac (KBytes key) u) st [] 0 = (s, r, Returned) ->
    exists m v rest, r = m :: v :: mac key (u 20) :: rest.
Proof. exact adaptive_server_needs_digest. Qed.
Print Assumptions C18_adaptive_server_refused.

(* a replayed digest of an older challenge is refused *)
Theorem C18_replay_refused : forall mac k0 k u c_old rest sent,
    mac (k0 :: k) c_old <> mac (k0 :: k) (u 20) ->
    run1 (code_listener mac (KBytes (k0 :: k)) u) (mac (k0 :: k) c_old :: rest) <> (sent, Returned).
Proof. exact listener_refuses_replay. Qed.
Print Assumptions C18_replay_refused.

(* ==== replay ACROSS SESSIONS / a fresh challenge per connection (audit follow-up,
   2026-09-23; Proofs/AuthSessionProofs.v).  The honest endpoints take part in several
   sessions; os.urandom is an oracle STREAM `urandom : nat -> Z -> bytes` (session index
   -> requested length -> bytes; `urandomc` for the client): in session j the listener is
   `code_listener mac key (urandom j)`.  In session i listener and client hold the same
   key and an attacker records everything; in session j the recorded messages of one
   party are played at the other.  c_i = urandom i 20 etc.  Nothing is assumed about
   digests being different: the dependency on the challenges is the statement. ==== *)

(* what is recorded: session i succeeds, with this transcript *)
Theorem C18_replay_across_sessions_recorded :
  forall mac (urandom urandomc : nat -> Z -> bytes) k0 k n i,
    blen (urandom i 20) = 20 /\ blen (urandomc i 20) = 20 /\
    blen (mac (k0 :: k) (urandom i 20)) <= 256 /\ blen (mac (k0 :: k) (urandomc i 20)) <= 256 ->
    code_handshake mac (13 + n) (KBytes (k0 :: k)) (KBytes (k0 :: k)) (urandom i) (urandomc i) =
    ((Returned, [K_auth.CHALLENGE ++ urandom i 20; K_auth.WELCOME; mac (k0 :: k) (urandomc i 20)]),
     (Returned, [mac (k0 :: k) (urandom i 20); K_auth.CHALLENGE ++ urandomc i 20; K_auth.WELCOME])).
Proof. exact session_outcome. Qed.
Print Assumptions C18_replay_across_sessions_recorded.

(* (i) everything the client sent in session i, played at the listener in session j: the
   listener returns a connection IFF mac (k0 :: k) c_i = mac (k0 :: k) c_j; otherwise it sends
   FAILURE and raises AuthenticationError *)
Theorem C18_replay_across_sessions_listener :
  forall mac (urandom urandomc : nat -> Z -> bytes) k0 k n i j,
    blen (urandom i 20) = 20 /\ blen (urandomc i 20) = 20 /\
    blen (mac (k0 :: k) (urandom i 20)) <= 256 /\ blen (mac (k0 :: k) (urandomc i 20)) <= 256 ->
    let s_i := code_handshake mac (13 + n) (KBytes (k0 :: k)) (KBytes (k0 :: k)) (urandom i) (urandomc i) in
    let recorded := snd (snd s_i) in                     (* all the client sent in session i *)
    let s_j := run1 (code_listener mac (KBytes (k0 :: k)) (urandom j)) recorded in
    (snd s_j = Returned <-> mac (k0 :: k) (urandom i 20) = mac (k0 :: k) (urandom j 20)) /\
    (mac (k0 :: k) (urandom i 20) <> mac (k0 :: k) (urandom j 20) ->
     s_j = ([K_auth.CHALLENGE ++ urandom j 20; K_auth.FAILURE], Raised AuthenticationError)).
Proof. exact replay_at_listener_accepted_iff_digests. Qed.
Print Assumptions C18_replay_across_sessions_listener.

(* freshness is NECESSARY: if the listener's challenge repeats (c_i = c_j) the replay
   SUCCEEDS -- the attacker, who does not know the key, is handed a connection *)
Theorem C18_replay_across_sessions_accepted_if_challenge_repeats :
  forall mac (urandom urandomc : nat -> Z -> bytes) k0 k n i j,
    blen (urandom i 20) = 20 /\ blen (urandomc i 20) = 20 /\
    blen (mac (k0 :: k) (urandom i 20)) <= 256 /\ blen (mac (k0 :: k) (urandomc i 20)) <= 256 ->
    urandom i 20 = urandom j 20 ->
    let s_i := code_handshake mac (13 + n) (KBytes (k0 :: k)) (KBytes (k0 :: k)) (urandom i) (urandomc i) in
    run1 (code_listener mac (KBytes (k0 :: k)) (urandom j)) (snd (snd s_i)) =
    ([K_auth.CHALLENGE ++ urandom j 20; K_auth.WELCOME; mac (k0 :: k) (urandomc i 20)], Returned).
Proof. exact replay_at_listener_accepted_if_challenge_repeats. Qed.
Print Assumptions C18_replay_across_sessions_accepted_if_challenge_repeats.

(* (ii) if the MAC under this key tells the two challenges apart whenever they differ
   (hypothesis on exactly these two messages; a universal form would be false for a
   16-byte digest of 20-byte challenges), the replay is accepted IFF the challenge
   repeated: urandom i 20 <> urandom j 20 is what makes the replay fail *)
Theorem C18_replay_across_sessions_iff_challenge_repeats :
  forall mac (urandom urandomc : nat -> Z -> bytes) k0 k n i j,
    blen (urandom i 20) = 20 /\ blen (urandomc i 20) = 20 /\
    blen (mac (k0 :: k) (urandom i 20)) <= 256 /\ blen (mac (k0 :: k) (urandomc i 20)) <= 256 ->
    (mac (k0 :: k) (urandom i 20) = mac (k0 :: k) (urandom j 20) -> urandom i 20 = urandom j 20) ->
    let s_i := code_handshake mac (13 + n) (KBytes (k0 :: k)) (KBytes (k0 :: k)) (urandom i) (urandomc i) in
    let s_j := run1 (code_listener mac (KBytes (k0 :: k)) (urandom j)) (snd (snd s_i)) in
    (snd s_j = Returned <-> urandom i 20 = urandom j 20) /\
    (urandom i 20 <> urandom j 20 ->
     s_j = ([K_auth.CHALLENGE ++ urandom j 20; K_auth.FAILURE], Raised AuthenticationError)).
Proof. exact replay_at_listener_accepted_iff_challenge_repeats. Qed.
Print Assumptions C18_replay_across_sessions_iff_challenge_repeats.

(* an attacker that can only RE-SEND messages recorded in session i -- of either party,
   in any order, any number of them -- is accepted by the listener in session j only if
   the digest of the new challenge is one of the six recorded messages *)
Theorem C18_replay_across_sessions_resend_only_attacker :
  forall mac (urandom urandomc : nat -> Z -> bytes) k0 k n i j inc sent,
    blen (urandom i 20) = 20 /\ blen (urandomc i 20) = 20 /\
    blen (mac (k0 :: k) (urandom i 20)) <= 256 /\ blen (mac (k0 :: k) (urandomc i 20)) <= 256 ->
    let s_i := code_handshake mac (13 + n) (KBytes (k0 :: k)) (KBytes (k0 :: k)) (urandom i) (urandomc i) in
    Forall (fun m => In m (snd (fst s_i) ++ snd (snd s_i))) inc ->
    run1 (code_listener mac (KBytes (k0 :: k)) (urandom j)) inc = (sent, Returned) ->
    In (mac (k0 :: k) (urandom j 20))
       [K_auth.CHALLENGE ++ urandom i 20; K_auth.WELCOME; mac (k0 :: k) (urandomc i 20);
        mac (k0 :: k) (urandom i 20); K_auth.CHALLENGE ++ urandomc i 20; K_auth.WELCOME].
Proof. exact replay_only_attacker_at_listener. Qed.
Print Assumptions C18_replay_across_sessions_resend_only_attacker.

(* the symmetric attack: everything the LISTENER sent in session i, played at a fresh
   client in session j.  The client answers the old challenge again (sends mac (k0 :: k) c_i),
   is told WELCOME, sends its own fresh challenge cc_j and gets the recorded digest of
   cc_i: it returns IFF mac (k0 :: k) cc_i = mac (k0 :: k) cc_j, else sends FAILURE and raises; and
   it is accepted if its challenge repeats *)
Theorem C18_replay_across_sessions_client :
  forall mac (urandom urandomc : nat -> Z -> bytes) k0 k n i j,
    blen (urandom i 20) = 20 /\ blen (urandomc i 20) = 20 /\
    blen (mac (k0 :: k) (urandom i 20)) <= 256 /\ blen (mac (k0 :: k) (urandomc i 20)) <= 256 ->
    let s_i := code_handshake mac (13 + n) (KBytes (k0 :: k)) (KBytes (k0 :: k)) (urandom i) (urandomc i) in
    let s_j := run1 (code_client mac (KBytes (k0 :: k)) (urandomc j)) (snd (fst s_i)) in
    (snd s_j = Returned <-> mac (k0 :: k) (urandomc i 20) = mac (k0 :: k) (urandomc j 20)) /\
    (mac (k0 :: k) (urandomc i 20) <> mac (k0 :: k) (urandomc j 20) ->
     s_j = ([mac (k0 :: k) (urandom i 20); K_auth.CHALLENGE ++ urandomc j 20; K_auth.FAILURE],
            Raised AuthenticationError)).
Proof. exact replay_at_client_accepted_iff_digests. Qed.
Print Assumptions C18_replay_across_sessions_client.

Theorem C18_replay_across_sessions_client_iff_challenge_repeats :
  forall mac (urandom urandomc : nat -> Z -> bytes) k0 k n i j,
    blen (urandom i 20) = 20 /\ blen (urandomc i 20) = 20 /\
    blen (mac (k0 :: k) (urandom i 20)) <= 256 /\ blen (mac (k0 :: k) (urandomc i 20)) <= 256 ->
    (mac (k0 :: k) (urandomc i 20) = mac (k0 :: k) (urandomc j 20) -> urandomc i 20 = urandomc j 20) ->
    let s_i := code_handshake mac (13 + n) (KBytes (k0 :: k)) (KBytes (k0 :: k)) (urandom i) (urandomc i) in
    let s_j := run1 (code_client mac (KBytes (k0 :: k)) (urandomc j)) (snd (fst s_i)) in
    (snd s_j = Returned <-> urandomc i 20 = urandomc j 20) /\
    (urandomc i 20 <> urandomc j 20 ->
     s_j = ([mac (k0 :: k) (urandom i 20); K_auth.CHALLENGE ++ urandomc j 20; K_auth.FAILURE],
            Raised AuthenticationError)) /\
    (urandomc i 20 = urandomc j 20 ->
     s_j = ([mac (k0 :: k) (urandom i 20); K_auth.CHALLENGE ++ urandomc j 20; K_auth.WELCOME], Returned)).
Proof. exact replay_at_client_challenge_repeats_summary. Qed.
Print Assumptions C18_replay_across_sessions_client_iff_challenge_repeats.

(* non-vacuity: msg_mac key m = key ++ m (injective in the message); the listener's
   stream is fresh in session 1 and repeats its session-0 value in session 2 *)
Example C18_replay_across_sessions_witness :
  (blen (stream_l 0 20) = 20 /\ blen (stream_c 0 20) = 20 /\
   blen (msg_mac [1; 2; 3] (stream_l 0 20)) <= 256 /\ blen (msg_mac [1; 2; 3] (stream_c 0 20)) <= 256) /\
  replay_at_listener msg_mac stream_l stream_c 1 [2; 3] 0 0 1 =
  ([K_auth.CHALLENGE ++ const20 8 20; K_auth.FAILURE], Raised AuthenticationError) /\
  snd (replay_at_listener msg_mac stream_l stream_c 1 [2; 3] 0 0 2) = Returned /\
  snd (replay_at_client msg_mac stream_l stream_c 1 [2; 3] 0 0 1) = Raised AuthenticationError.
Proof. exact session_witness. Qed.

(* the refusal itself: FAILURE is sent (never WELCOME) and AuthenticationError raised *)
Theorem C18_wrong_digest_outcome : forall mac key u k r rest,
    blen r <= 256 -> r <> mac key (u 20) ->
    run1 (K_auth.deliver_challenge mac key u k) (r :: rest) =
    ([K_auth.CHALLENGE ++ u 20; K_auth.FAILURE], Raised AuthenticationError).
Proof. exact wrong_digest_outcome. Qed.
Print Assumptions C18_wrong_digest_outcome.

(* ---- malformed messages *)
Theorem C18_oversize_rejected : forall mac key u k m rest,
    256 < blen m ->
    run1 (K_auth.answer_challenge mac key k) (m :: rest) = ([], Raised OSError) /\
    run1 (K_auth.deliver_challenge mac key u k) (m :: rest) =
    ([K_auth.CHALLENGE ++ u 20], Raised OSError).
Proof. exact oversize_rejected. Qed.
Print Assumptions C18_oversize_rejected.

Theorem C18_wrong_prefix_rejected : forall mac key k m rest,
    blen m <= 256 -> firstn 11 m <> K_auth.CHALLENGE ->
    run1 (K_auth.answer_challenge mac key k) (m :: rest) = ([], Raised AssertionError).
Proof. exact wrong_prefix_rejected. Qed.
Print Assumptions C18_wrong_prefix_rejected.

Theorem C18_bad_verdict_rejected : forall mac key k x v rest,
    blen (K_auth.CHALLENGE ++ x) <= 256 -> blen v <= 256 -> v <> K_auth.WELCOME ->
    run1 (K_auth.answer_challenge mac key k) ((K_auth.CHALLENGE ++ x) :: v :: rest) =
    ([mac key x], Raised AuthenticationError).
Proof. exact bad_verdict_rejected. Qed.
Print Assumptions C18_bad_verdict_rejected.

Theorem C18_oversize_verdict_rejected : forall mac key k x v rest,
    blen (K_auth.CHALLENGE ++ x) <= 256 -> 256 < blen v ->
    run1 (K_auth.answer_challenge mac key k) ((K_auth.CHALLENGE ++ x) :: v :: rest) =
    ([mac key x], Raised OSError).
Proof. exact oversize_verdict_rejected. Qed.
Print Assumptions C18_oversize_verdict_rejected.

(* ---- a key that is not a byte string: TypeError, and no message is ever built
   from it (the endpoint IS `Raise TypeError`, whatever mac / peer) *)
Theorem C18_key_type : forall mac t u inc,
    code_listener mac (KOther t) u = Raise TypeError /\
    code_client mac (KOther t) u = Raise TypeError /\
    run1 (code_listener mac (KOther t) u) inc = ([], Raised TypeError) /\
    run1 (code_client mac (KOther t) u) inc = ([], Raised TypeError).
Proof. intros mac t u inc. repeat split. Qed.
Print Assumptions C18_key_type.

(* ==== channel faults: every send_bytes call of either party may fail (`fl i` /
   `fa i` / `fb i` : what the i-th send call of that side meets -- None = delivered,
   Some e = the call raises e and nothing is delivered), every recv_bytes call of a
   side facing an arbitrary peer meets `Msg m` or `RFail e` (the call raises e).
   All oracles are universally quantified. ==== *)

(* ---- faults never create acceptance: a run over a faulty channel that hands out a
   connection is a run over the perfect channel on the same peer messages that hands
   out a connection, and none of the sends it made failed *)
Theorem C18_faults_never_create_acceptance : forall mac key u inc fl sent,
    (run1f (code_listener mac key u) inc fl 0 = (sent, Returned) ->
     exists msgs rest,
       inc = map Msg msgs ++ rest /\ run1 (code_listener mac key u) msgs = (sent, Returned) /\
       (forall j, (j < length sent)%nat -> fl j = None)) /\
    (run1f (code_client mac key u) inc fl 0 = (sent, Returned) ->
     exists msgs rest,
       inc = map Msg msgs ++ rest /\ run1 (code_client mac key u) msgs = (sent, Returned) /\
       (forall j, (j < length sent)%nat -> fl j = None)).
Proof.
  intros mac key u inc fl sent.
  split; [exact (code_listener_f_reduces mac key u inc fl sent)
         |exact (code_client_f_reduces mac key u inc fl sent)].
Qed.
Print Assumptions C18_faults_never_create_acceptance.

(* ---- whatever sends or receives fail, a connection is returned only to a peer whose
   answer is exactly mac key challenge -- and then no send of the three failed *)
Theorem C18_listener_accepts_exactly_under_faults : forall mac k0 k u inc fl sent,
    let key := k0 :: k in
    run1f (code_listener mac (KBytes key) u) inc fl 0 = (sent, Returned) <->
    exists x rest,
      inc = Msg (mac key (u 20)) :: Msg (K_auth.CHALLENGE ++ x) :: Msg K_auth.WELCOME :: rest /\
      blen (mac key (u 20)) <= 256 /\ blen (K_auth.CHALLENGE ++ x) <= 256 /\
      fl 0%nat = None /\ fl 1%nat = None /\ fl 2%nat = None /\
      sent = [K_auth.CHALLENGE ++ u 20; K_auth.WELCOME; mac key x].
Proof. intros mac k0 k u inc fl sent. exact (listener_role_f_returns_iff mac (k0 :: k) u inc fl sent). Qed.
Print Assumptions C18_listener_accepts_exactly_under_faults.

Theorem C18_client_accepts_exactly_under_faults : forall mac key u inc fl sent,
    run1f (code_client mac (KBytes key) u) inc fl 0 = (sent, Returned) <->
    exists x rest,
      inc = Msg (K_auth.CHALLENGE ++ x) :: Msg K_auth.WELCOME :: Msg (mac key (u 20)) :: rest /\
      blen (K_auth.CHALLENGE ++ x) <= 256 /\ blen (mac key (u 20)) <= 256 /\
      fl 0%nat = None /\ fl 1%nat = None /\ fl 2%nat = None /\
      sent = [mac key x; K_auth.CHALLENGE ++ u 20; K_auth.WELCOME].
Proof. intros mac key u inc fl sent. exact (client_role_f_returns_iff mac key u inc fl sent). Qed.
Print Assumptions C18_client_accepts_exactly_under_faults.

Theorem C18_wrong_digest_refused_under_faults : forall mac k0 k u inc fl sent,
    (run1f (code_listener mac (KBytes (k0 :: k)) u) inc fl 0 = (sent, Returned) ->
     exists rest, inc = Msg (mac (k0 :: k) (u 20)) :: rest) /\
    (run1f (code_client mac (KBytes (k0 :: k)) u) inc fl 0 = (sent, Returned) ->
     exists m v rest, inc = Msg m :: Msg v :: Msg (mac (k0 :: k) (u 20)) :: rest).
Proof.
  intros mac k0 k u inc fl sent.
  split; [exact (listener_f_refuses_wrong_digest mac k0 k u inc fl sent)
         |exact (client_f_refuses_wrong_digest mac (k0 :: k) u inc fl sent)].
Qed.
Print Assumptions C18_wrong_digest_refused_under_faults.

(* ---- the verdict cannot be delivered: whatever the peer answered (<= 256 bytes) and
   whatever error e the send of WELCOME / FAILURE meets, deliver_challenge ends with
   that error -- it does not return, so neither accept() nor Client() does *)
Theorem C18_failed_verdict_send_raises : forall mac key u k r rest fl i e,
    fl i = None -> fl (S i) = Some e -> blen r <= 256 ->
    run1f (K_auth.deliver_challenge mac key u k) (Msg r :: rest) fl i =
    ([K_auth.CHALLENGE ++ u 20], Raised e).
Proof. exact failed_verdict_send_raises. Qed.
Print Assumptions C18_failed_verdict_send_raises.

(* ---- a failed send is never absorbed: nothing is delivered by a side after one of
   its send calls failed (any role term) *)
Theorem C18_nothing_after_failed_send : forall mac key u inc fl sent o j e,
    run1f (code_client mac key u) inc fl 0 = (sent, o) \/
    run1f (code_listener mac key u) inc fl 0 = (sent, o) ->
    fl j = Some e -> (length sent <= j)%nat.
Proof.
  intros mac key u inc fl sent o j e [H|H] F;
    exact (run1f_nothing_after_failed_send _ _ _ _ _ _ H j e (Nat.le_0_l j) F).
Qed.
Print Assumptions C18_nothing_after_failed_send.

(* ---- listener against client, each with its own send oracle: the complete outcome
   (Proofs/AuthFaultProofs.expected_f: the party whose send fails ends with that error,
   the other one waits for a message that never comes) ... *)
Theorem C18_handshake_under_faults : forall mac n k0 k kc ul uc fa fb,
    let kl := k0 :: k in
    blen (ul 20) = 20 -> blen (uc 20) = 20 ->
    blen (mac kc (ul 20)) <= 256 -> blen (mac kl (uc 20)) <= 256 ->
    code_handshake_f mac (13 + n) (KBytes kl) (KBytes kc) ul uc fa fb =
    expected_f mac kl kc (ul 20) (uc 20) fa fb.
Proof. exact code_handshake_f_outcome. Qed.
Print Assumptions C18_handshake_under_faults.

(* ... and what it implies: if EITHER side is handed a connection then both are, both
   digest equations hold and no send failed; over a perfect channel the outcome is
   the one of the theorems above *)
Theorem C18_faults_mutual : forall mac n k0 k kc ul uc fa fb,
    let kl := k0 :: k in
    let cl := ul 20 in
    let cc := uc 20 in
    blen cl = 20 -> blen cc = 20 -> blen (mac kc cl) <= 256 -> blen (mac kl cc) <= 256 ->
    let r := code_handshake_f mac (13 + n) (KBytes kl) (KBytes kc) ul uc fa fb in
    (fst (fst r) = Returned \/ fst (snd r) = Returned ->
     fst (fst r) = Returned /\ fst (snd r) = Returned /\
     mac kc cl = mac kl cl /\ mac kl cc = mac kc cc /\
     fa 0%nat = None /\ fa 1%nat = None /\ fa 2%nat = None /\
     fb 0%nat = None /\ fb 1%nat = None /\ fb 2%nat = None) /\
    ((forall i, fa i = None) -> (forall i, fb i = None) ->
     r = code_handshake mac (13 + n) (KBytes kl) (KBytes kc) ul uc).
Proof. exact code_faults_mutual. Qed.
Print Assumptions C18_faults_mutual.

(* non-vacuity of the fault theorems: different keys, the listener's FAILURE meets a
   broken pipe: BrokenPipeError (not a connection); same key, the client's final WELCOME
   meets a reset: the client raises, the listener waits; a scripted server answers the
   client's challenge wrongly and the client's FAILURE meets a broken pipe, although
   the server goes on talking: BrokenPipeError *)
Example C18_fault_witness :
  code_handshake_f toy_mac 13 (KBytes [1; 2; 3]) (KBytes [1; 2; 4]) (const20 7) (const20 9)
                   (fail_at 1 BrokenPipeError) no_faults =
  ((Raised BrokenPipeError, [K_auth.CHALLENGE ++ const20 7 20]), (Starved, [[1; 2; 4]])) /\
  code_handshake_f toy_mac 13 (KBytes [1; 2; 3]) (KBytes [1; 2; 3]) (const20 7) (const20 9)
                   no_faults (fail_at 2 ConnectionResetError) =
  ((Starved, [K_auth.CHALLENGE ++ const20 7 20; K_auth.WELCOME; [1; 2; 3]]),
   (Raised ConnectionResetError, [[1; 2; 3]; K_auth.CHALLENGE ++ const20 9 20])) /\
  run1f (code_client toy_mac (KBytes [1; 2; 3]) (const20 9))
        [Msg (K_auth.CHALLENGE ++ [5]); Msg K_auth.WELCOME; Msg [0; 0]; Msg [42]]
        (fail_at 2 BrokenPipeError) 0 =
  ([[1; 2; 3]; K_auth.CHALLENGE ++ const20 9 20], Raised BrokenPipeError).
Proof. exact code_toy_fault_witness. Qed.

(* ---- computed transcripts with the key-revealing toy MAC (toy_mac key m = key): keys one
   bit apart / the same key, complete wire contents *)
Example C18_toy_mac_witness :
  code_handshake toy_mac 13 (KBytes [1; 2; 3]) (KBytes [1; 2; 4]) (const20 7) (const20 9) =
  ((Raised AuthenticationError, [K_auth.CHALLENGE ++ const20 7 20; K_auth.FAILURE]),
   (Raised AuthenticationError, [[1; 2; 4]])) /\
  code_handshake toy_mac 13 (KBytes [1; 2; 3]) (KBytes [1; 2; 3]) (const20 7) (const20 9) =
  ((Returned, [K_auth.CHALLENGE ++ const20 7 20; K_auth.WELCOME; [1; 2; 3]]),
   (Returned, [[1; 2; 3]; K_auth.CHALLENGE ++ const20 9 20; K_auth.WELCOME])).
Proof. exact code_toy_witness. Qed.

(* ---- observation, outside the property (falsy keys): Listener(authkey=b'') performs
   NO authentication, Client(authkey=b'') does; two such endpoints do not meet *)
Example C18_observation_empty_key : forall mac ul uc n inc,
    run1 (code_listener mac (KBytes []) ul) inc = ([], Returned) /\
    code_handshake mac (2 + n) (KBytes []) (KBytes []) ul uc = ((Returned, []), (Starved, [])).
Proof. exact code_empty_key_observation. Qed.
