(* C18 -- connection authentication is mutual and exact.
   Only statements here; proofs live in Proofs/AuthProofs.v.

   The statements are about `code_listener` / `code_client`: Listener(authkey)+accept()
   and Client(authkey) assembled from the definitions that translate/kernels/auth.py
   regenerates from /repo/billiard/connection.py on every run (Gen/K_auth.v):
   deliver_challenge, answer_challenge, the constants, the guards and the order of the
   two handshake steps.  `mac` (HMAC) and the challenge sources `ul`/`uc` (os.urandom)
   are universally quantified oracles.  A peer is an arbitrary list of messages, or an
   arbitrary adaptive strategy. *)
From Coq Require Import ZArith List Bool.
From BV Require Import Lib.AuthBase Gen.K_auth Model.Auth Proofs.AuthProofs Proofs.AuthFaultProofs.
Import ListNotations.
Open Scope Z_scope.

(* code_listener / code_client / code_handshake are defined in Proofs/AuthProofs.v:
     code_handshake mac fuel kl kc ul uc :=
       run2 fuel (code_listener mac kl ul) (code_client mac kc uc) [] [] [] []
   with code_listener := gen_listener, the endpoint built from Gen/K_auth.v. *)

(* ---- tie: what was generated from the source on this run is the model *)
Theorem C18_code_is_model :
  (forall mac key u k, K_auth.deliver_challenge mac key u k = Auth.deliver_challenge mac key u k) /\
  (forall mac key k, K_auth.answer_challenge mac key k = Auth.answer_challenge mac key k) /\
  (forall mac key u, code_listener mac key u = Auth.listener mac key u) /\
  (forall mac key u, code_client mac key u = Auth.client mac key u) /\
  K_auth.MESSAGE_LENGTH = 20 /\
  K_auth.CHALLENGE = [35; 67; 72; 65; 76; 76; 69; 78; 71; 69; 35] /\
  K_auth.WELCOME = [35; 87; 69; 76; 67; 79; 77; 69; 35] /\
  K_auth.FAILURE = [35; 70; 65; 73; 76; 85; 82; 69; 35] /\
  K_auth.accept_order = [Deliver; Answer] /\ K_auth.client_order = [Answer; Deliver] /\
  K_auth.listener_guard = GTruthy /\ K_auth.client_guard = GNotNone /\
  K_auth.digestmod_deliver = K_auth.digestmod_answer.
Proof.
  repeat split; first [exact gen_deliver | exact gen_answer | exact gen_listener_eq
                       | exact gen_client_eq | reflexivity].
Qed.
Print Assumptions C18_code_is_model.

(* ---- same key => both sides get a connection, for every pair of challenges *)
Theorem C18_same_key : forall mac n k0 k ul uc,
    let key := k0 :: k in                                  (* any non-empty key *)
    blen (ul 20) = 20 -> blen (uc 20) = 20 ->              (* os.urandom(n) returns n bytes *)
    blen (mac key (ul 20)) <= 256 -> blen (mac key (uc 20)) <= 256 ->
    exists tl tc,
      code_handshake mac (13 + n) (KBytes key) (KBytes key) ul uc = ((Returned, tl), (Returned, tc)).
Proof. exact code_same_key. Qed.
Print Assumptions C18_same_key.

(* ---- exactness: both sides succeed IFF the two digest equations hold; in every
   other case BOTH raise AuthenticationError -- nobody is handed a connection *)
Theorem C18_mutual_exact : forall mac n k0 k kc ul uc,
    let kl := k0 :: k in
    let cl := ul 20 in
    let cc := uc 20 in
    blen cl = 20 -> blen cc = 20 -> blen (mac kc cl) <= 256 -> blen (mac kl cc) <= 256 ->
    let r := code_handshake mac (13 + n) (KBytes kl) (KBytes kc) ul uc in
    ((fst (fst r) = Returned /\ fst (snd r) = Returned)
     <-> mac kc cl = mac kl cl /\ mac kl cc = mac kc cc) /\
    ((fst (fst r) = Returned /\ fst (snd r) = Returned) \/
     (fst (fst r) = Raised AuthenticationError /\ fst (snd r) = Raised AuthenticationError)).
Proof. exact code_mutual_exact. Qed.
Print Assumptions C18_mutual_exact.

(* ---- which side detects the mismatch, in which order, with the bytes on the wire *)
Theorem C18_listener_detects_first : forall mac n k0 k kc ul uc,
    let kl := k0 :: k in
    let cl := ul 20 in
    let cc := uc 20 in
    blen cl = 20 -> blen cc = 20 -> blen (mac kc cl) <= 256 -> blen (mac kl cc) <= 256 ->
    mac kc cl <> mac kl cl ->
    code_handshake mac (13 + n) (KBytes kl) (KBytes kc) ul uc =
    ((Raised AuthenticationError, [K_auth.CHALLENGE ++ cl; K_auth.FAILURE]),
     (Raised AuthenticationError, [mac kc cl])).       (* the client never sends its challenge *)
Proof. exact code_mismatch_first. Qed.
Print Assumptions C18_listener_detects_first.

Theorem C18_client_detects_second : forall mac n k0 k kc ul uc,
    let kl := k0 :: k in
    let cl := ul 20 in
    let cc := uc 20 in
    blen cl = 20 -> blen cc = 20 -> blen (mac kc cl) <= 256 -> blen (mac kl cc) <= 256 ->
    mac kc cl = mac kl cl -> mac kl cc <> mac kc cc ->
    code_handshake mac (13 + n) (KBytes kl) (KBytes kc) ul uc =
    ((Raised AuthenticationError, [K_auth.CHALLENGE ++ cl; K_auth.WELCOME; mac kl cc]),
     (Raised AuthenticationError, [mac kc cl; K_auth.CHALLENGE ++ cc; K_auth.FAILURE])).
Proof. exact code_mismatch_second. Qed.
Print Assumptions C18_client_detects_second.

(* ---- under "different keys are told apart by the MAC on at least one of the two
   challenges": connection on both sides IFF same key; else both AuthenticationError *)
Theorem C18_iff_same_key : forall mac n k0 k kc ul uc,
    let kl := k0 :: k in
    let cl := ul 20 in
    let cc := uc 20 in
    blen cl = 20 -> blen cc = 20 -> blen (mac kc cl) <= 256 -> blen (mac kl cc) <= 256 ->
    (kl <> kc -> mac kc cl <> mac kl cl \/ mac kl cc <> mac kc cc) ->
    let r := code_handshake mac (13 + n) (KBytes kl) (KBytes kc) ul uc in
    ((fst (fst r) = Returned /\ fst (snd r) = Returned) <-> kl = kc) /\
    (kl <> kc ->
     fst (fst r) = Raised AuthenticationError /\ fst (snd r) = Raised AuthenticationError).
Proof. exact code_iff_same_key. Qed.
Print Assumptions C18_iff_same_key.

(* ---- ... and WITHOUT that hypothesis the literal "iff same key" is false: a MAC that
   zero-pads its key (as HMAC does) lets two different non-empty keys authenticate each
   other.  C18_iff_same_key above is the strongest true statement (the `_partial`);
   the witness on the real HMAC-MD5 (b'k' vs b'k\0') is produced by the harness as the
   alarm C18:hmac-equivalent-keys-accepted. *)
Theorem C18_iff_same_key_refuted :
  exists mac kl kc ul uc,
    kl <> kc /\ kl <> [] /\ kc <> [] /\
    blen (ul 20) = 20 /\ blen (uc 20) = 20 /\
    blen (mac kc (ul 20)) <= 256 /\ blen (mac kl (uc 20)) <= 256 /\
    fst (fst (code_handshake mac 13 (KBytes kl) (KBytes kc) ul uc)) = Returned /\
    fst (snd (code_handshake mac 13 (KBytes kl) (KBytes kc) ul uc)) = Returned.
Proof. exact code_iff_same_key_refuted. Qed.
Print Assumptions C18_iff_same_key_refuted.

(* ---- against ANY peer: a connection is returned only if the peer's answer is
   exactly mac key challenge (exact characterisations of the accepted peers) *)
Theorem C18_listener_accepts_exactly : forall mac k0 k u inc sent,
    let key := k0 :: k in
    run1 (code_listener mac (KBytes key) u) inc = (sent, Returned) <->
    exists x rest,
      inc = mac key (u 20) :: (K_auth.CHALLENGE ++ x) :: K_auth.WELCOME :: rest /\
      blen (mac key (u 20)) <= 256 /\ blen (K_auth.CHALLENGE ++ x) <= 256 /\
      sent = [K_auth.CHALLENGE ++ u 20; K_auth.WELCOME; mac key x].
Proof. intros mac k0 k u inc sent. exact (listener_role_returns_iff mac (k0 :: k) u inc sent). Qed.
Print Assumptions C18_listener_accepts_exactly.

Theorem C18_client_accepts_exactly : forall mac key u inc sent,
    run1 (code_client mac (KBytes key) u) inc = (sent, Returned) <->
    exists x rest,
      inc = (K_auth.CHALLENGE ++ x) :: K_auth.WELCOME :: mac key (u 20) :: rest /\
      blen (K_auth.CHALLENGE ++ x) <= 256 /\ blen (mac key (u 20)) <= 256 /\
      sent = [mac key x; K_auth.CHALLENGE ++ u 20; K_auth.WELCOME].
Proof. intros mac key u inc sent. exact (client_role_returns_iff mac key u inc sent). Qed.
Print Assumptions C18_client_accepts_exactly.

Theorem C18_wrong_digest_refused : forall mac k0 k u inc sent,
    run1 (code_listener mac (KBytes (k0 :: k)) u) inc = (sent, Returned) ->
    exists rest, inc = mac (k0 :: k) (u 20) :: rest.
Proof. exact listener_refuses_wrong_digest. Qed.
Print Assumptions C18_wrong_digest_refused.

Theorem C18_wrong_digest_refused_client : forall mac key u inc sent,
    run1 (code_client mac (KBytes key) u) inc = (sent, Returned) ->
    exists m v rest, inc = m :: v :: mac key (u 20) :: rest.
Proof. exact client_refuses_wrong_digest. Qed.
Print Assumptions C18_wrong_digest_refused_client.

(* the same against adaptive peers (a strategy sees everything sent so far) *)
Theorem C18_adaptive_peer_refused : forall mac (st : strategy) k0 k u s r,
    run_strat (code_listener mac (KBytes (k0 :: k)) u) st [] 0 = (s, r, Returned) ->
    exists rest, r = mac (k0 :: k) (u 20) :: rest.
Proof. exact adaptive_peer_needs_digest. Qed.
Print Assumptions C18_adaptive_peer_refused.

Theorem C18_adaptive_server_refused : forall mac (st : strategy) key u s r,
    run_strat (code_client mac (KBytes key) u) st [] 0 = (s, r, Returned) ->
    exists m v rest, r = m :: v :: mac key (u 20) :: rest.
Proof. exact adaptive_server_needs_digest. Qed.
Print Assumptions C18_adaptive_server_refused.

(* a replayed digest of an older challenge is refused *)
Theorem C18_replay_refused : forall mac k0 k u c_old rest sent,
    mac (k0 :: k) c_old <> mac (k0 :: k) (u 20) ->
    run1 (code_listener mac (KBytes (k0 :: k)) u) (mac (k0 :: k) c_old :: rest) <> (sent, Returned).
Proof. exact listener_refuses_replay. Qed.
Print Assumptions C18_replay_refused.

(* the refusal itself: FAILURE is sent (never WELCOME) and AuthenticationError raised *)
Theorem C18_wrong_digest_outcome : forall mac key u k r rest,
    blen r <= 256 -> r <> mac key (u 20) ->
    run1 (K_auth.deliver_challenge mac key u k) (r :: rest) =
    ([K_auth.CHALLENGE ++ u 20; K_auth.FAILURE], Raised AuthenticationError).
Proof. exact wrong_digest_outcome. Qed.
Print Assumptions C18_wrong_digest_outcome.

(* ---- malformed messages *)
Theorem C18_oversize_rejected : forall mac key u k m rest,
    256 < blen m ->
    run1 (K_auth.answer_challenge mac key k) (m :: rest) = ([], Raised OSError) /\
    run1 (K_auth.deliver_challenge mac key u k) (m :: rest) =
    ([K_auth.CHALLENGE ++ u 20], Raised OSError).
Proof. exact oversize_rejected. Qed.
Print Assumptions C18_oversize_rejected.

Theorem C18_wrong_prefix_rejected : forall mac key k m rest,
    blen m <= 256 -> firstn 11 m <> K_auth.CHALLENGE ->
    run1 (K_auth.answer_challenge mac key k) (m :: rest) = ([], Raised AssertionError).
Proof. exact wrong_prefix_rejected. Qed.
Print Assumptions C18_wrong_prefix_rejected.

Theorem C18_bad_verdict_rejected : forall mac key k x v rest,
    blen (K_auth.CHALLENGE ++ x) <= 256 -> blen v <= 256 -> v <> K_auth.WELCOME ->
    run1 (K_auth.answer_challenge mac key k) ((K_auth.CHALLENGE ++ x) :: v :: rest) =
    ([mac key x], Raised AuthenticationError).
Proof. exact bad_verdict_rejected. Qed.
Print Assumptions C18_bad_verdict_rejected.

Theorem C18_oversize_verdict_rejected : forall mac key k x v rest,
    blen (K_auth.CHALLENGE ++ x) <= 256 -> 256 < blen v ->
    run1 (K_auth.answer_challenge mac key k) ((K_auth.CHALLENGE ++ x) :: v :: rest) =
    ([mac key x], Raised OSError).
Proof. exact oversize_verdict_rejected. Qed.
Print Assumptions C18_oversize_verdict_rejected.

(* ---- a key that is not a byte string: TypeError, and no message is ever built
   from it (the endpoint IS `Raise TypeError`, whatever mac / peer) *)
Theorem C18_key_type : forall mac t u inc,
    code_listener mac (KOther t) u = Raise TypeError /\
    code_client mac (KOther t) u = Raise TypeError /\
    run1 (code_listener mac (KOther t) u) inc = ([], Raised TypeError) /\
    run1 (code_client mac (KOther t) u) inc = ([], Raised TypeError).
Proof. intros mac t u inc. repeat split. Qed.
Print Assumptions C18_key_type.

(* ==== channel faults: every send_bytes call of either party may fail (`fl i` /
   `fa i` / `fb i` : what the i-th send call of that side meets -- None = delivered,
   Some e = the call raises e and nothing is delivered), every recv_bytes call of a
   side facing an arbitrary peer meets `Msg m` or `RFail e` (the call raises e).
   All oracles are universally quantified. ==== *)

(* ---- faults never create acceptance: a run over a faulty channel that hands out a
   connection is a run over the perfect channel on the same peer messages that hands
   out a connection, and none of the sends it made failed *)
Theorem C18_faults_never_create_acceptance : forall mac key u inc fl sent,
    (run1f (code_listener mac key u) inc fl 0 = (sent, Returned) ->
     exists msgs rest,
       inc = map Msg msgs ++ rest /\ run1 (code_listener mac key u) msgs = (sent, Returned) /\
       (forall j, (j < length sent)%nat -> fl j = None)) /\
    (run1f (code_client mac key u) inc fl 0 = (sent, Returned) ->
     exists msgs rest,
       inc = map Msg msgs ++ rest /\ run1 (code_client mac key u) msgs = (sent, Returned) /\
       (forall j, (j < length sent)%nat -> fl j = None)).
Proof.
  intros mac key u inc fl sent.
  split; [exact (code_listener_f_reduces mac key u inc fl sent)
         |exact (code_client_f_reduces mac key u inc fl sent)].
Qed.
Print Assumptions C18_faults_never_create_acceptance.

(* ---- whatever sends or receives fail, a connection is returned only to a peer whose
   answer is exactly mac key challenge -- and then no send of the three failed *)
Theorem C18_listener_accepts_exactly_under_faults : forall mac k0 k u inc fl sent,
    let key := k0 :: k in
    run1f (code_listener mac (KBytes key) u) inc fl 0 = (sent, Returned) <->
    exists x rest,
      inc = Msg (mac key (u 20)) :: Msg (K_auth.CHALLENGE ++ x) :: Msg K_auth.WELCOME :: rest /\
      blen (mac key (u 20)) <= 256 /\ blen (K_auth.CHALLENGE ++ x) <= 256 /\
      fl 0%nat = None /\ fl 1%nat = None /\ fl 2%nat = None /\
      sent = [K_auth.CHALLENGE ++ u 20; K_auth.WELCOME; mac key x].
Proof. intros mac k0 k u inc fl sent. exact (listener_role_f_returns_iff mac (k0 :: k) u inc fl sent). Qed.
Print Assumptions C18_listener_accepts_exactly_under_faults.

Theorem C18_client_accepts_exactly_under_faults : forall mac key u inc fl sent,
    run1f (code_client mac (KBytes key) u) inc fl 0 = (sent, Returned) <->
    exists x rest,
      inc = Msg (K_auth.CHALLENGE ++ x) :: Msg K_auth.WELCOME :: Msg (mac key (u 20)) :: rest /\
      blen (K_auth.CHALLENGE ++ x) <= 256 /\ blen (mac key (u 20)) <= 256 /\
      fl 0%nat = None /\ fl 1%nat = None /\ fl 2%nat = None /\
      sent = [mac key x; K_auth.CHALLENGE ++ u 20; K_auth.WELCOME].
Proof. intros mac key u inc fl sent. exact (client_role_f_returns_iff mac key u inc fl sent). Qed.
Print Assumptions C18_client_accepts_exactly_under_faults.

Theorem C18_wrong_digest_refused_under_faults : forall mac k0 k u inc fl sent,
    (run1f (code_listener mac (KBytes (k0 :: k)) u) inc fl 0 = (sent, Returned) ->
     exists rest, inc = Msg (mac (k0 :: k) (u 20)) :: rest) /\
    (run1f (code_client mac (KBytes (k0 :: k)) u) inc fl 0 = (sent, Returned) ->
     exists m v rest, inc = Msg m :: Msg v :: Msg (mac (k0 :: k) (u 20)) :: rest).
Proof.
  intros mac k0 k u inc fl sent.
  split; [exact (listener_f_refuses_wrong_digest mac k0 k u inc fl sent)
         |exact (client_f_refuses_wrong_digest mac (k0 :: k) u inc fl sent)].
Qed.
Print Assumptions C18_wrong_digest_refused_under_faults.

(* ---- the verdict cannot be delivered: whatever the peer answered (<= 256 bytes) and
   whatever error e the send of WELCOME / FAILURE meets, deliver_challenge ends with
   that error -- it does not return, so neither accept() nor Client() does *)
Theorem C18_failed_verdict_send_raises : forall mac key u k r rest fl i e,
    fl i = None -> fl (S i) = Some e -> blen r <= 256 ->
    run1f (K_auth.deliver_challenge mac key u k) (Msg r :: rest) fl i =
    ([K_auth.CHALLENGE ++ u 20], Raised e).
Proof. exact failed_verdict_send_raises. Qed.
Print Assumptions C18_failed_verdict_send_raises.

(* ---- a failed send is never absorbed: nothing is delivered by a side after one of
   its send calls failed (any role term) *)
Theorem C18_nothing_after_failed_send : forall mac key u inc fl sent o j e,
    run1f (code_client mac key u) inc fl 0 = (sent, o) \/
    run1f (code_listener mac key u) inc fl 0 = (sent, o) ->
    fl j = Some e -> (length sent <= j)%nat.
Proof.
  intros mac key u inc fl sent o j e [H|H] F;
    exact (run1f_nothing_after_failed_send _ _ _ _ _ _ H j e (Nat.le_0_l j) F).
Qed.
Print Assumptions C18_nothing_after_failed_send.

(* ---- listener against client, each with its own send oracle: the complete outcome
   (Proofs/AuthFaultProofs.expected_f: the party whose send fails ends with that error,
   the other one waits for a message that never comes) ... *)
Theorem C18_handshake_under_faults : forall mac n k0 k kc ul uc fa fb,
    let kl := k0 :: k in
    blen (ul 20) = 20 -> blen (uc 20) = 20 ->
    blen (mac kc (ul 20)) <= 256 -> blen (mac kl (uc 20)) <= 256 ->
    code_handshake_f mac (13 + n) (KBytes kl) (KBytes kc) ul uc fa fb =
    expected_f mac kl kc (ul 20) (uc 20) fa fb.
Proof. exact code_handshake_f_outcome. Qed.
Print Assumptions C18_handshake_under_faults.

(* ... and what it implies: if EITHER side is handed a connection then both are, both
   digest equations hold and no send failed; over a perfect channel the outcome is
   the one of the theorems above *)
Theorem C18_faults_mutual : forall mac n k0 k kc ul uc fa fb,
    let kl := k0 :: k in
    let cl := ul 20 in
    let cc := uc 20 in
    blen cl = 20 -> blen cc = 20 -> blen (mac kc cl) <= 256 -> blen (mac kl cc) <= 256 ->
    let r := code_handshake_f mac (13 + n) (KBytes kl) (KBytes kc) ul uc fa fb in
    (fst (fst r) = Returned \/ fst (snd r) = Returned ->
     fst (fst r) = Returned /\ fst (snd r) = Returned /\
     mac kc cl = mac kl cl /\ mac kl cc = mac kc cc /\
     fa 0%nat = None /\ fa 1%nat = None /\ fa 2%nat = None /\
     fb 0%nat = None /\ fb 1%nat = None /\ fb 2%nat = None) /\
    ((forall i, fa i = None) -> (forall i, fb i = None) ->
     r = code_handshake mac (13 + n) (KBytes kl) (KBytes kc) ul uc).
Proof. exact code_faults_mutual. Qed.
Print Assumptions C18_faults_mutual.

(* non-vacuity of the fault theorems: different keys, the listener's FAILURE meets a
   broken pipe: BrokenPipeError (not a connection); same key, the client's final WELCOME
   meets a reset: the client raises, the listener waits; a scripted server answers the
   client's challenge wrongly and the client's FAILURE meets a broken pipe, although
   the server goes on talking: BrokenPipeError *)
Example C18_fault_witness :
  code_handshake_f toy_mac 13 (KBytes [1; 2; 3]) (KBytes [1; 2; 4]) (const20 7) (const20 9)
                   (fail_at 1 BrokenPipeError) no_faults =
  ((Raised BrokenPipeError, [K_auth.CHALLENGE ++ const20 7 20]), (Starved, [[1; 2; 4]])) /\
  code_handshake_f toy_mac 13 (KBytes [1; 2; 3]) (KBytes [1; 2; 3]) (const20 7) (const20 9)
                   no_faults (fail_at 2 ConnectionResetError) =
  ((Starved, [K_auth.CHALLENGE ++ const20 7 20; K_auth.WELCOME; [1; 2; 3]]),
   (Raised ConnectionResetError, [[1; 2; 3]; K_auth.CHALLENGE ++ const20 9 20])) /\
  run1f (code_client toy_mac (KBytes [1; 2; 3]) (const20 9))
        [Msg (K_auth.CHALLENGE ++ [5]); Msg K_auth.WELCOME; Msg [0; 0]; Msg [42]]
        (fail_at 2 BrokenPipeError) 0 =
  ([[1; 2; 3]; K_auth.CHALLENGE ++ const20 9 20], Raised BrokenPipeError).
Proof. exact code_toy_fault_witness. Qed.

(* ---- non-vacuity: a MAC that is injective in the key satisfies the hypothesis of
   C18_iff_same_key, and the conclusions computed on concrete keys one bit apart *)
Example C18_toy_mac_witness :
  (forall kl kc cl cc, kl <> kc ->
                       toy_mac kc cl <> toy_mac kl cl \/ toy_mac kl cc <> toy_mac kc cc) /\
  code_handshake toy_mac 13 (KBytes [1; 2; 3]) (KBytes [1; 2; 4]) (const20 7) (const20 9) =
  ((Raised AuthenticationError, [K_auth.CHALLENGE ++ const20 7 20; K_auth.FAILURE]),
   (Raised AuthenticationError, [[1; 2; 4]])) /\
  code_handshake toy_mac 13 (KBytes [1; 2; 3]) (KBytes [1; 2; 3]) (const20 7) (const20 9) =
  ((Returned, [K_auth.CHALLENGE ++ const20 7 20; K_auth.WELCOME; [1; 2; 3]]),
   (Returned, [[1; 2; 3]; K_auth.CHALLENGE ++ const20 9 20; K_auth.WELCOME])).
Proof. split; [exact toy_no_collision|exact code_toy_witness]. Qed.

(* ---- observation, outside the property (falsy keys): Listener(authkey=b'') performs
   NO authentication, Client(authkey=b'') does; two such endpoints do not meet *)
Example C18_observation_empty_key : forall mac ul uc n inc,
    run1 (code_listener mac (KBytes []) ul) inc = ([], Returned) /\
    code_handshake mac (2 + n) (KBytes []) (KBytes []) ul uc = ((Returned, []), (Starved, [])).
Proof. exact code_empty_key_observation. Qed.
