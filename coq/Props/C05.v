(* C05 -- hard time limit: the job fails on time, never early, signals go to its worker
   only, the pool gets a replacement.  Model: Model/Pool.v (scan = TimeoutHandler.
   handle_timeouts, one full pass; on_hard_timeout / _trywaitkill). *)
From Coq Require Import ZArith List Bool.
From BV Require Import Lib.Cases Model.LaxSem Model.Restart Model.Pool
     Proofs.PoolJobs Proofs.PoolInv Proofs.PoolScan Proofs.PoolTick Proofs.PoolSup Proofs.PoolCor.
From BV Require Import Proofs.PoolHist.
From BV Require Import Proofs.PoolRefuted.
From BV Require Lib.PyVal Gen.G_pool_shape Gen.K_timedout Proofs.PoolKernel.
From BV Require Gen.K_worker Model.Worker Proofs.WorkerProofs.
From BV Require Model.PoolSys Model.PoolCrash.
From BV Require Import Model.PoolLimit Proofs.PoolLimitProofs.
From BV Require Gen.G_pool_pins.
Import ListNotations.
Open Scope Z_scope.

(* within one scan period: the first scan at or after acceptance + limit fails the job
   with TimeLimitExceeded(its own limit), whatever else is in the cache *)
Theorem C05_fails_on_time : forall s l j x t,
    AllJ s -> scanner s = true ->
    get_job s j = Some x -> incache x = true -> kind x = KApply -> ready x = false ->
    time_accepted x = Some t -> timed_out s (Some t) (eff_hard s x) = true ->
    resolved_tl j (hard x) (fst (do_scan s l)).
Proof. exact scan_hard_on_time. Qed.
Print Assumptions C05_fails_on_time.

(* the hypothesis AllJ holds in every reachable state *)
Theorem C05_reachable_states_qualify : forall c tr, AllJ (run c tr).
Proof. intros c tr. exact (proj1 (reachable_good c tr)). Qed.
Print Assumptions C05_reachable_states_qualify.

(* a job inside its limit, or without one, is never timed out by a scan *)
Theorem C05_never_early : forall s l j x,
    AllJ s -> get_job s j = Some x -> ready x = false -> value x = None ->
    (forall t, kind x = KApply -> time_accepted x = Some t -> timed_out s (Some t) (eff_hard s x) = false) ->
    unres j (fst (do_scan s l)).
Proof. exact scan_never_early. Qed.
Print Assumptions C05_never_early.

(* map and imap jobs, and jobs not accepted yet, are not touched and do not make the scan fail *)
Theorem C05_multi_part_untouched : forall l s j x,
    get_job s j = Some x -> (kind x <> KApply \/ time_accepted x = None) -> scan_job l s j = s.
Proof. exact scan_job_multipart. Qed.
Print Assumptions C05_multi_part_untouched.

(* TERM (then KILL if it lingers) goes to the job's owner and to nobody else *)
Theorem C05_signals_owner_only : forall l s j x,
    get_job s j = Some x ->
    exists extra, sigs (scan_job l s j) = sigs s ++ extra
                  /\ forall p sg, In (p, sg) extra -> owner x = Some p.
Proof. exact scan_job_signals_owner. Qed.
Print Assumptions C05_signals_owner_only.

Theorem C05_job_limit_precedence : forall s x v, hard x = Some v -> eff_hard s x = Some v.
Proof. exact eff_hard_own. Qed.
Print Assumptions C05_job_limit_precedence.

Theorem C05_pool_default_otherwise : forall s x, hard x = None -> eff_hard s x = t_hard s.
Proof. exact eff_hard_default. Qed.
Print Assumptions C05_pool_default_otherwise.

(* the outcome carries the job's own limit (never another job's) *)
Theorem C05_outcome_names_own_limit : forall c tr j x l,
    get_job (run c tr) j = Some x -> kind x = KApply -> value x = Some (PTimeLimit l) -> l = hard x.
Proof. intros c tr j x l Hg Hk. exact (proj2 (attribution c tr j x Hg Hk) l). Qed.
Print Assumptions C05_outcome_names_own_limit.

(* the pool goes on with a replacement: the supervision pass after the kill restores the size *)
Theorem C05_replacement : forall s s',
    do_tick s = (s', RNone) -> pstate s = 0 ->
    Z.of_nat (length (wlist s')) = Z.max (nprocs s) (Z.of_nat (length (kept s))) /\ nprocs s' = nprocs s.
Proof. exact tick_size. Qed.
Print Assumptions C05_replacement.

(* the `_timed_out` test translated from the code on this run is the model's test *)
Theorem C05_code_timed_out : forall s a b,
    PoolKernel.res_truth (K_timedout.timed_out tt (PoolKernel.optv a) (PoolKernel.optv b) (PyVal.PInt (now s)))
    = Pool.timed_out s a b.
Proof. exact PoolKernel.gen_timed_out_eq. Qed.
Print Assumptions C05_code_timed_out.

(* the scan iterates a snapshot, decides hard before soft with the job limit taking precedence, never leaves the loop early; the hard handler re-checks readiness and signals the owner; apply_async defaults the limit to the pool's
   (facts computed from the AST of /repo/billiard/pool.py on this run; see translate/kernels/poolshape.py) *)
Theorem C05_code_shape :
  G_pool_shape.scan_iterates_snapshot = true /\
  G_pool_shape.scan_hard_checked_first = true /\
  G_pool_shape.scan_job_limit_precedence = true /\
  G_pool_shape.scan_no_early_exit = true /\
  G_pool_shape.hard_handler_checks_ready_first = true /\
  G_pool_shape.hard_handler_kills_owner = true /\
  G_pool_shape.apply_hard_defaults_to_pool = true /\
  G_pool_shape.interrupted_task_always_reraised = true.
Proof. repeat split; reflexivity. Qed.
Print Assumptions C05_code_shape.

(* non-vacuity, pool of size ONE: limit 5 s, worker lingers on TERM, is KILLed, replaced,
   and the next job is accepted by the replacement and completes *)
Definition c05_cfg := mkcfg 1 None (Some 5) None (Some 5) 1 false false.
Definition c05_tr : list event :=
  [EApply None None None None; EAck 0 None 0; EAdvance 5; EScan true; ETick;
   EApply None None None None; EAck 1 None 1; EReady 1 None true 42].
(* never early, over whole histories (clock advances non-negative): a job reported as timed out
   had been accepted, had an effective hard limit, and that limit had elapsed *)
Theorem C05_timed_out_was_due : forall c tr j x l,
    advances_nonneg tr ->
    get_job (run c tr) j = Some x -> kind x = KApply -> value x = Some (PTimeLimit l) ->
    exists t lim, time_accepted x = Some t /\ eff_hard (run c tr) x = Some lim
                  /\ lim <> 0 /\ t <> 0 /\ l = hard x /\ t + lim <= now (run c tr).
Proof. exact timed_out_was_due. Qed.
Print Assumptions C05_timed_out_was_due.

(* ---- worker side (Model/Worker.v, tied to Worker.workloop by translation of its skeleton and by
   correspondence on the real loop): the worker honours the termination signal instead of treating
   it as a task error.  Once the handler has run, whatever the task's cleanup code turns the
   interruption into leaves the loop at once: no READY for the job, no further job taken *)
Theorem C05_worker_honours_termination : forall c n q rest,
    Worker.guard (Worker.maxtasks c) n = true -> Worker.task_ok (Worker.q_ty q) = true ->
    WorkerProofs.confirmed c q = true ->
    Worker.q_term q = true -> WorkerProofs.task_raises (Worker.q_beh q) = true ->
    exists x, WorkerProofs.cut_short x = 1 /\ Worker.loop c n (Worker.RMsg q :: rest)
              = (Worker.accept_events c q ++ [Worker.ERun (Worker.q_job q) (Worker.q_i q)], x, n).
Proof. exact WorkerProofs.converted_interruption_still_exits. Qed.
Print Assumptions C05_worker_honours_termination.

(* ... over whole runs: a loop left this way ends with the start of that job's execution *)
Theorem C05_worker_term_ends_trace : forall c ins n,
    WorkerProofs.cut_short (WorkerProofs.xit (Worker.loop c n ins)) = 1 ->
    exists l q, In (Worker.RMsg q) ins /\ WorkerProofs.confirmed c q = true /\
                Worker.task_escapes q = Some (WorkerProofs.xit (Worker.loop c n ins)) /\
                WorkerProofs.evs (Worker.loop c n ins)
                = l ++ Worker.accept_events c q ++ [Worker.ERun (Worker.q_job q) (Worker.q_i q)].
Proof. exact WorkerProofs.termination_ends_trace. Qed.
Print Assumptions C05_worker_term_ends_trace.

(* ---- not satisfied by the pinned tree (known finding C05:limit-without-scanner): a job's own
   limit on a pool created without limits is enforced by nobody *)
Theorem C05_per_job_limit_enforced_refuted :
  exists c tr j x t,
    get_job (run c tr) j = Some x /\ hard x = Some 3 /\ time_accepted x = Some t
    /\ t + 3 <= now (run c tr) /\ ready x = false
    /\ step (run c tr) (EScan false) = (with_sigs (run c tr) [], RNoScanner).
Proof. exact limit_without_scanner. Qed.
Print Assumptions C05_per_job_limit_enforced_refuted.

Example C05_witness :
  let s := run c05_cfg c05_tr in
  map (fun x => (ready x, value x)) (jobs s) = [(true, Some (PTimeLimit (Some 5))); (true, Some (PValue 42))]
  /\ wlist s = [1] /\ map pexit (procs s) = [Some (-9); None].
Proof. vm_compute. repeat split. Qed.

(* the parent-side functions of billiard/pool.py these theorems are about are, on this run, the very
   text the hand-written model was read against and is validated against by the correspondence
   (digests of their ASTs, translate/kernels/poolpins.py): any edit of one of them breaks this
   obligation and starts the deeper search for a failing history *)
Theorem C05_modelled_code_is_the_validated_text : G_pool_pins.modelled_code_of_C05 = true.
Proof. reflexivity. Qed.
Print Assumptions C05_modelled_code_is_the_validated_text.

(* ------------------------------------------------------------------------------------------
   The CLOSED system with hard time limits (Model/PoolLimit.v, Proofs/PoolLimitProofs.v): client
   (each call with its own optional limit), queues, pipes, live workers by pid, the clock, and the
   open pool model as the parent.  [LScan l] is one pass of the timeout handler (the signalled
   workers die: TERM, and KILL when they linger, l); [LScanRacy l] is the same pass when a worker
   it would kill has meanwhile gone on to ANOTHER job (the result of the overdue job is still in
   the pipe): see the recorded finding C10:slot-leaked-when-a-reaped-worker-held-two-jobs.  The
   statements are about every schedule without the racy scan: any number of jobs, any pool size
   >= 1 (one included), any limits, any lingering (pools without restart limit and without soft
   limit). *)
Theorem C05_limit_parent_is_the_pool_model : forall c n y, lreach c n y -> exists tr, lpar y = run c tr.
Proof. exact lreach_is_run. Qed.
Print Assumptions C05_limit_parent_is_the_pool_model.

(* the scan fails EVERY overdue job it sees, with TimeLimitExceeded(the job's effective limit) ... *)
Theorem C05_limit_scan_fails_every_overdue_job : forall n y l y' k x,
    LInv n y -> limit_step y (LScan l) = Some y' -> scanner (lpar y) = true ->
    get_job (lpar y) k = Some x -> dueb (lpar y) x = true ->
    exists x', get_job (lpar y') k = Some x' /\ ready x' = true
               /\ value x' = Some (PTimeLimit (hard x)) /\ cb_err x' = 1 /\ cb_succ x' = 0.
Proof. exact scan_fails_every_overdue_job. Qed.
Print Assumptions C05_limit_scan_fails_every_overdue_job.

(* ... and touches no other job; overdue = cached, unresolved, accepted at t, limit lim <> 0, t + lim <= now *)
Theorem C05_limit_scan_touches_no_other_job : forall n y l y' k x,
    LInv n y -> limit_step y (LScan l) = Some y' ->
    get_job (lpar y) k = Some x -> dueb (lpar y) x = false -> get_job (lpar y') k = Some x.
Proof. exact scan_touches_no_other_job. Qed.
Print Assumptions C05_limit_scan_touches_no_other_job.

Theorem C05_limit_overdue_means : forall n y k x,
    LInv n y -> get_job (lpar y) k = Some x ->
    (dueb (lpar y) x = true <->
     incache x = true /\ ready x = false
     /\ exists t lim, time_accepted x = Some t /\ hard x = Some lim /\ lim <> 0 /\ t <> 0 /\ t + lim <= now (lpar y)).
Proof. exact dueb_iff. Qed.
Print Assumptions C05_limit_overdue_means.

(* "a per-job limit takes precedence over the pool default": the effective limit of job k is the limit
   its call gave if any (Python `or`), else the pool default *)
Theorem C05_limit_own_limit_or_default : forall c n y k x,
    1 <= c_n c -> c_maxr c = None -> c_soft c = None -> lreach c n y -> get_job (lpar y) k = Some x ->
    exists h, nth_error (llims y) (Z.to_nat k) = Some h /\ hard x = py_or h (t_hard (lpar y)).
Proof. exact limit_is_own_or_default. Qed.
Print Assumptions C05_limit_own_limit_or_default.

(* never early, never a job without limit, never by anything but a scan *)
Theorem C05_limit_only_a_due_scan_times_out : forall n y a y' k x x' h,
    LInv n y -> is_racy a = false -> limit_step y a = Some y' ->
    get_job (lpar y) k = Some x -> ready x = false ->
    get_job (lpar y') k = Some x' -> value x' = Some (PTimeLimit h) ->
    (exists l, a = LScan l) /\ scanner (lpar y) = true /\ dueb (lpar y) x = true /\ h = hard x.
Proof. exact time_limit_only_by_due_scan. Qed.
Print Assumptions C05_limit_only_a_due_scan_times_out.

(* the whole scan, exactly: jobs, signals (TERM, and KILL iff lingering, to the owners of the overdue jobs
   and to nobody else), who is dead afterwards, and nothing else changes *)
Theorem C05_limit_scan_exact : forall n y l y',
    LInv n y -> limit_step y (LScan l) = Some y' ->
    (forall k, get_job (lpar y') k = option_map (scang (lpar y)) (get_job (lpar y) k))
    /\ sigs (lpar y') = flat_map (fun jp => sigs_for l (snd jp)) (dpairs (lpar y))
    /\ (forall q, exited (lpar y') q = exited (lpar y) q || memZ q (map snd (dpairs (lpar y))))
    /\ (forall q, In q (map snd (dpairs (lpar y))) -> exit_of (lpar y') q = killed l /\ In q (map fst (lwk y)))
    /\ lwk y' = filter (fun e => negb (memZ (fst e) (map snd (dpairs (lpar y))))) (lwk y)
    /\ wlist (lpar y') = wlist (lpar y) /\ sem (lpar y') = sem (lpar y) /\ now (lpar y') = now (lpar y).
Proof. exact lscan_exact. Qed.
Print Assumptions C05_limit_scan_exact.

(* "the pool goes on serving later jobs with a replacement worker, for every pool size including one":
   after a supervision pass nobody dead is listed, the pool is at its size, every listed worker is live,
   and the slots add up *)
Theorem C05_limit_pass_restores_pool : forall n y y',
    LInv n y -> limit_step y LTick = Some y' ->
    dead_workers (lpar y') = [] /\ Z.of_nat (length (wlist (lpar y'))) = nprocs (lpar y')
    /\ map fst (lwk y') = wlist (lpar y')
    /\ (putlocks (lpar y') = true ->
        LaxSem.value (sem (lpar y')) + Z.of_nat (nunres (lpar y')) = LaxSem.bound (sem (lpar y'))).
Proof. exact pass_restores_pool. Qed.
Print Assumptions C05_limit_pass_restores_pool.

(* every resolved job has its own result or TimeLimitExceeded(its own effective limit, elapsed) *)
Theorem C05_limit_resolved_own_result_or_time_limit : forall c n,
    1 <= c_n c -> c_maxr c = None -> c_soft c = None -> forall y k x,
    lreach c n y -> get_job (lpar y) k = Some x -> ready x = true -> lresolved_ok y k x.
Proof. exact lresolved_own_result_or_time_limit. Qed.
Print Assumptions C05_limit_resolved_own_result_or_time_limit.

(* liveness: progress without ever needing a scan or a wait; every maximal useful schedule ends with all
   jobs resolved, nobody dead, the pool at size with live workers, every slot back; no state is doomed *)
Theorem C05_limit_progress : forall n y, LInv n y -> (0 < lwork y)%nat ->
    exists a y', is_racy a = false /\ luseful y a = true /\ limit_step y a = Some y'.
Proof. exact lprogress. Qed.
Print Assumptions C05_limit_progress.

Theorem C05_limit_every_useful_schedule_ends_complete : forall c lims bd sched y,
    1 <= c_n c -> c_maxr c = None -> c_soft c = None ->
    no_racy sched -> lall_useful (linit c lims bd) sched -> lrun (linit c lims bd) sched = Some y ->
    (forall a, is_racy a = false -> luseful y a = true -> limit_step y a = None) ->
    lcall_complete (length lims) y
    /\ (length sched <= list_sum (map (fun h => 8 + limw (py_or h (c_hard c))) lims))%nat.
Proof. exact lmaximal_useful_schedule_completes. Qed.
Print Assumptions C05_limit_every_useful_schedule_ends_complete.

Theorem C05_limit_no_state_is_doomed : forall n y, LInv n y ->
    exists sched y', lrun y sched = Some y' /\ no_racy sched /\ lall_useful y sched
                     /\ lwork y' = 0%nat /\ lcall_complete n y'.
Proof. exact lcan_always_complete. Qed.
Print Assumptions C05_limit_no_state_is_doomed.

(* the recorded finding C05:limit-without-scanner in the closed system: without a scanner nothing is ever timed out *)
Theorem C05_limit_no_scanner_never_times_out : forall c n,
    1 <= c_n c -> c_maxr c = None -> c_soft c = None -> forall y k x h,
    lreach c n y -> scanner (lpar y) = false -> get_job (lpar y) k = Some x -> value x <> Some (PTimeLimit h).
Proof. exact no_scanner_never_times_out. Qed.
Print Assumptions C05_limit_no_scanner_never_times_out.
