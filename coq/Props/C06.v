(* C06 -- soft time limit raised once, inside the task that exceeded it (parent side:
   which signal is sent, when, to whom, how often, with which callback arguments). *)
From Coq Require Import ZArith List Bool.
From BV Require Import Lib.Cases Model.LaxSem Model.Restart Model.Pool
     Proofs.PoolJobs Proofs.PoolInv Proofs.PoolScan Proofs.PoolSoft.
From BV Require Import Proofs.PoolMore.
From BV Require Gen.G_pool_shape.
From BV Require Gen.G_pool_pins.
Import ListNotations.
Open Scope Z_scope.

(* no signal at all on behalf of a job whose result has been handled, that has no
   effective limit, or that is not due *)
Theorem C06_no_signal_unless_due : forall l s j x,
    get_job s j = Some x ->
    (ready x = true
     \/ (eff_hard s x = None /\ eff_soft s x = None)
     \/ (forall t, time_accepted x = Some t ->
                   timed_out s (Some t) (eff_hard s x) = false /\ timed_out s (Some t) (eff_soft s x) = false)) ->
    sigs (scan_job l s j) = sigs s.
Proof. exact scan_job_quiet. Qed.
Print Assumptions C06_no_signal_unless_due.

(* the soft step is taken only for a job not yet marked, and marks it ... *)
Theorem C06_soft_marks : forall l s j x t,
    get_job s j = Some x -> kind x = KApply -> time_accepted x = Some t ->
    timed_out s (Some t) (eff_hard s x) = false ->
    memZ j (dirty s) = false -> timed_out s (Some t) (eff_soft s x) = true ->
    dirty (scan_job l s j) = dirty s ++ [j].
Proof. exact scan_job_soft_marks. Qed.
Print Assumptions C06_soft_marks.

(* ... a marked job gets nothing more from later scans (until the hard limit) ... *)
Theorem C06_once : forall l s j x,
    get_job s j = Some x -> memZ j (dirty s) = true ->
    (forall t, time_accepted x = Some t -> timed_out s (Some t) (eff_hard s x) = false) ->
    scan_job l s j = s.
Proof. exact scan_job_dirty_no_soft. Qed.
Print Assumptions C06_once.

(* ... and the mark survives the clean-up at the start of every later scan while the job
   is still in the cache *)
Theorem C06_mark_survives : forall s j,
    memZ j (dirty s) = true -> In j (snapshot s) ->
    memZ j (filter (fun j0 => memZ j0 (snapshot s)) (dirty s)) = true.
Proof. exact scan_keeps_dirty. Qed.
Print Assumptions C06_mark_survives.

(* ALL HISTORIES: whatever sequence of submissions, worker messages, exits, supervision
   passes, whole scans, scans split at any point with other events in between, clock
   advances and user calls the pool goes through, every job has received at most one
   soft-timeout callback (the callback and SIGUSR1 are issued by the same branch, so also
   at most one soft signal on its behalf) *)
Theorem C06_at_most_once_in_every_history : forall c tr j x,
    get_job (run c tr) j = Some x -> (soft_count x <= 1)%nat.
Proof. exact soft_at_most_once. Qed.
Print Assumptions C06_at_most_once_in_every_history.

(* the only record change of a step that is not a hard timeout: the timeout callback is
   told soft=True and the job's soft limit *)
Theorem C06_callback_arguments : forall l s j x,
    0 <= j -> get_job s j = Some x ->
    (forall t, kind x = KApply -> time_accepted x = Some t -> timed_out s (Some t) (eff_hard s x) = false) ->
    get_job (scan_job l s j) j = Some x
    \/ get_job (scan_job l s j) j = Some (j_add_tmo x (true, soft x)).
Proof. exact scan_job_not_hard. Qed.
Print Assumptions C06_callback_arguments.

Theorem C06_signal_goes_to_owner : forall l s j x,
    get_job s j = Some x ->
    exists extra, sigs (scan_job l s j) = sigs s ++ extra
                  /\ forall p sg, In (p, sg) extra -> owner x = Some p.
Proof. exact scan_job_signals_owner. Qed.
Print Assumptions C06_signal_goes_to_owner.

(* hard takes priority: when the hard limit is due the step sends no USR1 *)
Theorem C06_hard_priority : forall l s j x t,
    0 <= j -> get_job s j = Some x -> kind x = KApply -> time_accepted x = Some t -> ready x = false ->
    timed_out s (Some t) (eff_hard s x) = true ->
    forall p, ~ In (p, SIGUSR1) (skipn (length (sigs s)) (sigs (scan_job l s j))).
Proof. exact scan_job_hard_priority. Qed.
Print Assumptions C06_hard_priority.

Theorem C06_job_limit_precedence : forall s x v, soft x = Some v -> eff_soft s x = Some v.
Proof. exact eff_soft_own. Qed.
Print Assumptions C06_job_limit_precedence.

(* the soft branch is guarded by the dirty set and adds to it, the set keeps exactly the ids still cached, the soft handler re-checks readiness and signals the owner
   (facts computed from the AST of /repo/billiard/pool.py on this run; see translate/kernels/poolshape.py) *)
Theorem C06_code_shape :
  G_pool_shape.scan_soft_guarded_by_dirty = true /\
  G_pool_shape.scan_soft_marks_dirty = true /\
  G_pool_shape.scan_dirty_keeps_cached = true /\
  G_pool_shape.soft_handler_checks_ready_first = true /\
  G_pool_shape.soft_handler_signals_owner = true /\
  G_pool_shape.apply_soft_defaults_to_pool = true /\
  G_pool_shape.scan_job_limit_precedence = true.
Proof. repeat split; reflexivity. Qed.
Print Assumptions C06_code_shape.

(* worker side: every worker installs the soft-timeout handler, and AFTER the user's initializer has
   run, so an initializer that resets signal dispositions cannot remove it (Worker.after_fork) *)
Theorem C06_worker_code_shape :
  G_pool_shape.soft_handler_installed_in_every_worker = true /\
  G_pool_shape.initializer_runs_before_signal_setup = true.
Proof. repeat split; reflexivity. Qed.
Print Assumptions C06_worker_code_shape.

(* non-vacuity: soft 2 (job) over pool default 4, hard 6; three scans while the job runs:
   exactly one USR1, one callback (soft=True, 2); the task catches it and returns 9 *)
Definition c06_cfg := mkcfg 2 (Some 4) (Some 6) None None 1 false false.
Definition c06_tr : list event :=
  [EApply (Some 2) None None None; EAck 0 None 1; EAdvance 2; EScan false; EAdvance 1; EScan false;
   EAdvance 1; EScan false; EReady 0 None true 9; EScan false].
(* the positive direction: when the soft limit is due the signal IS sent to the worker running
   the job and the callback IS run with the job's limit (the scan's step for an accepted,
   unresolved job whose hard limit is not due, not signalled before, its worker in the pool) ... *)
Theorem C06_signal_is_sent_when_due : forall l s j x t p,
    get_job s j = Some x -> kind x = KApply -> time_accepted x = Some t -> ready x = false ->
    timed_out s (Some t) (eff_hard s x) = false ->
    timed_out s (Some t) (eff_soft s x) = true ->
    memZ j (dirty s) = false ->
    owner x = Some p -> in_pool s p = true -> 0 <= j ->
    sigs (scan_job l s j) = sigs s ++ [(p, SIGUSR1)]
    /\ dirty (scan_job l s j) = dirty s ++ [j]
    /\ get_job (scan_job l s j) j = Some (j_add_tmo x (true, soft x)).
Proof. exact scan_job_soft_sends. Qed.
Print Assumptions C06_signal_is_sent_when_due.

(* ... and when that worker is no longer in the pool (it has been reaped) nothing is sent and the
   job is remembered all the same: for such a job "exactly once" is zero times (the code's
   behaviour, modelled as it is) *)
Theorem C06_owner_gone_no_signal : forall l s j x t p,
    get_job s j = Some x -> kind x = KApply -> time_accepted x = Some t -> ready x = false ->
    timed_out s (Some t) (eff_hard s x) = false ->
    timed_out s (Some t) (eff_soft s x) = true ->
    memZ j (dirty s) = false ->
    owner x = Some p -> in_pool s p = false ->
    sigs (scan_job l s j) = sigs s /\ dirty (scan_job l s j) = dirty s ++ [j]
    /\ jobs (scan_job l s j) = jobs s.
Proof. exact scan_job_soft_owner_gone. Qed.
Print Assumptions C06_owner_gone_no_signal.

Example C06_witness :
  let s := run c06_cfg c06_tr in
  map (fun x => (value x, cb_tmo x)) (jobs s) = [(Some (PValue 9), [(true, Some 2)])].
Proof. vm_compute. reflexivity. Qed.

(* the parent-side functions of billiard/pool.py these theorems are about are, on this run, the very
   text the hand-written model was read against and is validated against by the correspondence
   (digests of their ASTs, translate/kernels/poolpins.py): any edit of one of them breaks this
   obligation and starts the deeper search for a failing history *)
Theorem C06_modelled_code_is_the_validated_text : G_pool_pins.modelled_code_of_C06 = true.
Proof. reflexivity. Qed.
Print Assumptions C06_modelled_code_is_the_validated_text.
