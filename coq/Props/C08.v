(* C08 -- terminate() and termination signals always end workers promptly.
   Proved: (worker side, Model/Worker.v, tied to Worker.workloop by translation and
   correspondence) a worker whose task is interrupted by the termination handler leaves
   the loop at once: no result message for that job, no further job taken, the job is not
   counted; without a termination request no exception of the task leaves the loop.
   (parent side, Model/Pool.v) outcomes delivered before the call stay intact whatever
   follows; a job owned by a worker stopped through terminate_job resolves Terminated.
   That terminate() returns within a bound and that no process/thread survives is runtime
   behaviour: validated on real pools by the check, not proved. *)
From Coq Require Import ZArith List Bool.
From BV Require Import Lib.PyVal Gen.K_worker Model.Worker Proofs.WorkerProofs.
From BV Require Gen.G_pool_shape Model.Pool Proofs.PoolJobs Proofs.PoolInv Proofs.PoolTick Proofs.PoolCor.
From BV Require Gen.G_pool_pins.
Import ListNotations.
Open Scope Z_scope.

Theorem C08_term_stops_task_and_loop : forall c n q rest x,
    guard (maxtasks c) n = true -> task_ok (q_ty q) = true -> confirmed c q = true ->
    task_escapes q = Some x ->
    loop c n (RMsg q :: rest) = (accept_events c q ++ [ERun (q_job q) (q_i q)], x, n).
Proof. exact terminated_step. Qed.
Print Assumptions C08_term_stops_task_and_loop.

Theorem C08_term_ends_worker : forall c ins n,
    cut_short (xit (loop c n ins)) = 1 ->
    exists l q, In (RMsg q) ins /\ confirmed c q = true /\
                task_escapes q = Some (xit (loop c n ins)) /\
                evs (loop c n ins) = l ++ accept_events c q ++ [ERun (q_job q) (q_i q)].
Proof. exact termination_ends_trace. Qed.
Print Assumptions C08_term_ends_worker.

Theorem C08_terminated_job_not_counted : forall c ins n,
    cut_short (xit (loop c n ins)) = 1 ->
    cnt (loop c n ins) = n + Z.of_nat (runs (evs (loop c n ins))) - 1.
Proof. exact termination_not_counted. Qed.
Print Assumptions C08_terminated_job_not_counted.

Theorem C08_only_termination_escapes : forall q,
    q_term q = false -> (forall code, q_beh q <> Terminated code) -> task_escapes q = None.
Proof. exact no_termination_no_escape. Qed.
Print Assumptions C08_only_termination_escapes.

(* results delivered before the call stay intact, whatever follows *)
Theorem C08_results_intact : forall c tr tr' j x,
    Pool.get_job (Pool.run c tr) j = Some x -> Pool.kind x = Pool.KApply -> Pool.ready x = true ->
    exists y, Pool.get_job (Pool.run c (tr ++ tr')) j = Some y /\ Pool.ready y = true
              /\ Pool.value y = Pool.value x /\ Pool.cb_succ y = Pool.cb_succ x /\ Pool.cb_err y = Pool.cb_err x.
Proof. exact PoolCor.single_assignment. Qed.
Print Assumptions C08_results_intact.

Theorem C08_terminate_job_resolves_terminated : forall s x p,
    Pool.kind x = Pool.KApply -> Pool.incache x = true -> Pool.ready x = false -> Pool.worker_lost x = None ->
    Pool.acked_by_gone (PoolTick.reaped s) (PoolTick.kept s) x = Some p ->
    Pool.memZ p (PoolTick.reaped s) = true ->
    (match Pool.get_proc s p with Some q => Pool.jterm q | None => false end) = true ->
    Pool.value (PoolTick.tick_job s x) = Some (Pool.PTerminated (- Pool.exit_of s p)).
Proof. exact PoolTick.tick_terminated. Qed.
Print Assumptions C08_terminate_job_resolves_terminated.

(* terminate() signals and joins EVERY live worker, whatever flags it carries (facts computed
   from the AST of /repo/billiard/pool.py on this run) *)
Theorem C08_code_shape :
  G_pool_shape.terminate_signals_every_live_worker = true /\
  G_pool_shape.terminate_joins_every_live_worker = true /\
  G_pool_shape.terminate_job_flags_worker = true.
Proof. repeat split; reflexivity. Qed.
Print Assumptions C08_code_shape.

Definition c08_cfg := Pool.mkcfg 2 None None None None 1 false false.
Definition c08_tr : list Pool.event :=
  [Pool.EApply None None None None; Pool.EAck 0 None 0; Pool.ETerminateJob 0 None; Pool.ETick].
Example C08_witness :
  map (fun x => (Pool.ready x, Pool.value x)) (Pool.jobs (Pool.run c08_cfg c08_tr))
  = [(true, Some (Pool.PTerminated 15))].
Proof. vm_compute. reflexivity. Qed.

(* the parent-side functions of billiard/pool.py these theorems are about are, on this run, the very
   text the hand-written model was read against and is validated against by the correspondence
   (digests of their ASTs, translate/kernels/poolpins.py): any edit of one of them breaks this
   obligation and starts the deeper search for a failing history *)
Theorem C08_modelled_code_is_the_validated_text : G_pool_pins.modelled_code_of_C08 = true.
Proof. reflexivity. Qed.
Print Assumptions C08_modelled_code_is_the_validated_text.
