(* C09 -- the pool keeps its size; recycling is harmless (parent side). *)
From Coq Require Import ZArith List Bool.
From BV Require Import Lib.Cases Model.LaxSem Model.Restart Model.Pool
     Proofs.PoolJobs Proofs.PoolInv Proofs.PoolTick Proofs.PoolSup Proofs.PoolIdx.
From BV Require Import Proofs.PoolTick Proofs.PoolSem Proofs.PoolSize.
From BV Require Import Proofs.PoolRefuted.
From BV Require Gen.G_pool_shape.
From BV Require Lib.PyVal Gen.K_worker Model.Worker Proofs.WorkerProofs.
From BV Require Gen.G_pool_pins.
From BV Require Model.Pool Model.LaxSem Proofs.PoolTick Model.PoolCrash Proofs.PoolCrashProofs.
Import ListNotations.
Open Scope Z_scope.

(* a supervision pass that does not raise brings the worker list to exactly the configured
   size (as adjusted by grow/shrink), never above it -- unless more workers than that are
   still alive because shrink victims have not exited yet, and then it starts none *)
Theorem C09_size_restored : forall s s',
    do_tick s = (s', RNone) -> pstate s = 0 ->
    Z.of_nat (length (wlist s')) = Z.max (nprocs s) (Z.of_nat (length (kept s))) /\ nprocs s' = nprocs s.
Proof. exact tick_size. Qed.
Print Assumptions C09_size_restored.

(* a free slot index always exists while the pool is below its size, it is in range, and
   no current worker holds it: replacements get distinct indices *)
Theorem C09_fresh_index : forall s,
    Z.of_nat (length (wlist s)) < nprocs s ->
    exists ix, avail_index s = Some ix /\ 0 <= ix < nprocs s /\ ~ In ix (used_idx s).
Proof. exact avail_index_ok. Qed.
Print Assumptions C09_fresh_index.

(* ... and so, in every reachable state (any history of exits, supervision passes, grow,
   shrink, submissions, ...), the workers in the pool hold pairwise distinct slot indices *)
Theorem C09_indices_distinct : forall c tr, 0 <= c_n c -> NoDup (used_idx (run c tr)).
Proof. exact indices_distinct. Qed.
Print Assumptions C09_indices_distinct.

(* worker processes are only ever started by the supervision pass *)
Theorem C09_only_supervision_starts_workers : forall s e,
    e <> ETick -> (forall k, e <> ETickClose k) -> length (procs (fst (step s e))) = length (procs s).
Proof. exact only_tick_starts_workers. Qed.
Print Assumptions C09_only_supervision_starts_workers.

(* recycling is harmless: a worker that exits holding no unfinished part of a job changes
   no job record *)
Theorem C09_recycle_harmless : forall s x,
    lost_due s x = false -> acked_by_gone (reaped s) (kept s) x = None -> tick_job s x = x.
Proof. exact tick_frame. Qed.
Print Assumptions C09_recycle_harmless.

(* shrink never picks a worker already being stopped and always flags its victim
   (facts computed from the AST of /repo/billiard/pool.py on this run; see translate/kernels/poolshape.py) *)
Theorem C09_code_shape :
  G_pool_shape.shrink_skips_stopping_workers = true /\
  G_pool_shape.shrink_always_flags_victim = true /\
  G_pool_shape.terminate_job_flags_worker = true.
Proof. repeat split; reflexivity. Qed.
Print Assumptions C09_code_shape.

(* with a per-child quota N every worker executes at most N jobs and then leaves with the
   recycle status (worker model of C03, tied to Worker.workloop by translation and by the
   worker correspondence that this check also runs); `completed` counts exactly the jobs
   executed to the end, whatever their results -- including results that cannot be pickled *)
Theorem C09_quota : forall c N ins,
    Worker.maxtasks c = Some N -> 1 <= N ->
    0 <= WorkerProofs.w_completed c ins <= N /\
    (WorkerProofs.w_completed c ins = N -> WorkerProofs.w_exit c ins = Worker.XReturn Worker.EX_RECYCLE) /\
    (forall code, WorkerProofs.w_exit c ins = Worker.XReturn code -> code = Worker.EX_RECYCLE) /\
    (Worker.eff_maxmem c <= 0 -> WorkerProofs.w_exit c ins = Worker.XReturn Worker.EX_RECYCLE -> WorkerProofs.w_completed c ins = N).
Proof. exact WorkerProofs.workloop_quota. Qed.
Print Assumptions C09_quota.

(* non-vacuity: pool of 3; two workers exit (recycle + crash), grow(1), shrink(1): after
   each pass the list has the configured size and the indices are distinct *)
Definition c09_cfg := mkcfg 3 None None None (Some 9) 1 false false.
Definition c09_tr : list event :=
  [EExit 0 155; EExit 2 (-9); ETick; EGrow 1; ETick; EShrink 1; ETick].
(* ---- not satisfied by the pinned tree (known finding C09:no-replacement-after-close): once
   close() has been called exited workers are not replaced, whatever is still queued *)
Theorem C09_back_to_size_refuted :
  exists c tr,
    wlist (run c tr) = [] /\ nprocs (run c tr) = 2
    /\ length (filter (fun x => negb (ready x)) (jobs (run c tr))) = 3%nat
    /\ wlist (fst (step (run c tr) ETick)) = []
    /\ pstate (run c tr) = 1.
Proof. exact no_replacement_after_close. Qed.
Print Assumptions C09_back_to_size_refuted.

(* ---- history level (Proofs/PoolSize.v) ----
   "never above it": in EVERY reachable state the workers of the pool that are not being stopped
   (shrink, terminate_job) number at most the configured size *)
Theorem C09_never_above_size : forall c tr,
    0 <= c_n c -> grows_nonneg tr ->
    let s := run c tr in
    Z.of_nat (length (filter (fun p => negb (ctl s p)) (wlist s))) <= nprocs s.
Proof. exact never_above_size. Qed.
Print Assumptions C09_never_above_size.

(* "brought back to the configured size" and "no job ... failed or held up because of recycling":
   a pass over a running pool whose reaped workers all left with the clean or recycle status (and
   which has no more workers missing than it reaped) never fails, leaves exactly max(size, kept)
   workers, does not touch the restart limiter, and changes no resolved job of any kind *)
Theorem C09_clean_pass : forall s,
    pstate s = 0 ->
    Forall (fun c => clean_code c = true) (pass_codes s) ->
    (reaped s = [] \/ nprocs s - Z.of_nat (length (kept s)) <= Z.of_nat (length (reaped s))) ->
    exists s', do_tick s = (s', RNone)
      /\ Z.of_nat (length (wlist s')) = Z.max (nprocs s) (Z.of_nat (length (kept s)))
      /\ wlist s' = kept s ++ map Z.of_nat (seq (length (procs s)) (missing s))
      /\ nprocs s' = nprocs s
      /\ rst s' = rst s
      /\ (forall j x, get_job s j = Some x -> ready x = true -> get_job s' j = Some x).
Proof. exact clean_pass. Qed.
Print Assumptions C09_clean_pass.

(* after ANY pass no worker that has exited is left in the pool list *)
Theorem C09_pass_leaves_no_exited_worker : forall s p q,
    In p (wlist (fst (do_tick s))) -> get_proc (fst (do_tick s)) p = Some q -> pexit q = None.
Proof. exact tick_no_exited_left. Qed.
Print Assumptions C09_pass_leaves_no_exited_worker.

Example C09_witness :
  let s := run c09_cfg c09_tr in
  (nprocs s, wlist s, used_idx s) = (3, [3; 4; 5], [0; 2; 3]).
Proof. vm_compute. reflexivity. Qed.

(* the parent-side functions of billiard/pool.py these theorems are about are, on this run, the very
   text the hand-written model was read against and is validated against by the correspondence
   (digests of their ASTs, translate/kernels/poolpins.py): any edit of one of them breaks this
   obligation and starts the deeper search for a failing history *)
Theorem C09_modelled_code_is_the_validated_text : G_pool_pins.modelled_code_of_C09 = true.
Proof. reflexivity. Qed.
Print Assumptions C09_modelled_code_is_the_validated_text.

(* ---- the closed system with crashes (Model/PoolCrash.v): whatever the schedule of kills, passes and
   results (passes after the dead worker's messages were drained), the worker list is at the configured
   size in every reachable state, and at every complete end every listed worker is alive *)
Theorem C09_crash_pool_size_kept : forall c n,
    1 <= Pool.c_n c -> Pool.c_maxr c = None -> forall y, PoolCrashProofs.creach c n y ->
    Z.of_nat (length (Pool.wlist (PoolCrash.cpar y))) = Pool.nprocs (PoolCrash.cpar y)
    /\ map fst (PoolCrash.cwk y) = PoolTick.kept (PoolCrash.cpar y)
    /\ (length (PoolCrash.cwk y) + length (PoolCrash.unreaped y))%nat = length (Pool.wlist (PoolCrash.cpar y)).
Proof. exact PoolCrashProofs.pool_size_kept. Qed.
Print Assumptions C09_crash_pool_size_kept.
