(* C15 -- shared ctypes values are isolated, initialised, visible and atomic.
   Only statements here; proofs live in Proofs/SharedMem*.v (on top of Proofs/Heap*.v).

   Vocabulary (Model/SharedMem.v): memory m : arena -> offset -> byte; an object o = (block, size)
   addresses bytes [start, start+size) of its arena; o_read m o = bytes(o); o_write = a store
   through o; raw_value / raw_array_n / raw_array_init = sharedctypes.RawValue / RawArray(n) /
   RawArray(initialiser) as interpreters over the effect sequences regenerated from the code;
   obj_ok h o = o's block is live in heap h and at least o's size long; HeapInv = the C14 invariant;
   world/wstep/wrun = an interleaving semantics of threads running `with v.get_lock(): v.value += 1`;
   Model/SharedShadow.v = the heap-free specification of create/drop/store/rebuild histories (shadow map);
   Model/SharedHop.v / SharedHopDrop.v = processes with their own registries and heaps, hand-overs, drops;
   Model/SharedFork.v = the locked increment over the real lock (one shared kernel semaphore + a per-process copy of the
   lock object, C17's primitive) with FORK as an operation; Gen/G_semfork.v = where SemLock.__init__ registers the
   after-fork reset of a lock object, read from the code on this run. *)
From Coq Require Import ZArith List Bool.
From BV Require Import Lib.PyVal Model.Heap Model.SharedMem Model.SharedHop Model.SharedShadow Model.SharedHopDrop
  Gen.G_sharedmem.
From BV Require Import Proofs.HeapGeo Proofs.HeapInv Proofs.SharedMemProofs Proofs.SharedMemLockProofs Proofs.SharedMemGen
  Proofs.SharedHopProofs Proofs.SharedMemHist Proofs.SharedMemLockArg Proofs.SharedHopDropProofs.
From BV Require Import Model.SharedFork Proofs.SharedForkProofs.
From BV Require Model.SemProg Model.SemFork Gen.G_semfork.
Import ListNotations.
Open Scope Z_scope.

(* ---- the code, as translated on this run, is what the theorems are about ---- *)
Theorem C15_code_creation :
  G_sharedmem.rawvalue_prog = SharedMem.rawvalue_prog /\
  G_sharedmem.rawarray_n_prog = SharedMem.rawarray_n_prog /\
  G_sharedmem.rawarray_init_prog = SharedMem.rawarray_init_prog.
Proof. exact gen_creation_progs. Qed.
Print Assumptions C15_code_creation.

Theorem C15_code_accessors :
  G_sharedmem.incr_prog = SharedMem.incr_prog /\
  G_sharedmem.incr_unlocked_prog = SharedMem.incr_unlocked_prog /\
  G_sharedmem.getitem_prog = G_sharedmem.getter_prog /\
  G_sharedmem.setitem_prog = G_sharedmem.setter_prog.
Proof. exact gen_accessor_progs. Qed.
Print Assumptions C15_code_accessors.

Theorem C15_code_structure :
  new_value_allocates_sizeof_through_bufferwrapper = true /\
  bufferwrapper_keeps_block_size_and_frees_in_finaliser = true /\
  bufferwrapper_views_start_to_start_plus_size = true /\
  pickling_passes_the_wrapper_itself = true /\
  value_and_array_build_on_raw_and_default_to_rlock = true /\
  with_wrapper_and_get_lock_use_the_wrappers_lock = true.
Proof. exact gen_structure. Qed.
Print Assumptions C15_code_structure.

(* every branch of synchronized() hands the caller's lock and ctx to the wrapper class, and a
   wrapper pickles as (synchronized, (obj, lock)): the lock given is the lock used, also after a
   pickle round trip *)
Theorem C15_code_lock_passed :
  G_sharedmem.synchronized_branches = SharedMem.synchronized_branches /\
  G_sharedmem.synchronized_branches_passing_lock_and_ctx = G_sharedmem.synchronized_branches /\
  pickling_a_wrapper_passes_its_object_and_its_lock = true /\
  value_and_array_hand_lock_and_ctx_to_synchronized = true.
Proof. exact gen_synchronized_passes_lock. Qed.
Print Assumptions C15_code_lock_passed.

(* ... but SynchronizedBase.__init__ keeps that lock only under a test, read from the code on this run:
   `if lock:` -- by truth value (Model/SharedMem.synchronized_w follows it) *)
Theorem C15_code_lock_test : G_sharedmem.wrapper_lock_test = SharedMem.wrapper_lock_test.
Proof. exact gen_wrapper_lock_test. Qed.
Print Assumptions C15_code_lock_test.

(* a lock whose truth value is true is the lock the wrapper uses; without a lock, a fresh one *)
Theorem C15_given_lock_is_used_partial : forall o l fresh,
  wr_lock (synchronized_w o (Some (l, true)) fresh) = l /\ wr_lock (synchronized_w o None fresh) = fresh.
Proof. intros. split; [apply truthy_lock_is_used|apply no_lock_gives_fresh]. Qed.
Print Assumptions C15_given_lock_is_used_partial.

(* "the lock given is the lock used" is false of the code: a lock object that is false in a boolean
   context (defines __bool__ / __len__) is silently replaced by a private RLock ... *)
Theorem C15_given_lock_is_used_refuted :
  exists o l tv fresh, fresh <> l /\ wr_lock (synchronized_w o (Some (l, tv)) fresh) <> l.
Proof. exact given_lock_is_used_refuted. Qed.
Print Assumptions C15_given_lock_is_used_refuted.

(* ... (it would hold under `if lock is not None:`) ... *)
Theorem C15_given_lock_is_used_under_none_test : forall o l tv fresh,
  wr_lock (synchronized_gen LockNotNone o (Some (l, tv)) fresh) = l /\
  wr_lock (synchronized_gen LockAlways o (Some (l, tv)) fresh) = l.
Proof. exact given_lock_is_used_with_none_test. Qed.
Print Assumptions C15_given_lock_is_used_under_none_test.

(* ... and then an update is lost: updater 0 increments while holding the lock L it passed as lock= (for the
   wrapper's own lock that is the program without the outer acquire), updater 1 while holding get_lock() *)
Theorem C15_falsy_lock_loses_update_refuted :
  exists sched, let w := wrun_h mixed_progs (world_init 0 2 1) sched in
                all_done w = true /\ w_val w = 1.
Proof. exact falsy_lock_loses_update. Qed.
Print Assumptions C15_falsy_lock_loses_update_refuted.

(* ---- initialised: whatever the heap state and whatever bytes the (possibly recycled) storage
   held, a RawValue reads as its initialiser followed by zeros (all zeros without initialiser) ---- *)
Theorem C15_initialised_value : forall pg size init s s' o, 0 <= size ->
  Z.of_nat (length init) <= size ->
  raw_value pg size init s = OK (s', o) ->
  o_read (sm_mem s') o = init ++ zeros (size - Z.of_nat (length init)).
Proof. exact rawvalue_initialised. Qed.
Print Assumptions C15_initialised_value.

Theorem C15_initialised_array_n : forall pg size s s' o, 0 <= size ->
  raw_array_n pg size s = OK (s', o) -> o_read (sm_mem s') o = zeros size.
Proof. exact rawarray_n_initialised. Qed.
Print Assumptions C15_initialised_array_n.

Theorem C15_initialised_array_init : forall pg size init s s' o,
  Z.of_nat (length init) = size ->
  raw_array_init pg size init s = OK (s', o) -> o_read (sm_mem s') o = init.
Proof. exact rawarray_init_initialised. Qed.
Print Assumptions C15_initialised_array_init.

(* ---- isolated ---- *)
(* creating an object (allocate, zero, initialise -- any effect sequence after the allocation)
   in a heap satisfying the C14 invariant yields a sound object, keeps the invariant, keeps every
   other live object sound and in a different block, and changes none of its bytes *)
Theorem C15_creation_isolated : forall pg size init p s s' o,
  pg_ok pg -> HeapInv (sm_heap s) -> 0 <= size < maxsize ->
  (forall e, In e p -> e <> ENew) ->
  create (ENew :: p) pg size init s = OK (s', o) ->
  HeapInv (sm_heap s') /\ obj_ok (sm_heap s') o /\ o_size o = size /\
  forall o2, obj_ok (sm_heap s) o2 -> ~ In (o_block o2) (pending (sm_heap s)) ->
             obj_ok (sm_heap s') o2 /\ o_block o2 <> o_block o /\
             o_read (sm_mem s') o2 = o_read (sm_mem s) o2.
Proof. exact create_isolated. Qed.
Print Assumptions C15_creation_isolated.

(* a store through one live object changes no byte of another live object *)
Theorem C15_isolated : forall h m o1 o2 off bs m', HeapInv h ->
  obj_ok h o1 -> obj_ok h o2 -> o_block o1 <> o_block o2 ->
  o_write m o1 off bs = Some m' -> o_read m' o2 = o_read m o2.
Proof. exact write_isolated. Qed.
Print Assumptions C15_isolated.

(* ---- all histories: initialised, isolated, stores read back, through any object over the wrapper ----
   sh_run / sh_trace / sh_reads (Model/SharedShadow.v) = the SPECIFICATION, computed from the op list alone,
   no heap: per object its initial value (initial_bytes: initialiser then zeros / zeros / the initialiser),
   overwritten by the stores made through it or through an object rebuilt over the same wrapper; dropped objects
   vanish.  sh_run [] ops = Some sh says the history is in the domain (sizes in [0, sys.maxsize), initialisers
   that fit, ops through live objects, stores inside the object); objects may be dropped in ANY order.
   sexec / srun (Model/SharedMem.v) = the implementation model: C14's allocator underneath, a drop frees the
   block when the last object over the wrapper goes, recycled storage is dirty. *)
Theorem C15_history_state : forall pg hsize ops sh, pg_ok pg -> sh_run [] ops = Some sh ->
  exists s objs,
    sexec pg (mk_sm (heap_init hsize) mem0) [] ops = OK (s, objs) /\          (* nothing raises *)
    HeapInv (sm_heap s) /\                                                    (* C14's invariant is kept *)
    live_reads (sm_mem s) objs O = sh_reads sh O /\                           (* every live object reads its shadow *)
    forall i j oi oj, nth i objs None = Some oi -> nth j objs None = Some oj ->
      obj_ok (sm_heap s) oi /\                                                (* live block, large enough *)
      (sh_root sh i = sh_root sh j -> oi = oj) /\                             (* rebuilt = the same (block, size) *)
      (sh_root sh i <> sh_root sh j -> disj (o_block oi) (o_block oj)).       (* otherwise: disjoint storage *)
Proof. exact history_state. Qed.
Print Assumptions C15_history_state.

(* the same on what srun observes after EVERY op of the history (the observations compared with the real
   sharedctypes by the correspondence): all reads equal the shadow's, no op raises *)
Theorem C15_history_trace : forall pg hsize ops sh, pg_ok pg -> sh_run [] ops = Some sh ->
  map snd (srun pg (mk_sm (heap_init hsize) mem0) [] ops) = sh_trace [] ops /\
  length (srun pg (mk_sm (heap_init hsize) mem0) [] ops) = length ops /\
  Forall (fun ob => 0 <= snd (fst ob)) (srun pg (mk_sm (heap_init hsize) mem0) [] ops).
Proof. exact history_trace. Qed.
Print Assumptions C15_history_trace.

(* one step of it, from any state: a store through an object is read back through the same storage as the old
   bytes overwritten at that offset (replaces the former C15_store_visible, which was this for off = 0 and a
   full-size store, plus an identity on pairs) *)
Theorem C15_store_read_back : forall m o off bs m', 0 <= o_size o ->
  o_write m o off bs = Some m' -> o_read m' o = overwrite (o_read m o) (Z.to_nat off) bs.
Proof. exact read_after_write. Qed.
Print Assumptions C15_store_read_back.

(* ---- same storage / same lock after rebuild ----
   (replaces the former C15_same_storage_after_rebuild `rebuild_obj (reduce_obj o) = o`, an identity on pairs, by
   the statement through the process model:) after ANY history of spawning, allocating, handing over and
   storing, pickling handle k inside its holder and rebuilding it inside process q yields a new handle living in
   q, of the same type, over the SAME block of the SAME owner's arena -- not a copy -- reading the same bytes *)
Theorem C15_same_storage_after_rebuild : forall pg hsize ops s k q hk s',
  hrun pg hsize SharedHop.new_value_prog SharedHop.rebuild_prog (hsys_init hsize) ops = OK s ->
  nth_error (hs_handles s) k = Some hk ->
  hstep pg hsize SharedHop.new_value_prog SharedHop.rebuild_prog s (HSend k q) = OK s' ->
  exists hn owner ob,
    hs_handles s' = hs_handles s ++ [hn] /\ h_proc hn = q /\ h_type hn = h_type hk /\
    h_store hk = HShared owner ob /\ h_store hn = HShared owner ob /\
    hread s' hn = hread s' hk.
Proof. exact hops_rebuilt_same_storage. Qed.
Print Assumptions C15_same_storage_after_rebuild.

(* a wrapper rebuilt from its pickled state (synchronized, (obj, self._lock)) keeps the pickled lock -- it does
   not make a fresh one, because the lock a wrapper holds is true in `if lock:` -- and the same (block, size) *)
Theorem C15_same_lock_and_storage_after_rebuild : forall w fresh,
  rebuild_wrapper (reduce_wrapper w) fresh = w.
Proof. exact rebuild_wrapper_same. Qed.
Print Assumptions C15_same_lock_and_storage_after_rebuild.

(* ---- handed on from process to process (Model/SharedHop.v) ----
   A process has its own ForkingPickler registry (empty in a fresh, spawn-style interpreter); sending a
   handle = pickling in its holder (reduce_ctype if a reducer is registered for its type there, else ctypes'
   by-value pickling: a private copy, or an exception for an array) and rebuild_ctype in the receiver.
   hrun = any history of spawning processes, allocating in any process, sending any handle from its holder
   to any process, storing through any handle; roots ops = for every handle, the allocation it descends
   from through any number of hand-overs. *)
Theorem C15_code_hand_over :
  G_sharedmem.new_value_prog = SharedHop.new_value_prog /\
  G_sharedmem.rebuild_prog = SharedHop.rebuild_prog.
Proof. exact gen_hop_progs. Qed.
Print Assumptions C15_code_hand_over.

(* no handle is ever a private copy *)
Theorem C15_hand_over_never_copies : forall pg hsize ops s h,
  hrun pg hsize SharedHop.new_value_prog SharedHop.rebuild_prog (hsys_init hsize) ops = OK s ->
  In h (hs_handles s) -> exists owner ob, h_store h = HShared owner ob.
Proof. exact hops_never_copy. Qed.
Print Assumptions C15_hand_over_never_copies.

(* every handle can be handed on by whatever process holds it -- also one that only received it --
   and the receiver's handle has the same store *)
Theorem C15_can_be_handed_on : forall pg hsize ops s k q h,
  hrun pg hsize SharedHop.new_value_prog SharedHop.rebuild_prog (hsys_init hsize) ops = OK s ->
  nth_error (hs_handles s) k = Some h -> (q < length (hs_procs s))%nat ->
  exists s', hstep pg hsize SharedHop.new_value_prog SharedHop.rebuild_prog s (HSend k q) = OK s' /\
             hs_handles s' = hs_handles s ++ [mk_handle q (h_type h) (h_store h)].
Proof. exact hops_can_hand_on. Qed.
Print Assumptions C15_can_be_handed_on.

(* handles obtained from one allocation by any number of hand-overs address the same cells *)
Theorem C15_any_number_of_hops_same_cells : forall pg hsize ops s j k hj hk,
  hrun pg hsize SharedHop.new_value_prog SharedHop.rebuild_prog (hsys_init hsize) ops = OK s ->
  nth_error (hs_handles s) j = Some hj -> nth_error (hs_handles s) k = Some hk ->
  nth j (roots ops) O = nth k (roots ops) O ->
  h_store hj = h_store hk /\ hread s hj = hread s hk.
Proof. exact hops_same_cells. Qed.
Print Assumptions C15_any_number_of_hops_same_cells.

(* a store through any of them is read through every one of them *)
Theorem C15_store_visible_through_every_handle : forall pg hsize ops s s' j k hj hk owner ob bs,
  hrun pg hsize SharedHop.new_value_prog SharedHop.rebuild_prog (hsys_init hsize) ops = OK s ->
  nth_error (hs_handles s) j = Some hj -> nth_error (hs_handles s) k = Some hk ->
  nth j (roots ops) O = nth k (roots ops) O ->
  h_store hk = HShared owner ob -> Z.of_nat (length bs) = o_size ob ->
  hstep pg hsize SharedHop.new_value_prog SharedHop.rebuild_prog s (HWrite k 0 bs) = OK s' ->
  nth_error (hs_handles s') j = Some hj /\ hread s' hj = bs /\ hread s' hk = bs.
Proof. exact hops_store_visible. Qed.
Print Assumptions C15_store_visible_through_every_handle.

(* why rebuild_ctype must register: with the reducer registered only where a type is allocated, the
   second hand-over of a simple value yields a private copy (the store through it is seen by nobody),
   and the second hand-over of an array raises *)
Theorem C15_registration_only_at_allocation_refuted :
  match hrun 4096 4096 new_value_prog_alloc_only rebuild_prog_no_register (hsys_init 4096)
             [HNew 0 0 (5, None) 4 [7; 0; 0; 0]; HSpawn; HSpawn; HSend 0 1; HSend 1 2; HWrite 2 0 [9; 9; 9; 9]] with
  | OK s => map (hread s) (hs_handles s) = [[7; 0; 0; 0]; [7; 0; 0; 0]; [9; 9; 9; 9]]
  | Err _ => False
  end /\
  hrun 4096 4096 new_value_prog_alloc_only rebuild_prog_no_register (hsys_init 4096)
       [HNew 0 2 (5, Some 2) 8 [1; 0; 0; 0; 2; 0; 0; 0]; HSpawn; HSpawn; HSend 0 1; HSend 1 2] = Err TypeError.
Proof.
  split; [exact second_hop_copies_without_registration_in_rebuild
         |exact second_hop_of_array_raises_without_registration_in_rebuild].
Qed.
Print Assumptions C15_registration_only_at_allocation_refuted.

(* ---- dropping across processes (Model/SharedHopDrop.v): NOT isolated ----
   A BufferWrapper rebuilt by unpickling has no finaliser and the owner's heap does not know it: when the owner
   drops the object it allocated, the block is freed although a receiver still uses it, and the next allocation
   of that size gets the same cells.  Two live shared objects of different allocations then share storage: the
   receiver's object loses its value, and a store through it changes the other -- in another process, or (second
   witness) inside the owner itself through a handle it received back. *)
Theorem C15_owner_drop_recycles_receivers_storage_refuted :
  match drun 4096 4096 (dsys_init 4096) recycle_witness with
  | OK s =>
      match nth_error (hs_handles (d_sys s)) 1, nth_error (hs_handles (d_sys s)) 2 with
      | Some h1, Some h2 =>
          is_live (d_flags s) 1 = true /\ is_live (d_flags s) 2 = true /\
          nth 1 (droots recycle_witness) O <> nth 2 (droots recycle_witness) O /\
          h_proc h1 = 1%nat /\ h_proc h2 = 0%nat /\
          h_store h1 = h_store h2 /\
          hread (d_sys s) h1 = [9; 0; 0; 0] /\
          match dstep 4096 4096 s (DOp (HWrite 1 0 [1; 1; 1; 1])) with
          | OK s' => hread (d_sys s') h2 = [1; 1; 1; 1]
          | Err _ => False
          end
      | _, _ => False
      end
  | Err _ => False
  end.
Proof. exact owner_drop_recycles_receivers_storage. Qed.
Print Assumptions C15_owner_drop_recycles_receivers_storage_refuted.

Theorem C15_owner_drop_recycles_its_own_second_handle_refuted :
  match drun 4096 4096 (dsys_init 4096) recycle_witness_same_process with
  | OK s =>
      match nth_error (hs_handles (d_sys s)) 2, nth_error (hs_handles (d_sys s)) 3 with
      | Some h2, Some h3 =>
          is_live (d_flags s) 2 = true /\ is_live (d_flags s) 3 = true /\
          h_proc h2 = 0%nat /\ h_proc h3 = 0%nat /\ h_store h2 = h_store h3 /\
          hread (d_sys s) h2 = [0; 0; 0; 0; 0; 0; 0; 0]
      | _, _ => False
      end
  | Err _ => False
  end.
Proof. exact owner_drop_recycles_its_own_second_handle. Qed.
Print Assumptions C15_owner_drop_recycles_its_own_second_handle_refuted.

(* ---- ... and what IS guaranteed: under the discipline `disciplined ops` (a function of the history alone: an
   object made by allocation is dropped only when no other live handle descends from it, i.e. the owner keeps
   it until every receiver is done; received handles may be dropped at any time), for EVERY history of spawning,
   allocating in any process, handing over, storing and dropping, any two live handles are backed by live blocks
   of their owners' heaps (which keep C14's invariant), are the same cells when they descend from the same
   allocation, and otherwise lie in different processes' arenas or in disjoint blocks ... *)
Theorem C15_disciplined_drops_isolated : forall pg hsize, pg_ok pg -> forall ops s j k hj hk,
  drun pg hsize (dsys_init hsize) ops = OK s -> disciplined ops = true ->
  is_live (d_flags s) j = true -> is_live (d_flags s) k = true ->
  nth_error (hs_handles (d_sys s)) j = Some hj -> nth_error (hs_handles (d_sys s)) k = Some hk ->
  exists oj obj ok obk prj prk,
    h_store hj = HShared oj obj /\ h_store hk = HShared ok obk /\
    nth_error (hs_procs (d_sys s)) oj = Some prj /\ nth_error (hs_procs (d_sys s)) ok = Some prk /\
    HeapInv (sm_heap (p_sm prj)) /\ obj_ok (sm_heap (p_sm prj)) obj /\ obj_ok (sm_heap (p_sm prk)) obk /\
    (nth j (droots ops) O = nth k (droots ops) O -> h_store hj = h_store hk) /\
    (nth j (droots ops) O <> nth k (droots ops) O -> oj <> ok \/ disj (o_block obj) (o_block obk)).
Proof. exact disciplined_isolated. Qed.
Print Assumptions C15_disciplined_drops_isolated.

(* ... and a store through a live handle changes no byte read through a live handle of another allocation *)
Theorem C15_disciplined_store_isolated : forall pg hsize, pg_ok pg -> forall ops s j k hj off bs s',
  drun pg hsize (dsys_init hsize) ops = OK s -> disciplined ops = true ->
  is_live (d_flags s) j = true -> nth_error (hs_handles (d_sys s)) j = Some hj ->
  nth j (droots ops) O <> nth k (droots ops) O ->
  dstep pg hsize s (DOp (HWrite k off bs)) = OK s' ->
  hread (d_sys s') hj = hread (d_sys s) hj.
Proof. exact disciplined_store_isolated. Qed.
Print Assumptions C15_disciplined_store_isolated.

(* ---- atomic ---- *)
(* n threads, each k times `with v.get_lock(): v.value += 1`, any schedule: at every moment the
   value is v0 + the number of completed stores, and when all are finished it is v0 + n*k *)
Theorem C15_no_lost_update : forall n k v0 sched,
  let w := wrun SharedMem.incr_prog (world_init v0 n k) sched in
  w_val w = v0 + total k (w_threads w) /\
  (all_done w = true -> w_val w = v0 + Z.of_nat n * Z.of_nat k).
Proof. exact no_lost_update. Qed.
Print Assumptions C15_no_lost_update.

Theorem C15_mutual_exclusion : forall n k v0 sched i j ti tj,
  let w := wrun SharedMem.incr_prog (world_init v0 n k) sched in
  nth_error (w_threads w) i = Some ti -> nth_error (w_threads w) j = Some tj ->
  t_pc ti <> 0%nat -> t_pc tj <> 0%nat -> i = j.
Proof. exact mutual_exclusion. Qed.
Print Assumptions C15_mutual_exclusion.

Theorem C15_no_deadlock : forall n k v0 sched,
  let w := wrun SharedMem.incr_prog (world_init v0 n k) sched in
  all_done w = false -> exists i w', wstep SharedMem.incr_prog w i = Some w'.
Proof. exact no_deadlock. Qed.
Print Assumptions C15_no_deadlock.

(* the outer lock is what gives atomicity: with only the per-access locking two threads can
   lose an update *)
Theorem C15_unlocked_increment_refuted :
  exists sched, let w := wrun SharedMem.incr_unlocked_prog (world_init 0 2 1) sched in
                all_done w = true /\ w_val w = 1.
Proof. exact unlocked_loses_update. Qed.
Print Assumptions C15_unlocked_increment_refuted.

(* ---- atomic, with FORKS (Model/SharedFork.v) ----
   The lock is no longer ideal: one kernel semaphore shared by all processes + in every process a copy of the lock
   object with its own ownership count, acquired/released by the C17 primitive (SemProg.sem_acq / sem_rel).  Updaters
   are processes; FFork i k = process i forks -- at any point, also from inside its `with v.get_lock():` block -- an
   updater that makes k locked increments.  The child's copy of the lock object is the parent's (count and all)
   unless the after-fork hook registered by SemLock.__init__ resets it: WHERE that registration stands is read from
   the code on this run (G_semfork.semlock_after_fork_guard); [named] = whether the primitive keeps its name (spawn /
   forkserver) or not (fork start method). *)
Theorem C15_code_after_fork_reset : forall named,
  SemFork.resets_after_fork G_semfork.semlock_after_fork_guard named = true /\
  G_semfork.forked_child_runs_after_fork_hooks_before_target = true.
Proof. intros named. split; [apply gen_fork_reset|exact gen_fork_hooks_run]. Qed.
Print Assumptions C15_code_after_fork_reset.

(* any number of initial updaters, any iteration counts, ANY history of steps and forks: the value is the initial value
   plus the completed stores; when everybody is finished it is the initial value plus the number of increments all
   updaters, initial and forked, were started with *)
Theorem C15_fork_no_lost_update : forall named n k v0 acts,
  let w := frun (gen_reset named) SharedMem.incr_prog (fworld_init v0 n k) acts in
  fw_val w = v0 + ftotal (fw_threads w) /\
  (fall_done w = true -> fw_val w = v0 + started (fw_threads w)).
Proof. exact G_fork_no_lost_update. Qed.
Print Assumptions C15_fork_no_lost_update.

Theorem C15_fork_mutual_exclusion : forall named n k v0 acts i j ti tj,
  let w := frun (gen_reset named) SharedMem.incr_prog (fworld_init v0 n k) acts in
  nth_error (fw_threads w) i = Some ti -> nth_error (fw_threads w) j = Some tj ->
  ft_pc ti <> 0%nat -> ft_pc tj <> 0%nat -> i = j.
Proof. exact G_fork_mutual_exclusion. Qed.
Print Assumptions C15_fork_mutual_exclusion.

(* while process i is inside its `with lock:` block no other process can take a step -- a child forked from inside the
   block waits for the parent's release -- and a fork (by anybody) leaves the value, the semaphore and process i alone:
   the value does not change under a held lock *)
Theorem C15_fork_child_waits_for_parent : forall named n k v0 acts i ti,
  let w := frun (gen_reset named) SharedMem.incr_prog (fworld_init v0 n k) acts in
  nth_error (fw_threads w) i = Some ti -> ft_pc ti <> 0%nat ->
  (forall j, j <> i -> fstep SharedMem.incr_prog w j = None) /\
  (forall j k' w', fdo (gen_reset named) SharedMem.incr_prog w (FFork j k') = Some w' ->
                   fw_val w' = fw_val w /\ fw_sem w' = fw_sem w /\ nth_error (fw_threads w') i = Some ti).
Proof. exact G_fork_others_blocked. Qed.
Print Assumptions C15_fork_child_waits_for_parent.

Theorem C15_fork_no_deadlock : forall named n k v0 acts,
  let w := frun (gen_reset named) SharedMem.incr_prog (fworld_init v0 n k) acts in
  fall_done w = false -> exists i w', fstep SharedMem.incr_prog w i = Some w'.
Proof. exact G_fork_no_deadlock. Qed.
Print Assumptions C15_fork_no_deadlock.

(* the reset is what gives it: without it (hook not registered for the lock), an updater that takes the lock, reads 0
   and forks from inside its critical section loses an update -- the child believes it owns the lock, both are inside,
   the value changes under the held lock, two increments end at 1 *)
Theorem C15_fork_without_reset_refuted :
  (let w := frun false SharedMem.incr_prog (fworld_init 0 1 1) lost_update_acts in
   fall_done w = true /\ started (fw_threads w) = 2 /\ fw_val w = 1) /\
  (let w1 := frun false SharedMem.incr_prog (fworld_init 0 1 1) [FStep 0; FStep 0; FStep 0; FFork 0 1] in
   let w2 := frun false SharedMem.incr_prog w1 (repeat (FStep 1) 6) in
   map ft_pc (fw_threads w1) = [3; 0]%nat /\ fw_val w1 = 0 /\
   map ft_pc (fw_threads w2) = [3; 6]%nat /\ fw_val w2 = 1 /\ SemProg.val (fw_sem w2) = 0).
Proof. split; [exact fork_without_reset_loses_update|exact fork_without_reset_two_inside]. Qed.
Print Assumptions C15_fork_without_reset_refuted.

(* non-vacuity: the same history with the reset: the child stays blocked while the parent is inside, nothing is lost *)
Example C15_witness_fork_under_lock :
  let w := frun true SharedMem.incr_prog (fworld_init 0 1 1) lost_update_acts in
  map ft_pc (fw_threads w) = [0; 0]%nat /\ map ft_left (fw_threads w) = [0; 1]%nat /\ fw_val w = 1 /\
  fw_val (frun true SharedMem.incr_prog w (repeat (FStep 1) 8)) = 2.
Proof. exact fork_with_reset_same_history. Qed.

(* non-vacuity: a RawValue created in recycled dirty storage; the hypotheses of the isolation
   theorems hold for the objects of a concrete history; a complete fair schedule reaches 2*3 *)
Example C15_witness_recycled :
  let s0 := mk_sm (heap_init 64) mem0 in
  match raw_value 64 4 [7; 0; 0; 0] s0 with
  | OK (s1, o1) =>
    match o_write (sm_mem s1) o1 0 [255; 255; 255; 255] with
    | Some m2 =>
      match drop (mk_sm (sm_heap s1) m2) o1 with
      | OK s3 =>
        match raw_value 64 2 [] s3 with
        | OK (s4, o4) => (o_read (sm_mem s1) o1, sm_mem s3 0 0, o_block o4, o_read (sm_mem s4) o4)
                         = ([7; 0; 0; 0], 255, (0, 0, 8), [0; 0])
        | Err _ => False
        end
      | Err _ => False
      end
    | None => False
    end
  | Err _ => False
  end.
Proof. vm_compute. reflexivity. Qed.

Example C15_witness_schedule :
  let w := wrun SharedMem.incr_prog (world_init 10 2 3)
                (concat (repeat [0; 1; 1; 0; 0; 0; 1; 0; 0; 0; 0; 1; 1; 1; 1; 1; 1; 1]%nat 6)) in
  all_done w = true /\ w_val w = 16.
Proof. vm_compute. split; reflexivity. Qed.

(* non-vacuity of the hand-over theorems: parent -> child -> grandchild -> great-grandchild and back *)
Example C15_witness_three_hops :
  match hrun 4096 4096 SharedHop.new_value_prog SharedHop.rebuild_prog (hsys_init 4096)
             [HNew 0 0 (5, None) 4 [7; 0; 0; 0]; HSpawn; HSpawn; HSpawn; HSend 0 1; HSend 1 2; HSend 2 3;
              HWrite 3 0 [9; 9; 9; 9]; HSend 3 0] with
  | OK s => map (hread s) (hs_handles s) = repeat [9; 9; 9; 9] 5 /\ roots
             [HNew 0 0 (5, None) 4 [7; 0; 0; 0]; HSpawn; HSpawn; HSpawn; HSend 0 1; HSend 1 2; HSend 2 3;
              HWrite 3 0 [9; 9; 9; 9]; HSend 3 0] = [0; 0; 0; 0; 0]%nat
  | Err _ => False
  end.
Proof. exact three_hops_share. Qed.

(* non-vacuity of the history theorems: the hypothesis sh_run [] ops = Some _ holds for a history that creates,
   dirties, drops, recycles, rebuilds, stores through the alias, drops the original before its alias *)
Example C15_witness_history :
  sh_run [] hist_witness
    = Some [None; Some (1%nat, [5; 6]); None; None; Some (4%nat, [0; 0; 0]); Some (5%nat, [1])] /\
  sh_trace [] hist_witness =
    [[(0%nat, [7; 0; 0; 0])]; [(0%nat, [255; 255; 255; 255])]; [(0%nat, [255; 255; 255; 255]); (1%nat, [5; 6])];
     [(1%nat, [5; 6])]; [(1%nat, [5; 6]); (2%nat, [0; 0])]; [(1%nat, [5; 6]); (2%nat, [0; 0]); (3%nat, [0; 0])];
     [(1%nat, [5; 6]); (2%nat, [0; 9]); (3%nat, [0; 9])]; [(1%nat, [5; 6]); (3%nat, [0; 9])];
     [(1%nat, [5; 6]); (3%nat, [0; 9]); (4%nat, [0; 0; 0])]; [(1%nat, [5; 6]); (4%nat, [0; 0; 0])];
     [(1%nat, [5; 6]); (4%nat, [0; 0; 0]); (5%nat, [1])]] /\
  map (fun ob => fst (fst ob)) (srun 64 (mk_sm (heap_init 64) mem0) [] hist_witness) =
    [(0, 0, 8); none_block; (0, 8, 16); none_block; (0, 0, 8); (0, 0, 8); none_block; none_block; (0, 16, 24);
     none_block; (0, 0, 8)].
Proof. exact hist_witness_valid. Qed.

(* non-vacuity of the disciplined-drop theorems: hand-overs, drops by the receivers, then the original; its block
   is recycled by the next allocation, which is handed on and stored through *)
Example C15_witness_disciplined_drops :
  disciplined disciplined_witness = true /\
  match drun 4096 4096 (dsys_init 4096) disciplined_witness with
  | OK s => live_hreads (d_sys s) (hs_handles (d_sys s)) (d_flags s) O
            = [(1%nat, [3]); (5%nat, [33; 0; 0; 0]); (6%nat, [33; 0; 0; 0])] /\
            map h_store (hs_handles (d_sys s)) =
              [HShared 0 (mk_obj (0, 0, 8) 4); HShared 0 (mk_obj (0, 8, 16) 1); HShared 0 (mk_obj (0, 0, 8) 4);
               HShared 0 (mk_obj (0, 0, 8) 4); HShared 0 (mk_obj (0, 0, 8) 4); HShared 0 (mk_obj (0, 0, 8) 4);
               HShared 0 (mk_obj (0, 0, 8) 4)]
  | Err _ => False
  end.
Proof. exact disciplined_witness_ok. Qed.
