(* C04 -- a worker dying mid-task yields WorkerLostError for exactly its job.
   [tick_job s x] is what one supervision pass (Pool._maintain_pool in state s) does to
   job x; C04_pass_is_per_job proves that the pass acts on the job table exactly as that
   per-job function, so the rules below hold for every job of every state. *)
From Coq Require Import ZArith List Bool.
From BV Require Import Lib.Cases Model.LaxSem Model.Restart Model.Pool
     Proofs.PoolJobs Proofs.PoolInv Proofs.PoolTick Proofs.PoolCor.
From BV Require Import Proofs.PoolHist.
From BV Require Import Proofs.PoolRefuted.
From BV Require Gen.G_pool_shape.
From BV Require Import Proofs.PoolSup.
From BV Require Gen.G_pool_pins.
From BV Require Model.PoolSys.
From BV Require Import Model.PoolCrash Proofs.PoolCrashProofs.
Import ListNotations.
Open Scope Z_scope.

Theorem C04_pass_is_per_job : forall s, jobs (fst (do_tick s)) = map (tick_job s) (jobs s).
Proof. exact tick_jobs. Qed.
Print Assumptions C04_pass_is_per_job.

(* no later than the timeout plus one supervision period: the first pass after the grace
   period resolves it, with the recorded status and this job's id *)
Theorem C04_deadline : forall s x lt st,
    kind x = KApply -> incache x = true -> ready x = false ->
    worker_lost x = Some (lt, st) -> lost_timeout x < now s - lt ->
    ready (tick_job s x) = true /\ value (tick_job s x) = Some (PLost st (jid x)).
Proof. exact tick_deadline. Qed.
Print Assumptions C04_deadline.

(* no earlier than the job's lost-worker timeout after detection *)
Theorem C04_never_early : forall s x st j,
    JInv x -> kind x = KApply -> ready x = false ->
    value (tick_job s x) = Some (PLost st j) ->
    j = jid x /\ exists lt, worker_lost x = Some (lt, st) /\ lost_timeout x < now s - lt.
Proof. exact tick_never_early. Qed.
Print Assumptions C04_never_early.

(* that job and no other: a job none of whose owners is gone is left untouched *)
Theorem C04_no_other_job : forall s x,
    lost_due s x = false -> acked_by_gone (reaped s) (kept s) x = None -> tick_job s x = x.
Proof. exact tick_frame. Qed.
Print Assumptions C04_no_other_job.

Theorem C04_detection_records_status : forall s x p,
    incache x = true -> ready x = false -> worker_lost x = None ->
    acked_by_gone (reaped s) (kept s) x = Some p -> memZ p (reaped s) = true ->
    (match get_proc s p with Some q => jterm q | None => false end) = false ->
    worker_lost (tick_job s x) = Some (now s, exit_of s p).
Proof. exact tick_detects. Qed.
Print Assumptions C04_detection_records_status.

(* the result message handled before the pass wins (grace period) *)
Theorem C04_grace : forall s x,
    kind x = KApply -> ready x = true ->
    value (tick_job s x) = value x /\ ready (tick_job s x) = true.
Proof. exact tick_grace. Qed.
Print Assumptions C04_grace.

(* the marker, once written, never changes in any continuation (so the deadline is not
   pushed back by later exits and the status is not overwritten) *)
Theorem C04_marker_once : forall c tr tr' j x m,
    get_job (run c tr) j = Some x -> worker_lost x = Some m ->
    exists y, get_job (run c (tr ++ tr')) j = Some y /\ worker_lost y = Some m.
Proof.
  intros c tr tr' j x m Hg Hw. destruct (job_monotone c tr tr' j x Hg) as (y & Hy & _ & _ & _ & Hm & _).
  exists y. split; [exact Hy|apply Hm; exact Hw].
Qed.
Print Assumptions C04_marker_once.

(* the loss is reported whatever happens in between: any continuation of any length; the
   first pass after the grace period that still finds the job unresolved fails it with the
   status recorded at detection *)
Theorem C04_loss_reported_in_any_continuation : forall s1 j x1 t0 st tr x2,
    AllJ s1 -> get_job s1 j = Some x1 -> kind x1 = KApply -> worker_lost x1 = Some (t0, st) ->
    get_job (run_from s1 tr) j = Some x2 -> incache x2 = true -> ready x2 = false ->
    lost_timeout x1 < now (run_from s1 tr) - t0 ->
    ready (tick_job (run_from s1 tr) x2) = true
    /\ value (tick_job (run_from s1 tr) x2) = Some (PLost st j).
Proof. exact loss_reported_in_any_continuation. Qed.
Print Assumptions C04_loss_reported_in_any_continuation.

Theorem C04_terminate_job : forall s x p,
    kind x = KApply -> incache x = true -> ready x = false -> worker_lost x = None ->
    acked_by_gone (reaped s) (kept s) x = Some p -> memZ p (reaped s) = true ->
    (match get_proc s p with Some q => jterm q | None => false end) = true ->
    value (tick_job s x) = Some (PTerminated (- exit_of s p)).
Proof. exact tick_terminated. Qed.
Print Assumptions C04_terminate_job.

(* the grace-period loop visits every unresolved marked job, tests `now - lost_time > timeout`, the marker is written once, the gone-owner test and the Terminated/WorkerLost choice are as modelled
   (facts computed from the AST of /repo/billiard/pool.py on this run; see translate/kernels/poolshape.py) *)
Theorem C04_code_shape :
  G_pool_shape.lost_test_strictly_greater = true /\
  G_pool_shape.lost_loop_visits_every_job = true /\
  G_pool_shape.lost_loop_selects_unready_marked = true /\
  G_pool_shape.marker_written_once = true /\
  G_pool_shape.gone_owner_test = true /\
  G_pool_shape.terminated_only_for_terminate_job = true.
Proof. repeat split; reflexivity. Qed.
Print Assumptions C04_code_shape.

(* non-vacuity: worker 0 dies with SIGSEGV while running job 0; job 1 on worker 1 is
   untouched; the loss is reported 10 s later with the real status *)
Definition c04_cfg := mkcfg 2 None None None (Some 5) 1 false false.
Definition c04_tr : list event :=
  [EApply None None None None; EApply None None None None; EAck 0 None 0; EAck 1 None 1;
   EExit 0 (-11); ETick; EAdvance 10; ETick; EAdvance 1; ETick].
(* the loss is also reported on a pool that has been closed and has lost its last worker: the
   result handler's drain loop calls _join_exited_workers(shutdown=True), which treats every job
   exactly as a supervision pass does (so C04_deadline and the other per-job theorems about
   do_tick apply to it), also on the round that ends by raising WorkersJoined *)
Theorem C04_drain_loop_reports_losses_like_a_pass : forall s,
    jobs (fst (do_join_shutdown s)) = jobs (fst (do_tick s)).
Proof. exact join_shutdown_jobs. Qed.
Print Assumptions C04_drain_loop_reports_losses_like_a_pass.

(* "conversely no job is reported lost unless the worker ... really exited", over whole
   histories in which acknowledgements come from workers of the pool (and, for the second form,
   each job is acknowledged once, as a real worker does): a marked job's marker carries the exit
   status of a worker that has exited and left the pool list -- its own worker *)
Theorem C04_marked_lost_worker_exited : forall c tr j x t st,
    acks_from_pool c tr -> get_job (run c tr) j = Some x -> kind x = KApply -> worker_lost x = Some (t, st) ->
    exists p, in_pool (run c tr) p = false /\ exited (run c tr) p = true /\ st = exit_of (run c tr) p.
Proof. exact marked_lost_worker_exited. Qed.
Print Assumptions C04_marked_lost_worker_exited.

Theorem C04_marked_lost_owner_exited : forall c tr j x t st,
    acks_from_pool c tr -> acks_once c tr ->
    get_job (run c tr) j = Some x -> kind x = KApply -> worker_lost x = Some (t, st) ->
    exists p, In p (wp x) /\ in_pool (run c tr) p = false /\ exited (run c tr) p = true
              /\ st = exit_of (run c tr) p.
Proof. exact marked_lost_owner_exited. Qed.
Print Assumptions C04_marked_lost_owner_exited.

(* the other half: an unmarked, unresolved, cached job's worker IS in the pool *)
Theorem C04_unmarked_owner_in_pool : forall c tr j x p,
    acks_from_pool c tr -> get_job (run c tr) j = Some x -> kind x = KApply ->
    incache x = true -> ready x = false -> worker_lost x = None -> In p (wp x) ->
    in_pool (run c tr) p = true.
Proof. exact unmarked_owner_in_pool. Qed.
Print Assumptions C04_unmarked_owner_in_pool.

(* a worker that has exited and been reaped stays gone, with the same status, in every continuation
   (pids are never reused by the model; the exit status is written once) *)
Theorem C04_exited_worker_stays_gone : forall c tr tr' p st,
    gone (run c tr) p st -> gone (run c (tr ++ tr')) p st.
Proof. exact exited_worker_stays_gone. Qed.
Print Assumptions C04_exited_worker_stays_gone.

(* ---- what the pinned tree does NOT satisfy (known findings, re-detected on every run from the
   same histories in corpus/pool.json): each is refuted in the model by a concrete history *)
Theorem C04_reported_for_every_kind_of_handle_refuted :
  exists c tr j x lt st,
    get_job (run c tr) j = Some x /\ kind x = KIMap /\ ready x = false
    /\ worker_lost x = Some (lt, st) /\ lost_timeout x < now (run c tr) - lt
    /\ last tr EJunk = ETick
    /\ items x = [] /\ snd (step (run c tr) (ENext j)) = REmpty.
Proof. exact imap_loss_not_delivered. Qed.
Print Assumptions C04_reported_for_every_kind_of_handle_refuted.

Theorem C04_finished_work_causes_no_failure_refuted :
  exists c tr j x,
    get_job (run c tr) j = Some x /\ kind x = KMap
    /\ value x = Some (PLost EX_RECYCLE j) /\ cb_err x = 1.
Proof. exact spurious_loss_finished_parts. Qed.
Print Assumptions C04_finished_work_causes_no_failure_refuted.

Theorem C04_no_later_than_one_period_refuted :
  exists c tr j x p,
    get_job (run c tr) j = Some x /\ kind x = KApply /\ wp x = [p]
    /\ in_pool (run c tr) p = false /\ exited (run c tr) p = true
    /\ ready x = false /\ worker_lost x = None
    /\ last tr EJunk = ETick.
Proof. exact owner_gone_but_no_marker. Qed.
Print Assumptions C04_no_later_than_one_period_refuted.

Example C04_witness :
  map (fun x => (ready x, value x, worker_lost x)) (jobs (run c04_cfg c04_tr))
  = [(true, Some (PLost (-11) 0), Some (1000, -11)); (false, None, None)].
Proof. vm_compute. reflexivity. Qed.

(* the parent-side functions of billiard/pool.py these theorems are about are, on this run, the very
   text the hand-written model was read against and is validated against by the correspondence
   (digests of their ASTs, translate/kernels/poolpins.py): any edit of one of them breaks this
   obligation and starts the deeper search for a failing history *)
Theorem C04_modelled_code_is_the_validated_text : G_pool_pins.modelled_code_of_C04 = true.
Proof. reflexivity. Qed.
Print Assumptions C04_modelled_code_is_the_validated_text.

(* ------------------------------------------------------------------------------------------
   The CLOSED system with worker crashes (Model/PoolCrash.v, Proofs/PoolCrashProofs.v): client,
   task queue, pipes, live workers (by pid), a crash budget, the clock -- and the open pool model
   itself as the parent (every parent transition is a [Pool.step]).  [CKill p code] kills a worker
   that is executing a job; [CTick] is the supervision pass once the dead worker's messages have
   been drained from the result pipe; [CTickEarly] is the racy pass of the recorded defect
   C04:owner-gone-but-no-marker.  The statements below are about every schedule without the racy
   pass: any number of jobs, workers and kills, any exit statuses, any lost-worker timeout (pools
   without restart limit). *)
Theorem C04_crash_parent_is_the_pool_model : forall c n y,
    creach c n y -> exists tr, cpar y = run c tr.
Proof. exact creach_is_run. Qed.
Print Assumptions C04_crash_parent_is_the_pool_model.

(* "that job and no other": the job a live worker is running is neither failed nor even marked *)
Theorem C04_crash_job_of_live_worker_untouched : forall c n,
    1 <= c_n c -> c_maxr c = None -> forall y p k,
    creach c n y -> In (p, Some k) (cwk y) ->
    exited (cpar y) p = false /\ in_pool (cpar y) p = true
    /\ exists x, get_job (cpar y) k = Some x /\ ready x = false /\ worker_lost x = None.
Proof. exact job_of_live_worker_not_lost. Qed.
Print Assumptions C04_crash_job_of_live_worker_untouched.

(* "no job is reported lost unless the worker running it really exited": a marker names the status
   of the job's own worker, which has exited and has been reaped *)
Theorem C04_crash_marked_only_if_own_worker_exited : forall c n,
    1 <= c_n c -> c_maxr c = None -> forall y k x t st,
    creach c n y -> get_job (cpar y) k = Some x -> ready x = false -> worker_lost x = Some (t, st) ->
    exists p, In (p, k, st) (clost y) /\ wp x = [p] /\ exited (cpar y) p = true
              /\ exit_of (cpar y) p = st /\ in_pool (cpar y) p = false /\ t <= now (cpar y).
Proof. exact marked_only_if_worker_exited. Qed.
Print Assumptions C04_crash_marked_only_if_own_worker_exited.

(* every resolved job carries its own result, or WorkerLostError naming the exit status of ITS worker *)
Theorem C04_crash_resolved_own_result_or_own_loss : forall c n,
    1 <= c_n c -> c_maxr c = None -> forall y k x,
    creach c n y -> get_job (cpar y) k = Some x -> ready x = true -> resolved_ok y k x.
Proof. exact resolved_own_result_or_lost. Qed.
Print Assumptions C04_crash_resolved_own_result_or_own_loss.

(* an unresolved job is in exactly one place (queue, pipe, a live worker, a result message, lost) *)
Theorem C04_crash_unresolved_in_one_place : forall c n,
    1 <= c_n c -> c_maxr c = None -> forall y j,
    creach c n y -> count_occ Z.eq_dec (ctokens y) j = if cunres (cpar y) j then 1%nat else 0%nat.
Proof. exact unresolved_iff_in_one_place. Qed.
Print Assumptions C04_crash_unresolved_in_one_place.

(* "the pool starts a replacement": the worker list is at the configured size in every reachable state *)
Theorem C04_crash_pool_size_kept : forall c n,
    1 <= c_n c -> c_maxr c = None -> forall y, creach c n y ->
    Z.of_nat (length (wlist (cpar y))) = nprocs (cpar y) /\ map fst (cwk y) = PoolTick.kept (cpar y)
    /\ (length (cwk y) + length (unreaped y))%nat = length (wlist (cpar y)).
Proof. exact pool_size_kept. Qed.
Print Assumptions C04_crash_pool_size_kept.

(* timing: the pass detects the exit, waits while the grace period runs, fails the job when it is over *)
Theorem C04_crash_pass_detects : forall n y y' p k st,
    CInv n y -> crash_step y CTick = Some y' -> In (p, k, st) (clost y) -> in_pool (cpar y) p = true ->
    exists x', get_job (cpar y') k = Some x' /\ ready x' = false
               /\ worker_lost x' = Some (now (cpar y), st) /\ in_pool (cpar y') p = false.
Proof. exact pass_detects. Qed.
Print Assumptions C04_crash_pass_detects.

Theorem C04_crash_first_due_pass_reports : forall c n y sched y1 y2 k x t0 st x1,
    1 <= c_n c -> c_maxr c = None -> creach c n y ->
    get_job (cpar y) k = Some x -> worker_lost x = Some (t0, st) ->
    no_early sched -> crun y sched = Some y1 ->
    get_job (cpar y1) k = Some x1 -> ready x1 = false -> crash_step y1 CTick = Some y2 ->
    (lost_timeout x < now (cpar y1) - t0 ->
       exists x2, get_job (cpar y2) k = Some x2 /\ ready x2 = true /\ value x2 = Some (PLost st k))
    /\ (now (cpar y1) - t0 <= lost_timeout x -> get_job (cpar y2) k = Some x1).
Proof. exact loss_reported_by_the_first_due_pass. Qed.
Print Assumptions C04_crash_first_due_pass_reports.

(* ... and nothing else ever fails a job as lost: only a pass, only the job's own loss, only when due *)
Theorem C04_crash_lost_only_by_due_pass : forall n y a y' k x x' st j,
    CInv n y -> is_early a = false -> crash_step y a = Some y' ->
    get_job (cpar y) k = Some x -> ready x = false ->
    get_job (cpar y') k = Some x' -> value x' = Some (PLost st j) ->
    a = CTick /\ j = k
    /\ exists t p, worker_lost x = Some (t, st) /\ lost_timeout x < now (cpar y) - t /\ wp x = [p]
                   /\ exited (cpar y) p = true /\ exit_of (cpar y) p = st /\ in_pool (cpar y) p = false.
Proof. exact lost_only_by_due_pass. Qed.
Print Assumptions C04_crash_lost_only_by_due_pass.

(* liveness ("rather than leaving the caller waiting forever", "every other job completes normally"):
   useful steps strictly decrease a measure; while work is left a useful step that is neither a kill
   nor the racy pass is enabled; where none is, every one of the n jobs is resolved (own result, or
   the loss of its own worker), the pool is at size with live workers, every slot is back; and from
   EVERY reachable state such an end can be reached without further kills *)
Theorem C04_crash_progress : forall n y, CInv n y -> (0 < cwork y)%nat ->
    exists a y', is_early a = false /\ is_kill a = false /\ useful y a = true /\ crash_step y a = Some y'.
Proof. exact cprogress. Qed.
Print Assumptions C04_crash_progress.

Theorem C04_crash_every_useful_schedule_ends_complete : forall c n bd kills sched y,
    1 <= c_n c -> c_maxr c = None -> no_early sched -> all_useful (cinit c n bd kills) sched ->
    crun (cinit c n bd kills) sched = Some y ->
    (forall a, is_early a = false -> is_kill a = false -> useful y a = true -> crash_step y a = None) ->
    call_complete n y /\ (length sched <= 6 * n + kills * (grace (init c) + 3))%nat.
Proof. exact maximal_useful_schedule_completes. Qed.
Print Assumptions C04_crash_every_useful_schedule_ends_complete.

Theorem C04_crash_no_state_is_doomed : forall c n y,
    1 <= c_n c -> c_maxr c = None -> creach c n y ->
    exists sched y', crun y sched = Some y' /\ no_early sched /\ no_kill sched /\ all_useful y sched
                     /\ cwork y' = 0%nat /\ call_complete n y'.
Proof. exact creach_can_always_complete. Qed.
Print Assumptions C04_crash_no_state_is_doomed.

(* slots: a lost job holds its slot until its worker is reaped, a marked job holds none *)
Theorem C04_crash_slots_account : forall c n,
    1 <= c_n c -> c_maxr c = None -> forall y, creach c n y -> putlocks (cpar y) = true ->
    LaxSem.value (sem (cpar y)) + Z.of_nat (slot_holders y) = bound (sem (cpar y))
    /\ 0 <= LaxSem.value (sem (cpar y)).
Proof. exact cslots_account. Qed.
Print Assumptions C04_crash_slots_account.

(* ---- not satisfied by the pinned tree (known finding C04:owner-gone-but-no-marker), in the closed
   system: ONE racy pass (the dead worker's ACK still in the result pipe) reaches a state from which
   NO schedule whatsoever resolves the job *)
Theorem C04_crash_racy_pass_dooms_the_job_refuted :
  exists c n bd kills sched y k p st,
    crun (cinit c n bd kills) sched = Some y /\ In CTickEarly sched /\ In (CKill p st) sched
    /\ (exists x, get_job (cpar y) k = Some x /\ wp x = [p] /\ ready x = false /\ worker_lost x = None)
    /\ exited (cpar y) p = true /\ exit_of (cpar y) p = st /\ in_pool (cpar y) p = false
    /\ (forall sched' y', crun y sched' = Some y' -> cunres (cpar y') k = true).
Proof. exact doomed_by_early_tick. Qed.
Print Assumptions C04_crash_racy_pass_dooms_the_job_refuted.
