(* C10 -- slot semaphore bounded (semaphore half; pool-level accounting is in
   Props/C10pool.v).  The first four theorems tie the model to the methods
   translated from /repo/billiard/pool.py on this run. *)
From Coq Require Import ZArith List Bool.
From BV Require Import Lib.PyVal Gen.K_laxsem Model.LaxSem Proofs.LaxSemProofs.
From BV Require Gen.G_pool_shape Model.Pool Proofs.PoolSup Proofs.PoolSem Gen.G_laxsem_atomic.
From BV Require Model.PoolSys Proofs.PoolSysProofs Proofs.PoolRefuted Proofs.PoolMore.
From BV Require Gen.G_pool_pins.
From BV Require Model.Pool Model.LaxSem Proofs.PoolTick Model.PoolCrash Proofs.PoolCrashProofs.
From BV Require Model.PoolLimit Proofs.PoolLimitProofs.
Import ListNotations.
Open Scope Z_scope.

Theorem C10_code_release : forall s,
    K_laxsem.release (emb s) = Ok PNone (emb (LaxSem.release s)).
Proof. exact gen_release_eq. Qed.
Print Assumptions C10_code_release.

Theorem C10_code_grow : forall s,
    K_laxsem.grow (emb s) = Ok PNone (emb (LaxSem.grow s)).
Proof. exact gen_grow_eq. Qed.
Print Assumptions C10_code_grow.

Theorem C10_code_shrink : forall s, 0 <= pending s ->
    K_laxsem.shrink (emb s) =
    match sstep (shrink_start s) ShrinkFinish with
    | Some s' => Ok PNone (emb s')
    | None => Exc Blocked (emb (shrink_start s))
    end.
Proof. exact gen_shrink_eq. Qed.
Print Assumptions C10_code_shrink.

Theorem C10_code_clear : forall s,
    K_laxsem.clear (emb s) = Ok PNone (emb (LaxSem.clear s)).
Proof. exact gen_clear_eq. Qed.
Print Assumptions C10_code_clear.

(* the sequential kernels above describe concurrent callers only because the code performs
   the bound test and the increment under the semaphore's own lock: checked structurally on
   the source translated on this run (an interleaving of atomic steps is a sequence) *)
Theorem C10_release_and_grow_are_atomic :
  G_laxsem_atomic.release_test_locked = true /\ G_laxsem_atomic.release_increment_locked = true
  /\ G_laxsem_atomic.grow_locked = true.
Proof. repeat split; reflexivity. Qed.
Print Assumptions C10_release_and_grow_are_atomic.

(* every sequence of acquire / release / grow / shrink halves / clear *)
Theorem C10_bounded : forall n ops,
    0 <= n -> let s := srun (sem_init n) ops in
              0 <= value s /\ (pending s = 0 -> value s <= bound s)
              /\ value s <= bound s + pending s.
Proof. exact never_exceeds_size. Qed.
Print Assumptions C10_bounded.

Theorem C10_size_tracks_grow_shrink : forall ops s,
    bound (srun s ops) = bound s + count_op is_grow ops - count_op is_shrink ops.
Proof. exact bound_tracks. Qed.
Print Assumptions C10_size_tracks_grow_shrink.

Theorem C10_acquire_blocks_when_empty : forall s,
    (sstep s Acquire <> None) <-> 0 < value s.
Proof. exact acquire_enabled_iff. Qed.
Print Assumptions C10_acquire_blocks_when_empty.

Theorem C10_release_lax : forall s,
    (value s < bound s -> value (LaxSem.release s) = value s + 1)
    /\ (bound s <= value s -> LaxSem.release s = s).
Proof. exact release_lax. Qed.
Print Assumptions C10_release_lax.

(* pool level: in every reachable state of the pool model (any history of submissions,
   results, worker deaths, recycles, time-limit kills, grow/shrink/close, failed sends) the
   slot semaphore satisfies the invariant above *)
Theorem C10_pool_semaphore_bounded : forall c tr,
    0 <= Pool.c_n c -> SInv (Pool.sem (Pool.run c tr)).
Proof. exact PoolSup.sem_reachable. Qed.
Print Assumptions C10_pool_semaphore_bounded.

(* slots are given back once per first result of an unresolved job and once per reaped worker (facts computed from the AST of /repo/billiard/pool.py on this run) *)
Theorem C10_pool_code_shape :
  G_pool_shape.slot_released_only_for_unresolved = true /\
  G_pool_shape.one_slot_per_reaped_worker = true /\
  G_pool_shape.unsent_apply_gives_slot_back_and_leaves_cache = true /\
  G_pool_shape.unsendable_apply_without_threads_leaves_nothing = true.
Proof. repeat split; reflexivity. Qed.
Print Assumptions C10_pool_code_shape.

(* ... and its bound IS the configured pool size (as adjusted by grow and shrink): the number
   of free slots never exceeds the size *)
Theorem C10_slots_match_pool_size : forall c tr,
    0 <= Pool.c_n c -> PoolSem.grows_nonneg tr ->
    let s := Pool.run c tr in
    LaxSem.bound (Pool.sem s) = Pool.nprocs s
    /\ 0 <= LaxSem.value (Pool.sem s) <= Pool.nprocs s + LaxSem.pending (Pool.sem s)
    /\ (LaxSem.pending (Pool.sem s) = 0 -> LaxSem.value (Pool.sem s) <= Pool.nprocs s).
Proof. exact PoolSem.slots_match_size. Qed.
Print Assumptions C10_slots_match_pool_size.

(* "given back when its worker is replaced": a supervision pass that does not end in an error
   gives back exactly one slot per worker it reaped (capped at the bound) *)
Theorem C10_pass_gives_back_one_slot_per_reaped_worker : forall s s',
    Pool.do_tick s = (s', Pool.RNone) -> LaxSem.value (Pool.sem s) <= LaxSem.bound (Pool.sem s) ->
    LaxSem.value (Pool.sem s') = Z.min (LaxSem.bound (Pool.sem s))
                                       (LaxSem.value (Pool.sem s) + Z.of_nat (length (snd (Pool.join_exited s))))
    /\ LaxSem.bound (Pool.sem s') = LaxSem.bound (Pool.sem s).
Proof. exact PoolMore.tick_gives_back_one_slot_per_reaped_worker. Qed.
Print Assumptions C10_pass_gives_back_one_slot_per_reaped_worker.

(* conservation, for the closed system in which nothing goes wrong (Model/PoolSys.v: client,
   task queue, pipe, workers, result pipe; see Props/C01.v): in every reachable state before
   close() the free slots plus the jobs in flight make up the bound, a job is in flight iff it
   is unresolved, and when nothing but close() can move any more every slot is free again.
   (In the open model, with worker deaths, conservation is refuted: known finding
   C10:more-slot-holders-than-slots.) *)
Theorem C10_slots_account_for_jobs_in_flight : forall c n y,
    1 <= Pool.c_n c -> PoolSysProofs.sreach c n y ->
    Pool.putlocks (PoolSys.par y) = true -> Pool.pstate (PoolSys.par y) = 0 ->
    LaxSem.value (Pool.sem (PoolSys.par y)) + Z.of_nat (length (PoolSys.tokens y))
    = LaxSem.bound (Pool.sem (PoolSys.par y))
    /\ 0 <= LaxSem.value (Pool.sem (PoolSys.par y)).
Proof. exact PoolSysProofs.slots_account. Qed.
Print Assumptions C10_slots_account_for_jobs_in_flight.

Theorem C10_in_flight_iff_unresolved : forall c n y j,
    1 <= Pool.c_n c -> PoolSysProofs.sreach c n y ->
    count_occ Z.eq_dec (PoolSys.tokens y) j
    = if PoolSysProofs.unres (PoolSys.par y) j then 1%nat else 0%nat.
Proof. exact PoolSysProofs.in_flight_iff_unresolved. Qed.
Print Assumptions C10_in_flight_iff_unresolved.

Theorem C10_all_slots_back_at_the_end : forall c n y,
    1 <= Pool.c_n c -> PoolSysProofs.sreach c n y ->
    (forall a, a <> PoolSys.SClose -> PoolSys.sys_step y a = None) ->
    Pool.pstate (PoolSys.par y) = 0 -> Pool.putlocks (PoolSys.par y) = true ->
    LaxSem.value (Pool.sem (PoolSys.par y)) = LaxSem.bound (Pool.sem (PoolSys.par y)).
Proof. exact PoolSysProofs.all_slots_back. Qed.
Print Assumptions C10_all_slots_back_at_the_end.


(* ---- not satisfied by the pinned tree (known finding C10:more-slot-holders-than-slots): the
   first result of a map job, which took no slot, gives one back *)
Theorem C10_never_more_admitted_than_slots_refuted :
  exists c tr,
    Pool.putlocks (Pool.run c tr) = true
    /\ Z.of_nat (length (filter (fun x => match Pool.kind x with Pool.KApply => negb (Pool.ready x) | _ => false end)
                                (Pool.jobs (Pool.run c tr))))
       > LaxSem.bound (Pool.sem (Pool.run c tr)).
Proof. exact PoolRefuted.more_slot_holders_than_slots. Qed.
Print Assumptions C10_never_more_admitted_than_slots_refuted.

Example C10_witness :
  srun (sem_init 2) [Acquire; Acquire; Acquire; Release; Release; Release; ShrinkStart; ShrinkFinish; Grow; Clear]
  = mk_sem 2 2 0.
Proof. reflexivity. Qed.

(* the parent-side functions of billiard/pool.py these theorems are about are, on this run, the very
   text the hand-written model was read against and is validated against by the correspondence
   (digests of their ASTs, translate/kernels/poolpins.py): any edit of one of them breaks this
   obligation and starts the deeper search for a failing history *)
Theorem C10_modelled_code_is_the_validated_text : G_pool_pins.modelled_code_of_C10 = true.
Proof. reflexivity. Qed.
Print Assumptions C10_modelled_code_is_the_validated_text.

(* ---- the closed system with crashes (Model/PoolCrash.v): free slots + slot holders = the bound in
   every reachable state (a lost job holds its slot until its worker is reaped, a marked job holds
   none), and every complete end has all slots back *)
Theorem C10_crash_slots_account : forall c n,
    1 <= Pool.c_n c -> Pool.c_maxr c = None -> forall y, PoolCrashProofs.creach c n y ->
    Pool.putlocks (PoolCrash.cpar y) = true ->
    LaxSem.value (Pool.sem (PoolCrash.cpar y)) + Z.of_nat (PoolCrash.slot_holders y)
    = LaxSem.bound (Pool.sem (PoolCrash.cpar y))
    /\ 0 <= LaxSem.value (Pool.sem (PoolCrash.cpar y)).
Proof. exact PoolCrashProofs.cslots_account. Qed.
Print Assumptions C10_crash_slots_account.

(* ---- the closed system with hard time limits (Model/PoolLimit.v), schedules without the racy scan:
   free slots + unresolved jobs + dead workers not yet reaped = the bound, always *)
Theorem C10_limit_slots_account : forall c n,
    1 <= Pool.c_n c -> Pool.c_maxr c = None -> Pool.c_soft c = None -> forall y,
    PoolLimitProofs.lreach c n y -> Pool.putlocks (PoolLimit.lpar y) = true ->
    LaxSem.value (Pool.sem (PoolLimit.lpar y)) + Z.of_nat (PoolLimitProofs.nunres (PoolLimit.lpar y))
    + Z.of_nat (length (PoolLimit.dead_workers (PoolLimit.lpar y)))
    = LaxSem.bound (Pool.sem (PoolLimit.lpar y)).
Proof. exact PoolLimitProofs.lslots_account. Qed.
Print Assumptions C10_limit_slots_account.

(* ---- not satisfied by the pinned tree (known finding C10:slot-leaked-when-a-reaped-worker-held-two-jobs):
   "once the pool is quiet all slots are free again" is refuted by ONE racy scan -- the worker had
   finished the overdue job (its result still in the pipe) and gone on to the next one; both jobs are
   resolved, everything is idle, the pool is at size, and 1 of 2 slots is free for ever *)
Theorem C10_quiet_pool_has_all_slots_refuted :
  match PoolLimit.lrun (PoolLimit.linit PoolLimitProofs.racy_cfg [Some 5; Some 100] []) PoolLimitProofs.racy_sched with
  | Some y =>
    PoolLimit.lidle y = true
    /\ map (fun x => (Pool.ready x, Pool.value x, Pool.hard x, Pool.time_accepted x)) (Pool.jobs (PoolLimit.lpar y))
       = [(true, Some (Pool.PTimeLimit (Some 5)), Some 5, Some 1000);
          (true, Some (Pool.PLost (-15) 1), Some 100, Some 1009)]
    /\ Pool.now (PoolLimit.lpar y) = 1020
    /\ PoolLimit.lwk y = [(1, None); (2, None)]
    /\ Pool.wlist (PoolLimit.lpar y) = [1; 2]
    /\ LaxSem.value (Pool.sem (PoolLimit.lpar y)) = 1
    /\ LaxSem.bound (Pool.sem (PoolLimit.lpar y)) = 2
    /\ length (filter PoolLimit.is_racy PoolLimitProofs.racy_sched) = 1%nat
    /\ option_map (fun z => LaxSem.value (Pool.sem (PoolLimit.lpar z)))
         (PoolLimit.lrun y [PoolLimit.LTick; PoolLimit.LAdvance 50; PoolLimit.LScan false; PoolLimit.LTick]) = Some 1
  | None => False
  end.
Proof. exact PoolLimitProofs.racy_scan_loses_a_slot. Qed.
Print Assumptions C10_quiet_pool_has_all_slots_refuted.
