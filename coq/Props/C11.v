(* C11 -- worker restarts are rate limited and the budget is restored.
   Only statements here; proofs live in Proofs/RestartProofs.v.
   The first theorem ties the statements to the code: the function translated
   from /repo/billiard/common.py on this run computes exactly Model.Restart.step. *)
From Coq Require Import ZArith List Bool.
From BV Require Import Lib.PyVal Gen.K_restart Model.Restart Proofs.RestartProofs.
From BV Require Import Proofs.PoolInv Proofs.PoolTick Proofs.PoolSize.
From BV Require Gen.G_pool_shape Model.Pool Proofs.PoolSup.
From BV Require Gen.G_pool_pins.
Import ListNotations.
Open Scope Z_scope.

Theorem C11_code_is_model : forall s now mono,
    K_restart.step (emb s) (PInt now) mono = emb_out (Restart.step s now).
Proof. exact gen_step_eq. Qed.
Print Assumptions C11_code_is_model.

Theorem C11_code_is_model_clock : forall s mono,
    K_restart.step (emb s) PNone (PInt mono) = emb_out (Restart.step s mono).
Proof. exact gen_step_clock. Qed.
Print Assumptions C11_code_is_model_clock.

(* 0 <= R <= max_restarts after every history of steps (any times) and acks *)
Theorem C11_count_bounded : forall m tr s,
    1 <= m -> Inv m s -> Inv m (fst (run s tr)).
Proof. intros m tr s; exact (inv_run m tr s). Qed.
Print Assumptions C11_count_bounded.

(* inside one window, without an accepted job: exactly the remaining budget is
   admitted and the next restart raises instead of forking *)
Theorem C11_budget : forall m s nows now_last,
    1 <= m -> Inv m s ->
    (forall n, In n (nows ++ [now_last]) -> in_window s n) ->
    Z.of_nat (length nows) = m - R s ->
    steps s (nows ++ [now_last]) =
    (mk_rs 0 (T s) (maxR s) (maxT s), repeat false (length nows) ++ [true]).
Proof. exact window_budget. Qed.
Print Assumptions C11_budget.

Theorem C11_first_restart_opens_window : forall mr mt now,
    step (rs_init mr mt) now = (mk_rs 1 (Some now) mr mt, false).
Proof. exact first_step_opens. Qed.
Print Assumptions C11_first_restart_opens_window.

Theorem C11_fresh_window : forall s now t,
    T s = Some t -> t <> 0 -> now - t >= maxT s ->
    step s now = (mk_rs 1 (Some now) (maxR s) (maxT s), false).
Proof. exact fresh_window. Qed.
Print Assumptions C11_fresh_window.

Theorem C11_ack_restores : forall s,
    R (ack s) = 0 /\ T (ack s) = T s /\ maxR (ack s) = maxR s.
Proof. exact ack_restores. Qed.
Print Assumptions C11_ack_restores.

Theorem C11_raise_counts_nothing : forall s now s',
    step s now = (s', true) -> R s' = 0 /\ T s' = T s.
Proof. exact raise_forks_nothing. Qed.
Print Assumptions C11_raise_counts_nothing.

(* "at start-up a burst limit of ten restarts per worker slot per second applies": the limiter
   Supervisor.body installs for its first ten passes (budget 10 * slots, window one second = w clock
   units) admits exactly 10 * slots restarts inside one window and raises at the next one *)
Theorem C11_startup_burst : forall slots w t0 nows now_last,
    1 <= slots -> t0 <> 0 ->
    (forall n, In n (nows ++ [now_last]) -> n - t0 < w) ->
    Z.of_nat (length nows) = 10 * slots - 1 ->
    steps (burst_state slots w) (t0 :: nows ++ [now_last]) =
    (mk_rs 0 (Some t0) (Some (10 * slots)) w, repeat false (S (length nows)) ++ [true]).
Proof. exact startup_burst_budget. Qed.
Print Assumptions C11_startup_burst.

(* the burst phase as written (facts computed from the AST of Supervisor.body on this run): the pool's
   own limiter is set aside, a fresh one with budget 10 * pool._processes and window 1 s is used for
   ten passes 0.1 s apart, and the pool's own limiter is put back *)
Theorem C11_burst_code_shape :
  G_pool_shape.burst_budget_is_ten_per_slot_per_second = true /\
  G_pool_shape.burst_is_ten_passes_then_own_limiter_restored = true.
Proof. repeat split; reflexivity. Qed.
Print Assumptions C11_burst_code_shape.

(* pool level: workers that exit with the clean or recycle status never consume budget *)
Theorem C11_clean_exits_free : forall fuel i codes s,
    Forall (fun c => Pool.clean_code c = true) codes -> (i + fuel <= length codes)%nat ->
    Pool.rst (fst (Pool.repopulate fuel i codes s)) = Pool.rst s /\ snd (Pool.repopulate fuel i codes s) = Pool.RNone
    \/ snd (Pool.repopulate fuel i codes s) = Pool.RExc 14.
Proof. exact PoolSup.repopulate_clean. Qed.
Print Assumptions C11_clean_exits_free.

(* an abnormal exit is charged before its replacement is started: a refused restart forks nothing *)
Theorem C11_refused_forks_nothing : forall i codes s c,
    Pool.pstate s = 0 -> nth_error codes i = Some c -> Pool.clean_code c = false ->
    snd (Restart.step (Pool.rst s) (Pool.now s)) = true ->
    forall fuel, Pool.wlist (fst (Pool.repopulate (S fuel) i codes s)) = Pool.wlist s
                 /\ snd (Pool.repopulate (S fuel) i codes s) = Pool.RExc 10.
Proof. exact PoolSup.repopulate_refused_starts_nothing. Qed.
Print Assumptions C11_refused_forks_nothing.

(* clean/recycle exits are not charged, the limiter is consulted before the fork, an accepted job resets the counter (facts computed from the AST of /repo/billiard/pool.py on this run) *)
Theorem C11_pool_code_shape :
  G_pool_shape.clean_exits_not_charged = true /\
  G_pool_shape.limiter_consulted_before_fork = true /\
  G_pool_shape.ack_resets_restart_counter = true.
Proof. repeat split; reflexivity. Qed.
Print Assumptions C11_pool_code_shape.

(* ---- pool level (Proofs/PoolSize.v): the limiter of the pool in every reachable state ----
   it IS the proved limiter run on the pool's own history: one Step per replacement the pass
   charges (a reaped worker that did not leave with the clean/recycle status, or a worker missing
   beyond the reaped ones), one Ack per acknowledgement *)
Theorem C11_pool_limiter_is_the_limiter : forall c tr,
    Pool.rst (Pool.run c tr)
    = fst (Restart.run (rs_init (Pool.c_maxr c) (cfg_maxt c)) (limiter_history (Pool.init c) tr)).
Proof. exact pool_limiter_is_restart_run. Qed.
Print Assumptions C11_pool_limiter_is_the_limiter.

Theorem C11_pool_limiter_invariant : forall c tr m,
    Pool.c_maxr c = Some m -> 1 <= m -> Inv m (Pool.rst (Pool.run c tr)).
Proof. exact pool_limiter_inv. Qed.
Print Assumptions C11_pool_limiter_invariant.

(* only supervision passes and acknowledgements touch it; an acknowledgement starts the count afresh *)
Theorem C11_pool_limiter_frame : forall s e, limiter_event e = false -> Pool.rst (fst (Pool.step s e)) = Pool.rst s.
Proof. exact limiter_frame. Qed.
Print Assumptions C11_pool_limiter_frame.

Theorem C11_pool_ack_restores : forall s j i p, Pool.rst (fst (Pool.step s (Pool.EAck j i p))) = Restart.ack (Pool.rst s).
Proof. exact ack_resets_limiter. Qed.
Print Assumptions C11_pool_ack_restores.

(* the budget at pool level: over any stretch of history inside one window, without
   acknowledgements and without a refused pass, the replacements charged add up to the counter and
   never exceed what was left of max_restarts ... *)
Theorem C11_pool_window_budget : forall c tr0 tr m,
    Pool.c_maxr c = Some m -> 1 <= m -> calm (Pool.run c tr0) tr ->
    let s := Pool.run c tr0 in
    R (Pool.rst (Pool.run c (tr0 ++ tr))) = R (Pool.rst s) + Z.of_nat (abn_total s tr)
    /\ Z.of_nat (abn_total s tr) <= m - R (Pool.rst s) <= m.
Proof. exact pool_window_budget. Qed.
Print Assumptions C11_pool_window_budget.

(* ... and the pass that would exceed it raises RestartFreqExceeded instead of forking *)
Theorem C11_pool_next_pass_raises : forall m tr s e fuel,
    1 <= m -> Inv m (Pool.rst s) -> calm s tr ->
    let s1 := run_from s tr in
    pass_fuel s1 e = Some fuel -> Pool.pstate s1 = 0 -> in_window (Pool.rst s1) (Pool.now s1) ->
    m - R (Pool.rst s1) < Z.of_nat (n_charged (pass_codes s1) 0 fuel) ->
    snd (Pool.step s1 e) = Pool.RExc 10
    /\ Z.of_nat (abn_total s (tr ++ [e])) = m - R (Pool.rst s)
    /\ R (Pool.rst (fst (Pool.step s1 e))) = 0 /\ T (Pool.rst (fst (Pool.step s1 e))) = T (Pool.rst s).
Proof. exact window_budget_then_raise. Qed.
Print Assumptions C11_pool_next_pass_raises.

(* non-vacuity: a reachable state meeting the hypotheses of C11_budget, and the
   theorem's conclusion computed on it: budget 2, window 5 s opened at t=100 *)
Example C11_budget_witness :
  let s := fst (run (rs_init (Some 2) 5) [Step 100]) in
  Inv 2 s /\ in_window s 101 /\ in_window s 104 /\
  steps s [101; 104] = (mk_rs 0 (Some 100) (Some 2) 5, [false; true]).
Proof. cbn. repeat split; try discriminate; try reflexivity. Qed.

(* the parent-side functions of billiard/pool.py these theorems are about are, on this run, the very
   text the hand-written model was read against and is validated against by the correspondence
   (digests of their ASTs, translate/kernels/poolpins.py): any edit of one of them breaks this
   obligation and starts the deeper search for a failing history *)
Theorem C11_modelled_code_is_the_validated_text : G_pool_pins.modelled_code_of_C11 = true.
Proof. reflexivity. Qed.
Print Assumptions C11_modelled_code_is_the_validated_text.
