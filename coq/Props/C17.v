(* C17 -- locks, semaphores, conditions, events: no lost wake-ups.
   Only statements here; proofs live in Proofs/SemProgProofs.v and Proofs/CondProofs.v. *)
From Coq Require Import ZArith List Bool.
From BV Require Import Model.SemProg Model.CondProg Gen.P_cond Proofs.CondProofs.
Import ListNotations.
Open Scope Z_scope.

(* the programs compiled from billiard/synchronize.py on this run are the model's programs *)
Theorem C17_code_is_model : forall c, P_cond.code c = CondProg.code c.
Proof. exact gen_code_eq. Qed.
Print Assumptions C17_code_is_model.
