(* C17 -- locks, semaphores, conditions, events: no lost wake-ups.
   Only statements here; proofs live in Proofs/SemProgProofs.v and Proofs/CondProofs.v.

   Reading guide.  [P_cond.code] is the table of SemProg programs compiled on THIS run from
   billiard/synchronize.py (Condition.wait/notify/notify_all, Event.*, the SemLock wrappers)
   and harness/c17_clients.py; [gen_world] the semaphores built with the generated
   constructor parameters.  [Reach g]: g is reachable by those programs from an initial world
   with ANY number of threads, ANY scripts of client calls and ANY schedule (a timed acquire
   may give up at any step), as long as no counter reached SEM_VALUE_MAX.
   Semaphore ids: 0 L lock, 1 S sleeping_count, 2 W woken_count, 3 T wait_semaphore, 4 F flag.
   Weights of a thread (functions of its call, pc, registers): t_hl holds L; t_win between its
   S.release and its W.release; t_pend sleepers a notifier grabbed and has not yet collected;
   t_ntok tokens a notifier may still have outstanding; t_fh holds the flag. *)
From Coq Require Import ZArith List Bool.
From BV Require Import Model.SemProg Model.CondProg Proofs.SemProgProofs Proofs.CondProofs Proofs.CondLive
  Proofs.CondWake Proofs.CondNotify.
From BV Require Import Model.SemFork Proofs.SemForkProofs Proofs.CondFork.
From BV Require Gen.P_cond Gen.G_semfork.
Import ListNotations.
Open Scope Z_scope.

(* ---- tie: the generated programs and constructor parameters are the model's *)
Theorem C17_code_is_model : forall c, P_cond.code c = CondProg.code c.
Proof. exact gen_code_eq. Qed.
Print Assumptions C17_code_is_model.

Theorem C17_ctors_are_model :
  P_cond.ctor_Lock = CondProg.ctor_Lock /\ P_cond.ctor_RLock = CondProg.ctor_RLock /\
  (forall v, P_cond.ctor_Semaphore v = CondProg.ctor_Semaphore v) /\
  (forall v, P_cond.ctor_BoundedSemaphore v = CondProg.ctor_BoundedSemaphore v) /\
  (forall l, P_cond.ctor_Condition l = CondProg.ctor_Condition l) /\
  P_cond.ctor_Condition_default = CondProg.ctor_Condition_default /\
  P_cond.ctor_Event = CondProg.ctor_Event.
Proof. exact gen_ctors_eq. Qed.
Print Assumptions C17_ctors_are_model.

(* ---- primitives, for ANY programs (any code table), any threads, any schedule *)
(* an RLock admits one holder *)
Theorem C17_rlock_mutex : forall code s ss scripts sched g es ok i j ti tj,
    recur (nth s ss dsem) = true -> val (nth s ss dsem) = 1 ->
    run code (init_sys code ss scripts) sched = (g, es, ok) ->
    nth_error (thr g) i = Some ti -> nth_error (thr g) j = Some tj ->
    0 < hs s ti -> 0 < hs s tj -> i = j.
Proof. exact rlock_mutex. Qed.
Print Assumptions C17_rlock_mutex.

(* a Lock admits one holder as long as nobody released what it did not hold *)
Theorem C17_lock_mutex : forall code s ss scripts sched g es ok i j ti tj,
    recur (nth s ss dsem) = false -> val (nth s ss dsem) = 1 ->
    run code (init_sys code ss scripts) sched = (g, es, ok) ->
    (forall t, In t (thr g) -> 0 <= hs s t) ->
    nth_error (thr g) i = Some ti -> nth_error (thr g) j = Some tj ->
    0 < hs s ti -> 0 < hs s tj -> i = j.
Proof. exact lock_mutex. Qed.
Print Assumptions C17_lock_mutex.

(* Semaphore(k): value >= 0 and value + sum of hold counts = k, hence at most k holders *)
Theorem C17_sem_bound : forall code s ss scripts sched g es ok,
    recur (nth s ss dsem) = false -> 0 <= val (nth s ss dsem) ->
    run code (init_sys code ss scripts) sched = (g, es, ok) ->
    0 <= vs s g /\ vs s g + sumz (hs s) (thr g) = val (nth s ss dsem).
Proof. exact sem_bound. Qed.
Print Assumptions C17_sem_bound.

(* BoundedSemaphore: a release at the maximum raises ValueError and changes nothing;
   the value never exceeds the maximum *)
Theorem C17_bounded_refuses : forall code g i t s,
    nth_error (thr g) i = Some t -> fin t = false ->
    nth_error (code (cid t)) (pc t) = Some (Rel s) ->
    recur (nth s (sems g) dsem) = false ->
    maxv (nth s (sems g) dsem) <= vs s g ->
    exists g', step code g i true = Some (g', (i, s, 1, E_VALUE)) /\ sems g' = sems g.
Proof. exact bounded_refuses. Qed.
Print Assumptions C17_bounded_refuses.

Theorem C17_sem_le_max : forall code s sched g0 g es ok,
    run code g0 sched = (g, es, ok) ->
    recur (nth s (sems g0) dsem) = false ->
    vs s g0 <= maxv (nth s (sems g0) dsem) ->
    vs s g <= maxv (nth s (sems g0) dsem).
Proof. exact sem_le_max. Qed.
Print Assumptions C17_sem_le_max.

(* ---- the Condition / Event code *)
(* the invariant (per-thread facts, lock accounting, counting invariant, token bound, flag
   bound) holds in every reachable state; in particular no assert of notify / notify_all
   fails and no semaphore operation of Condition / Event raises *)
Theorem C17_invariant : forall g, Reach g -> Inv g.
Proof. exact reach_inv. Qed.
Print Assumptions C17_invariant.

(* mutual exclusion of the condition's lock, Lock or RLock *)
Theorem C17_mutex : forall g i j ti tj, Reach g ->
    nth_error (thr g) i = Some ti -> nth_error (thr g) j = Some tj ->
    0 < nth 0 (held ti) 0 -> 0 < nth 0 (held tj) 0 -> i = j.
Proof. exact G_mutex. Qed.
Print Assumptions C17_mutex.

(* sleeping - woken accounting; wait_semaphore = 0 when no notify is in progress
   (in particular whenever the lock is free) *)
Theorem C17_counts : forall g, Reach g ->
    vv 1 g - vv 2 g + sumz t_pend (thr g) = sumz t_win (thr g) /\
    0 <= vv 3 g <= sumz t_ntok (thr g) /\
    (quiet g -> vv 3 g = 0 /\ vv 1 g - vv 2 g = sumz t_win (thr g)) /\
    (vv 0 g = 1 -> quiet g).
Proof. exact G_counts. Qed.
Print Assumptions C17_counts.

(* results of finished calls (okres): wait returns a boolean and True when untimed; notify,
   notify_all, set, clear return None -- never an exception; is_set / Event.wait a boolean *)
Theorem C17_results : forall g t, Reach g -> In t (thr g) -> Forall okres (results t).
Proof. exact G_results. Qed.
Print Assumptions C17_results.

(* when notify_all has collected its acknowledgements nobody is left between announcement and
   acknowledgement, and sleeping = woken = 0 *)
Theorem C17_notify_all_wakes : forall g i t, Reach g -> nth_error (thr g) i = Some t -> nall_done t ->
    (forall u, In u (thr g) -> t_win u = 0) /\ vv 1 g = 0 /\ vv 2 g = 0.
Proof. exact G_notify_all_wakes. Qed.
Print Assumptions C17_notify_all_wakes.

(* no lost wake-up, trace form: an untimed waiter that was blocked on the wait semaphore
   while a notify_all body was running holds its token (will return True) when that
   notify_all reaches its final lock release, whatever happened in between *)
Theorem C17_notify_all_wakes_trace : forall sched g1 g2 es ok n j tn tu,
    Reach g1 -> gen_run_small g1 sched -> run P_cond.code g1 sched = (g2, es, ok) -> n <> j ->
    nth_error (thr g1) n = Some tn -> in_nall tn = true ->
    nth_error (thr g1) j = Some tu -> at_ tu 0 9 = true -> r0 (rg tu) = 0 ->
    at_ (thread_at g2 n) 2 24 = true -> results (thread_at g2 n) = results tn ->
    at_ (thread_at g2 j) 0 13 = true /\ pending (thread_at g2 j) = Some 1 /\
    cur (thread_at g2 j) = cur tu /\ results (thread_at g2 j) = results tu.
Proof. exact G_notify_all_wakes_trace. Qed.
Print Assumptions C17_notify_all_wakes_trace.

(* notify hands out at most one token; when it has collected its acknowledgement and no
   other sleeper is counted, nobody is left in the wait window *)
Theorem C17_notify_one : forall g i t, Reach g -> nth_error (thr g) i = Some t ->
    fin t = false -> cid t = 1%nat -> t_hl t = 1 ->
    vv 3 g <= 1 /\
    ((pc t = 13%nat \/ pc t = 14%nat) -> vv 1 g = 0 -> forall u, In u (thr g) -> t_win u = 0).
Proof. exact G_notify_one. Qed.
Print Assumptions C17_notify_one.

(* a timed wait may give up at any moment: it is then going to return False and the
   invariant still holds; an untimed wait leaves its acquire only with True *)
Theorem C17_timeout_consistent : forall g i t, Reach g -> small g -> nth_error (thr g) i = Some t ->
    at_ t 0 9 = true -> r0 (rg t) <> 0 ->
    exists g', step P_cond.code g i false = Some (g', (i, 3%nat, 0, 0)) /\ Inv g' /\
               pending (thread_at g' i) = Some 0.
Proof. exact G_timed_out_wait. Qed.
Print Assumptions C17_timeout_consistent.

Theorem C17_untimed_wait_true : forall g i t go g' e, Reach g -> small g -> nth_error (thr g) i = Some t ->
    at_ t 0 9 = true -> r0 (rg t) = 0 -> step P_cond.code g i go = Some (g', e) ->
    e = (i, 3%nat, 0, 1) /\ pending (thread_at g' i) = Some 1.
Proof. exact G_untimed_wait_true. Qed.
Print Assumptions C17_untimed_wait_true.

(* every step keeps the invariant; the abstract event flag (aflag, 0 or 1) becomes 1 exactly
   at Event.set's flag acquire, 0 at Event.clear's, and is unchanged by every other step;
   is_set and Event.wait read exactly it and return what they read (flag_spec); a decided
   result is the one returned (res_spec) *)
Theorem C17_event_step : forall g i go g' e t, Reach g -> small g -> nth_error (thr g) i = Some t ->
    step P_cond.code g i go = Some (g', e) ->
    Inv g' /\ flag_spec i t g g' e /\ res_spec t (thread_at g' i).
Proof. exact G_step. Qed.
Print Assumptions C17_event_step.

Theorem C17_event_flag_boolean : forall g, Reach g -> aflag g = 0 \/ aflag g = 1.
Proof. exact G_flag_01. Qed.
Print Assumptions C17_event_flag_boolean.

(* ================================================================== liveness side
   (Proofs/CondLive.v, Proofs/CondWake.v).  Everything above that says "is woken" is
   conditional on the notifier reaching the end of its call.  The statements below remove
   that condition.  Vocabulary:
     [Live g]   LOWER bound on the wake-up tokens: the acknowledgements a notifier is still
                going to collect with its blocking acquire (t_low) are covered by the wait
                semaphore + the woken count + the waiters standing at their acknowledgement
                (t_a10); and the event flag is 1 while an Event.set is past its flag acquire.
     [M g]      a variant, 64*(woken + 2*sleeping + wait_semaphore) + per-thread position
                weights; EVERY step of EVERY thread decreases it.
     [gstuck g] no thread has an enabled step (whatever the choice go / time out).
     [at_ack t] notify at (1,12), notify_all at (2,18), Event.set at (4,20): the BLOCKING
                _woken_count.acquire().
     [sleeping t] an UNTIMED waiter standing at its acquire of the wait semaphore.
     [in_nallx t] inside notify_all, or inside Event.set past its flag acquire (lock held).
     [sleeping_at t] at the wait-semaphore acquire of Condition.wait (0,9) or Event.wait (6,13).
     [awake_at t] at the lock re-acquisition after the acknowledgement, (0,13) / (6,17).
     [at_end t] at the final lock release of notify (1,14) / notify_all (2,24) / set (4,26). *)

(* the liveness invariant holds in every reachable state *)
Theorem C17_live_invariant : forall g, Reach g -> Inv g /\ Live g.
Proof. exact G_inv_live. Qed.
Print Assumptions C17_live_invariant.

(* PROGRESS: a notifier standing at its blocking acquire of _woken_count always has an enabled
   thread next to it (itself, a waiter at its acknowledgement, or a thread of the wait window
   that can take a token): the handshake cannot deadlock *)
Theorem C17_progress : forall g n tn, Reach g ->
    nth_error (thr g) n = Some tn -> at_ack tn = true ->
    exists u, step P_cond.code g u true <> None.
Proof. exact G_ack_progress. Qed.
Print Assumptions C17_progress.

(* EVERY schedule is finite, with an explicit bound: the number of executed steps is at most
   the variant of the start state (no fairness assumption; [M g < 64 * SVM] says the system is
   not astronomically large, and then no counter ever comes near SEM_VALUE_MAX) *)
Theorem C17_every_schedule_finite : forall sched g g' es ok, Reach g -> M g < 64 * SVM ->
    run P_cond.code g sched = (g', es, ok) ->
    Z.of_nat (length es) + M g' <= M g /\ 0 <= M g' /\ small g'.
Proof. exact G_run_bounded. Qed.
Print Assumptions C17_every_schedule_finite.

(* DEADLOCK CHARACTERISATION: when no thread can step, the lock is free, no notification is
   in progress (wait semaphore 0, sleeping - woken = number of sleepers) and every thread is
   finished, an untimed sleeper (waiting for a notify nobody is going to send), or blocked in a
   user-level semaphore operation (client ids 7..14) *)
Theorem C17_stuck_only_sleepers : forall g, Reach g -> gstuck g ->
    vv 0 g = 1 /\ vv 3 g = 0 /\ vv 1 g - vv 2 g = sumz t_win (thr g) /\
    forall t, In t (thr g) -> fin t = true \/ sleeping t \/ (7 <= cid t)%nat.
Proof. exact G_stuck_sleepers. Qed.
Print Assumptions C17_stuck_only_sleepers.

Theorem C17_quiescence_reachable : forall g, Reach g -> M g < 64 * SVM ->
    exists sched g2 es, run P_cond.code g sched = (g2, es, true) /\ gstuck g2.
Proof. exact G_reaches_stuck. Qed.
Print Assumptions C17_quiescence_reachable.

(* no lost wake-up, trace form, for notify_all AND Event.set / Condition.wait AND Event.wait
   (generalises C17_notify_all_wakes_trace): after an Event.set the flag is 1 as well *)
Theorem C17_wakes_trace : forall sched g1 g2 es ok n j tn tu,
    Reach g1 -> gen_run_small g1 sched -> run P_cond.code g1 sched = (g2, es, ok) -> n <> j ->
    nth_error (thr g1) n = Some tn -> in_nallx tn = true ->
    nth_error (thr g1) j = Some tu -> sleeping_at tu = true -> r0 (rg tu) = 0 ->
    at_end (thread_at g2 n) = true -> results (thread_at g2 n) = results tn ->
    awake_at (thread_at g2 j) = true /\
    cur (thread_at g2 j) = cur tu /\ results (thread_at g2 j) = results tu /\
    (cid tu = 0%nat -> pending (thread_at g2 j) = Some 1) /\
    (cid tn = 4%nat -> aflag g2 = 1).
Proof. exact G_wakes_trace_x. Qed.
Print Assumptions C17_wakes_trace.

(* NO LOST WAKE-UP, UNCONDITIONAL.  Thread n is inside notify_all / Event.set and thread j is
   an untimed waiter blocked on the wait semaphore in g1.  Then (1) every schedule from g1
   executes at most [M g1] steps, and (2) in EVERY state reached from g1 in which no thread
   can step any more, the notifier has returned None from that call and the waiter has
   returned from that wait call -- True for a Condition.wait.  Nobody sleeps forever. *)
Theorem C17_no_lost_wakeup : forall sched g1 g2 es ok n j tn tu,
    Reach g1 -> M g1 < 64 * SVM -> run P_cond.code g1 sched = (g2, es, ok) -> n <> j ->
    nth_error (thr g1) n = Some tn -> in_nallx tn = true ->
    nth_error (thr g1) j = Some tu -> sleeping_at tu = true -> r0 (rg tu) = 0 ->
    Z.of_nat (length es) <= M g1 /\
    (gstuck g2 ->
     (exists l, results (thread_at g2 n) = l ++ (cur tn, V_NONE) :: results tn) /\
     (exists l v, results (thread_at g2 j) = l ++ (cur tu, v) :: results tu /\
                  (v = 0 \/ v = 1) /\ (cid tu = 0%nat -> v = 1))).
Proof. exact G_wakes_uncond_x. Qed.
Print Assumptions C17_no_lost_wakeup.

(* ... and there is a schedule on which the notify_all / set finishes and EVERY untimed waiter
   present returns *)
Theorem C17_wake_schedule_exists : forall g1 n tn,
    Reach g1 -> M g1 < 64 * SVM -> nth_error (thr g1) n = Some tn -> in_nallx tn = true ->
    exists sched g2 es, run P_cond.code g1 sched = (g2, es, true) /\ gstuck g2 /\
      (exists l, results (thread_at g2 n) = l ++ (cur tn, V_NONE) :: results tn) /\
      forall j tu, n <> j -> nth_error (thr g1) j = Some tu -> sleeping_at tu = true -> r0 (rg tu) = 0 ->
        exists l v, results (thread_at g2 j) = l ++ (cur tu, v) :: results tu /\
                    (v = 0 \/ v = 1) /\ (cid tu = 0%nat -> v = 1).
Proof. exact G_wake_schedule_exists. Qed.
Print Assumptions C17_wake_schedule_exists.

(* notify, trace form: notify has just taken the lock and thread j, untimed and blocked on
   the wait semaphore, is the ONLY thread between announcement and acknowledgement; when
   notify stands at its final lock release, thread j has been woken *)
Theorem C17_notify_one_trace : forall sched g1 g2 es ok n j tn tu,
    Reach g1 -> gen_run_small g1 sched -> run P_cond.code g1 sched = (g2, es, ok) -> n <> j ->
    nth_error (thr g1) n = Some tn -> at_ tn 1 2 = true ->
    nth_error (thr g1) j = Some tu -> sleeping_at tu = true -> r0 (rg tu) = 0 ->
    sumz t_win (thr g1) = 1 ->
    at_ (thread_at g2 n) 1 14 = true -> results (thread_at g2 n) = results tn ->
    awake_at (thread_at g2 j) = true /\
    cur (thread_at g2 j) = cur tu /\ results (thread_at g2 j) = results tu /\
    (cid tu = 0%nat -> pending (thread_at g2 j) = Some 1).
Proof. exact G_notify_one_trace. Qed.
Print Assumptions C17_notify_one_trace.

(* ... and unconditionally: the single sleeper has returned (True) in every state without
   enabled threads *)
Theorem C17_notify_one_wakes : forall sched g1 g2 es ok n j tn tu,
    Reach g1 -> M g1 < 64 * SVM -> run P_cond.code g1 sched = (g2, es, ok) -> n <> j ->
    nth_error (thr g1) n = Some tn -> at_ tn 1 2 = true ->
    nth_error (thr g1) j = Some tu -> sleeping_at tu = true -> r0 (rg tu) = 0 ->
    sumz t_win (thr g1) = 1 ->
    Z.of_nat (length es) <= M g1 /\
    (gstuck g2 ->
     (exists l, results (thread_at g2 n) = l ++ (cur tn, V_NONE) :: results tn) /\
     (exists l v, results (thread_at g2 j) = l ++ (cur tu, v) :: results tu /\
                  (v = 0 \/ v = 1) /\ (cid tu = 0%nat -> v = 1))).
Proof. exact G_notify_one_uncond. Qed.
Print Assumptions C17_notify_one_wakes.

(* ---- FORKS (Model/SemFork.v): a process forks another at any scheduling point -- also while it holds locks, also in
   the middle of wait / notify.  The child gets a COPY of every lock object, ownership count included, unless the
   after-fork hook registered by SemLock.__init__ resets it; the kernel semaphores are shared, not copied.
   [G_semfork.semlock_after_fork_guard] = where that registration stands in SemLock.__init__, read from the code on this
   run; [named] = does the primitive keep its name (spawn / forkserver: yes; fork start method: no);
   [gen_reset named] = resets_after_fork of that guard.  [frun] = a history of steps and forks ([AFork i sc]: process i
   forks a child running the script sc). *)
Theorem C17_code_after_fork_reset : forall named,
    resets_after_fork G_semfork.semlock_after_fork_guard named = true /\
    G_semfork.forked_child_runs_after_fork_hooks_before_target = true.
Proof. intros named. split; [apply gen_after_fork_reset|exact gen_child_runs_hooks]. Qed.
Print Assumptions C17_code_after_fork_reset.

(* for ANY programs: a history with forks is a plain schedule of the system in which the children exist from the start,
   holding nothing, and are not scheduled before their fork -- same final state, same events *)
Theorem C17_fork_is_late_start : forall named code ss scripts acts g es,
    frun code (gen_reset named) (init_sys code ss scripts) acts = (g, es, true) ->
    run code (init_sys code ss (scripts ++ forked_of acts)) (steps_of acts) = (g, es, true).
Proof. exact G_fork_is_late_start. Qed.
Print Assumptions C17_fork_is_late_start.

(* the child of a fork holds nothing, whatever its parent held *)
Theorem C17_fork_child_holds_nothing : forall named code g i sc g',
    fork code (gen_reset named) g i sc = Some g' ->
    exists c, thr g' = thr g ++ [c] /\ sems g' = sems g /\ forall s, hs s c = 0.
Proof. exact G_fork_child_holds_nothing. Qed.
Print Assumptions C17_fork_child_holds_nothing.

(* the primitive theorems over histories with forks, ANY programs *)
Theorem C17_rlock_mutex_forks : forall named code s ss scripts acts g es ok i j ti tj,
    recur (nth s ss dsem) = true -> val (nth s ss dsem) = 1 ->
    frun code (gen_reset named) (init_sys code ss scripts) acts = (g, es, ok) ->
    nth_error (thr g) i = Some ti -> nth_error (thr g) j = Some tj ->
    0 < hs s ti -> 0 < hs s tj -> i = j.
Proof. exact G_rlock_mutex_fork. Qed.
Print Assumptions C17_rlock_mutex_forks.

Theorem C17_lock_mutex_forks : forall named code s ss scripts acts g es ok i j ti tj,
    recur (nth s ss dsem) = false -> val (nth s ss dsem) = 1 ->
    frun code (gen_reset named) (init_sys code ss scripts) acts = (g, es, ok) ->
    (forall t, In t (thr g) -> 0 <= hs s t) ->
    nth_error (thr g) i = Some ti -> nth_error (thr g) j = Some tj ->
    0 < hs s ti -> 0 < hs s tj -> i = j.
Proof. exact G_lock_mutex_fork. Qed.
Print Assumptions C17_lock_mutex_forks.

Theorem C17_sem_bound_forks : forall named code s ss scripts acts g es ok,
    recur (nth s ss dsem) = false -> 0 <= val (nth s ss dsem) ->
    frun code (gen_reset named) (init_sys code ss scripts) acts = (g, es, ok) ->
    0 <= vs s g /\ vs s g + sumz (hs s) (thr g) = val (nth s ss dsem).
Proof. exact G_sem_bound_fork. Qed.
Print Assumptions C17_sem_bound_forks.

(* the Condition / Event code: [FReach g] = g is reached by the generated programs from an initial world by any history of
   steps and forks (children running any scripts of client calls).  Such a state is [Reach]able without forks, so EVERY
   theorem above stated for [Reach g] holds for it; the invariant, the mutual exclusion of the condition's lock and the
   results of finished calls (untimed wait -> True, no exception) are spelled out *)
Theorem C17_reach_with_forks : forall g, FReach g -> Reach g.
Proof. exact freach_reach. Qed.
Print Assumptions C17_reach_with_forks.

Theorem C17_invariant_forks : forall g, FReach g -> Inv g.
Proof. exact freach_inv. Qed.
Print Assumptions C17_invariant_forks.

Theorem C17_mutex_forks : forall g i j ti tj, FReach g ->
    nth_error (thr g) i = Some ti -> nth_error (thr g) j = Some tj ->
    0 < nth 0 (held ti) 0 -> 0 < nth 0 (held tj) 0 -> i = j.
Proof. exact freach_mutex. Qed.
Print Assumptions C17_mutex_forks.

Theorem C17_results_forks : forall g t, FReach g -> In t (thr g) -> Forall okres (results t).
Proof. exact freach_results. Qed.
Print Assumptions C17_results_forks.

(* the reset is what gives it.  WITHOUT it (hook not registered), on the generated programs:
   (1) condition with an RLock: process 0, inside notify (it holds the lock), forks a child that calls notify: the child's
       copy of the lock says "mine" and its acquire succeeds at once -- the lock has two holders;
   (2) condition with a Lock: process 0, inside notify, forks a child that calls wait() without timeout; after process 0
       has finished the child takes the lock, but its copy counts 2: wait() releases the lock `count` times, the second
       release raises ValueError -- the untimed wait returns an exception instead of True and leaves an announced
       sleeper that never acknowledges (sleeping_count 1, woken_count 0, nobody waiting) *)
Theorem C17_fork_without_reset_refuted :
  match frun P_cond.code false (gen_init true 1 [[(1%nat, 0, 0)]]) two_holders_acts with
  | (g, es, ok) =>
      ok = true /\ vv 0 g = 0 /\
      match nth_error (thr g) 0, nth_error (thr g) 1 with
      | Some t0, Some t1 => 0 < nth 0 (held t0) 0 /\ 0 < nth 0 (held t1) 0
      | _, _ => False
      end
  end /\
  match frun P_cond.code false (gen_init false 1 [[(1%nat, 0, 0)]]) wait_raises_acts with
  | (g, es, ok) =>
      ok = true /\ vv 1 g = 1 /\ vv 2 g = 0 /\
      match nth_error (thr g) 1 with
      | Some t1 => fin t1 = true /\ results t1 = [((0%nat, 0, 0), E_VALUE)]
      | None => False
      end
  end.
Proof. split; [exact fork_without_reset_two_holders|exact fork_without_reset_wait_raises]. Qed.
Print Assumptions C17_fork_without_reset_refuted.

(* non-vacuity: with the reset the history of (1) stops at the child's acquire -- it is blocked while its parent holds *)
Example C17_fork_witness :
  match frun P_cond.code true (gen_init true 1 [[(1%nat, 0, 0)]]) two_holders_acts with
  | (g, es, ok) => ok = false /\ length (thr g) = 2%nat /\ es = [(0%nat, 0%nat, 0, 1)]
  end.
Proof. exact fork_with_reset_child_blocks. Qed.

(* non-vacuity: a reachable state with an untimed waiter blocked (thread 0), a timed waiter
   that gave up and has not acknowledged yet, and a notify_all holding two sleepers and two
   outstanding tokens *)
Example C17_witness :
  Reach ex_state /\ vv 3 ex_state = 2 /\ sumz t_ntok (thr ex_state) = 2 /\
  sumz t_win (thr ex_state) = 2 /\ sumz t_pend (thr ex_state) = 2 /\
  exists t, nth_error (thr ex_state) 0 = Some t /\ at_ t 0 9 = true /\ r0 (rg t) = 0.
Proof. exact ex_witness. Qed.

(* non-vacuity of the liveness statements: in [ex_state] the notify_all stands at its blocking
   acquire of the woken count with an untimed sleeper present; M is far below the bound; on
   the given schedule everybody returns (untimed wait True, timed-out wait False) and the
   final state has no enabled thread *)
Example C17_live_witness :
  Reach ex_state /\ M ex_state < 64 * SVM /\
  (exists t, nth_error (thr ex_state) 2 = Some t /\ at_ack t = true /\ in_nallx t = true) /\
  (exists t, nth_error (thr ex_state) 0 = Some t /\ sleeping_at t = true /\ r0 (rg t) = 0) /\
  snd (run P_cond.code ex_state ex_fin_sched) = true /\ stuckb ex_fin_state = true /\
  map results (thr ex_fin_state) =
    [[((0%nat, 0, 0), 1)]; [((0%nat, 1, 0), 0)]; [((2%nat, 0, 0), V_NONE)]].
Proof. exact ex_live_witness. Qed.

(* non-vacuity of C17_notify_one_trace: a reachable state satisfying its hypotheses, and the
   conclusion observed on a concrete schedule *)
Example C17_notify_one_witness :
  Reach ex1_g1 /\ gen_run_small ex1_g1 ex1_sched2 /\ sumz t_win (thr ex1_g1) = 1 /\
  (exists t, nth_error (thr ex1_g1) 1 = Some t /\ at_ t 1 2 = true) /\
  (exists t, nth_error (thr ex1_g1) 0 = Some t /\ sleeping_at t = true /\ r0 (rg t) = 0) /\
  at_ (thread_at ex1_g2 1) 1 14 = true /\ at_ (thread_at ex1_g2 0) 0 13 = true /\
  pending (thread_at ex1_g2 0) = Some 1.
Proof. exact ex1_witness. Qed.
