(* C14 -- the shared-memory heap never hands out overlapping or misplaced memory.
   Only statements here; proofs live in Proofs/Heap*.v.

   Vocabulary (Model/Heap.v, Proofs/HeapGeo.v, Proofs/HeapInv.v):
     block = (arena index, start, stop);   F h = the free blocks listed in _len_to_seq;
     alloc h = _allocated_blocks (live blocks, including those waiting in the pending list);
     wf ar b   = b lies inside arena b of the arena list ar, 0 <= start < stop <= size,
                 start and stop are multiples of 8;
     disj x y  = different arenas or non-overlapping extents;
     valid_run = every Free/FreeDeferred in the sequence, and every free issued from inside a
                 MallocRe/FreeRe, names a block that is live at that point and not already in the
                 pending list (and not the block the outer free is freeing); every Malloc size is
                 in [0, maxsize);
     MallocRe n p v / FreeRe b p v = malloc(n) / free(b) during which, at point p, the same thread
                 calls free(v) (a finaliser run by the garbage collector);
     pg_ok pg  = 0 < pg and pg mod 8 = 0 (mmap.PAGESIZE);
     HeapInv   = the invariant (indexes consistent, partition, coalesced, pending list sane). *)
From Coq Require Import ZArith List Bool Lia.
From BV Require Import Lib.PyVal Gen.K_heap Gen.G_heap Model.Heap.
From BV Require Import Proofs.HeapLib Proofs.HeapIdx Proofs.HeapGeo Proofs.HeapRe Proofs.HeapInv Proofs.HeapProofs.
From BV Require Import Model.HeapConc Model.HeapFork Proofs.HeapConcProofs Proofs.HeapConcGen.
Import ListNotations.
Open Scope Z_scope.

(* ---- the code's arithmetic, as translated from heap.py on this run, is the model's ---- *)
Theorem C14_code_roundup : forall n k, 0 <= k ->
  K_heap.roundup tt (PInt n) (PInt (2 ^ k)) = Ok (PInt (Heap.roundup n (2 ^ k))) tt.
Proof. exact gen_roundup. Qed.
Print Assumptions C14_code_roundup.

Theorem C14_code_malloc_size : forall n,
  G_heap.malloc_size (PInt n) = PInt (Heap.norm_size n) /\
  truth (G_heap.malloc_assert (PInt n) (PInt Heap.maxsize)) = negb ((n <? 0) || (Heap.maxsize <=? n)) /\
  G_heap.c__alignment = PInt Heap.alignment.
Proof. intros n. split; [apply gen_malloc_size|split; [apply gen_malloc_assert|apply gen_alignment]]. Qed.
Print Assumptions C14_code_malloc_size.

Theorem C14_code_split : forall start size stop,
  G_heap.malloc_new_stop (PInt start) (PInt size) = PInt (start + size) /\
  G_heap.malloc_split (PInt (start + size)) (PInt stop) = PBool (start + size <? stop).
Proof. intros. split; [apply (gen_malloc_split start size)|apply (gen_malloc_split (start + size) stop)]. Qed.
Print Assumptions C14_code_split.

Theorem C14_code_arena_length : forall ns size k, 0 <= k ->
  G_heap.arena_length (PInt ns) (PInt size) (PInt (2 ^ k)) = PInt (Heap.arena_length ns size (2 ^ k)) /\
  G_heap.next_size (PInt ns) = PInt (ns * 2) /\
  G_heap.search_is_bisect_left = true.
Proof. intros. split; [apply gen_arena_length; assumption|split; [apply gen_next_size|apply gen_search]]. Qed.
Print Assumptions C14_code_arena_length.

(* the lock Heap.__init__ creates is not re-entrant (threading.Lock), and free() takes it with a
   non-blocking acquire whose failure branch only appends to the pending list: the two facts
   the model of the re-entrant free rests on, read from heap.py on this run *)
Theorem C14_code_lock : G_heap.lock_reentrant = Heap.lock_reentrant /\ G_heap.free_trylock = true.
Proof. exact gen_lock. Qed.
Print Assumptions C14_code_lock.

(* ---- all histories ---- *)
(* every sequence of malloc / free / deferred free / malloc or free with a free issued from
   inside it by the same thread, with valid frees, from a fresh Heap(size),
   runs without any exception and ends in a state satisfying the invariant *)
Theorem C14_invariant : forall pg size ops, pg_ok pg ->
  valid_run pg (heap_init size) ops ->
  exists h, run pg (heap_init size) ops = OK h /\ HeapInv h.
Proof. exact reachable_inv. Qed.
Print Assumptions C14_invariant.

(* one more step from any state satisfying the invariant keeps it (this is the induction step;
   it also says that no modelled KeyError/IndexError/ValueError can occur) *)
Theorem C14_step : forall pg h o, pg_ok pg -> HeapInv h -> valid_op h o ->
  exists x h', step pg h o = OK (x, h') /\ HeapInv h'.
Proof. exact step_ok. Qed.
Print Assumptions C14_step.

(* live blocks are inside their arena, 8-aligned, non-empty and pairwise disjoint *)
Theorem C14_live_blocks : forall h, HeapInv h ->
  (forall b, In b (alloc h) -> wf (arenas h) b) /\
  (forall x y, In x (alloc h) -> In y (alloc h) -> x <> y -> disj x y).
Proof. exact live_blocks. Qed.
Print Assumptions C14_live_blocks.

(* what malloc(n) returns: a live block of at least max(n,1) bytes, inside its arena, aligned,
   disjoint from every other live block; blocks that were live (and not awaiting a deferred
   free) stay live and are different from it *)
Theorem C14_block_ok : forall pg h n b h', pg_ok pg -> HeapInv h -> 0 <= n < maxsize ->
  malloc pg h n = OK (b, h') ->
  HeapInv h' /\ In b (alloc h') /\ Z.max n 1 <= blen b /\ wf (arenas h') b /\
  (forall x, In x (alloc h') -> x <> b -> disj b x) /\
  (forall x, In x (alloc h) -> ~ In x (pending h) -> In x (alloc h') /\ x <> b).
Proof. exact malloc_block. Qed.
Print Assumptions C14_block_ok.

(* free and live blocks exactly partition every arena: no block twice, all inside, pairwise
   disjoint, and every byte of every arena belongs to one of them *)
Theorem C14_partition : forall h, HeapInv h ->
  NoDup (F h ++ alloc h) /\
  (forall b, In b (F h ++ alloc h) -> wf (arenas h) b) /\
  (forall x y, In x (F h ++ alloc h) -> In y (F h ++ alloc h) -> x <> y -> disj x y) /\
  (forall a sz p, asize (arenas h) a = Some sz -> 0 <= p < sz ->
     exists b, In b (F h ++ alloc h) /\ b_arena b = a /\ b_start b <= p < b_stop b).
Proof. exact partition. Qed.
Print Assumptions C14_partition.

(* the four free-list indexes describe the same duplicate-free set of free blocks *)
Theorem C14_indexes_agree : forall h, HeapInv h ->
  NoDup (F h) /\
  (forall l, In l (lengths h) <-> exists b, In b (F h) /\ blen b = l) /\
  (forall l seq, dget Z.eqb l (l2s h) = Some seq -> seq <> [] /\ forall b, In b seq -> blen b = l /\ In b (F h)) /\
  (forall k b, dget key_eqb k (s2b h) = Some b <-> In b (F h) /\ k = skey b) /\
  (forall k b, dget key_eqb k (e2b h) = Some b <-> In b (F h) /\ k = ekey b).
Proof. exact indexes_agree. Qed.
Print Assumptions C14_indexes_agree.

(* freed space is merged: no two free blocks of an arena are adjacent *)
Theorem C14_coalesced : forall h, HeapInv h ->
  forall x y, In x (F h) -> In y (F h) -> b_arena x = b_arena y -> b_stop x <> b_start y.
Proof. exact free_coalesced. Qed.
Print Assumptions C14_coalesced.

(* ... and the free blocks are determined by the live blocks alone (they are the maximal gaps):
   whatever the order in which frees were processed, immediately or deferred *)
Theorem C14_free_blocks_canonical : forall h1 h2, HeapInv h1 -> HeapInv h2 ->
  arenas h1 = arenas h2 -> (forall b, In b (alloc h1) <-> In b (alloc h2)) ->
  forall x, In x (F h1) <-> In x (F h2).
Proof. exact free_canonical. Qed.
Print Assumptions C14_free_blocks_canonical.

(* no new arena while a free block is large enough: malloc either carves the block from the
   start of a best-fitting free block (arena list unchanged), or maps one arena of the computed
   length and then every free block (after the pending frees were applied) was too short *)
Theorem C14_no_needless_arena : forall pg h n b h' hd, pg_ok pg -> HeapInv h -> 0 <= n < maxsize ->
  malloc pg h n = OK (b, h') -> drain h = OK hd ->
  (arenas h' = arenas h /\
   exists blk, In blk (F hd) /\ b_arena b = b_arena blk /\ b_start b = b_start blk /\
               norm_size n <= blen blk /\
               forall x, In x (F hd) -> norm_size n <= blen x -> blen blk <= blen x)
  \/
  (arenas h' = arenas h ++ [arena_length (nsize h) (norm_size n) pg] /\
   b_arena b = Z.of_nat (length (arenas h)) /\ b_start b = 0 /\ nsize h' = nsize h * 2 /\
   forall x, In x (F hd) -> blen x < norm_size n).
Proof. exact no_needless_arena. Qed.
Print Assumptions C14_no_needless_arena.

(* free(b): exactly b and the pending blocks leave the live set, no arena is mapped *)
Theorem C14_free : forall h b h', HeapInv h -> In b (alloc h) -> ~ In b (pending h) ->
  free h b = OK h' ->
  HeapInv h' /\ arenas h' = arenas h /\
  forall x, In x (alloc h') <-> (In x (alloc h) /\ x <> b /\ ~ In x (pending h)).
Proof. exact free_block. Qed.
Print Assumptions C14_free.

(* a free that finds the lock taken only queues the block ... *)
Theorem C14_deferred_only_queues : forall h b,
  let h' := free_deferred h b in
  lengths h' = lengths h /\ l2s h' = l2s h /\ s2b h' = s2b h /\ e2b h' = e2b h /\
  alloc h' = alloc h /\ arenas h' = arenas h /\ nsize h' = nsize h /\ pending h' = pending h ++ [b].
Proof. exact deferred_only_queues. Qed.
Print Assumptions C14_deferred_only_queues.

(* ... and the next malloc/free then behaves exactly as if the block had been freed immediately *)
Theorem C14_deferred : forall pg h b o, HeapInv h -> pending h = [] ->
  In b (alloc h) -> (exists n, o = Malloc n) \/ (exists c, o = Free c) ->
  step pg (free_deferred h b) o = (do xh <- step pg h (Free b); step pg (snd xh) o).
Proof.
  intros pg h b o HI Hp Hb Ho. apply deferred_equals_immediate; try assumption.
  destruct Ho as [[n ->]|[c ->]]; exact I.
Qed.
Print Assumptions C14_deferred.

(* ---- a free issued from inside malloc / free by the same thread (garbage collection) ---- *)
(* with the lock the code creates, free(v) called by a finaliser while this thread is inside
   malloc(n) -- at ANY of the points: lock just taken, pending list drained, block found, inside
   the _free of the remainder (left neighbour absorbed / right neighbour absorbed / merged block
   registered), block recorded as live -- only queues v: the outcome is exactly the one of
   "deferred free, then malloc" (finaliser before the drain) or "malloc, then deferred free"
   (anywhere later).  Equality of results and complete states, no hypothesis. *)
Theorem C14_nested_free_in_malloc : forall pg p v h n,
  malloc_re lock_reentrant pg (Some (p, v)) h n =
  if rpoint_eqb p RLocked then malloc pg (free_deferred h v) n
  else do bh <- malloc pg h n; OK (fst bh, free_deferred (snd bh) v).
Proof. exact nested_free_in_malloc. Qed.
Print Assumptions C14_nested_free_in_malloc.

(* the same for a finaliser running while this thread is inside free(b), including the points in
   the middle of _free(b) where b's neighbours are already off the free lists *)
Theorem C14_nested_free_in_free : forall p v h b,
  free_re lock_reentrant (Some (p, v)) h b =
  if rpoint_eqb p RLocked then free (free_deferred h v) b
  else do h' <- free h b; OK (free_deferred h' v).
Proof. exact nested_free_in_free. Qed.
Print Assumptions C14_nested_free_in_free.

(* hence such calls never raise and keep the invariant (these are also instances of C14_step) *)
Theorem C14_nested_free_safe : forall pg h, pg_ok pg -> HeapInv h ->
  (forall n p v, 0 <= n < maxsize -> In v (alloc h) -> ~ In v (pending h) ->
     exists b h', malloc_re lock_reentrant pg (Some (p, v)) h n = OK (b, h') /\ HeapInv h') /\
  (forall b p v, In b (alloc h) -> ~ In b (pending h) -> In v (alloc h) -> ~ In v (pending h) -> v <> b ->
     exists h', free_re lock_reentrant (Some (p, v)) h b = OK h' /\ HeapInv h').
Proof.
  intros pg h Hpg HI. split.
  - intros n p v Hn Hv Hnp. apply malloc_re_ok; assumption.
  - intros b p v Hb Hnb Hv Hnp Hne. apply free_re_ok; assumption.
Qed.
Print Assumptions C14_nested_free_safe.

(* without a finaliser the instrumented functions are malloc and free themselves *)
Theorem C14_nested_none : forall re pg h n b,
  malloc_re re pg None h n = malloc pg h n /\ free_re re None h b = free h b.
Proof. intros. split; [apply malloc_re_none|apply free_re_none]. Qed.
Print Assumptions C14_nested_none.

(* why the deferral is needed (refutation for a RE-ENTRANT lock, by computation): if the nested
   acquire succeeded, free(Y) running inside free(X) just after X's free left neighbour P was taken
   off the free lists does not see P, and the heap ends with two adjacent free blocks
   Y = [0,768) and P+X = [768,2304) -- C14_coalesced fails *)
Example C14_reentrant_lock_refuted :
  exists h h' x y,
    run 4096 (heap_init 4096) [Malloc 768; Malloc 768; Malloc 768; Malloc 768; Free (0, 768, 1536)] = OK h /\
    free_re true (Some (RPrev, (0, 0, 768))) h (0, 1536, 2304) = OK h' /\
    In x (F h') /\ In y (F h') /\ b_arena x = b_arena y /\ b_stop x = b_start y.
Proof.
  eexists. eexists. exists (0, 0, 768), (0, 768, 2304).
  split; [vm_compute; reflexivity|]. split; [vm_compute; reflexivity|].
  cbn. auto 10.
Qed.

(* non-vacuity: a concrete history with splitting, a deferred free, coalescing on both sides,
   reuse and a second arena satisfies valid_run, and the theorem's conclusion computed on it *)
Definition ex_ops : list op :=
  [Malloc 16; Malloc 16; Malloc 16; FreeDeferred (0, 0, 16); Free (0, 32, 48); Free (0, 16, 32);
   Malloc 64; Malloc 1; Malloc 200].

Example C14_witness_valid : pg_ok 64 /\ valid_run 64 (heap_init 64) ex_ops.
Proof.
  split; [split; reflexivity|].
  unfold ex_ops.
  repeat (cbn [valid_run valid_op]; split; [first [unfold maxsize; lia
                        |cbn; split; [auto 10|intros H; cbn in H; intuition congruence]] |
                  intros x h' E; vm_compute in E; inversion E; subst x h'; clear E]);
  exact I.
Qed.

Example C14_witness_result :
  exists h, run 64 (heap_init 64) ex_ops = OK h /\
            alloc h = [(2, 0, 200); (1, 0, 8); (0, 0, 64)] /\
            F h = [(2, 200, 256); (1, 8, 128)] /\ arenas h = [64; 128; 256].
Proof. eexists. split; [vm_compute; reflexivity|]. repeat split. Qed.

(* non-vacuity for the re-entrant ops: frees issued from inside a malloc (while the remainder is
   being merged) and from inside a free (left neighbour just absorbed) *)
Definition ex_ops_nested : list op :=
  [Malloc 768; Malloc 768; Malloc 768; Malloc 768; Free (0, 768, 1536);
   FreeRe (0, 1536, 2304) RPrev (0, 0, 768); MallocRe 2304 RNext (0, 2304, 3072); Malloc 8].

Example C14_witness_nested_valid : pg_ok 4096 /\ valid_run 4096 (heap_init 4096) ex_ops_nested.
Proof.
  split; [split; reflexivity|].
  unfold ex_ops_nested.
  repeat (cbn [valid_run]; split; [cbn [valid_op]; unfold maxsize; cbn; intuition (try lia; try congruence) |
                  intros x h' E; vm_compute in E; inversion E; subst x h'; clear E]);
  exact I.
Qed.

Example C14_witness_nested_result :
  exists h, run 4096 (heap_init 4096) ex_ops_nested = OK h /\
            alloc h = [(0, 2304, 2312); (0, 0, 2304)] /\ F h = [(0, 2312, 4096)] /\ arenas h = [4096] /\
            pending h = [].
Proof. eexists. split; [vm_compute; reflexivity|]. repeat split. Qed.

(* ======================================================================================
   "from any thread ... all interleavings of allocating threads with frees that find the heap
   lock taken" -- the small-step interleaving model (Model/HeapConc.v).

   Vocabulary: a configuration = heap + lock owner + threads (pc, remaining requests) + log of the
   blocks handed out; a thread runs RMalloc n / RFree b requests; steps of malloc: pass the assert,
   acquire (blocks while the lock is taken), ONE iteration of the drain loop per step, the body,
   release; steps of free: try-lock, then either "append to the pending list" (a separate, later step)
   or drain iterations, the body, release; EAppend v = an append by a free that is no thread's request
   (a finaliser run by the garbage collector, in the thread holding the lock or any other), enabled
   at every moment.  A schedule is any list of EStep t / EAppend v; crun = None when it names a
   step that is not enabled.  lin = the sequential history of the run: `Free b` when b is popped
   from the pending list and freed, `Malloc n` / `Free b` at the bodies.
   ====================================================================================== *)

(* which statements of malloc/free are inside `with self._lock` / after the successful try-lock, as read
   from heap.py on this run, are the ones the model's steps are cut along: in particular the drain of the
   pending list is INSIDE the lock *)
Theorem C14_code_lock_regions :
  G_heap.malloc_outside = HeapConc.malloc_outside /\
  G_heap.malloc_locked = HeapConc.malloc_locked /\
  G_heap.free_outside = HeapConc.free_outside /\
  G_heap.free_lock_taken = HeapConc.free_lock_taken /\
  G_heap.free_locked = HeapConc.free_locked /\
  G_heap.free_finally = HeapConc.free_finally /\
  G_heap.drain_is_pop_loop = true.
Proof. exact gen_lock_regions. Qed.
Print Assumptions C14_code_lock_regions.

(* REFINEMENT: any number of threads, any programs, any schedule (appends at any moment, also between two
   iterations of a drain loop, any number of them): the blocks handed out, in order, and the final heap are
   those of the sequential model on the history [lin]; with the frees still queued added as deferred
   frees the sequential run ends in exactly the final state.  No validity hypothesis. *)
Theorem C14_threads_refine_sequential : forall pg h0 progs sched c, pending h0 = [] ->
  crun pg (cinit h0 progs) sched = Some (OK c) ->
  let ops := lin pg (cinit h0 progs) sched in
  runr pg h0 ops = OK (map snd (c_log c), set_pending (c_heap c) []) /\
  run pg h0 (ops ++ map FreeDeferred (pending (c_heap c))) = OK (c_heap c).
Proof. exact conc_refines. Qed.
Print Assumptions C14_threads_refine_sequential.

(* ... and an exception in an interleaved run is the exception of that sequential history *)
Theorem C14_threads_exception_is_sequential : forall pg h0 progs sched e, pending h0 = [] ->
  crun pg (cinit h0 progs) sched = Some (Err e) ->
  run pg h0 (lin pg (cinit h0 progs) sched) = Err e.
Proof. exact conc_refines_err. Qed.
Print Assumptions C14_threads_exception_is_sequential.

(* SAFETY under all interleavings: if every free (a thread's request or an EAppend) names a block that is
   live and not already owed (in the pending list, or the block of a free in progress), and sizes pass
   the assert, then no step raises and the invariant of C14_live_blocks / C14_partition / C14_coalesced /
   C14_indexes_agree holds after every step (every prefix of a schedule is a schedule) *)
Theorem C14_threads_safe : forall pg size progs sched r, pg_ok pg ->
  cvalid_run pg (cinit (heap_init size) progs) sched ->
  crun pg (cinit (heap_init size) progs) sched = Some r ->
  exists c', r = OK c' /\ HeapInv (c_heap c') /\ CInv c'.
Proof. exact conc_safe_init. Qed.
Print Assumptions C14_threads_safe.

(* one step, with what a block handed out is worth AT THE MOMENT it is handed out (pending list of any
   content): at least max(n,1) long, inside its arena, aligned, new, disjoint from every live block,
   carved from a best-fitting free block, or from a new arena only if every free block is too short *)
Theorem C14_threads_step : forall pg c ev, pg_ok pg -> CInv c -> cvalid_ev c ev ->
  match cstep pg c ev with
  | None => True
  | Some r =>
    exists c', r = OK c' /\ CInv c' /\
      (c_log c' = c_log c \/
       exists t n b, c_log c' = c_log c ++ [(t, b)] /\ handed_out pg (c_heap c) n b (c_heap c'))
  end.
Proof. exact cstep_safe. Qed.
Print Assumptions C14_threads_step.

(* MUTUAL EXCLUSION: two threads are never both inside a critical section -- this is what makes
   "one drain iteration" and "the body" single steps *)
Theorem C14_threads_mutual_exclusion : forall pg h progs sched c t1 t2 th1 th2,
  crun pg (cinit h progs) sched = Some (OK c) ->
  nth_error (c_threads c) t1 = Some th1 -> nth_error (c_threads c) t2 = Some th2 ->
  holds_lock (t_pc th1) = true -> holds_lock (t_pc th2) = true -> t1 = t2.
Proof. exact conc_mutex. Qed.
Print Assumptions C14_threads_mutual_exclusion.

(* the blocking acquire of malloc cannot deadlock: while a thread has something left to do some thread
   can step; and a waiting malloc is blocked exactly while the lock is held *)
Theorem C14_threads_no_deadlock : forall pg h progs sched c,
  crun pg (cinit h progs) sched = Some (OK c) ->
  (exists t th, nth_error (c_threads c) t = Some th /\ (t_pc th <> PIdle \/ t_prog th <> [])) ->
  exists t r, tstep pg c t = Some r.
Proof. exact conc_progress_reachable. Qed.
Print Assumptions C14_threads_no_deadlock.

Theorem C14_threads_blocking : forall pg c t th n,
  nth_error (c_threads c) t = Some th -> t_pc th = PMEnter n ->
  (tstep pg c t = None <-> c_lock c <> None).
Proof. exact conc_blocking. Qed.
Print Assumptions C14_threads_blocking.

(* the first malloc in a forked child (`if os.getpid() != self._lastpid: self.__init__()`): whatever heap
   was inherited, the block comes from a fresh arena 0 of the child's own -- nothing of the parent's is used *)
Theorem C14_fork_child : forall pg dsize inherited n, pg_ok pg -> 0 <= n < maxsize ->
  exists b h', malloc_in_child pg dsize inherited n = OK (b, h') /\ HeapInv h' /\
               alloc h' = [b] /\ b_arena b = 0 /\ b_start b = 0 /\ Z.max n 1 <= blen b /\
               arenas h' = [arena_length dsize (norm_size n) pg] /\ wf (arenas h') b.
Proof. exact malloc_in_child_ok. Qed.
Print Assumptions C14_fork_child.

(* non-vacuity: the layout P B C D E with C freed; thread 0 is in the middle of malloc(128) (lock held,
   pending list drained) when thread 1's free(P) finds the lock taken and queues P; thread 2's malloc(8)
   must wait (its acquire is not enabled); after thread 0 released, thread 2 drains P and gets P's place *)
Definition ex_thr_pre : list op :=
  [Malloc 32; Malloc 8; Malloc 64; Malloc 8; Malloc 128; Free (0, 40, 104)].
Definition ex_thr_progs : list (list req) := [[RMalloc 128]; [RFree (0, 0, 32)]; [RMalloc 8]].
Definition ex_thr_sched : list event :=
  [EStep 0; EStep 0; EStep 0;          (* T0: assert, acquire, pending list empty *)
   EStep 1; EStep 1;                   (* T1: try-lock fails, append P *)
   EStep 2;                            (* T2: assert; now waits for the lock *)
   EStep 0; EStep 0;                   (* T0: body, release *)
   EStep 2; EStep 2; EStep 2; EStep 2; EStep 2].   (* T2: acquire, pop P, list empty, body, release *)

Example C14_witness_threads :
  exists h0 c,
    run 4096 (heap_init 4096) ex_thr_pre = OK h0 /\
    cvalid_run 4096 (cinit h0 ex_thr_progs) ex_thr_sched /\
    crun 4096 (cinit h0 ex_thr_progs) ex_thr_sched = Some (OK c) /\
    c_log c = [(0%nat, (0, 240, 368)); (2%nat, (0, 0, 8))] /\ c_lock c = None /\ pending (c_heap c) = [] /\
    lin 4096 (cinit h0 ex_thr_progs) ex_thr_sched = [Malloc 128; Free (0, 0, 32); Malloc 8] /\
    (* while thread 0 holds the lock thread 2 cannot enter *)
    crun 4096 (cinit h0 ex_thr_progs) (firstn 6 ex_thr_sched ++ [EStep 2]) = None.
Proof.
  eexists. eexists. split; [vm_compute; reflexivity|].
  split.
  { unfold ex_thr_sched.
    repeat (cbn [cvalid_run]; split;
            [vm_compute; first [exact I | (split; [intro H; discriminate H|reflexivity])
                                | (split; [auto 10|intros H; intuition congruence])] |
             intros c' E; vm_compute in E; inversion E; subst c'; clear E]).
    exact I. }
  split; [vm_compute; reflexivity|]. repeat split.
Qed.

(* ---- REFUTED: "from any thread" in a forked child ---------------------------------------------
   In a forked child the first malloc re-initialises the inherited heap OUTSIDE the lock, and the first statement
   of Heap.__init__ makes every other thread's `os.getpid() != self._lastpid` test pass (Model/HeapFork.v).
   Witness: the parent's heap has the free hole [0,16) in its arena; thread 0 of the child has executed
   `self._lastpid = os.getpid()` when thread 1 calls malloc(8): thread 1 is served from the PARENT's tables and gets
   [0,8) of the parent's arena (memory shared with the parent, who will hand the same bytes out again);
   thread 0 then empties the tables: the block thread 1 holds is in no arena of the heap and is not in
   _allocated_blocks (its free() raises KeyError).  harness/heap_driver.py reproduces exactly this on the real code
   (signature C14:fork-reinit-race).  What does hold is C14_fork_child: one thread. *)
Theorem C14_fork_reinit_race_refuted :
  exists inherited s b,
    run 4096 (heap_init 4096) [Malloc 16; Malloc 16; Free (0, 0, 16)] = OK inherited /\
    frun 4096 4096 (finherit inherited) [FSetPid; FMalloc 1 8; FResetRest; FMalloc 0 24] = Some (OK s) /\
    In (1%nat, b) (f_out s) /\                       (* thread 1 holds b *)
    b = inherited_block (0, 0, 8) /\                 (* the first bytes of the parent's arena *)
    b_arena b < 0 /\                                 (* an arena the child's heap does not list *)
    ~ In b (alloc (f_heap s)) /\                     (* not recorded as live *)
    free (f_heap s) b = Err KeyError.                (* and cannot be freed *)
Proof.
  eexists. eexists. eexists.
  split; [vm_compute; reflexivity|]. split; [vm_compute; reflexivity|].
  split; [left; reflexivity|]. split; [reflexivity|]. split; [reflexivity|].
  split; [cbn; intros [H|[]]; discriminate H|]. vm_compute. reflexivity.
Qed.
