(* C12 -- exceptions and tracebacks cross the process boundary intact.
   Only statements here; proofs live in Proofs/EInfoProofs.v.
   The switch Model.EInfo.mee_repaired is TRUE (= /repo: MaybeEncodingError has the repaired
   __reduce__); theorems named *_refuted / *_never_settles are about the counterfactual value
   false (the tree before the repair), see the comment at D20 below.
   Gen/K_einfo.v is regenerated from /repo/billiard/einfo.py and pool.py on every run. *)
From Coq Require Import String.
From Coq Require Import ZArith List Bool.
From BV Require Import Lib.PyVal Gen.K_einfo Model.EInfo Proofs.EInfoProofs.
From BV Require Import Model.EInfoSeq Proofs.EInfoSeqProofs.
Import ListNotations.
Open Scope Z_scope.

(* ---------------- tie to the code ---------------- *)

(* the guard of Traceback.__init__ as translated on this run decides like the model *)
Theorem C12_code_is_model_step : forall hn m d,
    K_einfo.step hn (PInt m) (PInt d) = emb_action (tb_step hn m d).
Proof. exact gen_step. Qed.
Print Assumptions C12_code_is_model_step.

(* Traceback(tb) executed with the translated guard, the translated DEFAULT_MAX_FRAMES
   expression, the translated default depth and the translated marker = Model.copy_tb *)
Theorem C12_code_is_model_copy : forall rl tb,
    gen_copy_tb_default rl tb = copy_tb (EInfo.default_max_frames rl) tb.
Proof. exact gen_copy_tb_eq. Qed.
Print Assumptions C12_code_is_model_copy.

Theorem C12_code_constants :
  (forall rl, K_einfo.default_max_frames (PInt rl) = PInt (rl / 8)) /\
  K_einfo.init_depth = PInt 0 /\
  K_einfo.marker_lineno = PInt (-1) /\
  K_einfo.marker_filename = marker_file /\ K_einfo.marker_name = EInfo.marker_name /\
  K_einfo.standins_pickle_by_dict = true /\
  K_einfo.mee_has_reduce = mee_repaired.
Proof. exact gen_constants. Qed.
Print Assumptions C12_code_constants.

(* MaybeEncodingError.__reduce__ and the rebuild function it names are not merely present:
   their bodies were matched statement by statement by the translator and emitted as data
   (K_einfo.mee_reduce_attrs / mee_rebuild_sets / mee_rebuild_init); executing that data
   (gen_unpickle_mee) on any object of the shape the constructor builds gives the object back,
   which is what the model's unpickle_exc says under the current switch.  A __reduce__ returning
   e.g. (cls, (self.exc, self.value)) is a translator error; one that passes the attributes in
   another order, or a rebuild function that stores them differently, breaks this proof. *)
Theorem C12_code_mee_rebuild : forall x,
    mee_wf x -> gen_unpickle_mee x = Some x /\ unpickle_exc mee_repaired x = Some x.
Proof. exact gen_mee_rebuild. Qed.
Print Assumptions C12_code_mee_rebuild.

(* ---------------- depth bound ---------------- *)

(* for the code as translated: with recursion limit rl (>= 0) the stand-in chain has at most
   rl // 8 + 3 nodes, and it is the first rl // 8 + 2 frames of the live chain followed by the
   marker iff the live chain is longer *)
Theorem C12_depth_bounded : forall rl tb c,
    0 <= rl -> gen_copy_tb_default rl tb = Some c ->
    Z.of_nat (length c) <= rl / 8 + 3 /\
    c = firstn (Z.to_nat (rl / 8 + 2)) tb ++
        (if Z.of_nat (length tb) >? rl / 8 + 2 then [marker] else []).
Proof. exact gen_depth_bounded. Qed.
Print Assumptions C12_depth_bounded.

Theorem C12_depth_bounded_any_limit : forall m tb c,
    -1 <= m -> copy_tb m tb = Some c ->
    Z.of_nat (length c) <= m + 3 /\ (length c <= S (length tb))%nat /\ (1 <= length c)%nat.
Proof. exact copy_tb_length. Qed.
Print Assumptions C12_depth_bounded_any_limit.

Theorem C12_short_traceback_kept_whole : forall m tb,
    -1 <= m -> tb <> [] -> Z.of_nat (length tb) <= m + 2 -> copy_tb m tb = Some tb.
Proof. exact copy_tb_short. Qed.
Print Assumptions C12_short_traceback_kept_whole.

Theorem C12_long_traceback_truncated : forall m tb,
    -1 <= m -> Z.of_nat (length tb) > m + 2 ->
    copy_tb m tb = Some (firstn (Z.to_nat (m + 2)) tb ++ [marker]) /\
    length (firstn (Z.to_nat (m + 2)) tb) = Z.to_nat (m + 2).
Proof. exact copy_tb_long. Qed.
Print Assumptions C12_long_traceback_truncated.

(* the stand-in chain ends in the raising frame iff the live chain fits *)
Theorem C12_raising_frame_kept_iff_fits : forall m tb c,
    -1 <= m -> copy_tb m tb = Some c ->
    last c marker = (if Z.of_nat (length tb) >? m + 2 then marker else last tb marker).
Proof. exact copy_tb_keeps_raiser. Qed.
Print Assumptions C12_raising_frame_kept_iff_fits.

(* ---------------- round trips ---------------- *)

(* For every exception whose class reproduces it from its args -- every plain class; and
   MaybeEncodingError exactly when the switch fx (= Model.EInfo.mee_repaired for the code
   under test) is on -- and every n >= 1: the n-fold pickle round trip of the record exists
   and has the same type, exception class, args, attributes, traceback text and tb chain. *)
Theorem C12_roundtrip_stable_partial : forall fx e n,
    stable_class fx (exc_of (ei_exc e)) -> (1 <= n)%nat ->
    exists e', iter_rt fx n e = Some e' /\ essence e' = essence e.
Proof. exact roundtrip_stable_gen. Qed.
Print Assumptions C12_roundtrip_stable_partial.

(* the same for the semantics the correspondence check runs against the code *)
Theorem C12_roundtrip_stable_current : forall e n,
    stable_class mee_repaired (exc_of (ei_exc e)) -> (1 <= n)%nat ->
    exists e', iter_rt mee_repaired n e = Some e' /\ essence e' = essence e.
Proof. intros e n. exact (roundtrip_stable_gen mee_repaired e n). Qed.
Print Assumptions C12_roundtrip_stable_current.

(* from the second application on the round trip changes nothing at all *)
Theorem C12_roundtrip_idempotent : forall fx e n,
    stable_class fx (exc_of (ei_exc e)) ->
    iter_rt fx (S (S (S n))) e = iter_rt fx (S (S n)) e /\
    iter_rt fx (S (S n)) e = Some (settled e).
Proof. exact roundtrip_idempotent_settled. Qed.
Print Assumptions C12_roundtrip_idempotent.

(* The same, stated explicitly about PICKLABLE records (pickle.dumps of the record does not
   raise: no AUnp leaf in args or attributes).  C12_roundtrip_stable_partial also "holds" for
   records whose real dumps raises, because the model's roundtrip_gen never consults pickle_err;
   this statement has the scope of the property text, and adds that every record along the chain
   is again picklable, so each dumps in the chain is defined. *)
Theorem C12_roundtrip_stable_picklable : forall fx e n,
    payload_pickle_err (PInfo e) = None ->
    stable_class fx (exc_of (ei_exc e)) -> (1 <= n)%nat ->
    exists e', iter_rt fx n e = Some e' /\ essence e' = essence e /\
               payload_pickle_err (PInfo e') = None.
Proof. exact roundtrip_stable_picklable. Qed.
Print Assumptions C12_roundtrip_stable_picklable.

(* ... and a record that does not pickle is never transported at all: put raises *)
Theorem C12_unpicklable_record_not_sent : forall env n job i ok e r,
    env n = PutOk -> payload_pickle_err (PInfo e) = Some r ->
    do_put env n (MReady job i ok (PInfo e)) = PutExc r.
Proof. exact unpicklable_record_not_sent. Qed.
Print Assumptions C12_unpicklable_record_not_sent.

(* D20 -- COUNTERFACTUAL.  The two theorems below are about [iter_rt false], i.e. about the
   switch value of the tree as it was BEFORE the repair (MaybeEncodingError without __reduce__,
   commit 5caeb8f in /repo added it).  The code under test has mee_repaired = true
   (C12_code_constants ties that line to /repo on every run), so these are NOT statements
   about the current /repo: they record why the repair was needed, and what a tree that drops
   the __reduce__ again would do (the check would then also fail at C12_code_constants).
   With the switch off the unrestricted statement is FALSE: a witness, built with the model's
   constructors exactly as the worker builds it. *)
Definition d20_witness : option einfo :=
  match construct CMee [AOpaque (s2l "ValueError('x')"); AList [AInt 1; AStr (s2l "a")]] with
  | Some w => mk_einfo 125 CMee w [mk_fr (s2l "pool.py") (s2l "workloop") 366] 0 false
  | None => None
  end.

Theorem C12_roundtrip_stable_refuted :
  exists e e', d20_witness = Some e /\ iter_rt false 1 e = Some e' /\
               mee_shape (exc_of (ei_exc e)) /\
               x_args (exc_of (ei_exc e')) <> x_args (exc_of (ei_exc e)).
Proof.
  eexists _, _. split; [vm_compute; reflexivity|]. split; [vm_compute; reflexivity|].
  split.
  - split; [reflexivity|]. eexists _, _. vm_compute. reflexivity.
  - vm_compute. discriminate.
Qed.
Print Assumptions C12_roundtrip_stable_refuted.

(* ... and not only for the witness: with the switch off, every record holding a
   MaybeEncodingError changes its args on every single round trip, for ever *)
Theorem C12_maybe_encoding_error_never_settles : forall n e,
    mee_shape (exc_of (ei_exc e)) ->
    exists e1 e2, iter_rt false n e = Some e1 /\ iter_rt false (S n) e = Some e2 /\
                  x_args (exc_of (ei_exc e2)) <> x_args (exc_of (ei_exc e1)).
Proof. exact mee_never_settles. Qed.
Print Assumptions C12_maybe_encoding_error_never_settles.

(* ---------------- the main clause: a raising task ---------------- *)

(* A task raises exception object x of type t (any class; base exceptions are not special) with
   live traceback [live] and traceback text [text]; x is picklable (pickling it does not raise, and
   it is a plain exception with a well-formed __dict__ or a MaybeEncodingError as constructed);
   the pipe accepts the two messages.  Then the worker sends the ACK and EXACTLY ONE READY for the
   job, ok = False, carrying the record e = ExceptionInfo((t, x, live)), and continues with put
   index n+2.  e holds type, exception (wrapped with the text), text and the copied traceback
   c = Traceback(live), at most mf+3 nodes; and for EVERY k >= 1 the k-fold pickle round trip of e
   (k = 1 is what the parent reads) exists, is again picklable, and has exactly type t, the class,
   args and attributes of x, the text, and c.  Stated for the semantics the check runs
   (mee_repaired); EInfoProofs.raising_task_delivered is the same for every switch value. *)
Theorem C12_raising_task_delivered : forall mf env n job i t x live text ptb ptext,
    live <> [] ->
    env n = PutOk -> env (S n) = PutOk ->
    picklable_exc mee_repaired x ->
    exists c e,
      copy_tb mf live = Some c /\
      (-1 <= mf -> Z.of_nat (length c) <= mf + 3) /\
      mk_einfo mf t x live text false = Some e /\
      e = mk_ei t (EWT x text) c text false /\
      handle_task mf env n job i (Raises t x live text) ptb ptext =
      ([MAck job i; MReady job i false (PInfo e)], inr (S (S n))) /\
      mreadies (fst (handle_task mf env n job i (Raises t x live text) ptb ptext)) = [(job, i)] /\
      forall k, (1 <= k)%nat ->
        exists e', iter_rt mee_repaired k e = Some e' /\
                   essence e' = (t, x_cls x, x_args x, x_attrs x, text, c) /\
                   payload_pickle_err (PInfo e') = None.
Proof. exact (raising_task_delivered mee_repaired). Qed.
Print Assumptions C12_raising_task_delivered.

(* the same inside the worker loop: these two messages, then the rest of the script *)
Theorem C12_raising_task_in_loop : forall mf env mt n job i t x live text ptb ptext rest cpl,
    live <> [] -> env n = PutOk -> env (S n) = PutOk -> picklable_exc mee_repaired x ->
    loop_guard mt cpl = true ->
    exists e, mk_einfo mf t x live text false = Some e /\
      run_loop mf env mt (RTask job i (Raises t x live text) ptb ptext :: rest) cpl n =
      ([MAck job i; MReady job i false (PInfo e)] ++ fst (run_loop mf env mt rest (cpl + 1) (S (S n))),
       snd (run_loop mf env mt rest (cpl + 1) (S (S n)))).
Proof. exact (raising_task_in_loop mee_repaired). Qed.
Print Assumptions C12_raising_task_in_loop.

(* Companion: the raised exception does NOT pickle (r = repr of what pickle raises).  The first
   READY is not sent; the job is answered by exactly one READY, ok = False, carrying the
   MaybeEncodingError record with args (r, repr(the ExceptionInfo)), the failure's copied traceback
   and text; put index n+3.  That record is picklable and (MaybeEncodingError.__reduce__ restoring
   the stored strings, as in /repo: fx = mee_repaired = true) survives every k >= 1 round trips. *)
Theorem C12_raising_task_unpicklable : forall mf env n job i t x live text ptb ptext r,
    live <> [] -> ptb <> [] ->
    env n = PutOk -> env (S n) = PutOk -> env (S (S n)) = PutOk ->
    exc_pickle_err x = Some r ->
    exists e e2,
      mk_einfo mf t x live text false = Some e /\
      do_put env (S n) (MReady job i false (PInfo e)) = PutExc r /\
      encoding_record mf r (PInfo e) ptb ptext = Some e2 /\
      handle_task mf env n job i (Raises t x live text) ptb ptext =
      ([MAck job i; MReady job i false (PInfo e2)], inr (S (S (S n)))) /\
      mreadies (fst (handle_task mf env n job i (Raises t x live text) ptb ptext)) = [(job, i)] /\
      ei_type e2 = CMee /\
      exc_of (ei_exc e2) = mk_exc CMee [AStr r; AStr einfo_repr]
                                  [(s_exc, AStr r); (s_value, AStr einfo_repr)] /\
      (exists c, copy_tb mf ptb = Some c /\ ei_tb e2 = c) /\
      ei_text e2 = ptext /\
      payload_pickle_err (PInfo e2) = None /\
      (mee_repaired = true -> forall k, (1 <= k)%nat ->
         exists e', iter_rt mee_repaired k e2 = Some e' /\ essence e' = essence e2 /\
                    payload_pickle_err (PInfo e') = None).
Proof. exact (raising_task_unpicklable mee_repaired). Qed.
Print Assumptions C12_raising_task_unpicklable.

(* ---------------- building the record is total ---------------- *)

(* The translator emits HOW each attribute of the stand-ins _Frame / _Code / Traceback is read from
   the live object (literal, obj.attr, obj.ns.get(k[, d]), obj.ns[k], try/except KeyError ...).
   Executed on a live node whose frame namespaces f_globals / f_locals are ARBITRARY dicts (code run
   by exec(src, {}) / eval has no __name__, no __file__, no __loader__), the constructors as
   translated on this run never raise and build the model's stand-in: the (co_filename, co_name,
   tb_lineno) triple verbatim, f_globals = {__file__: live value or "__main__", __name__: live value
   or None, __loader__: None}, f_locals = {__traceback_hide__: ..} iff the live frame has it.
   (`frame.f_globals["__name__"]` instead of `.get("__name__")` makes this statement false.) *)
Theorem C12_code_frame_copy_total : forall l,
    gen_copy_lframe l = Some (copy_lframe l) /\
    sf_fr (copy_lframe l) = lf_fr l /\
    map fst (sf_globals (copy_lframe l)) = [k_file; k_name; k_loader] /\
    ns_get (sf_globals (copy_lframe l)) k_file =
      Some (match ns_get (lf_globals l) k_file with Some v => v | None => GStr s_main end) /\
    ns_get (sf_globals (copy_lframe l)) k_name =
      Some (match ns_get (lf_globals l) k_name with Some v => v | None => GNone end) /\
    ns_get (sf_globals (copy_lframe l)) k_loader = Some GNone.
Proof. intros l. split; [exact (gen_copy_lframe_eq l)|exact (copy_lframe_keeps l)]. Qed.
Print Assumptions C12_code_frame_copy_total.

(* ExceptionInfo's Traceback(tb), executed with the translated reads, guard, limit and marker, on
   ANY non-empty live traceback (frames of exec'd / eval'd / lambda / generator / class-body code
   are frames like any other: what differs is which keys their namespaces have): it returns a chain
   c -- nothing raises --, whose (file, name, line) part is the chain of the depth theorems above,
   and which node by node is the stand-in of the live node, then the marker iff the live chain is
   longer than limit + 2. *)
Theorem C12_record_construction_total : forall rl tb,
    tb <> [] ->
    exists c, gen_copy_ltb_default rl tb = Some c /\
              copy_ltb (EInfo.default_max_frames rl) tb = Some c /\
              copy_tb (EInfo.default_max_frames rl) (map lf_fr tb) = Some (map sf_fr c) /\
              (0 <= rl ->
               c = map copy_lframe (firstn (Z.to_nat (rl / 8 + 2)) tb) ++
                   (if Z.of_nat (length tb) >? rl / 8 + 2 then [marker_s] else [])).
Proof. exact record_construction_total. Qed.
Print Assumptions C12_record_construction_total.

(* ... and inside the worker: a task raising a picklable exception through frames with arbitrary
   namespaces.  The record IS built (no exception escapes the handler, the worker is not killed),
   the worker's output is ACK + one READY(ok=False) carrying it, and every k >= 1 round trips keep
   type, class, args, attributes, text and chain. *)
Theorem C12_raising_task_record_total : forall rl env n job i t x ltb text ptb ptext,
    ltb <> [] -> env n = PutOk -> env (S n) = PutOk -> picklable_exc mee_repaired x ->
    exists c,
      gen_copy_ltb_default rl ltb = Some c /\
      handle_task (EInfo.default_max_frames rl) env n job i (Raises t x (map lf_fr ltb) text) ptb ptext =
      ([MAck job i; MReady job i false (PInfo (mk_ei t (EWT x text) (map sf_fr c) text false))],
       inr (S (S n))) /\
      forall k, (1 <= k)%nat ->
        exists e', iter_rt mee_repaired k (mk_ei t (EWT x text) (map sf_fr c) text false) = Some e' /\
                   essence e' = (t, x_cls x, x_args x, x_attrs x, text, map sf_fr c).
Proof. exact (raising_task_record_total mee_repaired). Qed.
Print Assumptions C12_raising_task_record_total.

(* ---------------- known finding F-C12-2: namespace values travel with the record ---------- *)

(* _Frame copies the RAW values of f_globals["__file__"], f_globals["__name__"] and
   f_locals["__traceback_hide__"] into the stand-in, so they are pickled with the record.
   [handle_task_ns] = the worker's handling of a raising task whose live traceback is given with its
   frames' namespaces (values may be [GUnp]: objects that do not pickle).  The statement "a task
   raising a picklable exception has its own exception type delivered" is FALSE of this faithful
   model: witness, a task whose frame has __traceback_hide__ = <an object that does not pickle>
   (what the check replays on the real code on every run; known_findings.json F-C12-2). *)
Theorem C12_own_exception_delivered_refuted :
  exists rl env n job i t x ltb text ptb ptext ms nx,
    ltb <> [] /\ (forall k, env k = PutOk) /\ picklable_exc mee_repaired x /\ ptb <> [] /\
    handle_task_ns rl env n job i t x ltb text ptb ptext = (ms, nx) /\
    ~ (exists e, ms = [MAck job i; MReady job i false (PInfo e)] /\ ei_type e = t).
Proof.
  exists 1000, (fun _ => PutOk), 0%nat, 1, 0, (CPlain 3),
         (mk_exc (CPlain 3) [AStr (s2l "mine"); AInt 7] []),
         [mk_lf (mk_fr (s2l "t.py") (s2l "task") 3) [(k_name, GStr (s2l "tasks"))]
                [(k_hide, GUnp (s2l "AttributeError(""Can't pickle local object"")"))]],
         5, [mk_fr (s2l "pool.py") (s2l "workloop") 403], 6.
  eexists _, _. split; [discriminate|]. split; [reflexivity|].
  split; [split; [reflexivity|constructor]|]. split; [discriminate|].
  split; [vm_compute; reflexivity|].
  intros [e [H1 H2]]. inversion H1; subst e. discriminate H2.
Qed.
Print Assumptions C12_own_exception_delivered_refuted.

(* the strongest true statement: if every namespace value the stand-ins hold pickles, the task's own
   exception is delivered (exactly the output of C12_raising_task_delivered) *)
Theorem C12_own_exception_delivered_partial : forall rl env n job i t x ltb text ptb ptext c,
    copy_ltb (EInfo.default_max_frames rl) ltb = Some c -> chain_pickle_err c = None ->
    env n = PutOk -> env (S n) = PutOk -> picklable_exc mee_repaired x ->
    handle_task_ns rl env n job i t x ltb text ptb ptext =
    ([MAck job i; MReady job i false (PInfo (mk_ei t (EWT x text) (map sf_fr c) text false))],
     inr (S (S n))).
Proof. exact (own_exception_delivered_partial mee_repaired). Qed.
Print Assumptions C12_own_exception_delivered_partial.

(* and in general: an unpicklable namespace value turns ANY raised exception into the encoding-error
   answer (the job is answered once, the worker goes on; type and args of the own exception are lost) *)
Theorem C12_namespace_value_reported_as_encoding_error :
  forall rl env n job i t x ltb text ptb ptext c r,
    copy_ltb (EInfo.default_max_frames rl) ltb = Some c -> chain_pickle_err c = Some r ->
    ptb <> [] -> env n = PutOk -> env (S n) = PutOk -> env (S (S n)) = PutOk ->
    exists e2,
      handle_task_ns rl env n job i t x ltb text ptb ptext =
      ([MAck job i; MReady job i false (PInfo e2)], inr (S (S (S n)))) /\
      ei_type e2 = CMee /\
      exc_of (ei_exc e2) = mk_exc CMee [AStr r; AStr einfo_repr]
                                  [(s_exc, AStr r); (s_value, AStr einfo_repr)].
Proof. exact ns_unpicklable_reported_as_encoding_error. Qed.
Print Assumptions C12_namespace_value_reported_as_encoding_error.

(* ---------------- histories: the k-th record of a process describes the k-th failure -------- *)

(* A worker process records MANY failures, one after the other.  Model/EInfoSeq.v: a [failure] is
   what the interpreter hands to ExceptionInfo, its traceback given as [cnode]s -- (co_filename, co_name,
   tb_lineno) plus co_firstlineno, f_lineno, tb_lasti and the co_positions() entry of the failing
   instruction, i.e. everything the traceback module formats line and columns from --; [records_from m
   hist fs] runs the constructor over fs, handing it each time the list [hist] of everything recorded
   before (the most a constructor could have kept from earlier calls).

   HONEST LABEL: the first three theorems are true BY CONSTRUCTION of the model -- its constructor
   ([EInfoSeq.build]) receives the history and ignores it.  What makes them statements about einfo.py:
   (a) C12_code_copy_reads_own_code_object below (the constructors as translated on this run read only
   their parameter), (b) the STRUCTURAL theorem C12_code_standins_keep_no_state (no class-level
   container, no statement through which a constructor could keep something), and (c) the `seq`
   correspondence cases: histories of failures through DIFFERENT code objects with equal (co_filename,
   co_name, co_firstlineno), each record compared node by node with the live traceback of its own
   failure (Model.EInfoSeq.check_scase, monitor code 9 = C12:record-describes-another-code-object). *)
Theorem C12_history_independent : forall m hist hist' before f after,
    records_from m hist (before ++ f :: after) = records_from m hist' (before ++ f :: after) /\
    records m (before ++ f :: after) = map (record m) (before ++ f :: after) /\
    nth_error (records m (before ++ f :: after)) (length before) = Some (record m f).
Proof.
  intros m hist hist' before f after.
  split; [apply history_independent|]. split; [apply records_map|apply record_after_history].
Qed.
Print Assumptions C12_history_independent.

(* building the record of B after the record of A gives the same record of B as building B first *)
Theorem C12_record_order_irrelevant : forall m a b,
    nth_error (records m [a; b]) 1 = Some (record m b) /\
    nth_error (records m [b; a]) 0 = Some (record m b).
Proof. exact record_order_irrelevant. Qed.
Print Assumptions C12_record_order_irrelevant.

(* ... and what that record is: type, exception and text of THAT failure; the chain of the depth theorems
   over that failure's traceback; and for every copied node the first line, frame line, instruction
   offset and position of that failure's own node *)
Theorem C12_record_describes_its_failure : forall m f,
    -1 <= m -> fl_tb f <> [] ->
    exists e,
      record m f = Some (e, firstn (Z.to_nat (m + 2)) (fl_tb f)) /\
      ei_type e = fl_type f /\ ei_exc e = EWT (fl_exc f) (fl_text f) /\ ei_text e = fl_text f /\
      ei_tb e = map cn_fr (firstn (Z.to_nat (m + 2)) (fl_tb f)) ++
                (if Z.of_nat (length (fl_tb f)) >? m + 2 then [marker] else []).
Proof. exact record_describes_failure. Qed.
Print Assumptions C12_record_describes_its_failure.

(* About the code as translated on this run.  The reads of the three constructors (K_einfo.tb_reads /
   frame_reads / code_reads), executed on a node: tb_frame is self.Frame(tb.tb_frame), f_code is
   self.Code(frame.f_code) -- a copy made in this very call from the node's own frame / code object --,
   and tb_lineno, tb_lasti, f_lineno, co_filename, co_name, co_firstlineno are the attributes of the same
   name of the constructor's parameter, _co_positions is list(code.co_positions()): every node is copied
   verbatim, for every node, and a sequence of tracebacks is copied traceback by traceback.  (The data
   language of the translator can only express reads of the parameter and literals: `self._codes[key]`
   is a translator error, and the change of seeded/C12-4 makes K_einfo fail to generate.) *)
Theorem C12_code_copy_reads_own_code_object :
    (forall c, gen_copy_cnode c = Some c) /\
    (forall tbs, gen_records_nodes tbs = map (fun tb => Some tb) tbs).
Proof. split; [exact gen_copy_cnode_eq|exact gen_records_nodes_eq]. Qed.
Print Assumptions C12_code_copy_reads_own_code_object.

(* STRUCTURAL (a fact about the syntax of billiard/einfo.py extracted by translate/kernels/einfo.py on
   this run, decided here by computation; it is not a semantic theorem about Python):
   - every class-level binding of _Code, _Frame, _Object, _Truncated, Traceback, RemoteTraceback,
     ExceptionWithTraceback, ExceptionInfo is a method, an immutable literal or a reference to another
     name -- no dict / list / set display, comprehension or call result shared by all constructor calls;
   - no constructor (__init__) of these classes has a global / nonlocal statement, a default argument
     that is not an immutable literal or a name, a nested function, or a store into an attribute / item
     of anything but `self` or a local bound to a fresh display in the same call;
   - by global name the constructors reach modules, classes, functions, builtins and plain values
     (DEFAULT_MAX_FRAMES) only;
   - the two class-level references the copy goes through are Traceback.Frame = _Frame and
     _Frame.Code = _Code. *)
Theorem C12_code_standins_keep_no_state :
  no_class_state K_einfo.class_bindings = true /\
  K_einfo.ctor_state_leaks = [] /\
  ctor_globals_ok K_einfo.ctor_globals = true /\
  forallb (has_class K_einfo.class_bindings)
          (map s2l ["_Code"; "_Frame"; "_Truncated"; "Traceback"; "ExceptionInfo"]%string) = true /\
  class_ref K_einfo.class_bindings (s2l "Traceback") n_Frame = Some (s2l "_Frame") /\
  class_ref K_einfo.class_bindings (s2l "_Frame") n_Code = Some (s2l "_Code").
Proof. repeat split; vm_compute; reflexivity. Qed.
Print Assumptions C12_code_standins_keep_no_state.

(* ---------------- the worker's encoding-error path ---------------- *)

Theorem C12_encoding_error : forall mf env n job i o ptb ptext ok p r,
    do_put env n (MAck job i) = PutOk ->
    task_result mf o = Some (ok, p) ->
    do_put env (S n) (MReady job i ok p) = PutExc r ->
    ptb <> [] ->
    env (S (S n)) = PutOk ->
    exists e2,
      encoding_record mf r p ptb ptext = Some e2 /\
      handle_task mf env n job i o ptb ptext =
      ([MAck job i; MReady job i false (PInfo e2)], inr (S (S (S n)))) /\
      ei_type e2 = CMee /\
      exc_of (ei_exc e2) = mk_exc CMee [AStr r; AStr (repr (payload_obj p))]
                                  [(s_exc, AStr r); (s_value, AStr (repr (payload_obj p)))] /\
      (exists c, copy_tb mf ptb = Some c /\ ei_tb e2 = c) /\
      ei_text e2 = ptext.
Proof. exact encoding_error_path. Qed.
Print Assumptions C12_encoding_error.

(* what the parent then reads: still a MaybeEncodingError record with that tb and text; the
   args are the worker's only if MaybeEncodingError pickles faithfully (switch on) *)
Theorem C12_encoding_error_as_received : forall fx mf r p ptb ptext e2,
    encoding_record mf r p ptb ptext = Some e2 ->
    exists e', roundtrip_gen fx e2 = Some e' /\
               ei_type e' = CMee /\ x_cls (exc_of (ei_exc e')) = CMee /\
               x_args (exc_of (ei_exc e')) =
               (if fx then [AStr r; AStr (repr (payload_obj p))]
                else [AStr (repr_str r); AStr (repr_str (repr (payload_obj p)))]) /\
               ei_tb e' = ei_tb e2 /\ ei_text e' = ei_text e2.
Proof. exact encoding_record_received. Qed.
Print Assumptions C12_encoding_error_as_received.

Theorem C12_loop_continues : forall mf env mt job i o ptb ptext rest c n ms n',
    loop_guard mt c = true ->
    handle_task mf env n job i o ptb ptext = (ms, inr n') ->
    run_loop mf env mt (RTask job i o ptb ptext :: rest) c n =
    (ms ++ fst (run_loop mf env mt rest (c + 1) n'), snd (run_loop mf env mt rest (c + 1) n')).
Proof. exact loop_continues. Qed.
Print Assumptions C12_loop_continues.

(* with a working pipe no result value, however unserialisable, crashes the loop or loses a
   job: the READY keys equal the ACK keys, are a prefix of the tasks handed out, and are all
   of them when maxtasks is None *)
Theorem C12_one_ready_per_task : forall mf env mt script c n,
    (forall k, env k = PutOk) -> Forall req_wf script ->
    let (ms, e) := run_loop mf env mt script c n in
    (forall cr, e <> Crashed cr) /\
    mreadies ms = macks ms /\
    exists k, mreadies ms = firstn k (task_keys script) /\
              (mt = None -> mreadies ms = task_keys script).
Proof. exact one_ready_per_task. Qed.
Print Assumptions C12_one_ready_per_task.

(* ---------------- non-vacuity ---------------- *)

(* a plain exception with an attribute, 130 live frames: truncated to 127 + marker, and the
   hypotheses of the stability theorem hold for it *)
Example C12_stable_witness :
  let x := mk_exc (CPlain 3) [AStr (s2l "boom"); AInt 7] [(s2l "foo", ANone)] in
  let tb := repeat (mk_fr (s2l "t.py") (s2l "f") 10) 129 ++ [mk_fr (s2l "t.py") (s2l "g") 20] in
  match mk_einfo (EInfo.default_max_frames 1000) (CPlain 3) x tb 0 false with
  | Some e => stable_class false (exc_of (ei_exc e)) /\ length (ei_tb e) = 128%nat /\
              last (ei_tb e) marker = marker /\
              option_map essence (iter_rt false 3 e) = Some (essence e)
  | None => False
  end.
Proof.
  vm_compute. repeat split; try reflexivity.
  constructor; [intros []|constructor].
Qed.

(* a result that is unserialisable three levels deep meets the hypotheses of
   C12_encoding_error with a working pipe *)
Example C12_encoding_error_witness :
  let env := fun _ : nat => PutOk in
  let v := AList [AInt 1; ATuple [AList [AStr (s2l "a"); AUnp 7]]] in
  do_put env 0 (MAck 1 0) = PutOk /\
  task_result 125 (Returns v) = Some (true, PVal v) /\
  do_put env 1 (MReady 1 0 true (PVal v)) = PutExc (unp_err 7) /\
  snd (run_loop 125 env None
                [RTask 1 0 (Returns v) [mk_fr (s2l "pool.py") (s2l "workloop") 366] 0;
                 RTask 2 0 (Returns (AInt 5)) [] 0] 0 0) = EndScript.
Proof. vm_compute. repeat split; reflexivity. Qed.

(* a concrete raising task: ValueError-like exception with an attribute, 130 live frames, working
   pipe.  The hypotheses of C12_raising_task_delivered hold, and (computed, not via the theorem)
   the worker's output is [ACK; READY false record], the record's chain is 127 frames + marker,
   and four round trips leave (type, class, args, attrs, text, chain) as the theorem says. *)
Example C12_raising_task_witness :
  let x := mk_exc (CPlain 3) [AStr (s2l "boom"); AInt 7] [(s2l "foo", ANone)] in
  let live := repeat (mk_fr (s2l "t.py") (s2l "f") 10) 129 ++ [mk_fr (s2l "t.py") (s2l "g") 20] in
  let env := fun _ : nat => PutOk in
  live <> [] /\ env 0%nat = PutOk /\ env 1%nat = PutOk /\ picklable_exc mee_repaired x /\
  match handle_task 125 env 0 1 0 (Raises (CPlain 3) x live 42) [] 0 with
  | ([MAck 1 0; MReady 1 0 false (PInfo e)], inr 2%nat) =>
      length (ei_tb e) = 128%nat /\ last (ei_tb e) marker = marker /\
      option_map essence (iter_rt mee_repaired 4 e) =
      Some (CPlain 3, CPlain 3, x_args x, x_attrs x, 42, ei_tb e)
  | _ => False
  end.
Proof.
  cbv zeta. split; [discriminate|]. split; [reflexivity|]. split; [reflexivity|].
  split.
  - split; [reflexivity|]. cbn [x_cls x_attrs map fst]. constructor; [intros []|constructor].
  - vm_compute. repeat split; reflexivity.
Qed.

(* a task raising an exception that holds an unpicklable object two containers deep, and a task
   raising a MaybeEncodingError: hypotheses of the companion / of the main theorem hold *)
Example C12_raising_task_unpicklable_witness :
  let x := mk_exc (CPlain 5) [AInt 1; AList [ATuple [AUnp 9]]] [] in
  let env := fun _ : nat => PutOk in
  let ptb := [mk_fr (s2l "pool.py") (s2l "workloop") 403] in
  exc_pickle_err x = Some (unp_err 9) /\ ptb <> [] /\
  match handle_task 125 env 0 4 0 (Raises (CPlain 5) x [mk_fr (s2l "t.py") (s2l "g") 20] 7) ptb 8 with
  | ([MAck 4 0; MReady 4 0 false (PInfo e2)], inr 3%nat) =>
      ei_type e2 = CMee /\ x_args (exc_of (ei_exc e2)) = [AStr (unp_err 9); AStr einfo_repr] /\
      option_map essence (iter_rt mee_repaired 3 e2) = Some (essence e2)
  | _ => False
  end /\
  (forall w, construct CMee [AOpaque (s2l "E()"); AInt 3] = Some w -> picklable_exc mee_repaired w).
Proof.
  cbv zeta. split; [vm_compute; reflexivity|]. split; [discriminate|].
  split; [vm_compute; repeat split; reflexivity|].
  intros w Hw. split.
  - cbn in Hw. inversion Hw; subst w. reflexivity.
  - rewrite (proj1 (construct_mee_wf _ _ _ Hw)). split; [reflexivity|].
    exact (construct_mee_wf _ _ _ Hw).
Qed.

(* a task whose exception passes through code run by exec(src, {}) (globals = {__builtins__} only)
   and through a frame that hides itself: the hypotheses of C12_raising_task_record_total hold, and
   by computation the stand-in of the exec'd frame has __file__ = "__main__", __name__ = None *)
Example C12_record_total_witness :
  let outer := mk_lf (mk_fr (s2l "t.py") (s2l "task") 10)
                     [(k_name, GStr (s2l "tasks")); (k_file, GStr (s2l "t.py"))]
                     [(k_hide, GOther (s2l "True"))] in
  let execd := mk_lf (mk_fr (s2l "<generated>") (s2l "boom") 2)
                     [(s2l "__builtins__", GOther (s2l "{..}"))] [] in
  let ltb := [outer; execd] in
  ltb <> [] /\
  gen_copy_ltb_default 1000 ltb =
  Some [mk_sf (lf_fr outer) [(k_file, GStr (s2l "t.py")); (k_name, GStr (s2l "tasks")); (k_loader, GNone)]
              [(k_hide, GOther (s2l "True"))];
        mk_sf (lf_fr execd) [(k_file, GStr s_main); (k_name, GNone); (k_loader, GNone)] []].
Proof. cbv zeta. split; [discriminate|vm_compute; reflexivity]. Qed.

(* two failures of one process through DIFFERENT code objects with the same (file, name, first line):
   `task` compiled twice under "<generated>", raising on line 2 and on line 9.  Each record names its own
   raise line and position, in either order. *)
Example C12_history_witness :
  let drv := mk_cn (mk_fr (s2l "driver.py") (s2l "run") 40) 30 (-3) 88 [40; 40; 8; 17] in
  let short := mk_fail (CPlain 1) (mk_exc (CPlain 1) [AStr (s2l "short")] [])
                       [drv; mk_cn (mk_fr (s2l "<generated>") (s2l "task") 2) 1 2 6 [2; 2; 4; 27]] 0 in
  let long := mk_fail (CPlain 2) (mk_exc (CPlain 2) [AStr (s2l "long"); AInt 7] [])
                      [drv; mk_cn (mk_fr (s2l "<generated>") (s2l "task") 9) 1 9 196 [9; 9; 4; 31]] 1 in
  map (option_map snd) (records 125 [short; long]) = [Some (fl_tb short); Some (fl_tb long)] /\
  map (option_map snd) (records 125 [long; short]) = [Some (fl_tb long); Some (fl_tb short)] /\
  map (option_map (fun r => ei_tb (fst r))) (records 125 [short; long]) =
    [Some (map cn_fr (fl_tb short)); Some (map cn_fr (fl_tb long))].
Proof. vm_compute. repeat split; reflexivity. Qed.
