(* C13 -- connections deliver every message intact, in order, within bounds.
   Only statements here; proofs live in Proofs/FramingProofs.v and Proofs/FramingGen.v.

   Reading guide.  `wresp`/`rresp` lists are OS scripts: what successive write()/read()
   calls do (take k bytes / return at most k bytes / EINTR / fail); after the script
   the OS is cooperative.  Theorems quantify over ALL scripts, all messages (lists of
   Z), all buffers, offsets, sizes, maxlengths and all bytes that follow in the
   stream.  `~ In WErr wo` / `~ In RErr ro` exclude only a genuine I/O error raised
   by the OS (EPIPE, ECONNRESET), not short transfers or EINTR.
   The first group ties the model to the code translated on this run. *)
From Coq Require Import ZArith List Bool.
From BV Require Import Lib.PyVal Gen.K_framing Model.Framing Proofs.FramingProofs Proofs.FramingGen.
Import ListNotations.
Open Scope Z_scope.

(* ---------------- the generated code is the model ---------------- *)

Theorem C13_code_send_bytes : forall c h buf off size it n,
    K_framing.send_bytes (emb c h) buf (PInt off) (optv size) (PInt it) (PInt n) =
    match send_args c n off size with
    | inl e => Exc (kind_exn e) (emb c h)
    | inr (lo, hi) => Ok PNone (set_out_hi (set_out_lo (emb c h) (PInt lo)) (PInt hi))
    end.
Proof. exact gen_send_bytes. Qed.
Print Assumptions C13_code_send_bytes.

Theorem C13_code_recv_bytes : forall c h mx rb,
    K_framing.recv_bytes (emb c h) (optv mx) rb =
    match recv_args c mx with
    | Some e => Exc (kind_exn e) (emb c h)
    | None =>
        match rb with
        | PErr e => Exc e (set_out_max (emb c h) (optv mx))
        | PNone => Exc OSError (set_out_max (emb (bad_length c) h) (optv mx))
        | v => Ok v (set_out_max (emb c h) (optv mx))
        end
    end.
Proof. exact gen_recv_bytes. Qed.
Print Assumptions C13_code_recv_bytes.

Theorem C13_code_recv_bytes_into : forall c h buf off it nitems rb msgsize,
    it <> 0 ->
    K_framing.recv_bytes_into (emb c h) buf (PInt off) (PInt it) (PInt nitems) rb (PInt msgsize) =
    match into_args c (it * nitems) off with
    | Some e => Exc (kind_exn e) (emb c h)
    | None =>
        match rb with
        | PErr e => Exc e (emb c h)
        | _ => if it * nitems <? off + msgsize then Exc BufferTooShort (emb c h)
               else Ok (PInt msgsize)
                       (set_out_hi (set_out_lo (emb c h) (PInt (off / it))) (PInt ((off + msgsize) / it)))
        end
    end.
Proof. exact gen_recv_bytes_into. Qed.
Print Assumptions C13_code_recv_bytes_into.

(* header range, the 16384 threshold, which buffers reach _send and in which order *)
Theorem C13_code_send_plan : forall c h mv n (is_mv : bool),
    send_plan (emb c h) (PInt 2) mv (PInt n) (PBool is_mv) =
    if (n <? -2147483648) || (n >? MAXLEN) then Exc ValueError (emb c h)
    else if n >? THRESH then Ok PNone (plan_state c h n (PInt 1) (PInt 2))
         else Ok PNone (plan_state c h n (PInt 3) PNone).
Proof. exact gen_send_plan. Qed.
Print Assumptions C13_code_send_plan.

Theorem C13_code_recv_plan : forall c h mx wsz,
    recv_plan (emb c h) (optv mx) (PInt wsz) =
    if over_max wsz mx then Ok PNone (set_out_r1 (emb c h) (PInt HDR))
    else Ok (PInt 1) (set_out_r2 (set_out_r1 (emb c h) (PInt HDR)) (PInt wsz)).
Proof. exact gen_recv_plan. Qed.
Print Assumptions C13_code_recv_plan.

(* the bodies of the write-all / read-exactly loops *)
Theorem C13_code_send_loop_body : forall c h r n,
    send_else (with_rem c h r) (PInt n) =
    Ok (if r - n =? 0 then PNone else PInt n) (with_rem c h (r - n)).
Proof. exact gen_send_else. Qed.
Print Assumptions C13_code_send_loop_body.

Theorem C13_code_recv_loop_body : forall c h r size n,
    recv_cond (with_rem c h r) (PInt size) = Ok (PBool (r >? 0)) (with_rem c h r) /\
    recv_else (with_rem c h r) (PInt size) (PInt n) =
    (if n =? 0 then Exc (kind_exn (eof_err r size)) (with_rem c h r)
     else Ok PNone (with_rem c h (r - n))).
Proof. intros; split; [apply gen_recv_cond|apply gen_recv_else]. Qed.
Print Assumptions C13_code_recv_loop_body.

Theorem C13_code_state_changes : forall c h,
    bad_message_length (emb c h) = Exc OSError (emb (bad_length c) h) /\
    K_framing.close (emb c h) = Ok PNone (emb (Framing.close c) h) /\
    check_closed (emb c h) = (if closed c then Exc OSError (emb c h) else Ok PNone (emb c h)) /\
    check_readable (emb c h) = (if readable c then Ok PNone (emb c h) else Exc OSError (emb c h)) /\
    check_writable (emb c h) = (if writable c then Ok PNone (emb c h) else Exc OSError (emb c h)).
Proof.
  intros; repeat split;
    [apply gen_bad_length|apply gen_close|apply gen_check_closed|apply gen_check_readable|apply gen_check_writable].
Qed.
Print Assumptions C13_code_state_changes.

(* ---------------- the header ---------------- *)

Theorem C13_header_roundtrip : forall n,
    -2147483648 <= n <= 2147483647 -> dec32 (be32 n) = n /\ len (be32 n) = 4.
Proof. intros n H; split; [apply dec32_be32; exact H|apply len_be32]. Qed.
Print Assumptions C13_header_roundtrip.

(* ---------------- wire format ---------------- *)

(* any flags, any script, any buffer/offset/size: either the arguments are rejected
   and nothing at all happens, or the bytes written are a prefix of
   header ++ selected bytes -- all of it exactly when send_bytes returned normally;
   lengths the header cannot express are rejected before any write;
   without an OS error the call does return normally.  (Both sides of the 16384
   threshold: the statement does not mention it.) *)
Theorem C13_wire_format : forall c o buf off size o' w t e,
    send_bytes c o buf off size = (o', w, t, e) ->
    match send_args c (len buf) off size with
    | inl e0 => e = Some e0 /\ w = [] /\ t = [] /\ o' = o
    | inr (lo, hi) =>
        let m := slice lo hi buf in
        (exists rest, encode m = w ++ rest /\ (e = None -> rest = [])) /\
        (e = None -> fits m) /\
        (MAXLEN < len m -> e = Some EStruct /\ w = [] /\ t = [] /\ o' = o) /\
        (~ In WErr o -> fits m -> e = None)
    end.
Proof. exact send_bytes_wire. Qed.
Print Assumptions C13_wire_format.

(* which arguments are accepted, and which bytes they select *)
Theorem C13_send_args : forall c n off size lo hi,
    send_args c n off size = inr (lo, hi) <->
    openw c /\ 0 <= off <= n /\ lo = off /\
    match size with None => hi = n | Some sz => 0 <= sz /\ off + sz <= n /\ hi = off + sz end.
Proof. exact send_args_spec. Qed.
Print Assumptions C13_send_args.

(* ---------------- round trip ---------------- *)

Theorem C13_roundtrip : forall sc rc wo ro ops msgs mxs rest,
    Forall2 (valid_send sc) ops msgs -> Forall fits msgs -> Forall2 max_ok msgs mxs ->
    openr rc -> ~ In WErr wo -> ~ In RErr ro ->
    exists tw tr,
      run_sender sc wo ops = (wire_of msgs, tw, map (fun _ => (0, flags sc)) msgs) /\
      run_receiver rc ro (wire_of msgs ++ rest) (recvs mxs) = (rest, tr, map (ok_obs rc) msgs).
Proof. exact roundtrip. Qed.
Print Assumptions C13_roundtrip.

(* ANY script (errors included) and ANY stream (garbage included): a message that
   recv_bytes returns is exactly the bytes announced by the 4 bytes before it, the
   flags are unchanged and the rest of the stream is untouched -- never short, never
   altered.  If the stream starts with an encoded message, that message is the only
   thing that can be returned. *)
Theorem C13_never_short : forall c o stream mx c' o' s' t d,
    recv_bytes c o stream mx = (c', o', s', t, inr d) ->
    c' = c /\ openr c /\
    exists h, stream = h ++ d ++ s' /\ len h = 4 /\ len d = Z.max 0 (dec32 h) /\
              over_max (dec32 h) mx = false.
Proof. exact recv_bytes_sound. Qed.
Print Assumptions C13_never_short.

Theorem C13_never_altered : forall c o m rest mx c' o' s' t d,
    fits m -> recv_bytes c o (encode m ++ rest) mx = (c', o', s', t, inr d) ->
    d = m /\ s' = rest /\ c' = c.
Proof. exact recv_bytes_sound_msg. Qed.
Print Assumptions C13_never_altered.

(* ---------------- end of stream ---------------- *)

(* the peer closes after k whole messages plus a proper prefix `partial` of the
   next one: k deliveries, then EOFError (301) if partial is empty or is exactly the
   header, OSError "got end of file during message" (105) otherwise *)
Theorem C13_eof : forall msgs mxs c o m partial more mx,
    openr c -> ~ In RErr o -> Forall fits msgs -> Forall2 max_ok msgs mxs ->
    fits m -> max_ok m mx -> encode m = partial ++ more -> more <> [] ->
    exists s t,
      run_receiver c o (wire_of msgs ++ partial) (recvs mxs ++ [RRecv mx]) =
      (s, t, map (ok_obs c) msgs ++
             [mk_robs (if (len partial =? 0) || (len partial =? 4) then 301 else 105)
                      [] (-1) [] (flags c)]).
Proof. exact eof_after. Qed.
Print Assumptions C13_eof.

(* ---------------- maxlength ---------------- *)

Theorem C13_maxlength : forall c o m rest mx,
    openr c -> ~ In RErr o -> fits m -> 0 <= mx < len m ->
    (exists o' t, recv_bytes c o (encode m ++ rest) (Some mx) =
                  (bad_length c, o', m ++ rest, t, inl EBadLen) /\ incl o' o) /\
    ~ openr (bad_length c) /\
    (forall o2 stream2 mx2, exists e,
        recv_bytes (bad_length c) o2 stream2 mx2 = (bad_length c, o2, stream2, [], inl e) /\
        (e = EClosed \/ e = ENotReadable)).
Proof.
  intros c o m rest mx Hc Hn Hf Hm. split; [apply recv_bytes_toolong; assumption|].
  split; [apply bad_length_unusable|].
  intros. apply not_openr_rejected, bad_length_unusable.
Qed.
Print Assumptions C13_maxlength.

(* ---------------- recv_bytes_into ---------------- *)

(* too small a buffer: BufferTooShort carries the whole message; the message has
   left the stream; flags unchanged; no buffer is produced (nothing was written) *)
Theorem C13_buffer_too_short : forall c o m rest buf it off,
    openr c -> ~ In RErr o -> fits m ->
    0 <= off <= it * (len buf / it) -> it * (len buf / it) < off + len m ->
    exists o' t, recv_bytes_into c o (encode m ++ rest) buf it off =
                 (c, o', rest, t, inl (ETooShort m)) /\ incl o' o.
Proof. exact into_too_short. Qed.
Print Assumptions C13_buffer_too_short.

(* it fits, and offset and length are multiples of the item size (always so for
   byte buffers): the message is at [off, off+n), the rest of the buffer unchanged *)
Theorem C13_into_delivers : forall c o m rest buf it off,
    openr c -> ~ In RErr o -> fits m ->
    0 < it -> off mod it = 0 -> len m mod it = 0 ->
    0 <= off -> off + len m <= it * (len buf / it) ->
    exists o' t, recv_bytes_into c o (encode m ++ rest) buf it off =
                 (c, o', rest, t, inr (len m, take off buf ++ m ++ drop (off + len m) buf)) /\ incl o' o.
Proof. exact into_ok. Qed.
Print Assumptions C13_into_delivers.

(* without the alignment hypothesis the statement is FALSE of the code (and of the
   model that follows it): the witness returns n = 2 and writes nothing *)
Theorem C13_into_unaligned_refuted :
  exists c o m buf it off o' t b,
    openr c /\ ~ In RErr o /\ fits m /\ 0 < it /\ 0 <= off /\ off + len m <= it * (len buf / it) /\
    recv_bytes_into c o (encode m) buf it off = (c, o', [], t, inr (len m, b)) /\
    ~ into_lands buf off m b.
Proof. exact into_unaligned_refuted. Qed.
Print Assumptions C13_into_unaligned_refuted.

(* ---------------- rejected before any I/O ---------------- *)

Theorem C13_validation : forall c,
    (forall o buf off size e,
        send_args c (len buf) off size = inl e ->
        send_bytes c o buf off size = (o, [], [], Some e)) /\
    (forall o stream mx e,
        recv_args c mx = Some e -> recv_bytes c o stream mx = (c, o, stream, [], inl e)) /\
    (forall o stream buf it off e,
        into_args c (it * (len buf / it)) off = Some e ->
        recv_bytes_into c o stream buf it off = (c, o, stream, [], inl e)) /\
    (~ openr c -> forall o stream mx, exists e,
          recv_bytes c o stream mx = (c, o, stream, [], inl e) /\ (e = EClosed \/ e = ENotReadable)).
Proof.
  intros c. repeat split.
  - intros; apply send_bytes_rejected; assumption.
  - intros; apply recv_bytes_rejected; assumption.
  - intros; apply into_rejected; assumption.
  - intros; apply not_openr_rejected; assumption.
Qed.
Print Assumptions C13_validation.

(* ---------------- non-vacuity ---------------- *)

(* the hypotheses of C13_roundtrip and C13_eof are satisfiable, and the conclusion
   computed on a concrete instance: three messages (one empty, one selected by
   offset/size), 1-byte and 3-byte writes with EINTR, 1-byte/2-byte reads with EINTR *)
Example C13_roundtrip_witness :
  let sc := mkc false false true in
  let rc := mkc false true false in
  let wo := [WAccept 1; WEintr; WAccept 3; WAccept 1] in
  let ro := [RChunk 1; REintr; RChunk 2; RChunk 1; RChunk 1; REintr] in
  let ops := [SSend [1; 2; 3] 0 None; SSend [] 0 None; SSend [9; 8; 7; 6; 5] 1 (Some 3)] in
  let msgs := [[1; 2; 3]; []; [8; 7; 6]] in
  Forall2 (valid_send sc) ops msgs /\ Forall fits msgs /\
  Forall2 max_ok msgs [None; Some 0; Some 3] /\ openr rc /\ ~ In WErr wo /\ ~ In RErr ro /\
  fst (fst (run_sender sc wo ops)) = [0;0;0;3;1;2;3; 0;0;0;0; 0;0;0;3;8;7;6] /\
  map r_data (snd (run_receiver rc ro (wire_of msgs ++ [42]) (recvs [None; Some 0; Some 3]))) = msgs /\
  map r_code (snd (run_receiver rc ro (firstn 13 (wire_of msgs)) (recvs [None; None; None]))) = [0; 0; 105].
Proof.
  cbv zeta.
  split.
  { constructor; [exists [1;2;3], 0, None, 0, 3; repeat split|].
    constructor; [exists [], 0, None, 0, 0; repeat split|].
    constructor; [exists [9;8;7;6;5], 1, (Some 3), 1, 4; repeat split|constructor]. }
  split. { repeat constructor; vm_compute; discriminate. }
  split. { constructor; [exact I|]. constructor; [vm_compute; discriminate|].
           constructor; [vm_compute; discriminate|constructor]. }
  split. { split; reflexivity. }
  split. { intros [H|[H|[H|[H|[]]]]]; discriminate. }
  split. { intros [H|[H|[H|[H|[H|[H|[]]]]]]]; discriminate. }
  split. { vm_compute. reflexivity. }
  split; vm_compute; reflexivity.
Qed.
