(* C13 -- connections deliver every message intact, in order, within bounds.
   Only statements here; proofs live in Proofs/FramingProofs.v and Proofs/FramingGen.v.

   Reading guide.  `wresp`/`rresp` lists are OS scripts: what successive write()/read()
   calls do (take k bytes / return at most k bytes / EINTR / fail); after the script
   the OS is cooperative.  Theorems quantify over ALL scripts, all messages (lists of
   Z), all buffers, offsets, sizes, maxlengths and all bytes that follow in the
   stream.  `~ In WErr wo` / `~ In RErr ro` exclude only a genuine I/O error raised
   by the OS (EPIPE, ECONNRESET), not short transfers or EINTR.
   The first group ties the model to the code translated on this run. *)
From Coq Require Import ZArith List Bool.
From BV Require Import Lib.PyVal Gen.K_framing Model.Framing Proofs.FramingProofs Proofs.FramingGen
     Proofs.FramingShape Proofs.FramingGenLoops Proofs.FramingFail.
Import ListNotations.
Open Scope Z_scope.

(* ---------------- the generated code is the model ---------------- *)

(* send_bytes.  it = m.itemsize, d0 = first dimension of the caller's buffer (None:
   0-dimensional, len() raises TypeError), nbytes = its size in bytes.  The length
   all argument checks use (code_len) is the byte count ONLY on the `itemsize > 1`
   path, where the flat copy (view token 1) is sliced; otherwise it is the first
   dimension of the caller's own view (token 0), which is then sliced by rows.
   (Replaces the earlier statement, which took one abstract length `n` for both
   paths and did not say which view is sliced.) *)
Theorem C13_code_send_bytes : forall c h buf off size it d0 nbytes,
    K_framing.send_bytes (emb c h) buf (PInt off) (optv size) (PInt it) (dimv d0) (PInt nbytes) =
    match code_len it d0 nbytes with
    | None => Exc (if closed c then OSError else if negb (writable c) then OSError else TypeError) (emb c h)
    | Some n =>
        match send_args c n off size with
        | inl e => Exc (kind_exn e) (emb c h)
        | inr (lo, hi) =>
            Ok PNone (set_out_hi (set_out_lo (set_out_base (emb c h) (code_view it)) (PInt lo)) (PInt hi))
        end
    end.
Proof. exact gen_send_bytes. Qed.
Print Assumptions C13_code_send_bytes.

(* for a buffer b of the model the generated send_bytes takes exactly the decisions
   of send_bytes_sh: rejection, or rows lo..hi of view_of b *)
Theorem C13_code_send_bytes_any_buffer : forall c h buf b off size,
    K_framing.send_bytes (emb c h) buf (PInt off) (optv size)
                         (PInt (pb_item b)) (dimv (dim0_of b)) (PInt (len (pb_bytes b))) =
    match view_of b with
    | None => Exc (if closed c then OSError else if negb (writable c) then OSError else TypeError) (emb c h)
    | Some (rows, rs) =>
        match send_args c rows off size with
        | inl e => Exc (kind_exn e) (emb c h)
        | inr (lo, hi) =>
            Ok PNone (set_out_hi (set_out_lo (set_out_base (emb c h) (code_view (pb_item b))) (PInt lo)) (PInt hi))
        end
    end.
Proof. exact gen_send_bytes_buf. Qed.
Print Assumptions C13_code_send_bytes_any_buffer.

Theorem C13_code_recv_bytes : forall c h mx rb,
    K_framing.recv_bytes (emb c h) (optv mx) rb =
    match recv_args c mx with
    | Some e => Exc (kind_exn e) (emb c h)
    | None =>
        match rb with
        | PErr e => Exc e (set_out_max (emb c h) (optv mx))
        | PNone => Exc OSError (set_out_max (emb (bad_length c) h) (optv mx))
        | v => Ok v (set_out_max (emb c h) (optv mx))
        end
    end.
Proof. exact gen_recv_bytes. Qed.
Print Assumptions C13_code_recv_bytes.

Theorem C13_code_recv_bytes_into : forall c h buf off it nitems rb msgsize,
    it <> 0 ->
    K_framing.recv_bytes_into (emb c h) buf (PInt off) (PInt it) (PInt nitems) rb (PInt msgsize) =
    match into_args c (it * nitems) off with
    | Some e => Exc (kind_exn e) (emb c h)
    | None =>
        match rb with
        | PErr e => Exc e (emb c h)
        | _ => if it * nitems <? off + msgsize then Exc BufferTooShort (emb c h)
               else Ok (PInt msgsize)
                       (set_out_hi (set_out_lo (set_out_base (emb c h) mv_orig) (PInt (off / it))) (PInt ((off + msgsize) / it)))
        end
    end.
Proof. exact gen_recv_bytes_into. Qed.
Print Assumptions C13_code_recv_bytes_into.

(* header range, the 16384 threshold, which buffers reach _send and in which order *)
Theorem C13_code_send_plan : forall c h mv n (is_mv : bool),
    send_plan (emb c h) (PInt 2) mv (PInt n) (PBool is_mv) =
    if (n <? -2147483648) || (n >? MAXLEN) then Exc ValueError (emb c h)
    else if n >? THRESH then Ok PNone (plan_state c h n (PInt 1) (PInt 2))
         else Ok PNone (plan_state c h n (PInt 3) PNone).
Proof. exact gen_send_plan. Qed.
Print Assumptions C13_code_send_plan.

Theorem C13_code_recv_plan : forall c h mx wsz,
    recv_plan (emb c h) (optv mx) (PInt wsz) =
    if over_max wsz mx then Ok PNone (set_out_r1 (emb c h) (PInt HDR))
    else Ok (PInt 1) (set_out_r2 (set_out_r1 (emb c h) (PInt HDR)) (PInt wsz)).
Proof. exact gen_recv_plan. Qed.
Print Assumptions C13_code_recv_plan.

(* the bodies of the write-all / read-exactly loops *)
Theorem C13_code_send_loop_body : forall c h r n,
    send_else (with_rem c h r) (PInt n) =
    Ok (if r - n =? 0 then PNone else PInt n) (with_rem c h (r - n)).
Proof. exact gen_send_else. Qed.
Print Assumptions C13_code_send_loop_body.

Theorem C13_code_recv_loop_body : forall c h r size n,
    recv_cond (with_rem c h r) (PInt size) = Ok (PBool (r >? 0)) (with_rem c h r) /\
    recv_else (with_rem c h r) (PInt size) (PInt n) =
    (if n =? 0 then Exc (kind_exn (eof_err r size)) (with_rem c h r)
     else Ok PNone (with_rem c h (r - n))).
Proof. intros; split; [apply gen_recv_cond|apply gen_recv_else]. Qed.
Print Assumptions C13_code_recv_loop_body.

(* ---------------- the loops rebuilt from the generated fragments ---------------- *)

(* Connection._send interpreted over send_else (Proofs/FramingGenLoops.v) is the
   model loop, for every script, every `remaining`, every buffer, every row width;
   with rows of one byte and remaining = len(buf) it is the 1-D send_loop that
   C13_wire_format / C13_roundtrip are about *)
Theorem C13_gen_send_loop : forall c h rs o remaining buf,
    gen_send_loop c h rs o remaining buf = send_loop_sh rs o remaining buf.
Proof. exact gen_send_loop_eq. Qed.
Print Assumptions C13_gen_send_loop.

Theorem C13_gen_send_loop_1d : forall c h o buf,
    gen_send_loop c h 1 o (len buf) buf = send_loop o buf.
Proof. exact gen_send_loop_flat. Qed.
Print Assumptions C13_gen_send_loop_1d.

(* Connection._recv interpreted over recv_cond / recv_else is recv_loop / recv_exact *)
Theorem C13_gen_recv_loop : forall c h o size remaining stream,
    0 < remaining <= size ->
    gen_recv_loop c h o size remaining stream = recv_loop o size remaining stream.
Proof. exact gen_recv_loop_eq. Qed.
Print Assumptions C13_gen_recv_loop.

Theorem C13_gen_recv_exact : forall c h o size stream,
    gen_recv_exact c h o size stream = recv_exact o size stream.
Proof. exact gen_recv_exact_eq. Qed.
Print Assumptions C13_gen_recv_exact.

(* _send_bytes = generated send_plan + generated loops; _recv_bytes = generated
   recv_plan + generated loops *)
Theorem C13_gen_send_bytes_raw : forall c h o rows rs payload,
    -2147483648 <= rows ->
    gen_send_raw c h o rows rs payload = send_raw_sh o rows rs payload.
Proof. exact gen_send_raw_eq. Qed.
Print Assumptions C13_gen_send_bytes_raw.

Theorem C13_gen_send_bytes_raw_1d : forall c h o m,
    gen_send_raw c h o (len m) 1 m = send_bytes_raw o m.
Proof. exact gen_send_raw_flat. Qed.
Print Assumptions C13_gen_send_bytes_raw_1d.

Theorem C13_gen_recv_bytes_raw : forall c h o stream mx,
    gen_recv_raw c h o stream mx = recv_bytes_raw o stream mx.
Proof. exact gen_recv_raw_eq. Qed.
Print Assumptions C13_gen_recv_bytes_raw.

(* an iteration of _send that wrote nothing while `remaining` is not 0 changes
   nothing: that state repeats for ever (what ESpin stands for) *)
Theorem C13_gen_spin_fixpoint : forall c h r, r <> 0 -> gen_sstep c h r 0 = SsNext 0 r.
Proof. exact gen_spin_fixpoint. Qed.
Print Assumptions C13_gen_spin_fixpoint.

(* two property theorems restated on the generated-code functions *)
Theorem C13_gen_wire_format : forall c h o m o' w t e,
    gen_send_raw c h o (len m) 1 m = (o', w, t, e) ->
    (exists rest, encode m = w ++ rest /\ (e = None -> rest = [])) /\
    (e = None -> len m <= MAXLEN) /\
    (MAXLEN < len m -> e = Some EStruct /\ w = [] /\ t = [] /\ o' = o) /\
    (~ In WErr o -> len m <= MAXLEN -> e = None).
Proof. exact gen_send_raw_spec. Qed.
Print Assumptions C13_gen_wire_format.

Theorem C13_gen_never_short : forall c h o stream mx o' s' t d,
    gen_recv_raw c h o stream mx = (o', s', t, inr (Some d)) ->
    exists hd, stream = hd ++ d ++ s' /\ len hd = 4 /\ len d = Z.max 0 (dec32 hd) /\
               over_max (dec32 hd) mx = false.
Proof. exact gen_recv_raw_sound. Qed.
Print Assumptions C13_gen_never_short.

Theorem C13_code_state_changes : forall c h,
    bad_message_length (emb c h) = Exc OSError (emb (bad_length c) h) /\
    K_framing.close (emb c h) = Ok PNone (emb (Framing.close c) h) /\
    check_closed (emb c h) = (if closed c then Exc OSError (emb c h) else Ok PNone (emb c h)) /\
    check_readable (emb c h) = (if readable c then Ok PNone (emb c h) else Exc OSError (emb c h)) /\
    check_writable (emb c h) = (if writable c then Ok PNone (emb c h) else Exc OSError (emb c h)).
Proof.
  intros; repeat split;
    [apply gen_bad_length|apply gen_close|apply gen_check_closed|apply gen_check_readable|apply gen_check_writable].
Qed.
Print Assumptions C13_code_state_changes.

(* ---------------- the header ---------------- *)

Theorem C13_header_roundtrip : forall n,
    -2147483648 <= n <= 2147483647 -> dec32 (be32 n) = n /\ len (be32 n) = 4.
Proof. intros n H; split; [apply dec32_be32; exact H|apply len_be32]. Qed.
Print Assumptions C13_header_roundtrip.

(* ---------------- wire format ---------------- *)

(* any flags, any script, any buffer/offset/size: either the arguments are rejected
   and nothing at all happens, or the bytes written are a prefix of
   header ++ selected bytes -- all of it exactly when send_bytes returned normally;
   lengths the header cannot express are rejected before any write;
   without an OS error the call does return normally.  (Both sides of the 16384
   threshold: the statement does not mention it.) *)
Theorem C13_wire_format : forall c o buf off size o' w t e,
    send_bytes c o buf off size = (o', w, t, e) ->
    match send_args c (len buf) off size with
    | inl e0 => e = Some e0 /\ w = [] /\ t = [] /\ o' = o
    | inr (lo, hi) =>
        let m := slice lo hi buf in
        (exists rest, encode m = w ++ rest /\ (e = None -> rest = [])) /\
        (e = None -> fits m) /\
        (MAXLEN < len m -> e = Some EStruct /\ w = [] /\ t = [] /\ o' = o) /\
        (~ In WErr o -> fits m -> e = None)
    end.
Proof. exact send_bytes_wire. Qed.
Print Assumptions C13_wire_format.

(* which arguments are accepted, and which bytes they select *)
Theorem C13_send_args : forall c n off size lo hi,
    send_args c n off size = inr (lo, hi) <->
    openw c /\ 0 <= off <= n /\ lo = off /\
    match size with None => hi = n | Some sz => 0 <= sz /\ off + sz <= n /\ hi = off + sz end.
Proof. exact send_args_spec. Qed.
Print Assumptions C13_send_args.

(* ---------------- buffers of any shape ---------------- *)

(* C13_wire_format, C13_send_args, C13_roundtrip and C13_validation speak of
   `send_bytes c o buf ...` / `SSend buf ...`, where buf is a LIST OF BYTES: a
   one-dimensional buffer of single bytes.  That hypothesis is made explicit here.
   A buffer object in general is (bytes, item size, shape); the code works on
   view_of b.  On every flat view -- shape [len bytes] with items of one byte, or
   ANY shape with items wider than a byte (the code copies those to flat bytes) --
   send_bytes is send_bytes on the bytes, for every script, offset and size: all
   the theorems above apply. *)
Theorem C13_flat_views : forall c o b off size,
    flat_view b -> send_bytes_sh c o b off size = send_bytes c o (pb_bytes b) off size.
Proof. exact send_bytes_sh_flat. Qed.
Print Assumptions C13_flat_views.

(* what remains: items of one byte and at least two dimensions (or a dimension 0).
   With at most 16384 rows selected and no OS error the wire is a header that
   announces the NUMBER OF ROWS followed by ALL (rows * row size) bytes ... *)
Theorem C13_shaped_wire : forall c o b d0 rest off size lo hi,
    wf_buf b -> pb_item b <= 1 -> pb_shape b = d0 :: rest ->
    send_args c d0 off size = inr (lo, hi) -> hi - lo <= THRESH -> ~ In WErr o ->
    let p := slice (lo * prod rest) (hi * prod rest) (pb_bytes b) in
    exists o' t, send_bytes_sh c o b off size = (o', be32 (hi - lo) ++ p, t, None) /\
                 len p = (hi - lo) * prod rest /\ incl o' o.
Proof. exact shaped_wire. Qed.
Print Assumptions C13_shaped_wire.

(* ... and a receiver takes the first k = rows bytes of that payload for the whole
   message and leaves the other bytes where the next header is expected *)
Theorem C13_shaped_received : forall c o k p rest,
    openr c -> ~ In RErr o -> 0 <= k <= len p -> k <= MAXLEN ->
    exists o' t, recv_bytes c o (be32 k ++ p ++ rest) None =
                 (c, o', drop k p ++ rest, t, inr (take k p)) /\ incl o' o.
Proof. exact shaped_received. Qed.
Print Assumptions C13_shaped_received.

(* so the property ("from any bytes-like object ... received as exactly the same
   bytes", next message intact) is FALSE of the code.  Witness:
   memoryview(bytes(range(12))).cast('B', shape=[3, 4]) then b"next", cooperative OS:
   both sends return normally, the wire is not the framing of the two messages, the
   receiver gets 3 bytes and then OSError (105) instead of b"next" *)
Theorem C13_send_shaped_refuted :
  exists sc rc b off size m,
    wf_buf b /\ openw sc /\ openr rc /\ wanted b off size = Some m /\ fits m /\
    exists wire tw tr unread d,
      run_sender sc [] [SSendSh b off size; SSend w_next 0 None] =
        (wire, tw, [(0, flags sc); (0, flags sc)]) /\
      wire <> wire_of [m; w_next] /\
      run_receiver rc [] wire [RRecv None; RRecv None] =
        (unread, tr, [mk_robs 0 d (-1) [] (flags rc); mk_robs 105 [] (-1) [] (flags rc)]) /\
      d <> m.
Proof. exact send_shaped_refuted. Qed.
Print Assumptions C13_send_shaped_refuted.

Theorem C13_shaped_wire_refuted :
  exists c b off size m w t,
    wf_buf b /\ wanted b off size = Some m /\
    send_bytes_sh c [] b off size = ([], w, t, None) /\ w <> encode m.
Proof. exact shaped_wire_refuted. Qed.
Print Assumptions C13_shaped_wire_refuted.

(* more than 16384 rows of at least two bytes on a cooperative OS: header and all
   bytes are written, then the write-all loop can neither finish nor change state:
   send_bytes never returns.  General statement and a concrete instance. *)
Theorem C13_shaped_spins : forall c b d0 rest,
    wf_buf b -> pb_item b <= 1 -> pb_shape b = d0 :: rest ->
    openw c -> THRESH < d0 <= MAXLEN -> 2 <= prod rest ->
    send_bytes_sh c [] b 0 None = ([], be32 d0 ++ pb_bytes b, [4; len (pb_bytes b)], Some ESpin).
Proof. exact shaped_spins. Qed.
Print Assumptions C13_shaped_spins.

Theorem C13_send_shaped_spin_refuted :
  exists c b, wf_buf b /\ openw c /\ wanted b 0 None = Some (pb_bytes b) /\ fits (pb_bytes b) /\
              exists w t, send_bytes_sh c [] b 0 None = ([], w, t, Some ESpin).
Proof. exact send_shaped_spin_refuted. Qed.
Print Assumptions C13_send_shaped_spin_refuted.

(* ---------------- round trip ---------------- *)

Theorem C13_roundtrip : forall sc rc wo ro ops msgs mxs rest,
    Forall2 (valid_send sc) ops msgs -> Forall fits msgs -> Forall2 max_ok msgs mxs ->
    openr rc -> ~ In WErr wo -> ~ In RErr ro ->
    exists tw tr,
      run_sender sc wo ops = (wire_of msgs, tw, map (fun _ => (0, flags sc)) msgs) /\
      run_receiver rc ro (wire_of msgs ++ rest) (recvs mxs) = (rest, tr, map (ok_obs rc) msgs).
Proof. exact roundtrip. Qed.
Print Assumptions C13_roundtrip.

(* the same for send operations on buffer objects of any shape whose view is flat
   (valid_send_any includes every valid_send): strictly more operations *)
Theorem C13_roundtrip_any_buffer : forall sc rc wo ro ops msgs mxs rest,
    Forall2 (valid_send_any sc) ops msgs -> Forall fits msgs -> Forall2 max_ok msgs mxs ->
    openr rc -> ~ In WErr wo -> ~ In RErr ro ->
    exists tw tr,
      run_sender sc wo ops = (wire_of msgs, tw, map (fun _ => (0, flags sc)) msgs) /\
      run_receiver rc ro (wire_of msgs ++ rest) (recvs mxs) = (rest, tr, map (ok_obs rc) msgs).
Proof. exact roundtrip_any. Qed.
Print Assumptions C13_roundtrip_any_buffer.

(* ANY script (errors included) and ANY stream (garbage included): a message that
   recv_bytes returns is exactly the bytes announced by the 4 bytes before it, the
   flags are unchanged and the rest of the stream is untouched -- never short, never
   altered.  If the stream starts with an encoded message, that message is the only
   thing that can be returned. *)
Theorem C13_never_short : forall c o stream mx c' o' s' t d,
    recv_bytes c o stream mx = (c', o', s', t, inr d) ->
    c' = c /\ openr c /\
    exists h, stream = h ++ d ++ s' /\ len h = 4 /\ len d = Z.max 0 (dec32 h) /\
              over_max (dec32 h) mx = false.
Proof. exact recv_bytes_sound. Qed.
Print Assumptions C13_never_short.

Theorem C13_never_altered : forall c o m rest mx c' o' s' t d,
    fits m -> recv_bytes c o (encode m ++ rest) mx = (c', o', s', t, inr d) ->
    d = m /\ s' = rest /\ c' = c.
Proof. exact recv_bytes_sound_msg. Qed.
Print Assumptions C13_never_altered.

(* ---------------- end of stream ---------------- *)

(* the peer closes after k whole messages plus a proper prefix `partial` of the
   next one: k deliveries, then EOFError (301) if partial is empty or is exactly the
   header, OSError "got end of file during message" (105) otherwise *)
Theorem C13_eof : forall msgs mxs c o m partial more mx,
    openr c -> ~ In RErr o -> Forall fits msgs -> Forall2 max_ok msgs mxs ->
    fits m -> max_ok m mx -> encode m = partial ++ more -> more <> [] ->
    exists s t,
      run_receiver c o (wire_of msgs ++ partial) (recvs mxs ++ [RRecv mx]) =
      (s, t, map (ok_obs c) msgs ++
             [mk_robs (if (len partial =? 0) || (len partial =? 4) then 301 else 105)
                      [] (-1) [] (flags c)]).
Proof. exact eof_after. Qed.
Print Assumptions C13_eof.

(* a sender that fails, under ANY write script (OS errors included): the first k
   send_bytes calls return normally, the next raises the OS error (106).  Then the
   wire is the k framed messages plus a PROPER prefix of the framing of the failing
   one, and the receiver (any read script without an OS error) delivers exactly the
   k messages, then EOFError / OSError as in C13_eof: never a short message *)
Theorem C13_sender_failure : forall sc rc wo ro ops msgs op m wire tw fl mxs mx,
    Forall2 (valid_send sc) ops msgs -> valid_send sc op m ->
    run_sender sc wo (ops ++ [op]) = (wire, tw, map (fun _ => (0, flags sc)) msgs ++ [(106, fl)]) ->
    openr rc -> ~ In RErr ro -> Forall2 max_ok msgs mxs -> max_ok m mx ->
    exists partial more s t,
      wire = wire_of msgs ++ partial /\ encode m = partial ++ more /\ more <> [] /\
      run_receiver rc ro wire (recvs mxs ++ [RRecv mx]) =
      (s, t, map (ok_obs rc) msgs ++
             [mk_robs (if (len partial =? 0) || (len partial =? 4) then 301 else 105)
                      [] (-1) [] (flags rc)]).
Proof. exact sender_failure. Qed.
Print Assumptions C13_sender_failure.

(* ---------------- maxlength ---------------- *)

Theorem C13_maxlength : forall c o m rest mx,
    openr c -> ~ In RErr o -> fits m -> 0 <= mx < len m ->
    (exists o' t, recv_bytes c o (encode m ++ rest) (Some mx) =
                  (bad_length c, o', m ++ rest, t, inl EBadLen) /\ incl o' o) /\
    ~ openr (bad_length c) /\
    (forall o2 stream2 mx2, exists e,
        recv_bytes (bad_length c) o2 stream2 mx2 = (bad_length c, o2, stream2, [], inl e) /\
        (e = EClosed \/ e = ENotReadable)).
Proof.
  intros c o m rest mx Hc Hn Hf Hm. split; [apply recv_bytes_toolong; assumption|].
  split; [apply bad_length_unusable|].
  intros. apply not_openr_rejected, bad_length_unusable.
Qed.
Print Assumptions C13_maxlength.

(* ---------------- recv_bytes_into ---------------- *)

(* too small a buffer: BufferTooShort carries the whole message; the message has
   left the stream; flags unchanged; no buffer is produced (nothing was written) *)
Theorem C13_buffer_too_short : forall c o m rest buf it off,
    openr c -> ~ In RErr o -> fits m ->
    0 <= off <= it * (len buf / it) -> it * (len buf / it) < off + len m ->
    exists o' t, recv_bytes_into c o (encode m ++ rest) buf it off =
                 (c, o', rest, t, inl (ETooShort m)) /\ incl o' o.
Proof. exact into_too_short. Qed.
Print Assumptions C13_buffer_too_short.

(* it fits, and offset and length are multiples of the item size (always so for
   byte buffers): the message is at [off, off+n), the rest of the buffer unchanged *)
Theorem C13_into_delivers : forall c o m rest buf it off,
    openr c -> ~ In RErr o -> fits m ->
    0 < it -> off mod it = 0 -> len m mod it = 0 ->
    0 <= off -> off + len m <= it * (len buf / it) ->
    exists o' t, recv_bytes_into c o (encode m ++ rest) buf it off =
                 (c, o', rest, t, inr (len m, take off buf ++ m ++ drop (off + len m) buf)) /\ incl o' o.
Proof. exact into_ok. Qed.
Print Assumptions C13_into_delivers.

(* without the alignment hypothesis the statement is FALSE of the code (and of the
   model that follows it): the witness returns n = 2 and writes nothing *)
Theorem C13_into_unaligned_refuted :
  exists c o m buf it off o' t b,
    openr c /\ ~ In RErr o /\ fits m /\ 0 < it /\ 0 <= off /\ off + len m <= it * (len buf / it) /\
    recv_bytes_into c o (encode m) buf it off = (c, o', [], t, inr (len m, b)) /\
    ~ into_lands buf off m b.
Proof. exact into_unaligned_refuted. Qed.
Print Assumptions C13_into_unaligned_refuted.

(* the three theorems above are about a buffer given as a list of bytes and an item
   size: a ONE-DIMENSIONAL buffer of len buf / it items.  For a buffer of any shape
   the code takes len(m) = first dimension (bytesize = it * d0) and slices rows;
   for shape [len buf / it] that is the function above: *)
Theorem C13_into_1d : forall c o stream buf it off,
    recv_bytes_into_sh c o stream buf it [len buf / it] off = recv_bytes_into c o stream buf it off.
Proof. exact into_sh_1d. Qed.
Print Assumptions C13_into_1d.

(* every shape: at offset 0 a message of whole items that is no longer than
   itemsize * FIRST DIMENSION lands at the start of the buffer, rest unchanged *)
Theorem C13_into_shaped_at_0 : forall c o m rest_s buf it d0 rest,
    openr c -> ~ In RErr o -> fits m ->
    0 < it -> len m mod it = 0 -> 1 <= prod rest -> len m <= it * d0 ->
    exists o' t, recv_bytes_into_sh c o (encode m ++ rest_s) buf it (d0 :: rest) 0 =
                 (c, o', rest_s, t, inr (len m, m ++ drop (len m) buf)) /\ incl o' o.
Proof. exact into_sh_ok_at_0. Qed.
Print Assumptions C13_into_shaped_at_0.

(* beyond that the statement is FALSE for multi-dimensional buffers (12 bytes as
   3 rows of 4): at offset 1 the message is stored at byte 4 and its length returned
   normally; a 4-byte message at offset 0 raises BufferTooShort although it fits *)
Theorem C13_into_shaped_refuted :
  (exists c o m buf it shape off o' t b,
      openr c /\ ~ In RErr o /\ fits m /\ len buf = it * prod shape /\
      0 <= off /\ off + len m <= len buf /\
      recv_bytes_into_sh c o (encode m) buf it shape off = (c, o', [], t, inr (len m, b)) /\
      ~ into_lands buf off m b) /\
  (exists c o m buf it shape o' t,
      openr c /\ ~ In RErr o /\ fits m /\ len buf = it * prod shape /\ len m <= len buf /\
      recv_bytes_into_sh c o (encode m) buf it shape 0 = (c, o', [], t, inl (ETooShort m))).
Proof. exact into_shaped_refuted. Qed.
Print Assumptions C13_into_shaped_refuted.

(* ---------------- rejected before any I/O ---------------- *)

Theorem C13_validation : forall c,
    (forall o buf off size e,
        send_args c (len buf) off size = inl e ->
        send_bytes c o buf off size = (o, [], [], Some e)) /\
    (forall o stream mx e,
        recv_args c mx = Some e -> recv_bytes c o stream mx = (c, o, stream, [], inl e)) /\
    (forall o stream buf it off e,
        into_args c (it * (len buf / it)) off = Some e ->
        recv_bytes_into c o stream buf it off = (c, o, stream, [], inl e)) /\
    (~ openr c -> forall o stream mx, exists e,
          recv_bytes c o stream mx = (c, o, stream, [], inl e) /\ (e = EClosed \/ e = ENotReadable)).
Proof.
  intros c. repeat split.
  - intros; apply send_bytes_rejected; assumption.
  - intros; apply recv_bytes_rejected; assumption.
  - intros; apply into_rejected; assumption.
  - intros; apply not_openr_rejected; assumption.
Qed.
Print Assumptions C13_validation.

(* ---------------- non-vacuity ---------------- *)

(* the hypotheses of C13_roundtrip and C13_eof are satisfiable, and the conclusion
   computed on a concrete instance: three messages (one empty, one selected by
   offset/size), 1-byte and 3-byte writes with EINTR, 1-byte/2-byte reads with EINTR *)
Example C13_roundtrip_witness :
  let sc := mkc false false true in
  let rc := mkc false true false in
  let wo := [WAccept 1; WEintr; WAccept 3; WAccept 1] in
  let ro := [RChunk 1; REintr; RChunk 2; RChunk 1; RChunk 1; REintr] in
  let ops := [SSend [1; 2; 3] 0 None; SSend [] 0 None; SSend [9; 8; 7; 6; 5] 1 (Some 3)] in
  let msgs := [[1; 2; 3]; []; [8; 7; 6]] in
  Forall2 (valid_send sc) ops msgs /\ Forall fits msgs /\
  Forall2 max_ok msgs [None; Some 0; Some 3] /\ openr rc /\ ~ In WErr wo /\ ~ In RErr ro /\
  fst (fst (run_sender sc wo ops)) = [0;0;0;3;1;2;3; 0;0;0;0; 0;0;0;3;8;7;6] /\
  map r_data (snd (run_receiver rc ro (wire_of msgs ++ [42]) (recvs [None; Some 0; Some 3]))) = msgs /\
  map r_code (snd (run_receiver rc ro (firstn 13 (wire_of msgs)) (recvs [None; None; None]))) = [0; 0; 105].
Proof.
  cbv zeta.
  split.
  { constructor; [exists [1;2;3], 0, None, 0, 3; repeat split|].
    constructor; [exists [], 0, None, 0, 0; repeat split|].
    constructor; [exists [9;8;7;6;5], 1, (Some 3), 1, 4; repeat split|constructor]. }
  split. { repeat constructor; vm_compute; discriminate. }
  split. { constructor; [exact I|]. constructor; [vm_compute; discriminate|].
           constructor; [vm_compute; discriminate|constructor]. }
  split. { split; reflexivity. }
  split. { intros [H|[H|[H|[H|[]]]]]; discriminate. }
  split. { intros [H|[H|[H|[H|[H|[H|[]]]]]]]; discriminate. }
  split. { vm_compute. reflexivity. }
  split; vm_compute; reflexivity.
Qed.
