(* C07 -- close() then join() drains all work and leaves no processes behind.
   Proved here (parent-side model): a closed pool accepts nothing; results and
   acknowledgements of jobs submitted before close() are handled exactly as on a running
   pool; close() hands every slot back; an Apply result is credited to the worker that
   owns the job (so that worker's consumption guard does not wait).  That join() returns,
   that all workers have exited and all helper threads have stopped is runtime behaviour:
   validated on real pools by the check (harness/realpool_driver.py), not proved. *)
From Coq Require Import ZArith List Bool.
From BV Require Import Lib.Cases Model.LaxSem Model.Restart Model.Pool
     Proofs.PoolJobs Proofs.PoolInv Proofs.PoolCor.
From BV Require Import Proofs.PoolRefuted.
From BV Require Gen.G_pool_shape.
From BV Require Import Proofs.PoolSup.
From BV Require Import Model.PoolSys Proofs.PoolSysProofs.
From BV Require Gen.G_pool_pins.
Import ListNotations.
Open Scope Z_scope.

Theorem C07_closed_rejects_apply : forall s so ha lo slot,
    pstate s <> 0 -> do_apply s so ha lo slot = (s, RRefused).
Proof. exact closed_rejects_apply. Qed.
Print Assumptions C07_closed_rejects_apply.

Theorem C07_closed_rejects_map : forall s n cs, pstate s <> 0 -> do_map s n cs = (s, RRefused).
Proof. exact closed_rejects_map. Qed.
Print Assumptions C07_closed_rejects_map.

Theorem C07_closed_rejects_imap : forall s k n, pstate s <> 0 -> do_imap s k n = (s, RRefused).
Proof. exact closed_rejects_imap. Qed.
Print Assumptions C07_closed_rejects_imap.

Theorem C07_results_kept_after_close : forall s q j i p,
    do_ready (with_pstate s q) j i p = (with_pstate (fst (do_ready s j i p)) q, snd (do_ready s j i p)).
Proof. exact ready_ignores_pool_state. Qed.
Print Assumptions C07_results_kept_after_close.

Theorem C07_acks_kept_after_close : forall s q j i p,
    do_ack (with_pstate s q) j i p = (with_pstate (fst (do_ack s j i p)) q, snd (do_ack s j i p)).
Proof. exact ack_ignores_pool_state. Qed.
Print Assumptions C07_acks_kept_after_close.

Theorem C07_close_effect : forall s,
    pstate s = 0 ->
    fst (step s EClose) = with_sem (with_pstate (with_sigs s []) 1) (LaxSem.clear (sem s))
    /\ LaxSem.value (sem (fst (step s EClose))) = Z.max (LaxSem.value (sem s)) (LaxSem.bound (sem s)).
Proof. exact close_effect. Qed.
Print Assumptions C07_close_effect.

(* outcomes that were observable before close() are the same afterwards, whatever follows *)
Theorem C07_outcomes_survive : forall c tr tr' j x,
    get_job (run c tr) j = Some x -> kind x = KApply -> ready x = true ->
    exists y, get_job (run c (tr ++ EClose :: tr')) j = Some y /\ ready y = true /\ value y = value x
              /\ cb_succ y = cb_succ x /\ cb_err y = cb_err x.
Proof. intros c tr tr' j x. exact (single_assignment c tr (EClose :: tr') j x). Qed.
Print Assumptions C07_outcomes_survive.

Theorem C07_apply_result_credits_owner : forall s x p,
    kind x = KApply -> wp x = [p] -> in_pool s p = true ->
    bump_counter s x = set_proc s p (fun q => mkproc (pid q) (widx q) (pexit q) (controlled q) (jterm q) (counter q + 1)).
Proof. exact apply_result_credits_owner. Qed.
Print Assumptions C07_apply_result_credits_owner.

(* every submit path starts with the pool-state guard
   (facts computed from the AST of /repo/billiard/pool.py on this run; see translate/kernels/poolshape.py) *)
Theorem C07_code_shape :
  G_pool_shape.apply_refuses_unless_run = true /\
  G_pool_shape.map_refuses_unless_run = true /\
  G_pool_shape.imap_refuses_unless_run = true /\
  G_pool_shape.imapu_refuses_unless_run = true.
Proof. repeat split; reflexivity. Qed.
Print Assumptions C07_code_shape.

Definition c07_cfg := mkcfg 2 None None None None 1 true false.
Definition c07_tr : list event :=
  [EApply None None None None; EApply None None None None; EAck 0 None 0; EClose;
   EApply None None None None; EMap 3 1; EReady 0 None true 5; EAck 1 None 1; EReady 1 None false 6].
(* close() arriving in the middle of a supervision pass (called from the start-up hook of the
   (k+1)-th replacement worker): the pass starts no further worker -- at most k+1 in all -- and
   leaves the pool closed.  A worker started after close() would never be sent a sentinel and
   join() would wait for it for ever. *)
Theorem C07_no_worker_started_after_close : forall s k,
    (Z.to_nat (nprocs (fst (join_exited s)) - Z.of_nat (length (wlist (fst (join_exited s))))) > k)%nat ->
    (length (procs (fst (do_tick_close s k))) <= length (procs s) + S k)%nat.
Proof. exact tick_close_starts_at_most. Qed.
Print Assumptions C07_no_worker_started_after_close.

Theorem C07_pass_with_close_leaves_pool_closed : forall s k s',
    do_tick_close s k = (s', RNone) ->
    (Z.to_nat (nprocs (fst (join_exited s)) - Z.of_nat (length (wlist (fst (join_exited s))))) > k)%nat ->
    pstate s' <> 0.
Proof. exact tick_close_closes. Qed.
Print Assumptions C07_pass_with_close_leaves_pool_closed.

(* the drain half, for the closed system in which nothing goes wrong (Model/PoolSys.v, see
   Props/C01.v): the client may call close() at ANY point of ANY schedule; every maximal
   schedule then ends, within 6 n + 1 steps, in a closed pool in which every job accepted before
   close() is resolved with its own result (callback once), calls made after it created nothing,
   and nothing is left in the task queue, the pipes or a worker.  (Worker exit on the sentinel,
   reaping and thread shutdown during join() are runtime behaviour: real-pool scenarios only.) *)
Theorem C07_every_job_before_close_resolves : forall c n bd sched y,
    1 <= c_n c -> srun (sinit_bad c n bd) sched = Some y -> (forall a, sys_step y a = None) ->
    ((forall j, 0 <= j < Z.of_nat (length (jobs (par y))) ->
        exists x, get_job (par y) j = Some x /\ ready x = true
                  /\ value x = Some (outcome_of (bad y) j)
                  /\ cb_succ x = (if task_ok (bad y) j then 1 else 0)
                  /\ cb_err x = (if task_ok (bad y) j then 0 else 1))
     /\ todo y = 0%nat /\ taskq y = [] /\ inq y = [] /\ outq y = [] /\ somes (wk y) = [])
    /\ pstate (par y) = 1 /\ (length (jobs (par y)) <= n)%nat /\ (length sched <= 6 * n + 1)%nat.
Proof. exact every_maximal_schedule_completes. Qed.
Print Assumptions C07_every_job_before_close_resolves.

(* ---- not satisfied by the pinned tree (known findings C07:queued-jobs-dropped-after-close and
   C07:result-credited-to-other-worker): jobs still queued at close() are lost with the last
   recycled worker; the counter a worker waits on before exiting is credited to the first owner
   of a multi-part job *)
Theorem C07_every_job_submitted_before_close_resolves_refuted :
  exists c tr,
    wlist (run c tr) = [] /\ nprocs (run c tr) = 2
    /\ length (filter (fun x => negb (ready x)) (jobs (run c tr))) = 3%nat
    /\ wlist (fst (step (run c tr) ETick)) = []
    /\ pstate (run c tr) = 1.
Proof. exact no_replacement_after_close. Qed.
Print Assumptions C07_every_job_submitted_before_close_resolves_refuted.

Theorem C07_result_credited_to_its_sender_refuted :
  exists c tr,
    map (fun q => (pid q, counter q)) (procs (run c tr)) = [(0, 1); (1, 0)]
    /\ (exists x, get_job (run c tr) 0 = Some x /\ cp x = [Some 0; Some 1]).
Proof. exact result_credited_to_other_worker. Qed.
Print Assumptions C07_result_credited_to_its_sender_refuted.

Example C07_witness :
  let s := run c07_cfg c07_tr in
  (pstate s, length (jobs s), map (fun x => (ready x, value x)) (jobs s), map counter (procs s))
  = (1, 2%nat, [(true, Some (PValue 5)); (true, Some (PExc 6))], [1; 1]).
Proof. vm_compute. reflexivity. Qed.

(* the parent-side functions of billiard/pool.py these theorems are about are, on this run, the very
   text the hand-written model was read against and is validated against by the correspondence
   (digests of their ASTs, translate/kernels/poolpins.py): any edit of one of them breaks this
   obligation and starts the deeper search for a failing history *)
Theorem C07_modelled_code_is_the_validated_text : G_pool_pins.modelled_code_of_C07 = true.
Proof. reflexivity. Qed.
Print Assumptions C07_modelled_code_is_the_validated_text.
