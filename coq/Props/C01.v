(* C01 -- every submitted job resolves exactly once, with its own outcome.
   Statements only; proofs in Proofs/PoolJobs.v PoolInv.v PoolCor.v.
   [run c tr] is the state of the pool model (Model/Pool.v) after ANY history [tr]
   of worker messages (from any pid, late, duplicate, stale), worker exits with any
   status, supervision passes, timeout scans, clock advances, put failures and user
   calls, from any configuration [c].  The model is tied to /repo by the
   correspondence check (props/C01.py, harness/pool_driver.py). *)
From Coq Require Import ZArith List Bool.
From BV Require Import Lib.Cases Model.LaxSem Model.Restart Model.Pool
     Proofs.PoolJobs Proofs.PoolInv Proofs.PoolCor.
From BV Require Import Proofs.PoolHist.
From BV Require Import Model.PoolSys Proofs.PoolSysProofs.
From BV Require Gen.G_pool_shape.
From BV Require Gen.G_pool_pins.
From BV Require Model.Pool Model.LaxSem Proofs.PoolTick Model.PoolCrash Proofs.PoolCrashProofs.
Import ListNotations.
Open Scope Z_scope.

Theorem C01_single_assignment : forall c tr tr' j x,
    get_job (run c tr) j = Some x -> kind x = KApply -> ready x = true ->
    exists y, get_job (run c (tr ++ tr')) j = Some y /\ ready y = true /\ value y = value x
              /\ cb_succ y = cb_succ x /\ cb_err y = cb_err x.
Proof. exact single_assignment. Qed.
Print Assumptions C01_single_assignment.

Theorem C01_callbacks_at_most_once : forall c tr j x,
    get_job (run c tr) j = Some x -> kind x = KApply ->
    0 <= cb_succ x /\ 0 <= cb_err x /\ cb_succ x + cb_err x <= 1
    /\ (ready x = false -> cb_succ x + cb_err x = 0 /\ value x = None)
    /\ (ready x = true -> cb_succ x + cb_err x = 1 /\ value x <> None).
Proof. exact callbacks_at_most_once. Qed.
Print Assumptions C01_callbacks_at_most_once.

Theorem C01_attribution : forall c tr j x,
    get_job (run c tr) j = Some x -> kind x = KApply ->
    (forall st j', value x = Some (PLost st j') -> j' = j /\ exists t, worker_lost x = Some (t, st))
    /\ (forall l, value x = Some (PTimeLimit l) -> l = hard x).
Proof. exact attribution. Qed.
Print Assumptions C01_attribution.

Theorem C01_every_kind_monotone : forall c tr tr' j x,
    get_job (run c tr) j = Some x ->
    exists y, get_job (run c (tr ++ tr')) j = Some y
              /\ kind y = kind x
              /\ (ready x = true -> ready y = true)
              /\ (incache x = false -> incache y = false)
              /\ (forall m, worker_lost x = Some m -> worker_lost y = Some m)
              /\ soft y = soft x /\ hard y = hard x /\ lost_timeout y = lost_timeout x.
Proof. exact job_monotone. Qed.
Print Assumptions C01_every_kind_monotone.

Theorem C01_stale_ready_ignored : forall s j i p,
    cached s j = None -> do_ready s j i p = (s, RNone).
Proof. exact stale_ready_ignored. Qed.
Print Assumptions C01_stale_ready_ignored.

Theorem C01_stale_ack_ignored : forall s j i p,
    cached s j = None -> do_ack s j i p = (with_rst s (Restart.ack (rst s)), RNone).
Proof. exact stale_ack_ignored. Qed.
Print Assumptions C01_stale_ack_ignored.

Theorem C01_resolved_accepted_left_cache : forall c tr j x,
    get_job (run c tr) j = Some x -> kind x = KApply -> ready x = true -> accepted x = true ->
    cached (run c tr) j = None.
Proof. exact resolved_accepted_uncached. Qed.
Print Assumptions C01_resolved_accepted_left_cache.

Theorem C01_result_touches_only_its_job : forall s j i p j',
    j <> j' -> 0 <= j' -> get_job (fst (do_ready s j i p)) j' = get_job s j'.
Proof. exact ready_frame. Qed.
Print Assumptions C01_result_touches_only_its_job.

(* the decision points the model copies for C01 are written in the code as the model assumes: a job keeps its first outcome; a put failure fails its own job and the handler goes on; Terminated only after terminate_job
   (facts computed from the AST of /repo/billiard/pool.py on this run; see translate/kernels/poolshape.py) *)
Theorem C01_code_shape :
  G_pool_shape.apply_set_first_writer_wins = true /\
  G_pool_shape.put_failure_fails_own_job = true /\
  G_pool_shape.put_failure_goes_on_with_next_task = true /\
  G_pool_shape.terminated_only_for_terminate_job = true /\
  G_pool_shape.gone_owner_test = true.
Proof. repeat split; reflexivity. Qed.
Print Assumptions C01_code_shape.

(* every cause of resolution does resolve (the remaining causes are in the property files of
   their mechanisms: C04_deadline / C04_loss_reported_in_any_continuation for a lost worker,
   C05_fails_on_time for the hard limit, C04_terminate_job for terminate_job): the worker's
   result, and a task that could not be sent *)
Theorem C01_result_resolves : forall s j x (ok : bool) tag i,
    0 <= j -> cached s j = Some x -> kind x = KApply -> ready x = false ->
    exists y, get_job (fst (do_ready s j i (if ok then PValue tag else PExc tag))) j = Some y
              /\ ready y = true /\ value y = Some (if ok then PValue tag else PExc tag).
Proof. exact result_resolves. Qed.
Print Assumptions C01_result_resolves.

Theorem C01_put_failure_resolves : forall s j x i k,
    0 <= j -> cached s j = Some x -> kind x = KApply -> ready x = false ->
    exists y, get_job (fst (fst (feed_tasks 1 i j k (Some k) false s))) j = Some y
              /\ ready y = true /\ value y = Some PPutFailed /\ incache y = false
              /\ sem (fst (fst (feed_tasks 1 i j k (Some k) false s))) = LaxSem.release (sem s).
Proof. exact put_failure_resolves. Qed.
Print Assumptions C01_put_failure_resolves.

(* ---- map_async handles (every history; the length of a real input is never negative):
   callbacks together at most once, nothing before resolution, a resolved handle has left the
   cache (so late results cannot touch it), and its outcome and callback counts are the same in
   every continuation; an empty map is resolved from the start and runs no callback *)
Theorem C01_map_callbacks_at_most_once : forall c tr j x,
    get_job (run c tr) j = Some x -> kind x = KMap -> 0 <= mlen x ->
    0 <= cb_succ x /\ 0 <= cb_err x /\ cb_succ x + cb_err x <= 1
    /\ (ready x = false -> cb_succ x = 0 /\ cb_err x = 0 /\ value x = None)
    /\ (ready x = true -> incache x = false).
Proof. exact map_callbacks_at_most_once. Qed.
Print Assumptions C01_map_callbacks_at_most_once.

Theorem C01_map_outcome_stable : forall c tr tr' j x,
    get_job (run c tr) j = Some x -> kind x = KMap -> 0 <= mlen x -> ready x = true ->
    exists y, get_job (run c (tr ++ tr')) j = Some y /\ kind y = KMap /\ ready y = true
              /\ value y = value x /\ cb_succ y = cb_succ x /\ cb_err y = cb_err x.
Proof. exact map_outcome_stable. Qed.
Print Assumptions C01_map_outcome_stable.

Theorem C01_empty_map : forall c tr j x,
    get_job (run c tr) j = Some x -> kind x = KMap -> mlen x = 0 ->
    ready x = true /\ incache x = false /\ value x = None /\ cb_succ x = 0 /\ cb_err x = 0.
Proof. exact empty_map. Qed.
Print Assumptions C01_empty_map.

(* ---- completion (the liveness half), for the closed system in which nothing goes wrong:
   Model/PoolSys.v composes the pool model with a client making [n] apply_async calls (and
   calling close() at any moment, or never), the task queue and pipe, workers that acknowledge
   and then answer each task, and the result pipe, all FIFO; no worker dies, no limit fires.
   For EVERY schedule of that system: it is at most 6 n + 1 steps long; while work remains a
   step other than close() is enabled (no deadlock, in particular not on the slot semaphore);
   and where nothing but close() can move any more, every job is resolved, with its own result,
   ([outcome_of]: the value its task returns, or the exception its task raises, for any set
   [bad] of raising tasks), exactly one of its success / error callbacks run exactly once, and
   nothing is left in any queue -- all n of them if close() was not called, else the ones accepted before it.
   (With failures, resolution is by the theorems above and C04/C05; they are about the open
   model, to which the parent of every reachable closed-system state belongs:
   C01_closed_system_is_the_open_model.) *)
Theorem C01_completion_when_nothing_fails : forall c n y,
    1 <= c_n c -> sreach c n y -> (forall a, a <> SClose -> sys_step y a = None) ->
    ((forall j, 0 <= j < Z.of_nat (length (jobs (par y))) ->
        exists x, get_job (par y) j = Some x /\ ready x = true
                  /\ value x = Some (outcome_of (bad y) j)
                  /\ cb_succ x = (if task_ok (bad y) j then 1 else 0)
                  /\ cb_err x = (if task_ok (bad y) j then 0 else 1))
     /\ todo y = 0%nat /\ taskq y = [] /\ inq y = [] /\ outq y = [] /\ somes (wk y) = [])
    /\ (length (jobs (par y)) <= n)%nat
    /\ (pstate (par y) = 0 ->
          length (jobs (par y)) = n
          /\ (putlocks (par y) = true -> LaxSem.value (sem (par y)) = LaxSem.bound (sem (par y)))).
Proof. exact completion. Qed.
Print Assumptions C01_completion_when_nothing_fails.

Theorem C01_every_schedule_is_short : forall c n bd sched y,
    srun (sinit_bad c n bd) sched = Some y -> (length sched <= 6 * n + 1)%nat.
Proof. exact every_schedule_is_short. Qed.
Print Assumptions C01_every_schedule_is_short.

Theorem C01_never_stuck_before_the_end : forall c n y,
    1 <= c_n c -> sreach c n y -> (0 < work y)%nat ->
    exists a y', a <> SClose /\ sys_step y a = Some y'.
Proof. intros c n y Hn Hr. apply (progress n). exact (sreach_inv c n y Hn Hr). Qed.
Print Assumptions C01_never_stuck_before_the_end.

Theorem C01_every_step_makes_progress : forall y a y',
    sys_step y a = Some y' -> (measure y' < measure y)%nat.
Proof. exact step_decreases. Qed.
Print Assumptions C01_every_step_makes_progress.

Theorem C01_no_state_is_doomed : forall c n, 1 <= c_n c -> forall y, sreach c n y ->
    exists sched y', srun y sched = Some y' /\ ~ In SClose sched /\ work y' = 0%nat /\ all_resolved y'.
Proof. exact can_always_complete. Qed.
Print Assumptions C01_no_state_is_doomed.

Theorem C01_closed_system_is_the_open_model : forall c n y,
    sreach c n y -> exists tr, par y = run c tr.
Proof. exact sreach_is_run. Qed.
Print Assumptions C01_closed_system_is_the_open_model.

Example C01_closed_system_witness :
  let c := mkcfg 2 None None None None 1 true false in
  let r := auto_run 100 [0;1;2;3;4;5;6;0;3;5;1;2;4;6;0;1;2;3;4;5;6;0;3;5;1;2;4;6]%nat (sinit c 4) in
  srun (sinit c 4) (snd r) = Some (fst r) /\ measure (fst r) = 0%nat
  /\ map (fun x => (ready x, value x)) (jobs (par (fst r)))
     = [(true, Some (PValue 0)); (true, Some (PValue 1))]
  /\ In SClose (snd r).
Proof. exact closed_system_runs. Qed.

Example C01_closed_system_witness_with_a_raising_task :
  let c := mkcfg 2 None None None None 1 false false in
  let r := auto_run 100 [1;2;4;5;1;2;4;5;1;2;4;5;1;2;4;5;1;2;4;5;1;2;4;5;1;2;4;5]%nat (sinit_bad c 3 [1]) in
  srun (sinit_bad c 3 [1]) (snd r) = Some (fst r) /\ work (fst r) = 0%nat
  /\ map (fun x => (value x, cb_succ x, cb_err x)) (jobs (par (fst r)))
     = [(Some (PValue 0), 1, 0); (Some (PExc 1), 0, 1); (Some (PValue 2), 1, 0)].
Proof. exact closed_system_with_a_raising_task. Qed.

(* non-vacuity: a history in which a job is resolved by a time limit, its late result and
   a duplicate are ignored, and a second job is lost with its worker *)
Definition c01_cfg := mkcfg 2 None (Some 5) None (Some 3) 1 true false.
Definition c01_tr : list event :=
  [EApply None None None None; EAck 0 None 0; EAdvance 6; EScan true;
   EReady 0 None true 7; EReady 0 None true 8;
   EApply None None None None; EAck 1 None 1; EExit 1 (-11); ETick; EAdvance 11; ETick].
Example C01_witness :
  map (fun x => (ready x, value x, cb_succ x + cb_err x)) (jobs (run c01_cfg c01_tr))
  = [(true, Some (PTimeLimit (Some 5)), 1); (true, Some (PLost (-11) 1), 1)].
Proof. vm_compute. reflexivity. Qed.

(* the parent-side functions of billiard/pool.py these theorems are about are, on this run, the very
   text the hand-written model was read against and is validated against by the correspondence
   (digests of their ASTs, translate/kernels/poolpins.py): any edit of one of them breaks this
   obligation and starts the deeper search for a failing history *)
Theorem C01_modelled_code_is_the_validated_text : G_pool_pins.modelled_code_of_C01 = true.
Proof. reflexivity. Qed.
Print Assumptions C01_modelled_code_is_the_validated_text.

(* ---- the closed system with crashes (Model/PoolCrash.v): every resolved job carries its OWN result,
   or the loss of its OWN worker; an unresolved job is in exactly one place; from every reachable state
   an end with every job resolved is reachable *)
Theorem C01_crash_resolved_own_result_or_own_loss : forall c n,
    1 <= Pool.c_n c -> Pool.c_maxr c = None -> forall y k x,
    PoolCrashProofs.creach c n y -> Pool.get_job (PoolCrash.cpar y) k = Some x -> Pool.ready x = true ->
    PoolCrashProofs.resolved_ok y k x.
Proof. exact PoolCrashProofs.resolved_own_result_or_lost. Qed.
Print Assumptions C01_crash_resolved_own_result_or_own_loss.

Theorem C01_crash_no_state_is_doomed : forall c n y,
    1 <= Pool.c_n c -> Pool.c_maxr c = None -> PoolCrashProofs.creach c n y ->
    exists sched y', PoolCrash.crun y sched = Some y' /\ PoolCrash.no_early sched /\ PoolCrash.no_kill sched
                     /\ PoolCrash.all_useful y sched /\ PoolCrash.cwork y' = 0%nat
                     /\ PoolCrashProofs.call_complete n y'.
Proof. exact PoolCrashProofs.creach_can_always_complete. Qed.
Print Assumptions C01_crash_no_state_is_doomed.
