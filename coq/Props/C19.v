(* C19 -- process exit status and liveness are reported faithfully.
   Only statements here; proofs live in Proofs/ExitStatusProofs.v (kernels = model, decode,
   codes), Proofs/ExitStatusWorld.v (cache / liveness / children set, all histories) and
   Proofs/ExitStatusBridge.v (wait over the oracle = the generated wait; the timed-join hang;
   provenance of a cached code over whole histories).
   Gen.K_exitstatus and Gen.K_procguard are regenerated from /repo/billiard on every run. *)
From Coq Require Import ZArith List Bool.
From BV Require Import Lib.PyVal Lib.ExitStatusWait Gen.K_exitstatus Gen.K_procguard
     Model.ExitStatus Proofs.ExitStatusProofs Proofs.ExitStatusWorld Proofs.ExitStatusBridge.
Import ListNotations.
Open Scope Z_scope.

(* ---------------------------------------------------------------- the code is the model *)
Theorem C19_code_poll : forall p pid sts,
    K_exitstatus.poll_ans (emb p) (PInt pid) (PInt sts) = emb_res (ExitStatus.poll_ans p pid sts).
Proof. exact gen_poll_ans. Qed.
Print Assumptions C19_code_poll.

Theorem C19_code_wait : forall p t ready a_n a_b,
    K_exitstatus.wait (emb p) (optv t) (PBool ready)
                      (a_err a_n) (a_pid a_n) (a_sts a_n) (a_err a_b) (a_pid a_b) (a_sts a_b)
    = emb_res (wait1 p t ready a_n a_b).
Proof. exact gen_wait. Qed.
Print Assumptions C19_code_wait.

Theorem C19_code_forkserver_poll : forall p (nb : bool) rb rn rd,
    K_exitstatus.fs_poll (emb p) (PInt (if nb then 1 else 0)) (PBool rb) (PBool rn)
                         (PBool (match rd with Some _ => true | None => false end))
                         (PInt (match rd with Some n => n | None => 0 end))
    = emb_res (fs_poll1 p nb rb rn rd).
Proof. exact gen_fs_poll. Qed.
Print Assumptions C19_code_forkserver_poll.

Theorem C19_code_sysexit : forall s args,
    exists v, K_exitstatus.sysexit_code s (PInt (Z.of_nat (length args)))
                (PBool (match argv_int (arg0 args) with Some _ => true | None => false end))
                (PBool (argv_is_str (arg0 args))) (argv_pv (arg0 args)) = Ok v s
              /\ as_int v = Some (ExitStatus.sysexit_code args).
Proof. exact gen_sysexit_code. Qed.
Print Assumptions C19_code_sysexit.

Theorem C19_code_return_raise : forall s,
    K_exitstatus.return_code s = Ok (PInt 0) s /\ K_exitstatus.raise_code s = Ok (PInt 1) s.
Proof. intros s. split; [apply gen_return_code|apply gen_raise_code]. Qed.
Print Assumptions C19_code_return_raise.

Theorem C19_code_human_status : forall s st z,
    K_exitstatus.human_is_signal s (optv st) = Ok (PBool (fst (human st))) s /\
    K_exitstatus.human_signum s (PInt z) = Ok (PInt (- z)) s /\
    K_exitstatus.human_exitnum s (optv st) = Ok (optv st) s.
Proof. intros. split; [apply gen_human_is_signal|split; [apply gen_human_signum|apply gen_human_exitnum]]. Qed.
Print Assumptions C19_code_human_status.

Theorem C19_code_start : forall g cur sen,
    K_procguard.start (gemb g sen) (PInt cur) (PInt 1) =
    (let '(g', raised) := start_g g cur in
     if raised then Exc AssertionError (gemb g sen) else Ok PNone (gemb g' (PInt 0))).
Proof. exact gen_start. Qed.
Print Assumptions C19_code_start.

Theorem C19_code_join : forall g cur sen tmo wres,
    K_procguard.join (gemb g sen) tmo (PInt cur) (optv wres) =
    (let '(g', raised) := join_g g cur wres in
     if raised then Exc AssertionError (gemb g sen) else Ok PNone (gemb g' sen)).
Proof. exact gen_join. Qed.
Print Assumptions C19_code_join.

Theorem C19_code_is_alive : forall g cur sen rc_after,
    K_procguard.is_alive (gemb g sen) (PInt cur) (PBool false) (optv rc_after) =
    match alive_g g cur rc_after with
    | Some b => Ok (PBool b) (gemb g sen)
    | None => Exc AssertionError (gemb g sen)
    end.
Proof. exact gen_is_alive. Qed.
Print Assumptions C19_code_is_alive.

Theorem C19_code_exitcode : forall g sen pres,
    K_procguard.exitcode (gemb g sen) (optv pres) = Ok (optv (code_g g pres)) (gemb g sen).
Proof. exact gen_exitcode. Qed.
Print Assumptions C19_code_exitcode.

(* the multi-object model acts on the addressed object exactly like that single-object view *)
Theorem C19_step_is_guard_start : forall w i g w' r,
    proj w i = Some g -> step w (OStart i) = (w', r) ->
    if snd (start_g g (cur w)) then w' = w /\ r = OAssert
    else r = ONone -> proj w' i = Some (fst (start_g g (cur w))).
Proof. exact step_start_guard. Qed.
Print Assumptions C19_step_is_guard_start.

Theorem C19_step_is_guard_join : forall w i t g w' r,
    proj w i = Some g -> step w (OJoin i t) = (w', r) ->
    if snd (join_g g (cur w) (rc_of w' i)) then w' = w /\ r = OAssert
    else r = ONone -> proj w' i = Some (fst (join_g g (cur w) (rc_of w' i))).
Proof. exact step_join_guard. Qed.
Print Assumptions C19_step_is_guard_join.

Theorem C19_step_is_guard_alive : forall w i g w' r,
    proj w i = Some g -> step w (OAlive i) = (w', r) ->
    match alive_g g (cur w) (rc_of w' i) with
    | None => w' = w /\ r = OAssert
    | Some b => r = OBool b \/ r = OAssert \/ r = OHang
    end.
Proof. exact step_alive_guard. Qed.
Print Assumptions C19_step_is_guard_alive.

Theorem C19_step_is_guard_exitcode : forall w i g w' r,
    proj w i = Some g -> step w (OCode i) = (w', r) ->
    r = OAssert \/ r = OHang \/
    r = match code_g g (rc_of w' i) with Some c => OInt c | None => ONone end.
Proof. exact step_code_guard. Qed.
Print Assumptions C19_step_is_guard_exitcode.

(* ---------------------------------------------------------------- C19_codes *)
Theorem C19_codes_return : forall m, seen m PReturn = Some 0.
Proof. exact seen_return. Qed.
Print Assumptions C19_codes_return.

Theorem C19_codes_raise : forall m, seen m PRaise = Some 1.
Proof. exact seen_raise. Qed.
Print Assumptions C19_codes_raise.

(* sys.exit(n) reports n: every start method, every 0 <= n <= 255, whatever follows n in args *)
Theorem C19_codes_sysexit : forall m n rest,
    0 <= n <= 255 -> seen m (PSysExit (VInt n :: rest)) = Some n.
Proof. intros m n rest H. apply (seen_sysexit_small m _ n (exits_with_int n rest) H). Qed.
Print Assumptions C19_codes_sysexit.

Theorem C19_codes_sysexit_any_int_fork : forall n rest,
    -2147483648 <= n < 2147483648 -> seen Fork (PSysExit (VInt n :: rest)) = Some (n mod 256).
Proof. intros n rest H. apply (seen_sysexit_fork _ n (exits_with_int n rest) H). Qed.
Print Assumptions C19_codes_sysexit_any_int_fork.

Theorem C19_codes_sysexit_any_int_spawn : forall n rest,
    seen Spawn (PSysExit (VInt n :: rest)) =
    Some (if in_range (-9223372036854775808) n 9223372036854775808 then n mod 256 else 255).
Proof. intros n rest. apply (seen_sysexit_spawn _ n (exits_with_int n rest)). Qed.
Print Assumptions C19_codes_sysexit_any_int_spawn.

Theorem C19_codes_sysexit_any_int_forkserver : forall n rest,
    seen Forkserver (PSysExit (VInt n :: rest)) =
    Some (if in_range 0 n 18446744073709551616 then n else 255).
Proof. intros n rest. apply (seen_sysexit_forkserver _ n (exits_with_int n rest)). Qed.
Print Assumptions C19_codes_sysexit_any_int_forkserver.

(* killed by signal s: -s under fork and spawn (core flag or not), 255 under forkserver *)
Theorem C19_codes_signal : forall m s c, 1 <= s <= 126 ->
    seen m (PSignal s c) = Some (match m with Forkserver => 255 | _ => - s end).
Proof. exact seen_signal. Qed.
Print Assumptions C19_codes_signal.

Theorem C19_codes_signal_nonzero : forall m s c v, 1 <= s <= 126 ->
    seen m (PSignal s c) = Some v -> v <> 0 /\ (m <> Forkserver -> v < 0).
Proof. exact seen_signal_nonzero. Qed.
Print Assumptions C19_codes_signal_nonzero.

(* observation D18, as the code behaves (outside the property statement) *)
Theorem C19_codes_sysexit_without_int : forall m,
    seen m (PSysExit []) = Some 1 /\ seen m (PSysExit [VNone]) = Some 1 /\
    seen m (PSysExit [VStr]) = Some 0 /\ seen m (PSysExit [VOther]) = Some 1 /\
    seen m (PSysExit [VBool true]) = Some 1 /\ seen m (PSysExit [VBool false]) = Some 0.
Proof. exact seen_sysexit_observed. Qed.
Print Assumptions C19_codes_sysexit_without_int.

Theorem C19_human_status_of_signal : forall m s c, m <> Forkserver -> 1 <= s <= 126 ->
    human (seen m (PSignal s c)) = (true, Some s).
Proof. exact human_of_seen. Qed.
Print Assumptions C19_human_status_of_signal.

(* ---------------------------------------------------------------- C19_decode_total *)
Theorem C19_decode_exit : forall n, decode (os_status_exit n) = DOk (n mod 256).
Proof. exact decode_exit. Qed.
Print Assumptions C19_decode_exit.

Theorem C19_decode_signal : forall s c, 1 <= s <= 126 -> decode (os_status_sig s c) = DOk (- s).
Proof. exact decode_signal. Qed.
Print Assumptions C19_decode_signal.

(* every 16-bit status (complete sweep): defined unless "stopped", and then a genuine inverse *)
Theorem C19_decode_total : forall sts, 0 <= sts < 65536 ->
    (decode sts = DAssert <-> sts mod 128 = 127).
Proof. exact decode_total. Qed.
Print Assumptions C19_decode_total.

Theorem C19_decode_inverse : forall sts v, 0 <= sts < 65536 -> decode sts = DOk v ->
    (0 <= v <= 255 /\ sts mod 128 = 0 /\ sts / 256 = v)
    \/ (-126 <= v <= -1 /\ sts mod 128 = - v).
Proof. exact decode_inverse. Qed.
Print Assumptions C19_decode_inverse.

(* ---------------------------------------------------------------- C19_cache *)
Theorem C19_cache_constant : forall ops w i c,
    rc_of w i = Some c -> rc_of (fst (run w ops)) i = Some c.
Proof. exact cache_constant. Qed.
Print Assumptions C19_cache_constant.

Theorem C19_cached_exitcode_silent : forall w i c,
    rc_of w i = Some c -> step w (OCode i) = (w, OInt c).
Proof. exact cached_code. Qed.
Print Assumptions C19_cached_exitcode_silent.

Theorem C19_cached_is_alive_silent : forall w i c,
    rc_of w i = Some c -> own w i = true -> step w (OAlive i) = (w, OBool false).
Proof. exact cached_alive. Qed.
Print Assumptions C19_cached_is_alive_silent.

Theorem C19_cached_join_silent : forall w i c t,
    rc_of w i = Some c -> own w i = true ->
    step w (OJoin i t) = (mk_world (cur w) (procs w) (discard (children w) i), ONone).
Proof. exact cached_join. Qed.
Print Assumptions C19_cached_join_silent.

Theorem C19_exitcode_is_cache : forall w i w' r, step w (OCode i) = (w', r) ->
    match r with
    | ONone => rc_of w' i = None
    | OInt c => rc_of w' i = Some c
    | OAssert | OHang => rc_of w' i = None
    | OBad => nth_error (procs w) i = None
    | _ => False
    end.
Proof. exact code_reflects. Qed.
Print Assumptions C19_exitcode_is_cache.

Theorem C19_is_alive_is_cache : forall w i w' b, step w (OAlive i) = (w', OBool b) ->
    b = started w' i && match rc_of w' i with None => true | Some _ => false end.
Proof. exact alive_reflects. Qed.
Print Assumptions C19_is_alive_is_cache.

Theorem C19_code_only_from_waitpid : forall w i w' c,
    step w (OCode i) = (w', OInt c) -> rc_of w i = None ->
    exists pr p rest sts,
      nth_error (procs w) i = Some pr /\ pop pr = Some p /\
      waitpid_loop false (pre (orc pr)) (fin (orc pr)) = (rest, Some (AAns (ppid p) sts)) /\
      decode sts = DOk c.
Proof. exact code_provenance. Qed.
Print Assumptions C19_code_only_from_waitpid.

Theorem C19_exitcode_end_to_end : forall m pth w i pr pp sts rest v,
    nth_error (procs w) i = Some pr -> pop pr = Some pp -> rc pp = None ->
    wait_status (ending_of m pth) = Some sts ->
    waitpid_loop false (pre (orc pr)) (fin (orc pr)) = (rest, Some (AAns (ppid pp) sts)) ->
    seen m pth = Some v ->
    snd (step w (OCode i)) = OInt v /\ rc_of (fst (step w (OCode i))) i = Some v.
Proof. exact exitcode_end_to_end. Qed.
Print Assumptions C19_exitcode_end_to_end.

Theorem C19_join_children : forall w i t w', step w (OJoin i t) = (w', ONone) ->
    (rc_of w' i <> None -> ~ In i (children w')) /\
    (rc_of w' i = None -> children w' = children w).
Proof. exact join_children. Qed.
Print Assumptions C19_join_children.

Theorem C19_timed_join_not_ready_no_waitpid : forall t pr p l,
    pop pr = Some p -> rc p = None -> rdy (orc pr) = false :: l ->
    wait_proc (Some t) pr p =
    (mk_proc (creator pr) (pop pr) (mk_or (pre (orc pr)) (fin (orc pr)) l), RVal None).
Proof. exact timed_wait_not_ready. Qed.
Print Assumptions C19_timed_join_not_ready_no_waitpid.

Theorem C19_active_children_running : forall w w' l, step w OActive = (w', OList l) ->
    l = sort_nat (children w') /\ incl (children w') (children w) /\
    forall j, In j (children w') -> rc_of w' j = None.
Proof. exact active_children_running. Qed.
Print Assumptions C19_active_children_running.

Theorem C19_children_are_started : forall ops cur0 specs,
    children_started (fst (run (init_world cur0 specs) ops)).
Proof. exact children_are_started. Qed.
Print Assumptions C19_children_are_started.

(* ---------------------------------------------------------------- C19_start_once *)
Theorem C19_start_twice_refused : forall w i,
    started w i = true -> step w (OStart i) = (w, OAssert).
Proof. exact start_twice_refused. Qed.
Print Assumptions C19_start_twice_refused.

Theorem C19_start_foreign_refused : forall w i pr,
    nth_error (procs w) i = Some pr -> creator pr <> cur w -> step w (OStart i) = (w, OAssert).
Proof. exact start_foreign_refused. Qed.
Print Assumptions C19_start_foreign_refused.

Theorem C19_started_for_ever : forall ops w i,
    started w i = true -> started (fst (run w ops)) i = true.
Proof. exact started_for_ever. Qed.
Print Assumptions C19_started_for_ever.

Theorem C19_join_is_alive_foreign_refused : forall w i pr t,
    nth_error (procs w) i = Some pr -> creator pr <> cur w ->
    step w (OJoin i t) = (w, OAssert) /\ step w (OAlive i) = (w, OAssert).
Proof. exact join_alive_foreign_refused. Qed.
Print Assumptions C19_join_is_alive_foreign_refused.

Theorem C19_start_ok : forall w i w', step w (OStart i) = (w', ONone) ->
    started w i = false /\ own w i = true /\
    started w' i = true /\ rc_of w' i = None /\ In i (children w').
Proof. exact start_ok. Qed.
Print Assumptions C19_start_ok.

(* ---------------------------------------------------------------- audit follow-up *)
(* Popen.wait as `step` uses it (sentinel wait + waitpid retry loop over the oracle) is the
   generated-code-equal wait1 applied to the oracle's answers, whenever the loop returns *)
Theorem C19_wait_over_oracle_is_wait1 : forall t pr p rest a a_other,
    pop pr = Some p ->
    loop_of (negb (wait_flag_nonblocking t)) pr = (rest, Some a) ->
    let a_n := if wait_flag_nonblocking t then a else a_other in
    let a_b := if wait_flag_nonblocking t then a_other else a in
    pop (fst (wait_proc t pr p)) = Some (fst (wait1 p t (ready_of pr) a_n a_b)) /\
    snd (wait_proc t pr p) = snd (wait1 p t (ready_of pr) a_n a_b).
Proof. exact wait_proc_is_wait1. Qed.
Print Assumptions C19_wait_over_oracle_is_wait1.

Theorem C19_wait_over_oracle_is_code : forall t pr p rest a a_other pr' r,
    pop pr = Some p ->
    loop_of (negb (wait_flag_nonblocking t)) pr = (rest, Some a) ->
    wait_proc t pr p = (pr', r) ->
    let a_n := if wait_flag_nonblocking t then a else a_other in
    let a_b := if wait_flag_nonblocking t then a_other else a in
    exists p', pop pr' = Some p' /\
      K_exitstatus.wait (emb p) (optv t) (PBool (ready_of pr))
                        (a_err a_n) (a_pid a_n) (a_sts a_n) (a_err a_b) (a_pid a_b) (a_sts a_b)
      = emb_res (p', r).
Proof. exact wait_proc_is_generated_wait. Qed.
Print Assumptions C19_wait_over_oracle_is_code.

(* ... and it fails to return exactly when it made a blocking waitpid call that the oracle
   never answers; a blocking waitpid is never answered iff the child is never reported *)
Theorem C19_wait_hangs_iff : forall t pr p,
    snd (wait_proc t pr p) = RHang <->
    rc p = None /\ (t = None \/ ready_of pr = true) /\ wait_flag_nonblocking t = false /\
    snd (loop_of true pr) = None.
Proof. exact wait_proc_hang_iff. Qed.
Print Assumptions C19_wait_hangs_iff.

Theorem C19_blocking_waitpid_hangs_iff : forall l f,
    snd (waitpid_loop true l f) = None <-> Forall quiet l /\ exists s, f = AAns 0 s.
Proof. exact blocking_loop_hangs_iff. Qed.
Print Assumptions C19_blocking_waitpid_hangs_iff.

(* "join(timeout) returns within the timeout" is FALSE of the code (known finding
   C19:timed-join-blocks-after-child-closed-sentinel): a timed join blocks iff the sentinel
   was reported ready, the timeout is not 0 and waitpid never reports the child *)
Theorem C19_timed_join_blocks_only_in_waitpid : forall w i t,
    snd (step w (OJoin i (Some t))) = OHang ->
    exists pr p, nth_error (procs w) i = Some pr /\ pop pr = Some p /\ rc p = None /\
                 t <> 0 /\ ready_of pr = true /\ snd (loop_of true pr) = None.
Proof. exact timed_join_blocks_only_in_waitpid. Qed.
Print Assumptions C19_timed_join_blocks_only_in_waitpid.

Theorem C19_timed_join_blocks : forall w i pr p t,
    nth_error (procs w) i = Some pr -> creator pr = cur w -> pop pr = Some p -> rc p = None ->
    t <> 0 -> ready_of pr = true -> snd (loop_of true pr) = None ->
    snd (step w (OJoin i (Some t))) = OHang.
Proof. exact timed_join_blocks. Qed.
Print Assumptions C19_timed_join_blocks.

Theorem C19_timed_join_within_timeout_refuted :
  exists cur0 specs ops i t,
    0 < t /\
    let w := fst (run (init_world cur0 specs) ops) in
    started w i = true /\ rc_of w i = None /\
    snd (step w (OAlive i)) = OBool true /\
    snd (step w (OJoin i (Some t))) = OHang.
Proof. exact timed_join_within_timeout_refuted. Qed.
Print Assumptions C19_timed_join_within_timeout_refuted.

(* provenance of a cached code, over every history from the initial world and whichever
   operation cached it (exitcode, is_alive, join, _cleanup in start / active_children) *)
Theorem C19_exitcode_history_provenance : forall cur0 specs ops i c,
    rc_of (fst (run (init_world cur0 specs) ops)) i = Some c ->
    exists cr pre0 fin0 rdy0 sts,
      nth_error specs i = Some (cr, pre0, fin0, rdy0) /\
      (In (WAns (pid_of i) sts) pre0 \/ fin0 = AAns (pid_of i) sts) /\ decode sts = DOk c.
Proof. exact exitcode_history_provenance. Qed.
Print Assumptions C19_exitcode_history_provenance.

(* exitcode None / is_alive() true until the child has ended, over whole histories *)
Theorem C19_running_child_has_no_code : forall cur0 specs ops i cr pre0 fin0 rdy0,
    nth_error specs i = Some (cr, pre0, fin0, rdy0) -> never_reported i pre0 fin0 ->
    let w := fst (run (init_world cur0 specs) ops) in
    rc_of w i = None /\
    (forall c, snd (step w (OCode i)) <> OInt c) /\
    (started w i = true -> snd (step w (OAlive i)) <> OBool false).
Proof. exact running_child_has_no_code. Qed.
Print Assumptions C19_running_child_has_no_code.

(* ---------------------------------------------------------------- non-vacuity *)
(* one child, pid 1000; waitpid says "not yet" three times, then "killed by SIGTERM with core
   flag", and would afterwards say "exited 3" (never looked at).  History: start, exitcode,
   is_alive, active_children, exitcode, is_alive, exitcode, join, start again. *)
Example C19_witness_history :
  let w0 := init_world 100 [(100, [WAns 0 0; WAns 0 0; WAns 0 0; WAns 1000 (15 + 128)], AAns 1000 768, [])] in
  map fst (snd (run w0 [OStart 0%nat; OCode 0%nat; OAlive 0%nat; OActive; OCode 0%nat; OAlive 0%nat;
                        OCode 0%nat; OJoin 0%nat None; OActive; OStart 0%nat]))
  = [ONone; ONone; OBool true; OList [0%nat]; OInt (-15); OBool false; OInt (-15); ONone; OList [];
     OAssert].
Proof. vm_compute. reflexivity. Qed.

(* hypotheses of C19_exitcode_end_to_end are satisfiable: sys.exit(3) under fork *)
Example C19_witness_end_to_end :
  let w := fst (run (init_world 100 [(100, [], AAns 1000 768, [])]) [OStart 0%nat]) in
  wait_status (ending_of Fork (PSysExit [VInt 3])) = Some 768 /\
  seen Fork (PSysExit [VInt 3]) = Some 3 /\ rc_of w 0%nat = None /\
  step w (OCode 0%nat) =
  (mk_world 100 [mk_proc 100 (Some (mk_popen 1000 (Some 3))) (mk_or [] (AAns 1000 768) [])] [0%nat],
   OInt 3).
Proof. vm_compute. repeat split; reflexivity. Qed.

(* a foreign process (os.getpid() = 200) may not start / join / test the object, but may read
   its exitcode *)
Example C19_witness_foreign :
  let w0 := init_world 100 [(100, [], AAns 1000 0, [])] in
  map fst (snd (run w0 [OStart 0%nat; OSetPid 200; OStart 0%nat; OJoin 0%nat None; OAlive 0%nat;
                        OCode 0%nat]))
  = [ONone; ONone; OAssert; OAssert; OAssert; OInt 0].
Proof. vm_compute. reflexivity. Qed.

(* decode on the stopped status 0x137f raises; on the kernel encodings it inverts *)
Example C19_witness_decode :
  decode 4991 = DAssert /\ decode (os_status_exit 255) = DOk 255 /\
  decode (os_status_sig 9 false) = DOk (-9) /\ decode (os_status_sig 11 true) = DOk (-11).
Proof. vm_compute. repeat split; reflexivity. Qed.

(* the hypotheses of C19_timed_join_blocks hold in a reachable world (the orphaned sentinel),
   those of C19_running_child_has_no_code on a history with a second child that does end,
   and the bridge on a timed join that sees the child end *)
Example C19_witness_orphaned_sentinel :
  let w := fst (run (init_world 100 [(100, [], AAns 0 0, [])]) [OStart 0%nat]) in
  (exists pr p, nth_error (procs w) 0%nat = Some pr /\ creator pr = cur w /\ pop pr = Some p /\
                rc p = None /\ ready_of pr = true /\ snd (loop_of true pr) = None) /\
  map fst (snd (run w [OAlive 0%nat; OJoin 0%nat (Some 0); OCode 0%nat; OJoin 0%nat (Some 5)]))
  = [OBool true; ONone; ONone; OHang].
Proof.
  split; [|vm_compute; reflexivity].
  eexists; eexists; vm_compute; repeat split; reflexivity.
Qed.

Example C19_witness_history_provenance :
  let specs := [(100, [WAns 0 0], AAns 0 0, [false]); (100, [WAns 0 0; WAns 1001 (9 + 128)], AAns 1001 0, [])] in
  never_reported 0%nat [WAns 0 0] (AAns 0 0) /\
  map fst (snd (run (init_world 100 specs)
                    [OStart 0%nat; OStart 1%nat; OAlive 1%nat; OActive; OCode 1%nat; OJoin 0%nat (Some 5);
                     OCode 0%nat; OAlive 0%nat]))
  = [ONone; ONone; OBool true; OList [0%nat]; OInt (-9); ONone; ONone; OBool true].
Proof.
  split; [|vm_compute; reflexivity].
  split; intros sts H; [destruct H as [H|[]]|]; discriminate.
Qed.
