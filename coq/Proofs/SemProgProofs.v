(* Generic facts about the SemProg interleaving semantics (Model/SemProg.v): list
   lemmas, weighted sums over the thread list, and the theorems that hold for ANY
   program table: conservation of a semaphore's value + hold counts, mutual exclusion
   of locks, the semaphore bound, refusal of over-release. *)
From Coq Require Import ZArith List Bool Lia ZifyBool Arith.
From BV Require Import Model.SemProg.
Import ListNotations.
Open Scope Z_scope.

(* ------------------------------------------------------------------ lists *)
Lemma nth_updz_same : forall l i v, nth i (updz l i v) 0 = v.
Proof.
  intros l i; revert l; induction i as [|i IH]; intros [|x l] v; cbn; auto.
Qed.

Lemma nth_updz_other : forall l i j v, i <> j -> nth j (updz l i v) 0 = nth j l 0.
Proof.
  intros l i; revert l; induction i as [|i IH]; intros [|x l] [|j] v Hne; cbn; auto; try congruence.
  - destruct j; reflexivity.
  - rewrite IH by congruence. destruct j; reflexivity.
Qed.

Lemma nth_upds_same : forall l i v, nth i (upds l i v) dsem = v.
Proof.
  intros l i; revert l; induction i as [|i IH]; intros [|x l] v; cbn; auto.
Qed.

Lemma nth_upds_other : forall l i j v, i <> j -> nth j (upds l i v) dsem = nth j l dsem.
Proof.
  intros l i; revert l; induction i as [|i IH]; intros [|x l] [|j] v Hne; cbn; auto; try congruence.
  - destruct j; reflexivity.
  - rewrite IH by congruence. destruct j; reflexivity.
Qed.

Lemma length_upd : forall A (l : list A) i v, length (upd l i v) = length l.
Proof. induction l as [|x l IH]; intros [|i] v; cbn; auto. Qed.

Lemma nth_error_upd_same : forall A (l : list A) i v t,
    nth_error l i = Some t -> nth_error (upd l i v) i = Some v.
Proof.
  induction l as [|x l IH]; intros [|i] v t H; cbn in *; try discriminate; auto.
  eapply IH; eauto.
Qed.

Lemma nth_error_upd_other : forall A (l : list A) i j v,
    i <> j -> nth_error (upd l i v) j = nth_error l j.
Proof.
  induction l as [|x l IH]; intros [|i] [|j] v H; cbn; auto; try congruence.
Qed.

Lemma nth_error_upd_inv : forall A (l : list A) i j v u,
    nth_error (upd l i v) j = Some u -> (i = j /\ u = v) \/ (i <> j /\ nth_error l j = Some u).
Proof.
  intros A l i j v u H. destruct (Nat.eq_dec i j) as [E|E].
  - subst j. left. split; auto.
    destruct (nth_error l i) as [t|] eqn:Ht.
    + rewrite (nth_error_upd_same _ _ _ _ _ Ht) in H. congruence.
    + exfalso. apply nth_error_None in Ht.
      assert (Hl : nth_error (upd l i v) i <> None) by congruence.
      apply nth_error_Some in Hl. rewrite length_upd in Hl. lia.
  - right. split; auto. rewrite nth_error_upd_other in H; auto.
Qed.

(* ------------------------------------------------------------------ weighted sums *)
Fixpoint sumz {A} (f : A -> Z) (l : list A) : Z :=
  match l with [] => 0 | x :: r => f x + sumz f r end.

Lemma sumz_upd : forall A (f : A -> Z) l i t t',
    nth_error l i = Some t -> sumz f (upd l i t') = sumz f l - f t + f t'.
Proof.
  induction l as [|x l IH]; intros [|i] t t' H; cbn in *; try discriminate.
  - inversion H; subst. lia.
  - rewrite (IH _ _ _ H). lia.
Qed.

Lemma sumz_nonneg : forall A (f : A -> Z) l, (forall x, In x l -> 0 <= f x) -> 0 <= sumz f l.
Proof.
  induction l as [|x l IH]; intros H; cbn; [lia|].
  pose proof (H x (or_introl eq_refl)). assert (0 <= sumz f l) by (apply IH; intros; apply H; right; auto). lia.
Qed.

Lemma sumz_zero : forall A (f : A -> Z) l, (forall x, In x l -> f x = 0) -> sumz f l = 0.
Proof.
  induction l as [|x l IH]; intros H; cbn; [reflexivity|].
  rewrite (H x (or_introl eq_refl)), IH; auto. intros; apply H; right; auto.
Qed.

Lemma sumz_ge_elem : forall A (f : A -> Z) l i t,
    (forall x, In x l -> 0 <= f x) -> nth_error l i = Some t -> f t <= sumz f l.
Proof.
  induction l as [|x l IH]; intros [|i] t Hnn H; cbn in *; try discriminate.
  - inversion H; subst.
    assert (0 <= sumz f l) by (apply sumz_nonneg; intros; apply Hnn; right; auto). lia.
  - pose proof (Hnn x (or_introl eq_refl)).
    assert (f t <= sumz f l) by (eapply IH; eauto; intros; apply Hnn; right; auto). lia.
Qed.

(* two different positions with positive weight need a sum of at least 2 *)
Lemma sumz_two : forall A (f : A -> Z) l i j a b,
    (forall x, In x l -> 0 <= f x) ->
    nth_error l i = Some a -> nth_error l j = Some b -> i <> j ->
    f a + f b <= sumz f l.
Proof.
  induction l as [|x l IH]; intros [|i] [|j] a b Hnn Ha Hb Hne; cbn in *; try discriminate; try congruence.
  - inversion Ha; subst.
    assert (f b <= sumz f l) by (eapply sumz_ge_elem; eauto; intros; apply Hnn; right; auto). lia.
  - inversion Hb; subst.
    assert (f a <= sumz f l) by (eapply sumz_ge_elem; eauto; intros; apply Hnn; right; auto). lia.
  - pose proof (Hnn x (or_introl eq_refl)).
    assert (f a + f b <= sumz f l) by (eapply IH; eauto; intros; apply Hnn; right; auto). lia.
Qed.

(* exclusivity: if the 0/1 weight h sums to at most 1 and thread i has it, every
   weight w that vanishes where h vanishes is concentrated on thread i *)
Lemma sumz_excl : forall A (h w : A -> Z) l i t,
    (forall x, In x l -> 0 <= h x) ->
    (forall x, h x <= 0 -> w x = 0) ->
    sumz h l <= 1 -> nth_error l i = Some t -> 1 <= h t ->
    sumz w l = w t.
Proof.
  induction l as [|x l IH]; intros [|i] t Hnn Hw Hs Ht H1; cbn in *; try discriminate.
  - inversion Ht; subst.
    assert (Hnn' : forall y, In y l -> 0 <= h y) by (intros; apply Hnn; right; auto).
    assert (0 <= sumz h l) by (apply sumz_nonneg; auto).
    rewrite (sumz_zero _ w l); [lia|].
    intros y Hy. apply Hw.
    assert (h y <= sumz h l).
    { apply In_nth_error in Hy. destruct Hy as [n Hn]. eapply sumz_ge_elem; eauto. }
    lia.
  - assert (Hnn' : forall y, In y l -> 0 <= h y) by (intros; apply Hnn; right; auto).
    pose proof (Hnn x (or_introl eq_refl)).
    assert (h t <= sumz h l) by (eapply sumz_ge_elem; eauto).
    rewrite (Hw x) by lia. rewrite (IH i t); auto; lia.
Qed.

(* ------------------------------------------------------------------ threads keep their hold counts *)
Section Generic.
Variable code : nat -> list instr.

Opaque FUEL.   (* keep run_local folded in this file *)

Lemma held_start : forall sc h res, held (start code h res sc) = h.
Proof.
  induction sc as [|[[c a0] a1] sc IH]; intros h res; cbn [start]; [reflexivity|].
  destruct (run_local (code c) h FUEL 0 (init_regs a0 a1)); cbn [held]; auto.
Qed.

Lemma held_advance : forall t p r h, held (advance code t p r h) = h.
Proof.
  intros. unfold advance. destruct (run_local (code (cid t)) h FUEL p r); cbn [held]; auto using held_start.
Qed.

Lemma held_abort : forall t h e, held (abort code t h e) = h.
Proof. intros. unfold abort. apply held_start. Qed.

(* ------------------------------------------------------------------ the primitive *)
Lemma sem_acq_static : forall s h s' h', sem_acq s h = Some (s', h') ->
    maxv s' = maxv s /\ recur s' = recur s.
Proof.
  intros s h s' h' H. unfold sem_acq in H.
  destruct (recur s && (0 <? h)); [inversion H; subst; auto|].
  destruct (0 <? val s); inversion H; subst; cbn; auto.
Qed.

Lemma sem_rel_static : forall s h s' h' e, sem_rel s h = (s', h', e) ->
    maxv s' = maxv s /\ recur s' = recur s.
Proof.
  intros s h s' h' e H. unfold sem_rel in H.
  destruct (recur s) eqn:Er; [destruct (h <=? 0); [|destruct (1 <? h)]|destruct (maxv s <=? val s)];
    inversion H; subst; cbn; auto.
Qed.

Definition pos (z : Z) : Z := if 0 <? z then 1 else 0.

Ltac brute := repeat split; intros; unfold pos in *;
  repeat match goal with
         | |- context [if ?b then _ else _] => destruct b eqn:?
         | H : context [if ?b then _ else _] |- _ => destruct b eqn:?
         end; try lia.

(* how semaphore sm and the acting thread's hold count h change together *)
Definition eff (sm sm' : sem) (h h' : Z) : Prop :=
  maxv sm' = maxv sm /\ recur sm' = recur sm /\
  (if recur sm then 0 <= h -> (0 <= h' /\ val sm' + pos h' = val sm + pos h)
   else val sm' + h' = val sm + h) /\
  (0 <= val sm -> 0 <= val sm') /\
  (val sm <= maxv sm -> recur sm = false -> val sm' <= maxv sm).

Lemma eff_refl : forall sm h, eff sm sm h h.
Proof. intros. unfold eff. repeat split; auto. destruct (recur sm); intros; lia. Qed.

Lemma acq_effect : forall sm h sm' h', sem_acq sm h = Some (sm', h') -> eff sm sm' h h'.
Proof.
  intros sm h sm' h' H. unfold sem_acq in H. unfold eff.
  destruct (recur sm) eqn:Er; cbn [andb] in H.
  - destruct (0 <? h) eqn:Eh.
    + inversion H; subst. rewrite Er. brute.
    + destruct (0 <? val sm) eqn:Ev; inversion H; subst; cbn [val set_val maxv recur]. rewrite Er. brute.
  - destruct (0 <? val sm) eqn:Ev; inversion H; subst; cbn [val set_val maxv recur]. rewrite Er. brute.
Qed.

Lemma rel_effect : forall sm h sm' h', sem_rel sm h = (sm', h', 0) -> eff sm sm' h h'.
Proof.
  intros sm h sm' h' H. unfold sem_rel in H. unfold eff.
  destruct (recur sm) eqn:Er.
  - destruct (h <=? 0) eqn:E1; [inversion H|].
    destruct (1 <? h) eqn:E2; inversion H; subst; cbn [val set_val maxv recur]; rewrite ?Er; brute.
  - destruct (maxv sm <=? val sm) eqn:E1; inversion H; subst; cbn [val set_val maxv recur]; rewrite ?Er; brute.
Qed.

Definition hs (s : nat) (t : thread) : Z := nth s (held t) 0.
Definition vs (s : nat) (g : sys) : Z := val (nth s (sems g) dsem).

(* one step: the thread list changes at position i only, and semaphore s and the
   stepping thread's hold count of s change together as [eff] says *)
Lemma step_effect : forall s g i go g' e,
    step code g i go = Some (g', e) ->
    exists t t', nth_error (thr g) i = Some t /\ thr g' = upd (thr g) i t' /\
      eff (nth s (sems g) dsem) (nth s (sems g') dsem) (hs s t) (hs s t').
Proof.
  intros s g i go g' e H. unfold step in H.
  destruct (nth_error (thr g) i) as [t|] eqn:Ht; [|discriminate].
  destruct (fin t); [discriminate|].
  destruct (nth_error (code (cid t)) (pc t)) as [ins|]; [|discriminate].
  destruct ins as [s0 b tm d|s0|s0 d| | | | | | | | | | | | ]; try discriminate.
  - (* Acq *)
    destruct go.
    + destruct (sem_acq (nth s0 (sems g) dsem) (nth s0 (held t) 0)) as [[sm' h']|] eqn:Ea.
      * inversion H; subst; clear H. eexists; eexists; split; [reflexivity|]. split; [reflexivity|].
        unfold hs; cbn [sems thr]. rewrite held_advance.
        destruct (Nat.eq_dec s0 s) as [E|E].
        -- subst s0. rewrite nth_upds_same, nth_updz_same. apply acq_effect; auto.
        -- rewrite nth_upds_other, nth_updz_other by auto. apply eff_refl.
      * destruct (flagv b (rg t)); [discriminate|].
        inversion H; subst; clear H. eexists; eexists; split; [reflexivity|]. split; [reflexivity|].
        unfold hs; cbn [sems thr]. rewrite held_advance. apply eff_refl.
    + destruct (flagv b (rg t) && flagv tm (rg t)); [|discriminate].
      inversion H; subst; clear H. eexists; eexists; split; [reflexivity|]. split; [reflexivity|].
      unfold hs; cbn [sems thr]. rewrite held_advance. apply eff_refl.
  - (* Rel *)
    destruct go; [|discriminate].
    destruct (sem_rel (nth s0 (sems g) dsem) (nth s0 (held t) 0)) as [[sm' h'] e'] eqn:Er.
    destruct (e' =? 0) eqn:Ee.
    + inversion H; subst; clear H. eexists; eexists; split; [reflexivity|]. split; [reflexivity|].
      unfold hs; cbn [sems thr]. rewrite held_advance.
      destruct (Nat.eq_dec s0 s) as [E|E].
      * subst s0. rewrite nth_upds_same, nth_updz_same. apply rel_effect.
        replace e' with 0 in Er by lia. exact Er.
      * rewrite nth_upds_other, nth_updz_other by auto. apply eff_refl.
    + inversion H; subst; clear H. eexists; eexists; split; [reflexivity|]. split; [reflexivity|].
      unfold hs; cbn [sems thr]. rewrite held_abort. apply eff_refl.
  - (* IsZero *)
    destruct go; [|discriminate].
    inversion H; subst; clear H. eexists; eexists; split; [reflexivity|]. split; [reflexivity|].
    unfold hs; cbn [sems thr]. rewrite held_advance. apply eff_refl.
Qed.

(* ------------------------------------------------------------------ conservation *)
(* For a non-recursive semaphore: value + sum of hold counts is constant.
   For a recursive lock: value + number of holders is constant, hold counts >= 0. *)
Definition GInv (s : nat) (c : Z) (g : sys) : Prop :=
  0 <= vs s g /\
  if recur (nth s (sems g) dsem)
  then (forall t, In t (thr g) -> 0 <= hs s t) /\ vs s g + sumz (fun t => pos (hs s t)) (thr g) = c
  else vs s g + sumz (hs s) (thr g) = c.

Lemma In_upd : forall A (l : list A) i v x, In x (upd l i v) -> x = v \/ In x l.
Proof.
  induction l as [|y l IH]; intros [|i] v x H; cbn in *; auto.
  - destruct H; auto.
  - destruct H as [H|H]; auto. destruct (IH _ _ _ H); auto.
Qed.

Lemma ginv_step : forall s c g i go g' e,
    GInv s c g -> step code g i go = Some (g', e) -> GInv s c g'.
Proof.
  intros s c g i go g' e [Hv HI] H.
  destruct (step_effect s _ _ _ _ _ H) as (t & t' & Ht & Hthr & Hm & Hr & Heff & Hnn & _).
  unfold GInv, vs in *. rewrite Hr. split; [auto|].
  destruct (recur (nth s (sems g) dsem)).
  - destruct HI as [Hh Hsum].
    assert (Hin : In t (thr g)) by (eapply nth_error_In; eauto).
    destruct (Heff (Hh _ Hin)) as [Hh' Hc].
    split.
    + intros u Hu. rewrite Hthr in Hu. destruct (In_upd _ _ _ _ _ Hu) as [E|E]; [subst; auto|auto].
    + rewrite Hthr, (sumz_upd _ (fun t0 => pos (hs s t0)) _ _ _ _ Ht). lia.
  - rewrite Hthr, (sumz_upd _ (hs s) _ _ _ _ Ht). lia.
Qed.

Lemma static_step : forall s g i go g' e,
    step code g i go = Some (g', e) ->
    recur (nth s (sems g') dsem) = recur (nth s (sems g) dsem) /\
    maxv (nth s (sems g') dsem) = maxv (nth s (sems g) dsem).
Proof.
  intros s g i go g' e H.
  destruct (step_effect s _ _ _ _ _ H) as (t & t' & _ & _ & Hm & Hr & _). auto.
Qed.

Lemma static_run : forall s sched g g' es ok,
    run code g sched = (g', es, ok) ->
    recur (nth s (sems g') dsem) = recur (nth s (sems g) dsem) /\
    maxv (nth s (sems g') dsem) = maxv (nth s (sems g) dsem).
Proof.
  intros s. induction sched as [|[i go] sched IH]; intros g g' es ok H; cbn [run] in H.
  - inversion H; subst; auto.
  - destruct (step code g i go) as [[g1 e]|] eqn:Es.
    + destruct (run code g1 sched) as [[g2 es2] ok2] eqn:Er. inversion H; subst.
      destruct (IH _ _ _ _ Er) as [A B]. destruct (static_step s _ _ _ _ _ Es) as [C D].
      split; congruence.
    + inversion H; subst; auto.
Qed.

Lemma ginv_run : forall s c sched g g' es ok,
    GInv s c g -> run code g sched = (g', es, ok) -> GInv s c g'.
Proof.
  induction sched as [|[i go] sched IH]; intros g g' es ok HI H; cbn [run] in H.
  - inversion H; subst; auto.
  - destruct (step code g i go) as [[g1 e]|] eqn:Es.
    + destruct (run code g1 sched) as [[g2 es2] ok2] eqn:Er. inversion H; subst.
      apply (IH g1 g' es2 ok); [eapply ginv_step; eauto|exact Er].
    + inversion H; subst; auto.
Qed.

Lemma ginv_init : forall s ss scripts,
    0 <= val (nth s ss dsem) ->
    GInv s (val (nth s ss dsem)) (init_sys code ss scripts).
Proof.
  intros s ss scripts Hv. unfold GInv, init_sys, vs; cbn [sems thr]. split; [auto|].
  assert (Hz : forall t, In t (map (start code [] []) scripts) -> hs s t = 0).
  { intros t Ht. apply in_map_iff in Ht. destruct Ht as [sc [E _]]. subst t.
    unfold hs. rewrite held_start. destruct s; reflexivity. }
  destruct (recur (nth s ss dsem)).
  - split.
    + intros t Ht. rewrite (Hz t Ht). lia.
    + rewrite sumz_zero; [lia|]. intros t Ht. rewrite (Hz t Ht). reflexivity.
  - rewrite sumz_zero; [lia|]. auto.
Qed.

(* ------------------------------------------------------------------ theorems for any programs *)

(* A recursive lock (RLock) created with value 1: at most one thread holds it, whatever
   the programs do. *)
Theorem rlock_mutex : forall s ss scripts sched g es ok i j ti tj,
    recur (nth s ss dsem) = true -> val (nth s ss dsem) = 1 ->
    run code (init_sys code ss scripts) sched = (g, es, ok) ->
    nth_error (thr g) i = Some ti -> nth_error (thr g) j = Some tj ->
    0 < hs s ti -> 0 < hs s tj -> i = j.
Proof.
  intros s ss scripts sched g es ok i j ti tj Hr Hv Hrun Hi Hj Hpi Hpj.
  assert (HG : GInv s 1 g).
  { eapply ginv_run; [|exact Hrun]. rewrite <- Hv. apply ginv_init. lia. }
  destruct HG as [Hnn HG].
  destruct (static_run s _ _ _ _ _ Hrun) as [Hst _]. cbn [init_sys sems] in Hst.
  rewrite Hst, Hr in HG. destruct HG as [Hh Hsum].
  destruct (Nat.eq_dec i j) as [E|E]; [auto|exfalso].
  assert (H2 : pos (hs s ti) + pos (hs s tj) <= sumz (fun t => pos (hs s t)) (thr g)).
  { apply (sumz_two _ (fun t => pos (hs s t)) (thr g) i j ti tj); auto.
    intros x _. unfold pos. destruct (0 <? hs s x); lia. }
  unfold pos in H2 at 1 2.
  replace (0 <? hs s ti) with true in H2 by lia. replace (0 <? hs s tj) with true in H2 by lia. lia.
Qed.

(* A non-recursive semaphore with initial value k (Lock: k = 1): value >= 0 and
   value + sum of hold counts = k.  So while no thread has released more than it
   acquired (all hold counts >= 0) the hold counts sum to at most k: at most k holders. *)
Theorem sem_bound : forall s ss scripts sched g es ok,
    recur (nth s ss dsem) = false -> 0 <= val (nth s ss dsem) ->
    run code (init_sys code ss scripts) sched = (g, es, ok) ->
    0 <= vs s g /\ vs s g + sumz (hs s) (thr g) = val (nth s ss dsem).
Proof.
  intros s ss scripts sched g es ok Hr Hv Hrun.
  assert (HG : GInv s (val (nth s ss dsem)) g).
  { eapply ginv_run; [|exact Hrun]. apply ginv_init. lia. }
  destruct HG as [Hnn HG]. split; [auto|].
  destruct (static_run s _ _ _ _ _ Hrun) as [Hst _]. cbn [init_sys sems] in Hst.
  rewrite Hst, Hr in HG. exact HG.
Qed.

Theorem lock_mutex : forall s ss scripts sched g es ok i j ti tj,
    recur (nth s ss dsem) = false -> val (nth s ss dsem) = 1 ->
    run code (init_sys code ss scripts) sched = (g, es, ok) ->
    (forall t, In t (thr g) -> 0 <= hs s t) ->          (* nobody over-released *)
    nth_error (thr g) i = Some ti -> nth_error (thr g) j = Some tj ->
    0 < hs s ti -> 0 < hs s tj -> i = j.
Proof.
  intros s ss scripts sched g es ok i j ti tj Hr Hv Hrun Hd Hi Hj Hpi Hpj.
  destruct (sem_bound s ss scripts sched g es ok Hr ltac:(lia) Hrun) as [Hnn Hsum].
  destruct (Nat.eq_dec i j) as [E|E]; [auto|exfalso].
  pose proof (sumz_two _ (hs s) (thr g) i j ti tj Hd Hi Hj E). lia.
Qed.

(* a release at the maximum is refused: ValueError, semaphores unchanged *)
Theorem bounded_refuses : forall g i t s,
    nth_error (thr g) i = Some t -> fin t = false ->
    nth_error (code (cid t)) (pc t) = Some (Rel s) ->
    recur (nth s (sems g) dsem) = false ->
    maxv (nth s (sems g) dsem) <= vs s g ->
    exists g', step code g i true = Some (g', (i, s, 1, E_VALUE)) /\ sems g' = sems g.
Proof.
  intros g i t s Ht Hf Hi Hr Hm. unfold step. rewrite Ht, Hf, Hi.
  unfold sem_rel. rewrite Hr. unfold vs in Hm.
  replace (maxv (nth s (sems g) dsem) <=? val (nth s (sems g) dsem)) with true by lia.
  cbn. eexists; split; reflexivity.
Qed.

(* the value of a non-recursive semaphore never exceeds its maximum *)
Theorem sem_le_max : forall s sched g0 g es ok,
    run code g0 sched = (g, es, ok) ->
    recur (nth s (sems g0) dsem) = false ->
    vs s g0 <= maxv (nth s (sems g0) dsem) ->
    vs s g <= maxv (nth s (sems g0) dsem).
Proof.
  intros s. induction sched as [|[i go] sched IH]; intros g0 g es ok H Hr Hle; cbn [run] in H.
  - inversion H; subst; auto.
  - destruct (step code g0 i go) as [[g2 e]|] eqn:Es.
    + destruct (run code g2 sched) as [[g3 es3] ok3] eqn:Er. inversion H; subst.
      destruct (step_effect s _ _ _ _ _ Es) as (t & t' & _ & _ & Hm & Hr' & _ & _ & Hmx).
      rewrite <- Hm. apply (IH g2 g es3 ok Er); [congruence|]. rewrite Hm. unfold vs in *. auto.
    + inversion H; subst; auto.
Qed.

End Generic.
Transparent FUEL.

(* ------------------------------------------------------------------ the semantics only depends on the
   program table pointwise (used to transport theorems to the generated programs) *)
Section Ext.
Variables code1 code2 : nat -> list instr.
Hypothesis Hext : forall c, code1 c = code2 c.

Lemma start_ext : forall sc h res, start code1 h res sc = start code2 h res sc.
Proof.
  induction sc as [|[[c a0] a1] sc IH]; intros h res; cbn [start]; [reflexivity|].
  rewrite Hext. destruct (run_local (code2 c) h FUEL 0 (init_regs a0 a1)); auto.
Qed.

Lemma advance_ext : forall t p r h, advance code1 t p r h = advance code2 t p r h.
Proof.
  intros. unfold advance. rewrite Hext.
  destruct (run_local (code2 (cid t)) h FUEL p r); auto using start_ext.
Qed.

Lemma abort_ext : forall t h e, abort code1 t h e = abort code2 t h e.
Proof. intros. unfold abort. apply start_ext. Qed.

Lemma step_ext : forall g i go, step code1 g i go = step code2 g i go.
Proof.
  intros. unfold step.
  destruct (nth_error (thr g) i) as [t|]; [|reflexivity].
  destruct (fin t); [reflexivity|]. rewrite Hext.
  destruct (nth_error (code2 (cid t)) (pc t)) as [ins|]; [|reflexivity].
  destruct ins; try reflexivity; rewrite ?advance_ext, ?abort_ext; try reflexivity.
  - destruct go; [|rewrite ?advance_ext; reflexivity].
    destruct (sem_acq (nth s (sems g) dsem) (nth s (held t) 0)) as [[sm' h']|];
      rewrite ?advance_ext; reflexivity.
  - destruct go; [|reflexivity].
    destruct (sem_rel (nth s (sems g) dsem) (nth s (held t) 0)) as [[sm' h'] e'].
    rewrite ?advance_ext, ?abort_ext. reflexivity.
Qed.

Lemma run_ext : forall sched g, run code1 g sched = run code2 g sched.
Proof.
  induction sched as [|[i go] sched IH]; intros g; cbn [run]; [reflexivity|].
  rewrite step_ext. destruct (step code2 g i go) as [[g1 e]|]; [|reflexivity].
  rewrite IH. reflexivity.
Qed.

Lemma init_sys_ext : forall ss scripts, init_sys code1 ss scripts = init_sys code2 ss scripts.
Proof.
  intros. unfold init_sys. f_equal. apply map_ext. intros. apply start_ext.
Qed.
End Ext.
