(* C12: histories of records (Model/EInfoSeq.v).

   A. history independence of the MODEL's constructor (true by construction: [build] ignores the history it is
      handed -- what makes this a statement about einfo.py is B and C, and the seq correspondence cases);
   B. the generated reads (Gen/K_einfo frame_reads / code_reads / tb_reads), executed on a node, copy
      co_firstlineno, f_lineno, tb_lasti and co_positions() of THAT node's own frame / code object;
   C. STRUCTURAL facts about the classes of einfo.py as translated on this run: no mutable class-level
      binding, no constructor statement through which something could be kept for the next call, the
      constructors reach modules, classes, functions, builtins and plain values only. *)
From Coq Require Import String.
From Coq Require Import ZArith List Bool Lia.
From BV Require Import Lib.PyVal Lib.Cases Gen.K_einfo Model.EInfo Proofs.EInfoProofs Model.EInfoSeq.
Import ListNotations.
Open Scope Z_scope.

(* ================================================================== *)
(* A. the k-th record of a process is the record of the k-th failure    *)

Lemma records_from_map : forall m fs hist, records_from m hist fs = map (record m) fs.
Proof.
  intros m fs. induction fs as [|f r IH]; intros hist; [reflexivity|].
  cbn [records_from map]. unfold build. rewrite IH. reflexivity.
Qed.

Theorem records_map : forall m fs, records m fs = map (record m) fs.
Proof. intros m fs. apply records_from_map. Qed.

(* whatever was recorded before *)
Theorem history_independent : forall m hist hist' fs,
    records_from m hist fs = records_from m hist' fs.
Proof. intros m h h' fs. rewrite !records_from_map. reflexivity. Qed.

Theorem record_after_history : forall m before f after,
    nth_error (records m (before ++ f :: after)) (length before) = Some (record m f).
Proof.
  intros m before f after. rewrite records_map, map_app. cbn [map].
  rewrite nth_error_app2 by (rewrite map_length; lia).
  rewrite map_length, Nat.sub_diag. reflexivity.
Qed.

(* building the record of B after the record of A gives the same record of B as building B first *)
Theorem record_order_irrelevant : forall m a b,
    nth_error (records m [a; b]) 1 = Some (record m b) /\
    nth_error (records m [b; a]) 0 = Some (record m b).
Proof. intros m a b. rewrite !records_map. split; reflexivity. Qed.

(* ... and WHAT the record of a failure is: type, exception and text of that failure, the
   (file, name, line) chain of section A/B of EInfoProofs over that failure's traceback, and for every
   copied node the first line, frame line, instruction offset and position of that failure's own nodes *)
Theorem record_describes_failure : forall m f,
    -1 <= m -> fl_tb f <> [] ->
    exists e,
      record m f = Some (e, firstn (Z.to_nat (m + 2)) (fl_tb f)) /\
      ei_type e = fl_type f /\ ei_exc e = EWT (fl_exc f) (fl_text f) /\ ei_text e = fl_text f /\
      ei_tb e = map cn_fr (firstn (Z.to_nat (m + 2)) (fl_tb f)) ++
                (if Z.of_nat (length (fl_tb f)) >? m + 2 then [marker] else []).
Proof.
  intros m f Hm Hne. unfold record, mk_einfo.
  assert (Hne' : map cn_fr (fl_tb f) <> []) by (destruct (fl_tb f); [congruence|discriminate]).
  rewrite copy_tb_spec by assumption.
  eexists. split.
  - unfold copy_cnodes, copy_cnode. rewrite map_id. reflexivity.
  - cbn [ei_type ei_exc ei_text ei_tb]. repeat split.
    unfold tail_marker. rewrite map_length, firstn_map. reflexivity.
Qed.

(* ================================================================== *)
(* B. the generated reads copy the node's OWN code object               *)

Definition n_co_firstlineno : str := s2l "co_firstlineno"%string.
Definition n_co_positions : str := s2l "co_positions"%string.
Definition n__co_positions : str := s2l "_co_positions"%string.

Definition is_call (v : option rv) (a : str) : bool :=
  match v with Some (VCall b) => str_eqb a b | _ => false end.

(* Traceback node + _Frame + _Code constructors, as translated on this run, on one live node: every read
   must succeed; tb_frame must be self.Frame(tb.tb_frame) and f_code self.Code(frame.f_code) -- a copy
   made from THIS node's frame / code object, by the class bound at class level (C below: Frame = _Frame,
   Code = _Code) --; tb_lineno, tb_lasti, f_lineno, co_filename, co_name, co_firstlineno must be read
   from the attribute of the same name of the constructor's parameter; the positions are kept iff
   _co_positions is list(code.co_positions()). *)
Definition gen_copy_cnode (c : cnode) : option cnode :=
  match eval_reads tb_slots [] K_einfo.tb_reads,
        eval_reads frame_slots [(n_f_globals, []); (n_f_locals, [])] K_einfo.frame_reads,
        eval_reads code_slots [] K_einfo.code_reads with
  | Some tv, Some fv, Some cv =>
      if is_sub (attr_of tv n_tb_frame) n_Frame n_tb_frame
         && is_slot (attr_of tv n_tb_lineno) n_tb_lineno
         && is_slot (attr_of tv n_tb_lasti) n_tb_lasti
         && is_sub (attr_of fv n_f_code) n_Code n_f_code
         && is_slot (attr_of fv n_f_lineno) n_f_lineno
         && is_slot (attr_of cv n_co_filename) n_co_filename
         && is_slot (attr_of cv n_co_name) n_co_name
         && is_slot (attr_of cv n_co_firstlineno) n_co_firstlineno
      then Some (mk_cn (cn_fr c) (cn_first c) (cn_fline c) (cn_lasti c)
                       (if is_call (attr_of cv n__co_positions) n_co_positions then cn_pos c else []))
      else None
  | _, _, _ => None
  end.

Lemma gen_copy_cnode_eq : forall c, gen_copy_cnode c = Some (copy_cnode c).
Proof. intros [fr a b l p]. vm_compute. reflexivity. Qed.

(* a process executing the generated constructors: again the history is available and unused, because
   the data language of the translator ([rd]) can only express reads of the constructor's parameter *)
Definition gen_records_nodes (tbs : list (list cnode)) : list (option (list cnode)) :=
  map (fun tb => all_some (map gen_copy_cnode tb)) tbs.

Lemma all_some_map_some : forall {A} (l : list A), all_some (map Some l) = Some l.
Proof. intros A l. induction l as [|x r IH]; [reflexivity|]. cbn [map all_some]. rewrite IH. reflexivity. Qed.

Theorem gen_records_nodes_eq : forall tbs, gen_records_nodes tbs = map (fun tb => Some tb) tbs.
Proof.
  intros tbs. unfold gen_records_nodes. apply map_ext. intros tb.
  rewrite (map_ext gen_copy_cnode (fun c => Some c)) by (intros c; apply gen_copy_cnode_eq).
  apply all_some_map_some.
Qed.

(* ================================================================== *)
(* C. structural: nothing is kept between two constructor calls         *)

Definition cbind_stateless (b : cbind) : bool :=
  match b with CbMethod | CbConst | CbRef _ => true | CbMutable _ | CbOther _ => false end.
Definition no_class_state (l : list (list Z * list Z * cbind)) : bool :=
  forallb (fun e => cbind_stateless (snd e)) l.

Definition gkind_stateless (k : gkind) : bool :=
  match k with GkModule | GkClass | GkFunction | GkBuiltin | GkValue => true
             | GkVariable | GkUnknown => false end.
Definition ctor_globals_ok (l : list (list Z * list Z * gkind)) : bool :=
  forallb (fun e => gkind_stateless (snd e)) l.

(* the classes the scan covers, and the two class-level references the copy goes through *)
Definition class_ref (l : list (list Z * list Z * cbind)) (c a : str) : option str :=
  match find (fun e => str_eqb (fst (fst e)) c && str_eqb (snd (fst e)) a) l with
  | Some (_, CbRef n) => Some n
  | _ => None
  end.
Definition has_class (l : list (list Z * list Z * cbind)) (c : str) : bool :=
  existsb (fun e => str_eqb (fst (fst e)) c) l.

Lemma gen_standins_keep_no_state :
  no_class_state K_einfo.class_bindings = true /\
  K_einfo.ctor_state_leaks = [] /\
  ctor_globals_ok K_einfo.ctor_globals = true /\
  forallb (has_class K_einfo.class_bindings)
          (map s2l ["_Code"; "_Frame"; "_Truncated"; "Traceback"; "ExceptionInfo"]%string) = true /\
  class_ref K_einfo.class_bindings (s2l "Traceback"%string) n_Frame = Some (s2l "_Frame"%string) /\
  class_ref K_einfo.class_bindings (s2l "_Frame"%string) n_Code = Some (s2l "_Code"%string).
Proof. repeat split; vm_compute; reflexivity. Qed.
