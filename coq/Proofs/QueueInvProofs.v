(* C16: the invariant of the queue programs (Model/QueueCode.v) under the interleaving
   semantics of Model/QueueProg.v, its inductiveness and its consequences.  Nothing here
   depends on the generated programs; Proofs/QueueProofs.v transports the results. *)
From Coq Require Import ZArith List Bool Lia ZifyBool Arith.
From BV Require Import Model.SemProg Model.QueueProg Model.QueueCode Proofs.SemProgProofs.
Import ListNotations.
Open Scope Z_scope.

(* ================================================================== invariant *)

Notation qcode := QueueCode.code.
Opaque upds updz upd updp.

(* ids of the per-process semaphores (kept opaque so that cbn does not normalise them) *)
Definition nls (p : nat) : nat := (8 + 2 * p)%nat.
Definition nss (p : nat) : nat := (9 + 2 * p)%nat.
Lemma nls_eq : forall p, nls p = (8 + 2 * p)%nat. Proof. reflexivity. Qed.
Lemma nss_eq : forall p, nss p = (9 + 2 * p)%nat. Proof. reflexivity. Qed.
Lemma sid_sg : forall p n, sid p (SG n) = n. Proof. reflexivity. Qed.
Lemma sid_sp0 : forall p, sid p (SP 0) = nls p. Proof. intros. unfold sid, PBASE, nls. lia. Qed.
Lemma sid_sp1 : forall p, sid p (SP 1) = nss p. Proof. intros. unfold sid, PBASE, nss. lia. Qed.
Opaque nls nss sid.

(* ------------------------------------------------------------------ weights by (call, pc) *)
Local Open Scope nat_scope.
(* holds a capacity token for a message that is neither buffered nor in the pipe:
   put between the semaphore acquire and the buffer append, feeder between pop and send,
   get between receive and semaphore release *)
Definition w_tr (c p : nat) : Z :=
  match c, p with
  | 0, 3 => 1%Z
  | 3, (3|6) => 1%Z
  | 2, (10|11|14) => 1%Z       (* 14: about to give back the token of the object it could not serialise *)
  | 1, (4|5|24) => 1%Z
  | _, _ => 0%Z
  end.
Definition w_rl (c p : nat) : Z :=          (* holds the reader lock *)
  match c, p with
  | 1, (3|4|12|14|16|19|21|23|24|25) => 1%Z
  | _, _ => 0%Z
  end.
Definition w_wl (c p : nat) : Z :=          (* holds the writer lock *)
  match c, p with
  | 2, (11|12) => 1%Z
  | _, _ => 0%Z
  end.
(* JoinableQueue's count of unfinished tasks: a put past its _unfinished_tasks.release() and not
   yet returned; a task_done past its successful _unfinished_tasks.acquire(False) *)
Definition w_pc (c p : nat) : Z :=
  match c, p with
  | 3, (12|13|14) => 1%Z
  | _, _ => 0%Z
  end.
Definition w_dc (c p : nat) : Z :=
  match c, p with
  | 4, (5|8|10|12|16|18|24|27|30) => 1%Z
  | _, _ => 0%Z
  end.
Definition w_nl (c p : nat) : Z :=          (* holds the lock of its process's _notempty *)
  match c, p with
  | 0, (10|11) => 1%Z
  | 3, (6|9|12|13|14) => 1%Z
  | 2, (3|7) => 1%Z
  | _, _ => 0%Z
  end.
Local Close Scope nat_scope.

Definition qt_tr (t : qthread) : Z := if qfin t then 0 else w_tr (qcid t) (qpc t).
Definition qt_rl (t : qthread) : Z := if qfin t then 0 else w_rl (qcid t) (qpc t).
Definition qt_wl (t : qthread) : Z := if qfin t then 0 else w_wl (qcid t) (qpc t).
Definition qt_nl (p : nat) (t : qthread) : Z :=
  if qfin t then 0 else if Nat.eqb (qproc t) p then w_nl (qcid t) (qpc t) else 0.
(* the message a feeder has popped and not yet sent (pc 14: and will not send: it could not be
   serialised and is dropped) *)
Definition ftr (t : qthread) : list Z :=
  if qfin t then [] else
  match qcid t, qpc t with
  | 2%nat, (10%nat | 11%nat | 14%nat) => [r2 (qrg t)]
  | _, _ => []
  end.

Fixpoint zcnt (m : Z) (l : list Z) : Z :=
  match l with [] => 0 | x :: r => (if x =? m then 1 else 0) + zcnt m r end.
(* the message a get has received and not yet returned (between its receive and its return the
   only steps left are the two releases, which cannot fail: see qstep_inv) *)
Definition gheld (t : qthread) : list Z :=
  if qfin t then [] else
  match qcid t, qpc t with
  | 1%nat, (4%nat | 5%nat | 24%nat | 25%nat) => [r4 (qrg t)]
  | _, _ => []
  end.
(* how many of the finished get calls of a thread returned m *)
Fixpoint rcount (m : Z) (res : list (qcall * Z)) : Z :=
  match res with
  | [] => 0
  | (c, v) :: r => (if Nat.eqb (fst (fst (fst c))) 1 && (v =? m) then 1 else 0) + rcount m r
  end.
(* finished JoinableQueue.put calls that returned (did not raise Full); finished task_done calls
   that did not raise ValueError("task_done() called too many times") *)
Fixpoint pcount (res : list (qcall * Z)) : Z :=
  match res with
  | [] => 0
  | (c, v) :: r => (if Nat.eqb (fst (fst (fst c))) 3 && (v =? V_NONE) then 1 else 0) + pcount r
  end.
Fixpoint dcount (res : list (qcall * Z)) : Z :=
  match res with
  | [] => 0
  | (c, v) :: r => (if Nat.eqb (fst (fst (fst c))) 4 && negb (v =? E_VALUE) then 1 else 0) + dcount r
  end.
(* contribution of a thread to the number of unfinished tasks: puts counted - task_dones counted *)
Definition qw_unf (t : qthread) : Z := if qfin t then 0 else w_pc (qcid t) (qpc t) - w_dc (qcid t) (qpc t).
Definition qt_unf (t : qthread) : Z := pcount (qresults t) - dcount (qresults t) + qw_unf t.
Lemma qt_unf_eq : forall t, qt_unf t = pcount (qresults t) - dcount (qresults t) + qw_unf t.
Proof. reflexivity. Qed.
Definition qt_ret (m : Z) (t : qthread) : Z := rcount m (qresults t) + zcnt m (gheld t).

(* ------------------------------------------------------------------ per-thread invariant *)
Definition okq (c : qcall) : Prop :=
  let id := fst (fst (fst c)) in id = 0%nat \/ id = 1%nat \/ id = 3%nat \/ id = 4%nat \/ id = 5%nat.

Definition a2_of (c : qcall) : Z := snd c.

Local Open Scope nat_scope.
Definition qli_pc (c p : nat) (r : regs) (a2 : Z) (h4 : Z) : Prop :=
  match c, p with
  | 0, (0|3|10|11) => r2 r = a2
  | 1, (2|3|4|5|8|12|14|16|19|21|23|24|25) => True
  | 2, (0|3|4|5|7|12) => True
  | 2, (10|11) => picklable (r2 r) = true   (* what a feeder is about to write could be serialised *)
  | 2, 14 => picklable (r2 r) = false       (* what a feeder drops could not *)
  | 3, (0|3|6) => r2 r = a2
  | 3, (9|12|13) => (1 <= h4)%Z
  | 3, 14 => True
  | 4, 0 => True
  | 4, (1|3|5|8|10|12|16|18|24|27|30) => (1 <= h4)%Z
  | 5, (0|1|4|8|11|12|15|19) => True
  | _, _ => False
  end.
Local Close Scope nat_scope.

Definition QLI (t : qthread) : Prop :=
  0 <= nth 4 (qheld t) 0 /\
  if qfeeder t then qfin t = false /\ qcid t = 2%nat /\ qscript t = [] /\
                    qli_pc 2 (qpc t) (qrg t) 0 0
  else Forall okq (qscript t) /\
       (qfin t = false -> okq (qcur t) /\
                          qli_pc (qcid t) (qpc t) (qrg t) (a2_of (qcur t)) (nth 4 (qheld t) 0)).

(* ------------------------------------------------------------------ global invariant *)
Definition QSVM : Z := 2147483647.
Definition qv (s : nat) (g : qsys) : Z := val (nth s (qsems g) dsem).
Definition blen (ps : pstate) : Z := Z.of_nat (length (buf ps)).
(* the messages of a tagged send log that were written by the feeder of process p, in order *)
Definition from_proc (p : nat) (l : list (nat * Z)) : list Z :=
  map snd (filter (fun x => Nat.eqb (fst x) p) l).
(* the messages of a list that can be serialised, in order *)
Definition pk (l : list Z) : list Z := filter picklable l.
Lemma pk_nil : pk [] = []. Proof. reflexivity. Qed.
Lemma pk_app : forall a b, pk (a ++ b) = pk a ++ pk b. Proof. intros. apply filter_app. Qed.
Lemma pk_cons_true : forall m l, picklable m = true -> pk (m :: l) = m :: pk l.
Proof. intros m l H. unfold pk. cbn [filter]. rewrite H. reflexivity. Qed.
Lemma pk_cons_false : forall m l, picklable m = false -> pk (m :: l) = pk l.
Proof. intros m l H. unfold pk. cbn [filter]. rewrite H. reflexivity. Qed.
Definition dqt : qthread := mkQT 0 false (0%nat, 0, 0, 0) 0 (qinit_regs 0 0 0) [] [] [] true.

Definition qshape (M : Z) (n : nat) (ss : list sem) : Prop :=
  maxv (nth 0 ss dsem) = M /\ recur (nth 0 ss dsem) = false /\
  (forall s, (s = 1 \/ s = 2)%nat -> maxv (nth s ss dsem) = 1 /\ recur (nth s ss dsem) = false) /\
  (forall s, (s = 3 \/ s = 5 \/ s = 6 \/ s = 7)%nat -> maxv (nth s ss dsem) = QSVM /\ recur (nth s ss dsem) = false) /\
  recur (nth 4 ss dsem) = true /\
  (forall p, (p < n)%nat -> maxv (nth (nls p) ss dsem) = 1 /\ recur (nth (nls p) ss dsem) = false /\
                            maxv (nth (nss p) ss dsem) = QSVM /\ recur (nth (nss p) ss dsem) = false).

Record QInv (M : Z) (g : qsys) : Prop := mkQInv {
  q_shape : qshape M (length (procs g)) (qsems g);
  q_len : length (qthr g) = (2 * length (procs g))%nat;
  q_wf : forall i t, nth_error (qthr g) i = Some t -> qproc t = Nat.div2 i /\ qfeeder t = Nat.odd i;
  q_li : forall t, In t (qthr g) -> QLI t;
  q_cap : qv 0 g + sumz blen (procs g) + Z.of_nat (length (pipe g)) + sumz qt_tr (qthr g) = M;
  q_cap0 : 0 <= qv 0 g;
  q_rl : qv 1 g + sumz qt_rl (qthr g) = 1 /\ 0 <= qv 1 g;
  q_wl : qv 2 g + sumz qt_wl (qthr g) = 1 /\ 0 <= qv 2 g;
  q_nl : forall p, (p < length (procs g))%nat ->
                   qv (nls p) g + sumz (qt_nl p) (qthr g) = 1 /\ 0 <= qv (nls p) g;
  q_fifo : forall p, pk (plog (nth p (procs g) dps)) =
                     slog (nth p (procs g) dps) ++ pk (ftr (nth (2 * p + 1) (qthr g) dqt)) ++ pk (buf (nth p (procs g) dps));
  q_pipe : map snd (sendlog g) = getlog g ++ pipe g;
  q_merge : forall m, zcnt m (map snd (sendlog g)) = sumz (fun ps => zcnt m (slog ps)) (procs g);
  q_order : forall p, from_proc p (sendlog g) = slog (nth p (procs g) dps);
  q_ret : forall m, m <> E_EMPTY -> zcnt m (getlog g) = sumz (qt_ret m) (qthr g);
  q_unf : qv 3 g = sumz qt_unf (qthr g) /\ 0 <= qv 3 g
}.

(* the counters stay below SEM_VALUE_MAX *)
Definition qsmall (g : qsys) : Prop :=
  qv 3 g < QSVM /\ qv 5 g < QSVM /\ qv 6 g < QSVM /\ qv 7 g < QSVM /\
  forall p, qv (nss p) g < QSVM.

Transparent updp upd.
Lemma nth_updp_same : forall l i v, nth i (updp l i v) dps = v.
Proof. intros l i; revert l; induction i as [|i IH]; intros [|x l] v; cbn; auto. Qed.

Lemma nth_updp_other : forall l i j v, i <> j -> nth j (updp l i v) dps = nth j l dps.
Proof.
  intros l i; revert l; induction i as [|i IH]; intros [|x l] [|j] v Hne; cbn; auto; try congruence.
  - destruct j; reflexivity.
  - rewrite IH by congruence. destruct j; reflexivity.
Qed.

Lemma length_updp : forall l i v, (i < length l)%nat -> length (updp l i v) = length l.
Proof.
  intros l i; revert l; induction i as [|i IH]; intros [|x l] v H; cbn in *; try lia.
  rewrite IH; lia.
Qed.

Lemma sumz_updp : forall (f : pstate -> Z) l i v, (i < length l)%nat ->
    sumz f (updp l i v) = sumz f l - f (nth i l dps) + f v.
Proof.
  intros f l i; revert l; induction i as [|i IH]; intros [|x l] v H; cbn in *; try lia.
  rewrite IH by lia. lia.
Qed.

Lemma nth_upd_same : forall A (l : list A) i v d, (i < length l)%nat -> nth i (upd l i v) d = v.
Proof. induction l as [|x l IH]; intros [|i] v d H; cbn in *; try lia; auto. apply IH; lia. Qed.

Lemma nth_upd_other : forall A (l : list A) i j v d, i <> j -> nth j (upd l i v) d = nth j l d.
Proof. induction l as [|x l IH]; intros [|i] [|j] v d H; cbn; auto; try congruence. Qed.
Opaque updp upd.

Lemma zcnt_app : forall m a b, zcnt m (a ++ b) = zcnt m a + zcnt m b.
Proof. induction a as [|x a IH]; intros b; cbn; [lia|]. rewrite IH. lia. Qed.

Ltac dn x n := match n with O => idtac | S ?m => destruct x as [|x]; [|dn x m] end.

Lemma qw_01 : forall c p, 0 <= w_tr c p <= 1 /\ 0 <= w_rl c p <= 1 /\ 0 <= w_wl c p <= 1 /\ 0 <= w_nl c p <= 1.
Proof. intros c p. dn c 6%nat; dn p 26%nat; cbn; lia. Qed.

Lemma qt_01 : forall t, 0 <= qt_tr t <= 1 /\ 0 <= qt_rl t <= 1 /\ 0 <= qt_wl t <= 1 /\ forall q, 0 <= qt_nl q t <= 1.
Proof.
  intros t. unfold qt_tr, qt_rl, qt_wl, qt_nl. destruct (qfin t); [repeat split; intros; lia|].
  destruct (qw_01 (qcid t) (qpc t)) as (A & B & C & D). repeat split; try lia; intros; destruct (Nat.eqb (qproc t) q); lia.
Qed.

Ltac qsimp0 :=
  cbn [qlocal nth_error qcode p_q_put p_q_get p_feed p_jq_put p_jq_task_done p_jq_join
       p_sq_put p_sq_get getr setr rvv flagv qinit_regs r0 r1 r2 r3 r4 r5 r6 r7
       qproc qfeeder qcur qpc qrg qheld qscript qresults qfin qcid fst snd negb andb orb QFUEL
       buf nw started plog slog]; rewrite ?sid_sg, ?sid_sp0, ?sid_sp1.
Ltac qsimp := cbn [qadvance qabort]; qsimp0.
Ltac qsimp_in H :=
  cbn [qadvance qabort qlocal nth_error qcode p_q_put p_q_get p_feed p_jq_put p_jq_task_done p_jq_join
       p_sq_put p_sq_get getr setr rvv flagv qinit_regs r0 r1 r2 r3 r4 r5 r6 r7
       qproc qfeeder qcur qpc qrg qheld qscript qresults qfin qcid fst snd negb andb orb QFUEL
       buf nw started plog slog] in H; rewrite ?sid_sg, ?sid_sp0, ?sid_sp1 in H.
Ltac qsimpw :=
  cbn [qt_tr qt_rl qt_wl qt_nl ftr w_tr w_rl w_wl w_nl r0 r1 r2 r3 r4 r5 r6 r7
       qproc qfeeder qcur qpc qrg qheld qscript qresults qfin qcid fst snd val set_val maxv recur
       buf nw started plog slog blen a2_of] in *.

Definition landed (t : qthread) : Prop :=
  qt_tr t = 0 /\ qt_rl t = 0 /\ qt_wl t = 0 /\ (forall q, qt_nl q t = 0) /\ ftr t = [] /\ gheld t = [] /\ qw_unf t = 0.

Ltac landed_tac p :=
  unfold QLI, landed, qt_tr, qt_rl, qt_wl, qt_nl, ftr, gheld, qw_unf, okq, a2_of; qsimp0;
  cbn [w_tr w_rl w_wl w_nl w_pc w_dc qli_pc nth];
  repeat split; auto; intros; try lia; try discriminate;
  try (destruct (Nat.eqb p _); reflexivity).

Lemma qstart_facts : forall sc p h res ps,
    Forall okq sc -> 0 <= nth 4 h 0 ->
    exists t, qstart qcode p false h res sc ps = (t, ps) /\
              QLI t /\ qproc t = p /\ qfeeder t = false /\ landed t /\ qresults t = res.
Proof.
  intros [|[[[c a0] a1] a2] sc] p h res ps Hsc Hh.
  - eexists. split; [reflexivity|]. landed_tac p.
  - inversion Hsc as [|x l Hc Hsc']; subst. unfold okq in Hc; cbn [fst snd] in Hc.
    cbn [qstart].
    destruct Hc as [E|[E|[E|[E|E]]]]; subst c.
    + qsimp0. eexists. split; [reflexivity|]. landed_tac p.
    + qsimp0. destruct (a1 =? 0) eqn:E1; [|destruct (a0 =? 0) eqn:E0];
        (eexists; split; [reflexivity|]); landed_tac p.
    + qsimp0. eexists. split; [reflexivity|]. landed_tac p.
    + qsimp0. eexists. split; [reflexivity|]. landed_tac p.
    + qsimp0. eexists. split; [reflexivity|]. landed_tac p.
Qed.

Lemma qshape_upds : forall M n ss s sm', qshape M n ss ->
    maxv sm' = maxv (nth s ss dsem) -> recur sm' = recur (nth s ss dsem) -> qshape M n (upds ss s sm').
Proof.
  intros M n ss s sm' (A & B & C & D & E & F) Hm Hr.
  assert (G : forall k, maxv (nth k (upds ss s sm') dsem) = maxv (nth k ss dsem) /\
                        recur (nth k (upds ss s sm') dsem) = recur (nth k ss dsem)).
  { intros k. destruct (Nat.eq_dec s k) as [Ek|Ek].
    - subst. rewrite nth_upds_same. auto.
    - rewrite nth_upds_other by auto. auto. }
  unfold qshape.
  split; [rewrite (proj1 (G _)); auto|]. split; [rewrite (proj2 (G _)); auto|].
  split; [intros k Hk; rewrite (proj1 (G k)), (proj2 (G k)); auto|].
  split; [intros k Hk; rewrite (proj1 (G k)), (proj2 (G k)); auto|].
  split; [rewrite (proj2 (G _)); auto|].
  intros p Hp. rewrite (proj1 (G (nls p))), (proj2 (G (nls p))), (proj1 (G (nss p))), (proj2 (G (nss p))). auto.
Qed.

Lemma div2_odd_idx : forall i, i = (2 * Nat.div2 i + (if Nat.odd i then 1 else 0))%nat.
Proof. intros i. pose proof (Nat.div2_odd i). destruct (Nat.odd i); cbn [Nat.b2n] in *; lia. Qed.

Lemma qinv_upd : forall M g i t t' ps' ss' pp sl gl,
    QInv M g -> nth_error (qthr g) i = Some t ->
    qproc t' = qproc t -> qfeeder t' = qfeeder t ->
    qshape M (length (procs g)) ss' -> QLI t' ->
    val (nth 0 ss' dsem) + (sumz blen (procs g) - blen (nth (qproc t) (procs g) dps) + blen ps')
      + Z.of_nat (length pp) + (sumz qt_tr (qthr g) - qt_tr t + qt_tr t') = M ->
    0 <= val (nth 0 ss' dsem) ->
    (val (nth 1 ss' dsem) + (sumz qt_rl (qthr g) - qt_rl t + qt_rl t') = 1 /\ 0 <= val (nth 1 ss' dsem)) ->
    (val (nth 2 ss' dsem) + (sumz qt_wl (qthr g) - qt_wl t + qt_wl t') = 1 /\ 0 <= val (nth 2 ss' dsem)) ->
    (val (nth (nls (qproc t)) ss' dsem)
       + (sumz (qt_nl (qproc t)) (qthr g) - qt_nl (qproc t) t + qt_nl (qproc t) t') = 1
     /\ 0 <= val (nth (nls (qproc t)) ss' dsem)) ->
    (forall q, q <> qproc t -> nth (nls q) ss' dsem = nth (nls q) (qsems g) dsem) ->
    pk (plog ps') = slog ps' ++ pk (ftr (if Nat.odd i then t' else nth (2 * qproc t + 1) (qthr g) dqt)) ++ pk (buf ps') ->
    map snd sl = gl ++ pp ->
    (forall m, zcnt m (map snd sl) = sumz (fun ps => zcnt m (slog ps)) (procs g)
                           - zcnt m (slog (nth (qproc t) (procs g) dps)) + zcnt m (slog ps')) ->
    (forall q, from_proc q sl = slog (nth q (updp (procs g) (qproc t) ps') dps)) ->
    (forall m, m <> E_EMPTY -> zcnt m gl = sumz (qt_ret m) (qthr g) - qt_ret m t + qt_ret m t') ->
    (val (nth 3 ss' dsem) = sumz qt_unf (qthr g) - qt_unf t + qt_unf t' /\ 0 <= val (nth 3 ss' dsem)) ->
    QInv M (mkQS ss' (upd (qthr g) i t') pp (updp (procs g) (qproc t) ps') sl gl).
Proof.
  intros M g i t t' ps' ss' pp sl gl HI Ht Hp Hfd Hsh Hli Hcap Hcap0 Hrl Hwl Hnl Hnlo Hfifo Hpipe Hmerge Horder Hret Hunf.
  pose proof (q_wf M g HI i t Ht) as [Wp Wf].
  assert (Hi : (i < length (qthr g))%nat) by (apply nth_error_Some; congruence).
  assert (Hpl : (qproc t < length (procs g))%nat).
  { pose proof (q_len M g HI). pose proof (div2_odd_idx i). rewrite Wp. destruct (Nat.odd i); lia. }
  constructor; cbn [qsems qthr pipe procs sendlog getlog]; unfold qv; cbn [qsems];
    rewrite ?length_upd, ?length_updp by auto.
  - exact Hsh.
  - apply (q_len M g HI).
  - intros j u Hu. destruct (nth_error_upd_inv _ _ _ _ _ _ Hu) as [[E1 E2]|[E1 E2]].
    + subst j u. rewrite Hp, Hfd. auto.
    + apply (q_wf M g HI j u E2).
  - intros u Hu. destruct (In_upd _ _ _ _ _ Hu) as [Eu|Eu]; [subst u; auto|apply (q_li M g HI); auto].
  - rewrite (sumz_upd _ _ _ _ _ _ Ht), sumz_updp by auto. exact Hcap.
  - exact Hcap0.
  - rewrite (sumz_upd _ _ _ _ _ _ Ht). exact Hrl.
  - rewrite (sumz_upd _ _ _ _ _ _ Ht). exact Hwl.
  - intros q Hq. rewrite (sumz_upd _ _ _ _ _ _ Ht).
    destruct (Nat.eq_dec q (qproc t)) as [E|E].
    + subst q. exact Hnl.
    + rewrite (Hnlo q E). pose proof (q_nl M g HI q Hq) as [A B]. unfold qv in A, B.
      unfold qt_nl at 2 3. rewrite Hp.
      replace (Nat.eqb (qproc t) q) with false by (symmetry; apply Nat.eqb_neq; auto).
      destruct (qfin t), (qfin t'); split; lia.
  - intros q. destruct (Nat.eq_dec q (qproc t)) as [E|E].
    + subst q. rewrite nth_updp_same.
      destruct (Nat.odd i) eqn:Eo.
      * assert (Ei : i = (2 * qproc t + 1)%nat) by (pose proof (div2_odd_idx i); rewrite Eo in *; lia).
        rewrite <- Ei. rewrite nth_upd_same by auto. exact Hfifo.
      * assert (Ei : i = (2 * qproc t)%nat) by (pose proof (div2_odd_idx i); rewrite Eo in *; lia).
        rewrite nth_upd_other by lia. exact Hfifo.
    + rewrite nth_updp_other by auto.
      assert (Ei : i <> (2 * q + 1)%nat).
      { pose proof (div2_odd_idx i). destruct (Nat.odd i); lia. }
      rewrite nth_upd_other by auto. apply (q_fifo M g HI q).
  - exact Hpipe.
  - intros m. rewrite sumz_updp by auto. apply Hmerge.
  - exact Horder.
  - intros m Hm. rewrite (sumz_upd _ _ _ _ _ _ Ht). apply Hret; auto.
  - rewrite (sumz_upd _ _ _ _ _ _ Ht). exact Hunf.
Qed.

Lemma order_keep : forall g p ps',
    (forall q, from_proc q (sendlog g) = slog (nth q (procs g) dps)) ->
    slog ps' = slog (nth p (procs g) dps) ->
    forall q, from_proc q (sendlog g) = slog (nth q (updp (procs g) p ps') dps).
Proof.
  intros g p ps' H E q. destruct (Nat.eq_dec p q) as [Eq|Eq].
  - subst q. rewrite nth_updp_same, E. apply H.
  - rewrite nth_updp_other by auto. apply H.
Qed.

Lemma order_send : forall g p ps' m,
    (forall q, from_proc q (sendlog g) = slog (nth q (procs g) dps)) ->
    slog ps' = slog (nth p (procs g) dps) ++ [m] ->
    forall q, from_proc q (sendlog g ++ [(p, m)]) = slog (nth q (updp (procs g) p ps') dps).
Proof.
  intros g p ps' m H E q. unfold from_proc. rewrite filter_app, map_app. cbn [filter fst].
  destruct (Nat.eq_dec p q) as [Eq|Eq].
  - subst q. rewrite nth_updp_same, E, Nat.eqb_refl. cbn [map snd]. f_equal. apply H.
  - rewrite nth_updp_other by auto. replace (Nat.eqb p q) with false by (symmetry; apply Nat.eqb_neq; auto).
    cbn [map]. rewrite app_nil_r. apply H.
Qed.


Lemma blen_mk : forall b n s p l, blen (mkP b n s p l) = Z.of_nat (length b).
Proof. reflexivity. Qed.

Ltac qgoalw :=
  cbn [qt_tr qt_rl qt_wl qt_nl ftr w_tr w_rl w_wl w_nl r0 r1 r2 r3 r4 r5 r6 r7
       qproc qfeeder qcur qpc qrg qheld qscript qresults qfin qcid fst snd val set_val maxv recur
       buf nw started plog slog blen a2_of length].

Ltac qside := lia.    (* the context carries nls p = 8 + 2p and nss p = 9 + 2p *)

Ltac qret_tac Iret :=
  let m := fresh "m" in let Hm := fresh "Hm" in
  intros m Hm; unfold E_EMPTY in Hm; rewrite ?zcnt_app, <- (Iret m Hm); unfold qt_ret;
  repeat match goal with E : qresults ?t = _ |- context [qresults ?t] => rewrite E
                    | E : gheld ?t = [] |- context [gheld ?t] => rewrite E end;
  cbn [rcount gheld zcnt qfin qcid qpc qcur qrg qresults fst snd r4 Nat.eqb andb];
  repeat match goal with |- context [if ?b then _ else _] => destruct b eqn:? end; lia.

Ltac qunf_tac :=
  rewrite !qt_unf_eq;
  repeat match goal with
         | E : qresults ?t = _ |- context [qresults ?t] => rewrite E
         | E : qw_unf ?t = 0 |- context [qw_unf ?t] => rewrite E
         end;
  cbn [qw_unf pcount dcount qfin qcid qpc qcur qresults fst snd w_pc w_dc Nat.eqb andb negb];
  unfold V_NONE, E_VALUE, E_ASSERT, E_FULL, E_EMPTY;
  repeat match goal with |- context [if ?b then _ else _] =>
    first [ let v := eval vm_compute in b in lazymatch v with true => change b with true | false => change b with false end
          | destruct b eqn:? ] end;
  split; lia.

Ltac qprem HI Wf Eps Imerge Hh4 Ififo Ipipe Iorder Iret :=
  cbn [qproc qfeeder]; rewrite <- ?Wf, <- ?Eps;
  rewrite ?nth_upds_same; rewrite ?nth_upds_other by qside;
  qgoalw; rewrite ?Nat.eqb_refl; cbn [Nat.odd];
  first
    [ reflexivity
    | assumption
    | lia
    | split; lia
    | exact (q_shape _ _ HI)
    | apply qshape_upds; [exact (q_shape _ _ HI) | reflexivity | reflexivity]
    | (intros q Hq; pose proof (nls_eq q); pose proof (nss_eq q); rewrite ?nth_upds_other by lia; reflexivity)
    | (intros m; rewrite ?map_app, ?zcnt_app, (Imerge m); cbn [map snd zcnt]; lia)
    | (apply order_keep; [exact Iorder | rewrite <- Eps; reflexivity])
    | (apply order_send; [exact Iorder | rewrite <- Eps; reflexivity])
    | qret_tac Iret
    | qunf_tac
    | match goal with |- QLI _ =>
        unfold QLI; qgoalw; cbn [qli_pc]; rewrite ?nth_updz_same, ?nth_updz_other by qside;
        repeat split; auto; try lia; try discriminate; try (unfold okq; cbn [fst snd]; lia) end
    | (rewrite ?blen_mk in *; cbn [length] in *; rewrite ?app_length; cbn [length]; lia)
    | (try (match goal with E : picklable ?m = true |- _ =>
              rewrite ?(pk_cons_true m _ E) in Ififo; rewrite ?(pk_cons_true m _ E) end);
       try (match goal with E : picklable ?m = false |- _ =>
              rewrite ?(pk_cons_false m _ E) in Ififo; rewrite ?(pk_cons_false m _ E) end);
       rewrite ?pk_nil in Ififo; rewrite ?pk_nil; rewrite ?pk_app, ?Ififo, <- ?app_assoc; cbn [app]; reflexivity)
    | (rewrite ?map_app, ?Ipipe, <- ?app_assoc; cbn [app map snd]; reflexivity)
    | idtac ].

Ltac qabstract_thread :=
  repeat match goal with
   | E : qproc ?t = _ |- context [qproc ?t] => rewrite E
   | E : qfeeder ?t = _ |- context [qfeeder ?t] => rewrite E
   | E : qt_tr ?t = 0 |- context [qt_tr ?t] => rewrite E
   | E : qt_rl ?t = 0 |- context [qt_rl ?t] => rewrite E
   | E : qt_wl ?t = 0 |- context [qt_wl ?t] => rewrite E
   | E : ftr ?t = [] |- context [ftr ?t] => rewrite E
   | E : forall q, qt_nl q ?t = 0 |- context [qt_nl _ ?t] => rewrite E
   end.

(* THE step lemma: capacity accounting, the three lock invariants, per-producer FIFO between
   put and pipe, FIFO of the pipe and the merge property are inductive; in particular no
   release of the capacity semaphore or of a lock raises. *)

Ltac qdestr_H H :=
  repeat match type of H with
         | context [if ?b then _ else _] => destruct b eqn:?
         | context [match ?x with _ => _ end] => destruct x eqn:?
         end.
Ltac split_all := repeat match goal with H : _ /\ _ |- _ => destruct H end.

Lemma qstep_inv : forall M g i go g' e, QInv M g -> qsmall g -> qstep qcode g i go = Some (g', e) -> QInv M g'.
Proof.
  intros M g i go g' e HI Hsm H.
  assert (Hex : exists t, nth_error (qthr g) i = Some t).
  { unfold qstep in H. destruct (nth_error (qthr g) i); [eauto|discriminate]. }
  destruct Hex as [t Ht].
  pose proof (q_li M g HI t (nth_error_In _ _ Ht)) as Hli.
  pose proof (q_wf M g HI i t Ht) as [Wp Wf].
  assert (Hi : (i < length (qthr g))%nat) by (apply nth_error_Some; congruence).
  assert (Hpl : (qproc t < length (procs g))%nat).
  { pose proof (q_len M g HI). pose proof (div2_odd_idx i). rewrite Wp. destruct (Nat.odd i); lia. }
  destruct (q_shape M g HI) as (Sh0m & Sh0r & Sh12 & Sh3567 & Sh4 & ShP).
  destruct (Sh12 1%nat ltac:(auto)) as [Hm1 Hr1]. destruct (Sh12 2%nat ltac:(auto)) as [Hm2 Hr2].
  destruct (Sh3567 3%nat ltac:(auto)) as [Hm3 Hr3]. destruct (Sh3567 5%nat ltac:(auto)) as [Hm5 Hr5].
  destruct (Sh3567 6%nat ltac:(auto)) as [Hm6 Hr6]. destruct (Sh3567 7%nat ltac:(auto)) as [Hm7 Hr7].
  destruct (ShP (qproc t) Hpl) as (Hm8 & Hr8 & Hm9 & Hr9).
  pose proof (q_cap M g HI) as Icap. pose proof (q_cap0 M g HI) as Icap0.
  pose proof (q_rl M g HI) as [Irl Irl0]. pose proof (q_wl M g HI) as [Iwl Iwl0].
  pose proof (q_nl M g HI (qproc t) Hpl) as [Inl Inl0].
  pose proof (q_fifo M g HI (qproc t)) as Ififo. pose proof (q_pipe M g HI) as Ipipe.
  pose proof (q_merge M g HI) as Imerge. pose proof (q_order M g HI) as Iorder.
  pose proof (q_ret M g HI) as Iret. pose proof (q_unf M g HI) as [Iunf Iunf0].
  destruct Hsm as (Hs3 & Hs5 & Hs6 & Hs7 & Hs9). specialize (Hs9 (qproc t)).
  pose proof (nls_eq (qproc t)) as Enl. pose proof (nss_eq (qproc t)) as Ens.
  unfold qv, QSVM in *.
  assert (Gtr : qt_tr t <= sumz qt_tr (qthr g)) by (eapply sumz_ge_elem; eauto; intros; apply qt_01).
  assert (Grl : qt_rl t <= sumz qt_rl (qthr g)) by (eapply sumz_ge_elem; eauto; intros; apply qt_01).
  assert (Gwl : qt_wl t <= sumz qt_wl (qthr g)) by (eapply sumz_ge_elem; eauto; intros; apply qt_01).
  assert (Gnl : qt_nl (qproc t) t <= sumz (qt_nl (qproc t)) (qthr g)) by (eapply sumz_ge_elem; eauto; intros; apply qt_01).
  assert (Gb : 0 <= sumz blen (procs g)) by (apply sumz_nonneg; intros; unfold blen; apply Nat2Z.is_nonneg).
  assert (Gbp : blen (nth (qproc t) (procs g) dps) <= sumz blen (procs g)).
  { apply (sumz_ge_elem _ blen (procs g) (qproc t)); [intros; unfold blen; apply Nat2Z.is_nonneg|apply nth_error_nth'; auto]. }
  assert (Gt0 : 0 <= sumz qt_tr (qthr g)) by (apply sumz_nonneg; intros; apply qt_01).
  assert (Hnth : nth i (qthr g) dqt = t) by (apply nth_error_nth; auto).
  assert (Hidx : i = (2 * qproc t + (if qfeeder t then 1 else 0))%nat) by (rewrite Wp, Wf; apply div2_odd_idx).
  unfold qstep in H. rewrite Ht in H.
  destruct (qfin t) eqn:Hf; [discriminate|].
  destruct (qfeeder t && negb (started (nth (qproc t) (procs g) dps))); [discriminate|].
  remember (nth (qproc t) (procs g) dps) as ps eqn:Eps.
  destruct t as [p fd [[[c a0] a1] a2] pc [x0 x1 x2 x3 x4 x5 x6 x7] h sc rs f]. cbn [qfin] in Hf; subst f.
  cbn [qproc qfeeder] in *.
  unfold QLI in Hli; cbn [qfeeder qfin qscript qcur qcid qpc qrg qheld fst snd] in Hli.
  destruct Hli as [Hh4 Hli].
  unfold qcid in H; cbn [qcur fst qpc qrg qheld] in H.
  destruct ps as [bf nwv stt pl sl0].
  destruct fd.
  - (* feeder *)
    destruct Hli as (_ & Hc & Hsc & Hpc). unfold qcid in Hc; cbn [qcur fst] in Hc. subst c sc.
    rewrite <- Hidx, Hnth in Ififo.
    dn pc 16%nat; cbn [qli_pc] in Hpc; try contradiction.
    all: qsimpw; rewrite ?Nat.eqb_refl in *.
    all: qsimp_in H;
      unfold sem_acq, sem_rel in H;
      rewrite ?Hr1, ?Hr2, ?Hr3, ?Hr5, ?Hr6, ?Hr7, ?Hr8, ?Hr9, ?Sh0r, ?Sh4, ?Hm1, ?Hm2, ?Hm3, ?Hm5, ?Hm6, ?Hm7, ?Hm8, ?Hm9, ?Sh0m in H;
      cbn [andb] in H; qdestr_H H; try discriminate.
    all: clear Sh12 Sh3567 ShP Hr1 Hr2 Hr3 Hr5 Hr6 Hr7 Hr8 Hr9 Hm1 Hm2 Hm3 Hm5 Hm6 Hm7 Hm8 Hm9 Sh0r Sh4.
    all: try (exfalso; lia).
    all: inversion H; subst g' e; clear H.
    all: unfold qadvance, qabort; qsimp0.
    all: repeat match goal with |- context [match ?x with [] => _ | _ :: _ => _ end] => destruct x end; qsimp0.
    all: repeat match goal with |- context [if picklable ?x then _ else _] => destruct (picklable x) eqn:? end; qsimp0.
    all: unfold commit; cbn [qproc].

    all: (eapply (qinv_upd _ _ _ _ _ _ _ _ _ _ HI Ht); qprem HI Wf Eps Imerge Hh4 Ififo Ipipe Iorder Iret).
  - (* main thread *)
    destruct Hli as [Hsc Hli]. destruct (Hli eq_refl) as [Hok Hpc]. clear Hli.
    unfold okq in Hok; cbn [qcur fst snd] in Hok. unfold qcid, a2_of in Hpc; cbn [qcur fst snd] in Hpc.
    cbn [Nat.add] in Hidx. rewrite Nat.add_0_r in Hidx.
    set (tf := nth (2 * p + 1) (qthr g) dqt) in *.
    destruct Hok as [E|[E|[E|[E|E]]]]; subst c.
    all: dn pc 31%nat; cbn [qli_pc] in Hpc; try contradiction.
    all: qsimpw; rewrite ?Nat.eqb_refl in *.
    all: qsimp_in H;
      unfold sem_acq, sem_rel in H;
      rewrite ?Hr1, ?Hr2, ?Hr3, ?Hr5, ?Hr6, ?Hr7, ?Hr8, ?Hr9, ?Sh0r, ?Sh4, ?Hm1, ?Hm2, ?Hm3, ?Hm5, ?Hm6, ?Hm7, ?Hm8, ?Hm9, ?Sh0m in H;
      cbn [andb] in H; qdestr_H H; try discriminate.
    all: clear Sh12 Sh3567 ShP Hr1 Hr2 Hr3 Hr5 Hr6 Hr7 Hr8 Hr9 Hm1 Hm2 Hm3 Hm5 Hm6 Hm7 Hm8 Hm9 Sh0r Sh4.
    all: try (exfalso; lia).
    all: inversion H; subst g' e; clear H.
    all: unfold qadvance, qabort; qsimp0.
    all: repeat (match goal with |- context [if ?b then _ else _] =>
        first [ let v := eval vm_compute in b in lazymatch v with true => change b with true | false => change b with false end
              | destruct b eqn:? ] end; qsimp0).
    all: unfold commit.
    all: try match goal with |- context [qstart qcode ?p0 false ?h' ?res' ?sc' ?ps'] =>
       let SF := fresh "SF" in
       assert (SF : exists t, qstart qcode p0 false h' res' sc' ps' = (t, ps') /\ QLI t /\ qproc t = p0 /\ qfeeder t = false /\ landed t /\ qresults t = res')
         by (apply qstart_facts; [exact Hsc | rewrite ?nth_updz_same, ?nth_updz_other by qside; lia]);
       destruct SF as (t' & Est & Hli' & Hp' & Hf' & (L1 & L2 & L3 & L4 & L5 & L6 & L7) & Hres'); rewrite Est; cbv beta iota; rewrite ?Hp' end.
    all: (eapply (qinv_upd _ _ _ _ _ _ _ _ _ _ HI Ht); qabstract_thread; qprem HI Wf Eps Imerge Hh4 Ififo Ipipe Iorder Iret).
Qed.
Lemma nth_proc_sems : forall n p, (p < n)%nat ->
    nth (2 * p) (proc_sems n) dsem = ctor_Lock /\ nth (2 * p + 1) (proc_sems n) dsem = ctor_Semaphore 0.
Proof.
  induction n as [|n IH]; intros p Hp; [lia|].
  destruct p as [|p]; [split; reflexivity|].
  replace (2 * S p)%nat with (S (S (2 * p))) by lia. replace (S (S (2 * p)) + 1)%nat with (S (S (2 * p + 1))) by lia.
  cbn [proc_sems nth]. apply IH. lia.
Qed.

Lemma qworld_shape : forall M n, qshape M n (qworld M n).
Proof.
  intros M n. unfold qshape, qworld, queue_sems.
  split; [reflexivity|]. split; [reflexivity|].
  split; [intros s [E|E]; subst; split; reflexivity|].
  split; [intros s [E|[E|[E|E]]]; subst; split; reflexivity|].
  split; [reflexivity|].
  intros p Hp. rewrite nls_eq, nss_eq.
  set (l8 := [ctor_BoundedSemaphore M; ctor_Lock; ctor_Lock; ctor_Semaphore 0; ctor_RLock;
              ctor_Semaphore 0; ctor_Semaphore 0; ctor_Semaphore 0]).
  replace (8 + 2 * p)%nat with (length l8 + 2 * p)%nat by reflexivity.
  replace (9 + 2 * p)%nat with (length l8 + (2 * p + 1))%nat by (cbn [length l8]; lia).
  rewrite !app_nth2_plus. destruct (nth_proc_sems n p Hp) as [A B]. rewrite A, B. repeat split; reflexivity.
Qed.

Lemma nth_repeat_dps : forall n q, nth q (repeat dps n) dps = dps.
Proof. induction n as [|n IH]; intros [|q]; cbn; auto. Qed.

Lemma feeder_start : forall p ps, qstart qcode p true [] [] [(FEED, 0, 0, 0)] ps =
    (mkQT p true (FEED, 0, 0, 0) 0 (qinit_regs 0 0 0) [] [] [] false, ps).
Proof. intros. reflexivity. Qed.

Lemma init_threads : forall scripts p, Forall (Forall okq) scripts ->
    exists ts, qinit_threads qcode FEED p scripts = (ts, repeat dps (length scripts)) /\
               length ts = (2 * length scripts)%nat /\
               forall j t, nth_error ts j = Some t ->
                           qproc t = (p + Nat.div2 j)%nat /\ qfeeder t = Nat.odd j /\ QLI t /\ landed t /\ qresults t = [].
Proof.
  induction scripts as [|sc scripts IH]; intros p Hs.
  - exists []. split; [reflexivity|]. split; [reflexivity|]. intros [|j] t H; discriminate.
  - inversion Hs as [|x l Hsc Hs']; subst.
    cbn [qinit_threads].
    destruct (qstart_facts sc p [] [] dps Hsc ltac:(cbn; lia)) as (tm & Em & Lm & Pm & Fm & Dm).
    rewrite Em, feeder_start.
    destruct (IH (S p) Hs') as (ts & Et & Hl & Hall). rewrite Et.
    eexists. split; [reflexivity|]. split; [cbn [length]; lia|].
    intros [|[|j]] t H; cbn [nth_error] in H.
    + inversion H; subst t. cbn [Nat.div2 Nat.odd]. rewrite Nat.add_0_r. auto.
    + inversion H; subst t. cbn [Nat.div2 Nat.odd qproc qfeeder]. rewrite Nat.add_0_r.
      split; [reflexivity|]. split; [reflexivity|]. split; [|split; [|reflexivity]].
      * unfold QLI; cbn [qheld qfeeder qfin qcid qcur fst qscript qpc qrg nth]. unfold FEED. cbn [qli_pc].
        repeat split; auto; lia.
      * unfold landed, qt_tr, qt_rl, qt_wl, qt_nl, ftr, gheld, qw_unf, FEED; cbn [qfin qcid qcur fst qpc qproc w_tr w_rl w_wl w_nl w_pc w_dc].
        repeat split; auto. intros q. destruct (Nat.eqb p q); reflexivity.
    + destruct (Hall j t H) as (A & B & C & D).
      cbn [Nat.div2]. replace (Nat.odd (S (S j))) with (Nat.odd j) by (rewrite !Nat.odd_succ, Nat.even_succ; reflexivity).
      split; [lia|auto].
Qed.
Lemma sumz_repeat0 : forall (f : pstate -> Z) n, f dps = 0 -> sumz f (repeat dps n) = 0.
Proof. intros f n H. induction n as [|n IH]; cbn; lia. Qed.

Lemma qworld_vals : forall M n,
    val (nth 0 (qworld M n) dsem) = M /\ val (nth 1 (qworld M n) dsem) = 1 /\ val (nth 2 (qworld M n) dsem) = 1 /\
    forall p, (p < n)%nat -> val (nth (nls p) (qworld M n) dsem) = 1.
Proof.
  intros M n. unfold qworld, queue_sems. repeat split; try reflexivity.
  intros p Hp. rewrite nls_eq.
  set (l8 := [ctor_BoundedSemaphore M; ctor_Lock; ctor_Lock; ctor_Semaphore 0; ctor_RLock;
              ctor_Semaphore 0; ctor_Semaphore 0; ctor_Semaphore 0]).
  replace (8 + 2 * p)%nat with (length l8 + 2 * p)%nat by reflexivity.
  rewrite app_nth2_plus. destruct (nth_proc_sems n p Hp) as [A _]. rewrite A. reflexivity.
Qed.

Lemma qinv_init : forall M scripts, 0 <= M -> Forall (Forall okq) scripts -> QInv M (qinit M scripts).
Proof.
  intros M scripts HM Hs. unfold qinit, qinit_sys.
  destruct (init_threads scripts 0 Hs) as (ts & Et & Hl & Hall). rewrite Et.
  assert (Hland : forall t, In t ts -> landed t).
  { intros t Ht. apply In_nth_error in Ht. destruct Ht as [j Hj]. destruct (Hall j t Hj) as (_ & _ & _ & L & _). exact L. }
  assert (Hres : forall t, In t ts -> qresults t = []).
  { intros t Ht. apply In_nth_error in Ht. destruct Ht as [j Hj]. destruct (Hall j t Hj) as (_ & _ & _ & _ & L). exact L. }
  destruct (qworld_vals M (length scripts)) as (V0 & V1 & V2 & VP).
  constructor; unfold qv; cbn [qsems qthr pipe procs sendlog getlog]; rewrite ?repeat_length.
  - apply qworld_shape.
  - exact Hl.
  - intros i t Ht. destruct (Hall i t Ht) as (A & B & _). split; [rewrite A; reflexivity|exact B].
  - intros t Ht. apply In_nth_error in Ht. destruct Ht as [j Hj]. destruct (Hall j t Hj) as (_ & _ & L & _). exact L.
  - rewrite V0, sumz_repeat0 by reflexivity. rewrite (sumz_zero _ qt_tr) by (intros t Ht; apply (Hland t Ht)). cbn; lia.
  - rewrite V0; lia.
  - rewrite V1, (sumz_zero _ qt_rl) by (intros t Ht; apply (Hland t Ht)). lia.
  - rewrite V2, (sumz_zero _ qt_wl) by (intros t Ht; apply (Hland t Ht)). lia.
  - intros p Hp. rewrite (VP p Hp), (sumz_zero _ (qt_nl p)) by (intros t Ht; apply (Hland t Ht)). lia.
  - intros p. rewrite nth_repeat_dps. cbn [plog slog buf dps]. rewrite pk_nil.
    destruct (nth_error ts (2 * p + 1)) as [t|] eqn:E.
    + rewrite (nth_error_nth _ _ dqt E). destruct (Hall _ _ E) as (_ & _ & _ & (_ & _ & _ & _ & F & _) & _). rewrite F. reflexivity.
    + rewrite (nth_overflow ts dqt) by (apply nth_error_None; auto). reflexivity.
  - reflexivity.
  - intros m. rewrite sumz_repeat0 by reflexivity. reflexivity.
  - intros p. rewrite nth_repeat_dps. reflexivity.
  - intros m Hm. cbn [zcnt]. symmetry. apply sumz_zero. intros t Ht. unfold qt_ret.
    rewrite (Hres t Ht). destruct (Hland t Ht) as (_ & _ & _ & _ & _ & L & _). rewrite L. reflexivity.
  - split; [|unfold qworld, queue_sems; cbn; lia].
    rewrite (sumz_zero _ qt_unf); [reflexivity|]. intros t Ht. rewrite qt_unf_eq, (Hres t Ht).
    destruct (Hland t Ht) as (_ & _ & _ & _ & _ & _ & L). rewrite L. reflexivity.
Qed.

Fixpoint qrun_small (g : qsys) (sched : list (nat * bool)) : Prop :=
  qsmall g /\
  match sched with
  | [] => True
  | (i, go) :: r => match qstep qcode g i go with Some (g1, _) => qrun_small g1 r | None => True end
  end.

Lemma qinv_run : forall M sched g g' es ok,
    QInv M g -> qrun_small g sched -> qrun qcode g sched = (g', es, ok) -> QInv M g'.
Proof.
  intros M. induction sched as [|[i go] sched IH]; intros g g' es ok HI Hs H; cbn [qrun] in H.
  - inversion H; subst; auto.
  - cbn [qrun_small] in Hs. destruct Hs as [Hsm Hs].
    destruct (qstep qcode g i go) as [[g1 e]|] eqn:Es.
    + destruct (qrun qcode g1 sched) as [[g2 es2] ok2] eqn:Er. inversion H; subst.
      apply (IH g1 g' es2 ok); auto. eapply qstep_inv; eauto.
    + inversion H; subst; auto.
Qed.
(* ------------------------------------------------------------------ consequences *)
Fixpoint psum (f : nat -> Z) (n : nat) : Z :=
  match n with O => 0 | S k => psum f k + f k end.

Lemma sumz_psum : forall (f : pstate -> Z) l,
    sumz f l = psum (fun p => f (nth p l dps)) (length l).
Proof.
  intros f l. induction l as [|x l IH] using rev_ind; [reflexivity|].
  assert (E : sumz f (l ++ [x]) = sumz f l + f x).
  { clear. induction l as [|y l IH]; cbn; [lia|]. rewrite IH. lia. }
  rewrite E, app_length. cbn [length]. rewrite Nat.add_1_r. cbn [psum].
  rewrite app_nth2, Nat.sub_diag by lia. cbn [nth]. rewrite IH.
  f_equal. clear. 
  assert (G : forall n, (n <= length l)%nat -> psum (fun p => f (nth p l dps)) n = psum (fun p => f (nth p (l ++ [x]) dps)) n).
  { induction n as [|n IHn]; intros Hn; [reflexivity|]. cbn [psum]. rewrite IHn by lia. rewrite app_nth1 by lia. reflexivity. }
  apply G. lia.
Qed.

Lemma psum_ext : forall f g n, (forall p, (p < n)%nat -> f p = g p) -> psum f n = psum g n.
Proof. induction n as [|n IH]; intros H; [reflexivity|]. cbn [psum]. rewrite IH, H by auto. reflexivity. Qed.

Lemma psum_add : forall f g n, psum (fun p => f p + g p) n = psum f n + psum g n.
Proof. induction n as [|n IH]; cbn [psum]; lia. Qed.

(* capacity: free slots + buffered + in the pipe + in transit = maxsize *)
Theorem queue_capacity : forall M g, QInv M g ->
    qv 0 g + sumz blen (procs g) + Z.of_nat (length (pipe g)) + sumz qt_tr (qthr g) = M /\
    0 <= qv 0 g /\
    sumz blen (procs g) + Z.of_nat (length (pipe g)) <= M.
Proof.
  intros M g HI. pose proof (q_cap M g HI). pose proof (q_cap0 M g HI).
  assert (0 <= sumz qt_tr (qthr g)) by (apply sumz_nonneg; intros; apply qt_01).
  repeat split; lia.
Qed.

(* per producer, restricted to the messages that can be serialised (pk): what it appended = what
   its feeder sent ++ what the feeder holds ++ its buffer, IN ORDER; the pipe is FIFO; the global send log is an order-preserving merge of the
   producers' send logs: its entries written by p's feeder are, in order, exactly slog p *)
Theorem queue_fifo : forall M g, QInv M g ->
    (forall p, pk (plog (nth p (procs g) dps)) =
               slog (nth p (procs g) dps) ++ pk (ftr (nth (2 * p + 1) (qthr g) dqt)) ++ pk (buf (nth p (procs g) dps))) /\
    map snd (sendlog g) = getlog g ++ pipe g /\
    (forall p, from_proc p (sendlog g) = slog (nth p (procs g) dps)) /\
    (forall m, zcnt m (map snd (sendlog g)) = sumz (fun ps => zcnt m (slog ps)) (procs g)).
Proof.
  intros M g HI. split; [apply (q_fifo M g HI)|]. split; [apply (q_pipe M g HI)|].
  split; [apply (q_order M g HI)|apply (q_merge M g HI)].
Qed.

Lemma zcnt_pk_true : forall m l, picklable m = true -> zcnt m (pk l) = zcnt m l.
Proof.
  intros m l H. induction l as [|x l IH]; [reflexivity|].
  destruct (picklable x) eqn:E.
  - rewrite (pk_cons_true x l E). cbn [zcnt]. rewrite IH. reflexivity.
  - rewrite (pk_cons_false x l E). cbn [zcnt]. rewrite IH.
    destruct (x =? m) eqn:Ex; [|lia]. apply Z.eqb_eq in Ex. subst x. congruence.
Qed.

Lemma zcnt_pk_false : forall m l, picklable m = false -> zcnt m (pk l) = 0.
Proof.
  intros m l H. induction l as [|x l IH]; [reflexivity|].
  destruct (picklable x) eqn:E.
  - rewrite (pk_cons_true x l E). cbn [zcnt]. rewrite IH.
    destruct (x =? m) eqn:Ex; [|lia]. apply Z.eqb_eq in Ex. subst x. congruence.
  - rewrite (pk_cons_false x l E). exact IH.
Qed.

Lemma zcnt_nonneg : forall m l, 0 <= zcnt m l.
Proof. induction l as [|x l IH]; cbn [zcnt]; [lia|]. destruct (x =? m); lia. Qed.

(* no loss, no duplication, for every message that can be serialised: each such message
   appended by some put is, with its multiplicity, exactly once in: received, in the pipe, held
   by a feeder, or buffered *)
Theorem queue_no_loss_no_dup : forall M g m, QInv M g -> picklable m = true ->
    sumz (fun ps => zcnt m (plog ps)) (procs g) =
    zcnt m (getlog g) + zcnt m (pipe g)
    + psum (fun p => zcnt m (ftr (nth (2 * p + 1) (qthr g) dqt))) (length (procs g))
    + sumz (fun ps => zcnt m (buf ps)) (procs g).
Proof.
  intros M g m HI Hpk. destruct (queue_fifo M g HI) as (F1 & F2 & _ & F3).
  rewrite (sumz_psum (fun ps => zcnt m (plog ps))).
  rewrite (psum_ext _ (fun p => zcnt m (slog (nth p (procs g) dps))
                               + (zcnt m (ftr (nth (2 * p + 1) (qthr g) dqt)) + zcnt m (buf (nth p (procs g) dps))))).
  2: { intros p _. rewrite <- (zcnt_pk_true m (plog _) Hpk), (F1 p), !zcnt_app, !(zcnt_pk_true m _ Hpk). lia. }
  rewrite psum_add, psum_add.
  rewrite <- (sumz_psum (fun ps => zcnt m (slog ps))), <- (sumz_psum (fun ps => zcnt m (buf ps))).
  rewrite <- (F3 m), F2, zcnt_app. lia.
Qed.

(* what get returns: every message received from the pipe has been returned by exactly one
   finished get call, or is held by a get between its receive and its return *)
Lemma sumz_plus : forall A (f h : A -> Z) l, sumz (fun x => f x + h x) l = sumz f l + sumz h l.
Proof. induction l as [|x l IH]; cbn; lia. Qed.

Theorem get_returns_received : forall M g m, QInv M g -> m <> E_EMPTY ->
    zcnt m (getlog g) =
    sumz (fun t => rcount m (qresults t)) (qthr g) + sumz (fun t => zcnt m (gheld t)) (qthr g).
Proof.
  intros M g m HI Hm. rewrite (q_ret M g HI m Hm). unfold qt_ret. apply sumz_plus.
Qed.

(* put to get: each message, with its multiplicity among the accepted puts, is exactly:
   returned by a get + held by a get about to return it + in the pipe + held by a feeder +
   buffered *)
Theorem put_get_exact : forall M g m, QInv M g -> m <> E_EMPTY -> picklable m = true ->
    sumz (fun ps => zcnt m (plog ps)) (procs g) =
    sumz (fun t => rcount m (qresults t)) (qthr g) + sumz (fun t => zcnt m (gheld t)) (qthr g)
    + zcnt m (pipe g)
    + psum (fun p => zcnt m (ftr (nth (2 * p + 1) (qthr g) dqt))) (length (procs g))
    + sumz (fun ps => zcnt m (buf ps)) (procs g).
Proof.
  intros M g m HI Hm Hpk. rewrite (queue_no_loss_no_dup M g m HI Hpk), (get_returns_received M g m HI Hm). lia.
Qed.

(* the only loss: a message that cannot be serialised is never written to the pipe (it is
   dropped by the feeder, which gives its capacity token back: see qstep_inv at (2, 14)), so it
   is never received either *)
Theorem unpicklable_never_sent : forall M g m, QInv M g -> picklable m = false ->
    zcnt m (map snd (sendlog g)) = 0 /\ zcnt m (getlog g) = 0 /\ zcnt m (pipe g) = 0.
Proof.
  intros M g m HI Hpk. destruct (queue_fifo M g HI) as (F1 & F2 & _ & F3).
  assert (Z0 : zcnt m (map snd (sendlog g)) = 0).
  { rewrite (F3 m). apply sumz_zero. intros ps Hin.
    destruct (In_nth _ _ dps Hin) as (p & _ & Ep). subst ps.
    pose proof (f_equal (zcnt m) (F1 p)) as E. rewrite (zcnt_pk_false m _ Hpk), !zcnt_app in E.
    pose proof (zcnt_nonneg m (slog (nth p (procs g) dps))).
    pose proof (zcnt_nonneg m (pk (ftr (nth (2 * p + 1) (qthr g) dqt)))).
    pose proof (zcnt_nonneg m (pk (buf (nth p (procs g) dps)))). lia. }
  split; [exact Z0|]. rewrite F2, zcnt_app in Z0.
  pose proof (zcnt_nonneg m (getlog g)). pose proof (zcnt_nonneg m (pipe g)). lia.
Qed.

(* a feeder never ends: it is never finished and never stands at an exit *)
Theorem feeder_never_ends : forall M g t, QInv M g -> In t (qthr g) -> qfeeder t = true ->
    qfin t = false /\ qexited qcode t = false.
Proof.
  intros M g t HI Ht Hf. destruct (q_li M g HI t Ht) as [_ H]. rewrite Hf in H.
  destruct H as (Hfin & Hc & _ & L). split; [exact Hfin|].
  unfold qexited. rewrite Hfin, Hc. cbn [negb andb qcode].
  destruct (qpc t) as [|pc]; [reflexivity|].
  do 15 (destruct pc as [|pc]; [reflexivity|]). cbn [qli_pc] in L. contradiction.
Qed.

(* a feeder drops only a message that cannot be serialised *)
Theorem feeder_drops_only_unpicklable : forall M g t, QInv M g -> In t (qthr g) ->
    qfeeder t = true -> qpc t = 14%nat -> picklable (r2 (qrg t)) = false.
Proof.
  intros M g t HI Ht Hf Hp. destruct (q_li M g HI t Ht) as [_ H]. rewrite Hf in H.
  destruct H as (_ & _ & _ & L). rewrite Hp in L. exact L.
Qed.

(* the three locks *)
Theorem queue_locks : forall M g, QInv M g ->
    qv 1 g + sumz qt_rl (qthr g) = 1 /\ qv 2 g + sumz qt_wl (qthr g) = 1 /\
    forall p, (p < length (procs g))%nat -> qv (nls p) g + sumz (qt_nl p) (qthr g) = 1.
Proof.
  intros M g HI. split; [apply (q_rl M g HI)|]. split; [apply (q_wl M g HI)|].
  intros p Hp. apply (q_nl M g HI p Hp).
Qed.

(* a put appends the message it was given *)
Theorem put_appends_its_argument : forall M g t, QInv M g -> In t (qthr g) ->
    qfeeder t = false -> qfin t = false -> (qcid t = 0%nat \/ qcid t = 3%nat) ->
    (qpc t = 0%nat \/ qpc t = 3%nat \/ qpc t = 6%nat) -> r2 (qrg t) = a2_of (qcur t).
Proof.
  intros M g t HI Ht Hf Hfin Hc Hp. destruct (q_li M g HI t Ht) as [_ H]. rewrite Hf in H.
  destruct H as [_ H]. destruct (H Hfin) as [_ L].
  destruct Hc as [E|E]; rewrite E in L; destruct Hp as [P|[P|P]]; rewrite P in L; cbn in L; auto; contradiction.
Qed.
(* a put's capacity acquire, on the scheduler choice `go`: fails iff the semaphore is 0
   (the put then raises Full), succeeds iff it is positive *)
Theorem full_only_when_zero : forall M g i t g' e, QInv M g ->
    nth_error (qthr g) i = Some t -> qfin t = false -> qfeeder t = false ->
    (qcid t = 0%nat \/ qcid t = 3%nat) -> qpc t = 0%nat ->
    qstep qcode g i true = Some (g', e) ->
    (snd e = 0 -> qv 0 g = 0) /\ (snd e = 1 -> 0 < qv 0 g).
Proof.
  intros M g i t g' e HI Ht Hf Hfd Hc Hp H.
  destruct (q_shape M g HI) as (_ & Sr & _). pose proof (q_cap0 M g HI) as H0. unfold qv in *.
  unfold qstep in H. rewrite Ht, Hf, Hfd in H. cbn [andb] in H. rewrite Hp in H.
  assert (Hi : nth_error (qcode (qcid t)) 0 = Some (QAcq (SG 0) (FR 1) (FR 0) 7)) by (destruct Hc as [E|E]; rewrite E; reflexivity).
  rewrite Hi in H. rewrite sid_sg in H. unfold sem_acq in H. rewrite Sr in H. cbn [andb] in H.
  destruct (0 <? val (nth 0 (qsems g) dsem)) eqn:Ev.
  - inversion H; subst e; cbn [snd]. split; intros; [discriminate|lia].
  - destruct (flagv (FR 1) (qrg t)); [discriminate|]. inversion H; subst e; cbn [snd]. split; intros; [lia|discriminate].
Qed.

(* a non-blocking get finds nothing only when the pipe is empty *)
Theorem empty_only_when_nothing : forall g i t g' e,
    nth_error (qthr g) i = Some t -> qfin t = false -> qfeeder t = false ->
    qcid t = 1%nat -> qpc t = 19%nat ->
    qstep qcode g i true = Some (g', e) ->
    (snd e = 0 <-> pipe g = []).
Proof.
  intros g i t g' e Ht Hf Hfd Hc Hp H.
  unfold qstep in H. rewrite Ht, Hf, Hfd in H. cbn [andb] in H. rewrite Hc, Hp in H.
  cbn [qcode p_q_get nth_error flagv] in H.
  destruct (pipe g) as [|m rest]; inversion H; subst e; cbn [snd]; split; intros; try discriminate; auto.
Qed.

(* ------------------------------------------------------------------ JoinableQueue's counter
   _unfinished_tasks = (JoinableQueue.put calls past their release of the counter)
                     - (task_done calls past their successful acquire of it)           *)
Theorem unfinished_count : forall M g, QInv M g -> qv 3 g = sumz qt_unf (qthr g) /\ 0 <= qv 3 g.
Proof. intros M g HI. apply (q_unf M g HI). Qed.

(* task_done raises ValueError exactly when every counted put has already been matched *)
Theorem task_done_raises_iff_matched : forall M g i t g' e, QInv M g ->
    nth_error (qthr g) i = Some t -> qfin t = false -> qfeeder t = false ->
    qcid t = 4%nat -> qpc t = 1%nat ->
    qstep qcode g i true = Some (g', e) ->
    (snd e = 0 <-> sumz qt_unf (qthr g) = 0) /\ (snd e = 1 <-> 0 < sumz qt_unf (qthr g)).
Proof.
  intros M g i t g' e HI Ht Hf Hfd Hc Hp H.
  destruct (q_shape M g HI) as (_ & _ & _ & S3 & _). destruct (S3 3%nat ltac:(auto)) as [_ Sr].
  destruct (q_unf M g HI) as [U U0]. unfold qv in *. rewrite <- U.
  unfold qstep in H. rewrite Ht, Hf, Hfd in H. cbn [andb] in H. rewrite Hc, Hp in H.
  cbn [qcode p_jq_task_done nth_error flagv andb] in H. rewrite sid_sg in H.
  unfold sem_acq in H. rewrite Sr in H. cbn [andb] in H.
  destruct (0 <? val (nth 3 (qsems g) dsem)) eqn:Ev.
  - inversion H; subst e; cbn [snd]. split; split; intros; try discriminate; try lia.
  - inversion H; subst e; cbn [snd]. split; split; intros; try discriminate; try lia.
Qed.

(* join's test `_unfinished_tasks._semlock._is_zero()` (made under the condition's lock) reads
   "zero" exactly when every counted put has been matched *)
Theorem join_test_iff_matched : forall M g i t g' e, QInv M g ->
    nth_error (qthr g) i = Some t -> qfin t = false -> qfeeder t = false ->
    qcid t = 5%nat -> qpc t = 1%nat ->
    qstep qcode g i true = Some (g', e) ->
    (snd e = 1 <-> sumz qt_unf (qthr g) = 0).
Proof.
  intros M g i t g' e HI Ht Hf Hfd Hc Hp H.
  destruct (q_unf M g HI) as [U U0]. unfold qv in *. rewrite <- U.
  unfold qstep in H. rewrite Ht, Hf, Hfd in H. cbn [andb] in H. rewrite Hc, Hp in H.
  cbn [qcode p_jq_join nth_error] in H. rewrite sid_sg in H.
  destruct (val (nth 3 (qsems g) dsem) =? 0) eqn:Ev; inversion H; subst e; cbn [snd]; split; intros; try discriminate; lia.
Qed.

(* ------------------------------------------------------------------ extensionality in the program table *)
Section QExt.
Variables code1 code2 : nat -> list qinstr.
Hypothesis Hext : forall c, code1 c = code2 c.

Lemma qstart_ext : forall sc p fd h res ps, qstart code1 p fd h res sc ps = qstart code2 p fd h res sc ps.
Proof.
  induction sc as [|[[[c a0] a1] a2] sc IH]; intros; cbn [qstart]; [reflexivity|].
  rewrite Hext. destruct (qlocal p (code2 c) h QFUEL 0 (qinit_regs a0 a1 a2) ps) as [[pc r|v] ps']; auto.
Qed.

Lemma qadvance_ext : forall t pc r h ps, qadvance code1 t pc r h ps = qadvance code2 t pc r h ps.
Proof.
  intros. unfold qadvance. rewrite Hext.
  destruct (qlocal (qproc t) (code2 (qcid t)) h QFUEL pc r ps) as [[pc' r'|v] ps']; auto using qstart_ext.
Qed.

Lemma qabort_ext : forall t h e ps, qabort code1 t h e ps = qabort code2 t h e ps.
Proof. intros. unfold qabort. apply qstart_ext. Qed.

Lemma qstep_ext : forall g i go, qstep code1 g i go = qstep code2 g i go.
Proof.
  intros. unfold qstep.
  destruct (nth_error (qthr g) i) as [t|]; [|reflexivity].
  destruct (qfin t); [reflexivity|].
  destruct (qfeeder t && negb (started (nth (qproc t) (procs g) dps))); [reflexivity|].
  rewrite Hext.
  destruct (nth_error (code2 (qcid t)) (qpc t)) as [ins|]; [|reflexivity].
  destruct ins; try reflexivity; rewrite ?qadvance_ext, ?qabort_ext; try reflexivity.
  - destruct go; [|rewrite ?qadvance_ext; reflexivity].
    destruct (sem_acq _ _) as [[sm' h']|]; rewrite ?qadvance_ext; reflexivity.
  - destruct go; [|reflexivity].
    destruct (sem_rel _ _) as [[sm' h'] e']. rewrite ?qadvance_ext, ?qabort_ext. reflexivity.
  - destruct go; [|reflexivity]. destruct (pipe g); rewrite ?qadvance_ext; reflexivity.
Qed.

Lemma qrun_ext : forall sched g, qrun code1 g sched = qrun code2 g sched.
Proof.
  induction sched as [|[i go] sched IH]; intros g; cbn [qrun]; [reflexivity|].
  rewrite qstep_ext. destruct (qstep code2 g i go) as [[g1 e]|]; [|reflexivity].
  rewrite IH. reflexivity.
Qed.

Lemma qinit_threads_ext : forall F scripts p, qinit_threads code1 F p scripts = qinit_threads code2 F p scripts.
Proof.
  induction scripts as [|sc scripts IH]; intros p; cbn [qinit_threads]; [reflexivity|].
  rewrite !qstart_ext. destruct (qstart code2 p false [] [] sc dps) as [tm ps1].
  rewrite !qstart_ext. destruct (qstart code2 p true [] [] [(F, 0, 0, 0)] ps1) as [tf ps2].
  rewrite IH. reflexivity.
Qed.

Lemma qinit_sys_ext : forall F ss scripts, qinit_sys code1 F ss scripts = qinit_sys code2 F ss scripts.
Proof. intros. unfold qinit_sys. rewrite qinit_threads_ext. reflexivity. Qed.
End QExt.

